"""C06 — elliptic-curve gadgets, gate level (native Edwards / Jubjub chip).

Decided: the constraints the real EccChip emits imply the textbook (denominator-cleared) equations of
the twisted Edwards curve -x^2 + y^2 = 1 + d x^2 y^2 for every assignment. NOT decided (DESIGN 3 C06):
that these equations are the group law (needs d non-square and associativity), subgroup membership,
scalar multiplication / MSM as a whole, foreign curves' ECC gates (see run.outside)."""
import random
from functools import reduce
from vf.cspec import *
from vf import csmt

P = csmt.P_BLS
R_JUBJUB = 0x0e7db4ea6533afa906673b0101343b00a6682093ccc81082d0970e5ed6f72cb7


def M(e, *atoms):
    return reduce(e.fmul, atoms)


def D(e):
    return int(e.extra["curve_d"], 16)


def zero(e, terms, const=0):
    """sum(c*atom) + const == 0 (mod p)"""
    return eq(e.define_mod(terms, const), 0)


def on_curve(e, x, y):
    d = D(e)
    return zero(e, [(1, M(e, y, y)), (-1, M(e, x, x)), (-d, M(e, x, x, y, y))], -1)


def add_law(e, x1, y1, x2, y2, x3, y3):
    d = D(e)
    w = M(e, x1, x2, y1, y2)
    ex = zero(e, [(1, x3), (d, M(e, x3, w)), (-1, M(e, x1, y2)), (-1, M(e, x2, y1))])
    ey = zero(e, [(1, y3), (-d, M(e, y3, w)), (-1, M(e, y1, y2)), (-1, M(e, x1, x2))])
    return AND(ex, ey)


# NOTE: `assign` exposes P = 8*Q where the curve-membership gate constrains the internal point Q; that P
# is on the curve follows from closure of the addition law (group-law mathematics, outside the claim), so
# no on-curve conjunct is demanded of operands here: each operation is checked against its own equations.
def S_add(e, I, O):
    return add_law(e, I[0], I[1], I[2], I[3], O[0], O[1])


def S_double(e, I, O):
    return add_law(e, I[0], I[1], I[0], I[1], O[0], O[1])


def S_negate(e, I, O):
    return AND(eq(O[0], e.define_mod([(-1, I[0])])), eq(O[1], I[1]))


def S_select(e, I, O):
    return AND(isbit(I[0]), eq(O[0], ITE(eq(I[0], 1), I[1], I[3])), eq(O[1], ITE(eq(I[0], 1), I[2], I[4])))


def S_is_equal(e, I, O):
    return eq(O[0], b2i(AND(eq(I[0], I[2]), eq(I[1], I[3]))))


def S_assert_equal(e, I, O):
    return AND(eq(I[0], I[2]), eq(I[1], I[3]))


def S_assert_not_equal(e, I, O):
    return NOT(AND(eq(I[0], I[2]), eq(I[1], I[3])))


def S_from_coords(e, I, O):
    return AND(eq(O[0], I[0]), eq(O[1], I[1]))


def S_pi(e, I, O):
    return AND(eq(O[0], I[0]), eq(O[1], I[1]))


def entry(op, spec, ins, alt=(), k=11):
    return dict(op=op, spec=spec, ins=list(ins), params={}, alt=[list(a) for a in alt], k=k)


def family(tier, seed):
    rnd = random.Random(6000 + seed)
    r = lambda: rnd.randrange(1, R_JUBJUB)
    a, b = r(), r()
    E = [
        entry("add", S_add, [a, b], alt=[[a, a], [a, R_JUBJUB - a], [0, a], [0, 0], [1, R_JUBJUB - 1]]),
        entry("double", S_double, [a], alt=[[0], [1], [R_JUBJUB - 1]]),
        entry("negate", S_negate, [a], alt=[[0], [1]]),
        entry("select", S_select, [1, a, b], alt=[[0, a, b], [1, 0, a]]),
        entry("is_equal", S_is_equal, [a, a], alt=[[a, b], [0, 0], [a, R_JUBJUB - a]]),
        entry("assert_equal", S_assert_equal, [a, a], alt=[[0, 0]]),
        entry("assert_not_equal", S_assert_not_equal, [a, b], alt=[[0, a], [a, R_JUBJUB - a]]),
        entry("point_from_coordinates", S_from_coords, [a], alt=[[0], [1]]),
        entry("pi", S_pi, [a], alt=[[0]]),
    ]
    return E


def check(run):
    from vf import cengine, core
    t = core.tier()
    ents = family(t, core.seed())
    run.assumptions += ["gate-level claim only: the emitted constraints imply the denominator-cleared Edwards addition/curve equations; that these equations define the group law is classical mathematics outside the check",
                        "constraint structure extracted at one admissible witness per operation (C09 assumed; spot-checked on the alternative inputs)"]
    run.outside += ["subgroup membership of assigned points (the cofactor-clearing construction is in the extracted system but its specification is a statement about the group)",
                    "full-width (252/255-bit) scalar multiplication, windowed MSM, hash-to-curve, point compression (both chips); the ladder rows of the native chip for short scalars are in part C06_M, foreign-curve gates in part C06_F"]
    run.bounds.append(f"tier={t}: {len(ents)} operations of the native Edwards chip (Jubjub over the BLS12-381 scalar field), k=11")
    run.notes.append("Engine C: field products are uninterpreted with field lemmas and monomial normalisation (a product is determined by its multiset of cells), so degree-5 gate polynomials and the textbook equations share terms.")
    cengine.run_family(run, "edwards", ents, timeout=120 if t == "quick" else 600, only=getattr(run, "only", None), workers=6)
    from vf.parts import run_parts
    run_parts(run, "C06")


def replay(payload):
    from vf.parts import replay_parts
    return replay_parts("C06", payload)
