"""C04 — native-field gadgets: soundness of the constraints the real NativeGadget/NativeChip emit.

Each entry: one operation of an instruction trait at one parameter tuple. `spec` is the operation's
mathematical meaning written from the trait documentation (never from the chip code): it must be
implied by the emitted constraint system for EVERY assignment of every advice and instance cell.
Out-of-domain inputs must make the system unsatisfiable: that is the Dom conjunct of each spec."""
import random
from vf.cspec import *
from vf import csmt

P = csmt.P_BLS
NB = 255  # F::NUM_BITS


def lin_spec(coeffs, const=0, out=0):
    def spec(e, I, O):
        return eq(O[out], e.define_mod([(c, I[i]) for i, c in enumerate(coeffs)], const))
    return spec


def S_mul(c=None):
    def spec(e, I, O):
        m = e.fmul(I[0], I[1])
        return eq(O[0], m if c is None else e.define_mod([(c, m)]))
    return spec


def S_div(e, I, O):
    return AND(ne(I[1], 0), eq(e.fmul(O[0], I[1]), I[0]))


def S_inv(e, I, O):
    return AND(ne(I[0], 0), eq(e.fmul(O[0], I[0]), 1))


def S_inv0(e, I, O):
    return AND(IMP(eq(I[0], 0), eq(O[0], 0)), IMP(ne(I[0], 0), eq(e.fmul(O[0], I[0]), 1)))


def S_pow(n):
    def spec(e, I, O):
        # left-to-right binary method; products are canonicalised by operand pair
        if n == 0:
            return eq(O[0], 1)
        acc = None
        for bit in bin(n)[2:]:
            if acc is None:
                acc = I[0]
                continue
            acc = e.fmul(acc, acc)
            if bit == "1":
                acc = e.fmul(acc, I[0])
        return eq(O[0], acc)
    return spec


def S_add_and_mul(a, b, c, k, m):
    def spec(e, I, O):
        return eq(O[0], e.define_mod([(a, I[0]), (b, I[1]), (c, I[2]), (m, e.fmul(I[0], I[1]))], k))
    return spec


def S_add_constants(cs):
    def spec(e, I, O):
        return AND(*[eq(O[i], e.define_mod([(1, I[i])], c)) for i, c in enumerate(cs)])
    return spec


def S_select(e, I, O):
    return AND(isbit(I[0]), eq(O[0], ITE(eq(I[0], 1), I[1], I[2])))


def S_bit_select(e, I, O):
    return AND(isbit(I[0]), isbit(I[1]), isbit(I[2]), eq(O[0], ITE(eq(I[0], 1), I[1], I[2])))


def S_cond_swap(e, I, O):
    return AND(isbit(I[0]), eq(O[0], ITE(eq(I[0], 1), I[2], I[1])), eq(O[1], ITE(eq(I[0], 1), I[1], I[2])))


def S_bool(kind, n):
    def spec(e, I, O):
        bits = AND(*[isbit(x) for x in I[:n]])
        s = "(+ 0 " + " ".join(A(x) for x in I[:n]) + ")"
        if kind == "and":
            r = b2i(eq(s, n))
        elif kind == "or":
            r = b2i(NOT(eq(s, 0)))
        else:
            r = f"(mod {s} 2)"
        return AND(bits, eq(O[0], r))
    return spec


def S_to_bits(nb, canon, be=False):
    def spec(e, I, O):
        n = NB if nb is None else nb
        outs = list(O[:n])
        if be:
            outs = outs[::-1]
        assert len(O) == n, (len(O), n)
        bits = AND(*[isbit(o) for o in outs])
        v = e.named_sum([(1 << i, o) for i, o in enumerate(outs)])
        if canon and n >= NB:
            # canonical full-width decomposition, stated as two conjuncts: (A) the bits are a decomposition of
            # x or of x + p (integer reading, what the non-canonical variant guarantees), (B) the integer the
            # bits represent is below p (unsigned bit-vector reading of the same bits, as in S_bits_cmp).
            # Together they say x = v: v < p excludes v = x + p. The single integer statement `x = v` does
            # not finish in 600 s because the solver has to link the two readings; each conjunct takes
            # seconds on its own, so they are proved one at a time (cut rule `prove_then_assume`).
            return canonical_digits(e, I[0], outs, 2, P)
        if canon or n < NB:
            return AND(bits, eq(I[0], v))
        return AND(bits, OR(eq(I[0], v), eq(f"(+ {A(I[0])} {P})", v)))
    return spec


def S_to_bytes(nb, be=False):
    def spec(e, I, O):
        n = 32 if nb is None else nb
        outs = list(O[:n])
        if be:
            outs = outs[::-1]
        assert len(O) == n
        if 256 ** n > P:
            return canonical_digits(e, I[0], outs, 256, P)
        return AND(*[lt(o, 256) for o in outs], eq(I[0], e.named_sum([(256 ** i, o) for i, o in enumerate(outs)])))
    return spec


def S_from(n, base, be=False):
    def spec(e, I, O):
        ins = list(I[:n])
        if be:
            ins = ins[::-1]
        dom = AND(*[lt(x, base) for x in ins])
        # value is the integer sum reduced mod P (definitional r with explicit quotient)
        r = e.fresh("sr", 0, P - 1)
        if base ** n > 4 * P:
            # wide inputs: the weights base^i themselves exceed P. Ground identity base^i = c_i + P*m_i with
            # c_i = base^i mod P (exact, computed here): sum base^i x_i = sum c_i x_i + P * sum m_i x_i, so the
            # residue of the integer sum is the residue of sum c_i x_i, whose quotient is at most n*base.
            q = e.fresh("sq", 0, n * base + 1)
            e.lines.append(f"(assert (=> {dom} (= {e.named_sum([(pow(base, i, P), x) for i, x in enumerate(ins)])} (+ {r} (* {P} {q})))))")
        else:
            q = e.fresh("sq", 0, (base ** n) // P + 1)
            e.lines.append(f"(assert (=> {dom} (= {e.named_sum([(base ** i, x) for i, x in enumerate(ins)])} (+ {r} (* {P} {q})))))")
        return AND(dom, eq(O[0], r))
    return spec


def S_to_chunks(bits, nb):
    def spec(e, I, O):
        n = nb if nb is not None else -(-NB // bits)
        assert len(O) == n, (len(O), n)
        return AND(*[lt(o, 1 << bits) for o in O], eq(I[0], e.named_sum([((1 << bits) ** i, o) for i, o in enumerate(O)])))
    return spec


def S_sgn0(e, I, O):
    return eq(O[0], f"(mod {A(I[0])} 2)")


def S_bits_cmp(n, bound, geq=False):
    def spec(e, I, O):
        bits = AND(*[isbit(x) for x in I[:n]])
        if n >= 32:
            # "the integer represented by the bits" vs the bound as an unsigned bit-vector comparison (same
            # mathematical meaning; lets the solver bit-blast instead of doing 255-bit linear arithmetic)
            c = "true" if bound >= (1 << n) else f"(bvult {bv_of_bits(I[:n])} {bvlit(bound, n)})"
        else:
            c = f"(< {wsum(I[:n])} {bound})"
        if geq:
            c = NOT(c)
        return AND(bits, eq(O[0], b2i(c)))
    return spec


def S_cmp_fixed(kind, n, bound):
    def spec(e, I, O):
        c = {"lower_than_fixed": lt, "leq_fixed": le,
             "greater_than_fixed": lambda a, b: lt(b, a), "geq_fixed": lambda a, b: le(b, a)}[kind](I[0], bound)
        return AND(lt(I[0], 1 << n), eq(O[0], b2i(c)))
    return spec


def S_cmp(kind, n, m):
    def spec(e, I, O):
        c = {"lower_than": lt, "leq": le, "greater_than": lambda a, b: lt(b, a), "geq": lambda a, b: le(b, a)}[kind](I[0], I[1])
        return AND(lt(I[0], 1 << n), lt(I[1], 1 << m), eq(O[0], b2i(c)))
    return spec


def S_div_rem(d, bound, only_rem=False):
    def spec(e, I, O):
        pre = le(I[0], bound) if bound is not None else "true"
        if only_rem:
            body = eq(O[0], f"(mod {A(I[0])} {d})")
        else:
            body = AND(eq(O[0], f"(div {A(I[0])} {d})"), eq(O[1], f"(mod {A(I[0])} {d})"))
        return IMP(pre, body)
    return spec


def S_bitwise(kind, n):
    def spec(e, I, O):
        dom = AND(lt(I[0], 1 << n), lt(I[1], 1 << n))
        xb = bits_of(e, I[0], n, dom)
        yb = bits_of(e, I[1], n, dom)
        # the result is stated bit by bit on the (definitional) bits of the output, so that the negation is
        # a disjunction of local facts instead of one inequality between two n-term sums
        odom = lt(O[0], 1 << n)
        ob = bits_of(e, O[0], n, odom)
        per_bit = []
        for a, b, o in zip(xb, yb, ob):
            if kind == "band":
                per_bit.append(f"(= (= {o} 1) (and (= {a} 1) (= {b} 1)))")
            elif kind == "bor":
                per_bit.append(f"(= (= {o} 1) (or (= {a} 1) (= {b} 1)))")
            else:
                per_bit.append(f"(= (= {o} 1) (not (= {a} {b})))")
        return AND(dom, odom, *per_bit)
    return spec


def S_bnot(n):
    def spec(e, I, O):
        return AND(lt(I[0], 1 << n), eq(O[0], f"(- {(1 << n) - 1} {A(I[0])})"))
    return spec


def entry(op, spec, ins, params=None, alt=(), k=10, what="", variants=(), pre=None, pre_smt=None):
    return dict(op=op, spec=spec, ins=list(ins), params=params or {}, alt=[list(a) for a in alt], k=k, what=what,
                variants=list(variants), boundary=True, pre=pre, pre_smt=pre_smt, complete=True)


def V_wraps(d, only_rem=False):
    """Counterexample class of the div_rem finding: the claimed (q, r) are the integer quotient and
    remainder of dividend + p (q*d + r wraps around the field modulus)."""
    def pred(e, I, O):
        xp = f"(+ {A(I[0])} {P})"
        if only_rem:
            return eq(O[0], f"(mod {xp} {d})")
        return AND(eq(O[0], f"(div {xp} {d})"), eq(O[1], f"(mod {xp} {d})"))
    return pred


def family(tier, seed):
    rnd = random.Random(1000 + seed)
    rf = lambda: rnd.randrange(P)
    c1, c2, c3 = rf(), rf(), rf()
    E = []
    # ---- ArithInstructions ----
    E.append(entry("add", lin_spec([1, 1]), [3, 4], alt=[[P - 1, 1], [0, 0], [P - 1, P - 1]]))
    E.append(entry("sub", lin_spec([1, -1]), [3, 4], alt=[[0, 1], [0, 0], [P - 1, P - 1]]))
    E.append(entry("neg", lin_spec([-1]), [5], alt=[[0], [P - 1]]))
    E.append(entry("mul", S_mul(), [3, 4], alt=[[0, 7], [P - 1, P - 1]]))
    E.append(entry("mul", S_mul(c1), [3, 4], {"c": c1}, alt=[[0, 7], [P - 1, P - 1]]))
    E.append(entry("div", S_div, [12, 4], alt=[[0, 4], [P - 1, P - 1], [1, 2]]))
    E.append(entry("inv", S_inv, [5], alt=[[1], [P - 1]]))
    E.append(entry("inv0", S_inv0, [5], alt=[[0], [1]]))
    E.append(entry("square", lambda e, I, O: eq(O[0], e.fmul(I[0], I[0])), [5], alt=[[0], [P - 1]]))
    for c in [0, 1, P - 1, c2]:
        E.append(entry("add_constant", lin_spec([1], c), [5], {"c": c}, alt=[[0], [P - 1]]))
        E.append(entry("mul_by_constant", lin_spec([c]), [5], {"c": c}, alt=[[0], [P - 1]]))
    E.append(entry("add_constants", S_add_constants([c1, 0, c3]), [1, 2, 3], {"cs": [c1, 0, c3]}))
    for n in ([0, 1, 2, 3, 5, 8] if tier == "quick" else [0, 1, 2, 3, 4, 5, 6, 7, 8, 13, 16]):
        E.append(entry("pow", S_pow(n), [3], {"n": n}, alt=[[0], [1], [P - 1]]))
    E.append(entry("add_and_mul", S_add_and_mul(c1, c2, c3, 7, P - 2), [3, 4, 5],
                   {"a": c1, "b": c2, "c": c3, "k": 7, "m": P - 2}, alt=[[0, 0, 0], [P - 1, P - 1, 1]]))
    E.append(entry("add_and_mul", S_add_and_mul(0, 0, 1, 0, 1), [3, 4, 5], {"a": 0, "b": 0, "c": 1, "k": 0, "m": 1}))
    for nterms in ([1, 2, 4, 5, 9] if tier == "quick" else [1, 2, 3, 4, 5, 6, 7, 9, 12, 17]):
        cs = [rf() for _ in range(nterms)]
        cs[0] = 1
        if nterms > 2:
            cs[2] = P - 1
        kk = rf()
        E.append(entry("linear_combination", lin_spec(cs, kk), list(range(1, nterms + 1)), {"cs": cs, "k": kk}))
    # ---- Assertions ----
    E.append(entry("assert_equal", lambda e, I, O: eq(I[0], I[1]), [7, 7], alt=[[0, 0]]))
    E.append(entry("assert_not_equal", lambda e, I, O: ne(I[0], I[1]), [7, 8], alt=[[0, P - 1]]))
    for c in [0, c1]:
        E.append(entry("assert_equal_to_fixed", lambda e, I, O, c=c: eq(I[0], c), [c], {"c": c}))
        E.append(entry("assert_not_equal_to_fixed", lambda e, I, O, c=c: ne(I[0], c), [(c + 1) % P], {"c": c}, alt=[[(c - 1) % P]]))
    E.append(entry("assert_zero", lambda e, I, O: eq(I[0], 0), [0]))
    E.append(entry("assert_non_zero", lambda e, I, O: ne(I[0], 0), [9], alt=[[P - 1], [1]]))
    E.append(entry("bit_assert_equal", lambda e, I, O: AND(isbit(I[0]), eq(I[0], I[1])), [1, 1], alt=[[0, 0]]))
    E.append(entry("bit_assert_not_equal", lambda e, I, O: AND(isbit(I[0]), isbit(I[1]), ne(I[0], I[1])), [1, 0], alt=[[0, 1]]))
    for c in [0, 1]:
        E.append(entry("bit_assert_equal_to_fixed", lambda e, I, O, c=c: eq(I[0], c), [c], {"c": c}))
        E.append(entry("bit_assert_not_equal_to_fixed", lambda e, I, O, c=c: eq(I[0], 1 - c), [1 - c], {"c": c}))
    # ---- Equality / zero ----
    E.append(entry("is_equal", lambda e, I, O: eq(O[0], b2i(eq(I[0], I[1]))), [7, 8], alt=[[7, 7], [0, 0], [0, P - 1]]))
    E.append(entry("is_not_equal", lambda e, I, O: eq(O[0], b2i(ne(I[0], I[1]))), [7, 8], alt=[[7, 7], [0, P - 1]]))
    for c in [0, c2]:
        E.append(entry("is_equal_to_fixed", lambda e, I, O, c=c: eq(O[0], b2i(eq(I[0], c))), [c], {"c": c}, alt=[[(c + 1) % P]]))
        E.append(entry("is_not_equal_to_fixed", lambda e, I, O, c=c: eq(O[0], b2i(ne(I[0], c))), [c], {"c": c}, alt=[[(c + 1) % P]]))
    E.append(entry("is_zero", lambda e, I, O: eq(O[0], b2i(eq(I[0], 0))), [5], alt=[[0], [P - 1]]))
    E.append(entry("bit_is_equal", lambda e, I, O: AND(isbit(I[0]), isbit(I[1]), eq(O[0], b2i(eq(I[0], I[1])))), [1, 0], alt=[[0, 0], [1, 1]]))
    E.append(entry("bit_is_not_equal", lambda e, I, O: AND(isbit(I[0]), isbit(I[1]), eq(O[0], b2i(ne(I[0], I[1])))), [1, 0], alt=[[0, 0], [1, 1]]))
    for c in [0, 1]:
        E.append(entry("bit_is_equal_to_fixed", lambda e, I, O, c=c: AND(isbit(I[0]), eq(O[0], b2i(eq(I[0], c)))), [1], {"c": c}, alt=[[0]]))
    # ---- Control flow ----
    E.append(entry("select", S_select, [1, 5, 6], alt=[[0, 5, 6], [1, P - 1, 0]]))
    E.append(entry("bit_select", S_bit_select, [1, 1, 0], alt=[[0, 1, 0]]))
    E.append(entry("cond_assert_equal", lambda e, I, O: AND(isbit(I[0]), IMP(eq(I[0], 1), eq(I[1], I[2]))), [1, 5, 5], alt=[[0, 5, 6]]))
    E.append(entry("cond_swap", S_cond_swap, [1, 5, 6], alt=[[0, 5, 6]]))
    # ---- Binary ----
    for n in ([1, 2, 3, 5] if tier == "quick" else [1, 2, 3, 4, 5, 8, 11]):
        for kind in ["and", "or", "xor"]:
            E.append(entry(kind, S_bool(kind, n), [1] * n, {"n": n}, alt=[[0] * n, [1] + [0] * (n - 1)]))
    E.append(entry("not", lambda e, I, O: AND(isbit(I[0]), eq(O[0], f"(- 1 {A(I[0])})")), [1], alt=[[0]]))
    # ---- Conversions ----
    E.append(entry("bit_to_native", lambda e, I, O: AND(isbit(I[0]), eq(O[0], I[0])), [1], alt=[[0]]))
    E.append(entry("native_to_bit", lambda e, I, O: AND(isbit(I[0]), eq(O[0], I[0])), [1], alt=[[0]]))
    E.append(entry("byte_to_native", lambda e, I, O: AND(lt(I[0], 256), eq(O[0], I[0])), [200], alt=[[0], [255]]))
    E.append(entry("native_to_byte", lambda e, I, O: AND(lt(I[0], 256), eq(O[0], I[0])), [200], alt=[[0], [255]]))
    # ---- Decomposition ----
    widths = [1, 2, 7, 8, 9, 16, 64] if tier == "quick" else [1, 2, 3, 7, 8, 9, 15, 16, 17, 31, 64, 65, 128, 253, 254]
    for nb in widths:
        x = rnd.randrange(1 << nb)
        for canon in [True, False]:
            E.append(entry("to_le_bits", S_to_bits(nb, canon), [x], {"nb": nb, "canon": canon}, alt=[[0], [(1 << nb) - 1]]))
        E.append(entry("to_be_bits", S_to_bits(nb, True, be=True), [x], {"nb": nb, "canon": True}))
    for canon in ([False] if tier == "quick" else [True, False]):
        E.append(entry("to_le_bits", S_to_bits(None, canon), [rf()], {"nb": None, "canon": canon}, alt=[[0], [P - 1], [1]]))
        E.append(entry("to_le_bits", S_to_bits(255, canon), [rf()], {"nb": 255, "canon": canon}, alt=[[0], [P - 1]]))
        if canon:
            E[-1]["timeout"] = E[-2]["timeout"] = 2400     # measured 290 s on a quiet machine, > 600 s under load
    if tier == "quick":
        for canon in [True, False]:
            E.append(entry("to_le_bits", S_to_bits(254, canon), [rnd.randrange(1 << 254)], {"nb": 254, "canon": canon}, alt=[[0], [(1 << 254) - 1]]))
    for nb in ([1, 2, 4, 31] if tier == "quick" else [1, 2, 3, 4, 8, 16, 31]):
        x = rnd.randrange(1 << (8 * nb))
        E.append(entry("to_le_bytes", S_to_bytes(nb), [x], {"nb": nb}, alt=[[0], [(1 << (8 * nb)) - 1]]))
        E.append(entry("to_be_bytes", S_to_bytes(nb, be=True), [x], {"nb": nb}))
    # full-width canonical byte decomposition (the boundary where wrap-around matters): both tiers
    E.append(entry("to_le_bytes", S_to_bytes(None), [rf()], {"nb": None}, alt=[[0], [P - 1]]))
    if tier != "quick":
        E.append(entry("to_le_bytes", S_to_bytes(32), [rf()], {"nb": 32}, alt=[[0], [P - 1]]))
    for n in ([1, 3, 8, 64, 200] if tier == "quick" else [1, 2, 3, 8, 9, 64, 128, 254, 255, 256]):   # n = 300 does not finish in 600 s (listed outside)
        bits = [rnd.randrange(2) for _ in range(n)]
        E.append(entry("from_le_bits", S_from(n, 2), bits, {"n": n}, alt=[[1] * n, [0] * n]))
        E.append(entry("from_be_bits", S_from(n, 2, be=True), bits, {"n": n}))
        if n >= 255:
            E[-1]["timeout"] = E[-2]["timeout"] = 2400     # measured 270-560 s on a quiet machine
    for n in ([1, 4, 32] if tier == "quick" else [1, 2, 4, 31, 32, 33, 40]):
        bs = [rnd.randrange(256) for _ in range(n)]
        E.append(entry("from_le_bytes", S_from(n, 256), bs, {"n": n}, alt=[[255] * n, [0] * n]))
        E.append(entry("from_be_bytes", S_from(n, 256, be=True), bs, {"n": n}))
    for bits, nb in ([(4, 3), (8, 2), (16, 4), (5, 7)] if tier == "quick" else [(4, 3), (8, 2), (16, 4), (5, 7), (64, 3), (13, 10), (120, 2)]):
        x = rnd.randrange(1 << (bits * nb))
        E.append(entry("to_le_chunks", S_to_chunks(bits, nb), [x], {"bits": bits, "nb": nb}, alt=[[0], [(1 << (bits * nb)) - 1]]))
    E.append(entry("sgn0", S_sgn0, [5], alt=[[0], [P - 1], [P - 2], [(P - 1) // 2]]))
    # ---- Canonicity ----
    for n in ([3, 16, 64, 254] if tier == "quick" else [1, 3, 8, 16, 64, 254, 255]):
        bits = [rnd.randrange(2) for _ in range(n)]
        E.append(entry("is_canonical", S_bits_cmp(n, P), bits, {"n": n}, alt=[[1] * n, [0] * n]))
        for bound in sorted({1, (1 << n) - 1, rnd.randrange(1, 1 << n), 1 << max(0, n - 1)}):
            if bound >= P:
                continue
            E.append(entry("le_bits_lower_than", S_bits_cmp(n, bound), bits, {"n": n, "bound": bound}, alt=[[1] * n, [0] * n]))
            E.append(entry("le_bits_geq_than", S_bits_cmp(n, bound, geq=True), bits, {"n": n, "bound": bound}, alt=[[1] * n, [0] * n]))
    # ---- the core decomposition chip called directly (bit lengths that are NOT multiples of the limb size) ----
    def S_decompose_fixed(bl, ls):
        def spec(e, I, O):
            n = -(-bl // ls)
            assert len(O) == n, (len(O), n)
            last = bl - ls * (n - 1)
            rng = [lt(o, 1 << ls) for o in O[:-1]] + [lt(O[-1], 1 << last)]
            return AND(lt(I[0], 1 << bl), *rng, eq(I[0], e.named_sum([((1 << ls) ** i, o) for i, o in enumerate(O)])))
        return spec
    for bl, ls in ([(20, 12), (24, 12), (20, 8), (13, 5), (30, 16)] if tier == "quick" else [(20, 12), (24, 12), (20, 8), (16, 8), (13, 5), (30, 16), (33, 16), (64, 24), (100, 64), (9, 9)]):
        E.append(entry("decompose_fixed", S_decompose_fixed(bl, ls), [(1 << bl) - 1], {"bit_length": bl, "limb_size": ls}, alt=[[v] for v in (0, 1, (1 << ls) - 1, 1 << ls) if v < (1 << bl)]))   # admissible inputs only (x < 2^bit_length)
    # ---- chains through NativeGadget's bound cache (record a bound, then an operation that skips constraints because of it) ----
    for bound in [1, 200, 255, 256, 257]:
        E.append(entry("cache_byte_lt", lambda e, I, O, b=bound: AND(lt(I[0], 256), lt(I[0], b)), [min(bound, 256) - 1], {"bound": bound}, alt=[[0]]))
    for bound in [128, 255, 256]:
        E.append(entry("cache_byte_lower_than_fixed", lambda e, I, O, b=bound: AND(lt(I[0], 256), eq(O[0], b2i(lt(I[0], b)))), [bound - 1], {"bound": bound}, alt=[[0], [255], [min(bound, 255)]]))
    for bound in [1, 2, 3]:
        E.append(entry("cache_bit_lt", lambda e, I, O, b=bound: AND(isbit(I[0]), lt(I[0], b)), [0], {"bound": bound}, alt=[[min(bound, 2) - 1]]))
    for bound in [200, 255, 256, 257, 300, 1 << 20]:
        E.append(entry("cache_lt_then_byte", lambda e, I, O, b=bound: AND(lt(I[0], b), lt(I[0], 256), eq(O[0], I[0])), [min(bound, 256) - 1], {"bound": bound}, alt=[[0]]))
    for bound in [1, 2, 3, 256]:
        E.append(entry("cache_lt_then_bit", lambda e, I, O, b=bound: AND(lt(I[0], b), isbit(I[0]), eq(O[0], I[0])), [min(bound, 2) - 1], {"bound": bound}, alt=[[0]]))
    E.append(entry("cache_eq_then_byte", lambda e, I, O: AND(eq(I[0], I[1]), lt(I[1], 256), eq(O[0], I[0])), [255, 255], alt=[[0, 0], [77, 77]]))
    for b1, b2 in [(300, 256), (256, 300), (255, 255), (1000, 999), (999, 1000)]:
        E.append(entry("cache_lt_lt", lambda e, I, O, b=min(b1, b2): lt(I[0], b), [min(b1, b2) - 1], {"bound": b1, "bound2": b2}, alt=[[0]]))
    # ---- Range checks / comparisons ----
    for bound in ([1, 2, 255, 256, 257, 1000, (1 << 64) + 5] if tier == "quick" else [1, 2, 3, 255, 256, 257, 1000, 65535, 65536, (1 << 64) + 5, (1 << 128) - 1, 1 << 200]):
        E.append(entry("assert_lower_than_fixed", lambda e, I, O, b=bound: lt(I[0], b), [bound - 1], {"bound": bound}, alt=[[0], [bound // 2]]))
    for n in ([1, 8, 9, 16, 64] if tier == "quick" else [1, 2, 7, 8, 9, 16, 17, 64, 128, 200]):
        x = rnd.randrange(1 << n)
        E.append(entry("bounded_of_element", lambda e, I, O, n=n: AND(lt(I[0], 1 << n), eq(O[0], I[0])), [x], {"n": n}, alt=[[0], [(1 << n) - 1]]))
    for n in ([8, 16, 64] if tier == "quick" else [1, 8, 9, 16, 32, 64, 128]):
        for kind in ["lower_than_fixed", "leq_fixed", "greater_than_fixed", "geq_fixed"]:
            for bound in sorted({0, 1, (1 << n) - 1, rnd.randrange(1 << n)}):
                if kind in ("leq_fixed", "greater_than_fixed") and bound == (1 << n) - 1 and False:
                    continue
                x = rnd.randrange(1 << n)
                E.append(entry(kind, S_cmp_fixed(kind, n, bound), [x], {"n": n, "bound": bound}, alt=[[bound], [max(0, bound - 1)], [min((1 << n) - 1, bound + 1)]]))
    for (n, m) in ([(8, 8), (16, 16), (64, 64), (8, 16)] if tier == "quick" else [(1, 1), (8, 8), (9, 9), (16, 16), (64, 64), (128, 128), (8, 16), (16, 8), (64, 3)]):
        for kind in ["lower_than", "leq", "greater_than", "geq"]:
            x, y = rnd.randrange(1 << n), rnd.randrange(1 << m)
            e2 = min((1 << n) - 1, (1 << m) - 1)
            E.append(entry(kind, S_cmp(kind, n, m), [x, y], {"n": n, "m": m}, alt=[[e2, e2], [0, 0], [0, (1 << m) - 1], [(1 << n) - 1, 0]]))
    # ---- Division with remainder ----
    for d, bound in ([(10, 1000), (3, None), (256, 1 << 40), (7, (1 << 64) - 1)] if tier == "quick" else [(10, 1000), (3, None), (256, 1 << 40), (7, (1 << 64) - 1), (1, 5), (1 << 64, None), (12345, 1 << 128)]):
        hi = bound if bound is not None else P - 1
        x = rnd.randrange(hi + 1)
        params = {"d": d}
        if bound is not None:
            params["bound"] = bound
        pre = (lambda t, b=bound: t[0] <= b) if bound is not None else None   # "the bound on the dividend is the caller's responsibility"
        pre_smt = (lambda e, I, b=bound: le(I[0], b)) if bound is not None else None
        E.append(entry("div_rem", S_div_rem(d, bound), [x], params, alt=[[0], [hi], [d], [d - 1]],
                       variants=[("quotient-wraps-modulus", V_wraps(d))], pre=pre, pre_smt=pre_smt))
        E.append(entry("rem", S_div_rem(d, bound, only_rem=True), [x], params, alt=[[0], [hi]],
                       variants=[("quotient-wraps-modulus", V_wraps(d, only_rem=True))], pre=pre, pre_smt=pre_smt))
    # ---- Bitwise ----
    for n in ([1, 4, 8, 9, 16] if tier == "quick" else [1, 2, 4, 7, 8, 9, 16, 24, 32, 64]):
        x, y = rnd.randrange(1 << n), rnd.randrange(1 << n)
        for kind in ["band", "bor", "bxor"]:
            E.append(entry(kind, S_bitwise(kind, n), [x, y], {"n": n}, alt=[[0, 0], [(1 << n) - 1, (1 << n) - 1], [(1 << n) - 1, 0]]))
        E.append(entry("bnot", S_bnot(n), [x], {"n": n}, alt=[[0], [(1 << n) - 1]]))
    # ---- pow2range column counts and decomposition limb sizes (configurations) ----
    for nr in [1, 2, 3]:
        for mbl in [8] if tier == "quick" else [8, 9]:
            x = rnd.randrange(1 << 16)
            E.append(entry("to_le_bits", S_to_bits(16, True), [x], {"nb": 16, "canon": True, "nr": nr, "max_bit_len": mbl}))
            E.append(entry("lower_than", S_cmp("lower_than", 16, 16), [3, 4], {"n": 16, "m": 16, "nr": nr, "max_bit_len": mbl}))
            E.append(entry("assert_lower_than_fixed", lambda e, I, O: lt(I[0], 1000), [999], {"bound": 1000, "nr": nr, "max_bit_len": mbl}))
    return E


def check(run):
    from vf import cengine, core
    t = core.tier()
    ents = family(t, core.seed())
    run.assumptions += [
        "constraint structure extracted at one admissible witness per (operation, parameters); C09 (structure independent of witness) is assumed and spot-checked on the alternative inputs",
        "field products are abstracted by an uninterpreted function with lemmas valid in every field (zero-product, units, cancellation, distributivity, exactness for small operands): unsat is sound for F_p",
        "specifications in /verif/specs/C04.py are written from the instruction-trait documentation",
        "MockProver's view of the circuit (gates, lookups, permutation, fixed columns) is what keygen commits to (C02/C09 territory)",
    ]
    run.outside += ["from_le_bits / from_be_bits with more than 256 input bits (n = 300 measured: > 600 s on both solvers)", "completeness (existence of a witness for every admissible input) beyond the concrete honest runs listed per obligation",
                    "VectorInstructions and MapGadget: part C04_V", "parameters outside the enumerated family"]
    run.bounds += [f"tier={t}: {len(ents)} (operation, parameter) shapes, k=10, NativeGadget over BLS12-381 scalar field, pow2range columns 1..4, max_bit_len 8/9"]
    run.notes.append("Engine C: for each operation the constraint system emitted by the real NativeGadget/NativeChip synthesis is extracted from MockProver and the implication Sys => Spec is decided for all advice/instance assignments by z3-new || cvc5.")
    cengine.run_family(run, "native", ents, timeout=60 if t == "quick" else 600, only=getattr(run, "only", None))
    from vf.parts import run_parts
    run_parts(run, "C04")


def replay(payload):
    from vf.parts import replay_parts
    return replay_parts("C04", payload)
