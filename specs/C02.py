from vf.parts import run_parts, replay_parts


def check(run):
    run_parts(run, "C02")


def replay(payload):
    return replay_parts("C02", payload)
