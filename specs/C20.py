from vf.parts import run_parts, replay_parts


def check(run):
    run_parts(run, "C20")


def replay(payload):
    return replay_parts("C20", payload)
