"""C05 — emulated-field (foreign) gadgets: soundness of the constraints the real FieldChip emits.

Inputs/outputs on the instance column are the LIMBS of emulated elements (arbitrary representations
within the chip's well-formed bounds), so non-canonical representations are inside the quantifier.
The integer represented by limbs l is val(l) = 1 + sum base^i l_i (FieldChip's documented convention)."""
import random
from vf.cspec import *
from vf import csmt

P = csmt.P_BLS
FIELDS = {
    "k256fp": dict(m=0xfffffffffffffffffffffffffffffffffffffffffffffffffffffffefffffc2f, log2_base=64, n=4),
    "k256fq": dict(m=0xfffffffffffffffffffffffffffffffebaaedce6af48a03bbfd25e8cd0364141, log2_base=64, n=4),
    "blsfp": dict(m=0x1a0111ea397fe69a4b1ba7b6434bacd764774b84f38512bf6730d2a0f6b0f6241eabfffeb153ffffb9feffffffffaaab, log2_base=56, n=7),
    "c25519fp": dict(m=(1 << 255) - 19, log2_base=None, n=None),
    "c25519fq": dict(m=(1 << 252) + 27742317777372353535851937790883648493, log2_base=None, n=None),
}
# NOTE: the moduli/base/limb counts above are only used to pick admissible honest inputs; every
# quantity used in an obligation (modulus, base, number of limbs, auxiliary moduli) is read from the
# extractor's output, i.e. from the real FieldEmulationParams of the current tree.


def M(e):
    return int(e.extra["emulated_modulus"], 16)


def res(e, limbs, extra_const=0):
    """residue atom of the emulated element represented by `limbs`: (1 + sum base^i limb_i) mod m"""
    base = 1 << int(e.extra["log2_base"])
    terms, const = [], 1 + extra_const
    for i, l in enumerate(limbs):
        if isinstance(l, int):
            const += csmt.sym(l, P) * base ** i
        else:
            terms.append((base ** i, l))
    return e.residue(terms, const, M(e))


def addmod(e, a, b, sign=1):
    return e.addmod(a, b, M(e), sign)


def wellformed(e, limbs):
    n = int(e.extra["nb_limbs"])
    lb = int(e.extra["log2_base"])
    m = M(e)
    msl = m.bit_length() - (n - 1) * lb
    return AND(*[lt(l, 1 << (lb if i < n - 1 else msl)) for i, l in enumerate(limbs)])


def split(e, atoms):
    n = int(e.extra["nb_limbs"])
    return [atoms[i:i + n] for i in range(0, len(atoms), n)]


def S_binop(kind):
    def spec(e, I, O):
        x, y = split(e, I)[:2]
        z = O[:int(e.extra["nb_limbs"])]
        rx, ry, rz = res(e, x), res(e, y), res(e, z)
        if kind == "add":
            return eq(rz, addmod(e, rx, ry))
        if kind == "sub":
            return eq(rz, addmod(e, rx, ry, -1))
        if kind == "mul":
            return AND(eq(rz, e.MM(rx, ry, M(e))), wellformed(e, z))
        if kind == "div":
            return AND(eq(e.MM(rz, ry, M(e)), rx), ne(ry, 0), wellformed(e, z))
        raise KeyError(kind)
    return spec


def S_unop(kind, c=None):
    def spec(e, I, O):
        x = split(e, I)[0]
        z = O[:int(e.extra["nb_limbs"])]
        rx, rz = res(e, x), res(e, z)
        m = M(e)
        if kind == "neg":
            return eq(addmod(e, rx, rz), 0)
        if kind == "square":
            return AND(eq(rz, e.MM(rx, rx, m)), wellformed(e, z))
        if kind == "inv":
            return AND(eq(e.MM(rx, rz, m), 1), wellformed(e, z))
        if kind == "add_constant":
            return eq(rz, addmod(e, rx, c % m))
        if kind == "mul_by_constant":
            return eq(rz, e.MM(rx, c % m, m))
        raise KeyError(kind)
    return spec


def S_assign(e, I, O):
    return wellformed(e, I)


def S_is_equal(e, I, O):
    x, y = split(e, I)[:2]
    return AND(isbit(O[0]), eq(O[0], b2i(eq(res(e, x), res(e, y)))))


def S_is_zero(e, I, O):
    x = split(e, I)[0]
    e.zero_rep_lemma(list(x))
    return AND(isbit(O[0]), eq(O[0], b2i(eq(res(e, x), 0))))


def S_assert_equal(e, I, O):
    x, y = split(e, I)[:2]
    return eq(res(e, x), res(e, y))


def S_assert_not_equal(e, I, O):
    x, y = split(e, I)[:2]
    return ne(res(e, x), res(e, y))


def S_add_mul(kind):
    def spec(e, I, O):
        x, y, w = split(e, I)[:3]
        z = O[:int(e.extra["nb_limbs"])]
        s = addmod(e, res(e, x), res(e, y), 1 if kind == "add_mul" else -1)
        return AND(eq(res(e, z), e.MM(s, res(e, w), M(e))), wellformed(e, z))
    return spec


def S_pi(e, I, O):
    """the chip's own public-input exposure: the exposed limbs represent the same residue and are
    well-formed"""
    x = split(e, I)[0]
    z = O[:int(e.extra["nb_limbs"])]
    return AND(eq(res(e, x), res(e, z)), wellformed(e, z))


def S_pi_add(e, I, O):
    x, y = split(e, I)[:2]
    z = O[:int(e.extra["nb_limbs"])]
    return AND(eq(res(e, z), addmod(e, res(e, x), res(e, y))), wellformed(e, z))


def _sel_value(e, I):
    """inputs of the add_select_* harness ops: condition bit, then x, y, z, w; value = c ? w : x + y + z"""
    c = I[0]
    x, y, z, w = split(e, I[1:])[:4]
    s3 = addmod(e, addmod(e, res(e, x), res(e, y)), res(e, z))
    return c, ITE(eq(c, 1), res(e, w), s3), (x, y, z, w)


def S_add_select_is_zero(e, I, O):
    c, v, _ = _sel_value(e, I)
    return AND(isbit(c), isbit(O[0]), eq(O[0], b2i(eq(v, 0))))


def S_add_select_pi(e, I, O):
    c, v, _ = _sel_value(e, I)
    zl = O[:int(e.extra["nb_limbs"])]
    return AND(isbit(c), eq(res(e, zl), v), wellformed(e, zl))


def entry(field, op, spec, ins, params=None, alt=(), k=11, variants=()):
    p = dict(params or {})
    p["field"] = field
    return dict(op=op, spec=spec, ins=list(ins), params=p, alt=[list(a) for a in alt], k=k, ff=True, variants=list(variants))


def family(tier, seed):
    rnd = random.Random(5000 + seed)
    E = []
    fields = ["k256fp", "k256fq", "blsfp"] if tier == "quick" else list(FIELDS)
    for f in fields:
        m = FIELDS[f]["m"]
        r = lambda: rnd.randrange(m)
        E.append(entry(f, "assign", S_assign, [r()], alt=[[0], [1], [m - 1]]))
        E.append(entry(f, "add", S_binop("add"), [r(), r()], alt=[[0, 0], [m - 1, m - 1], [1, m - 1]]))
        E.append(entry(f, "sub", S_binop("sub"), [r(), r()], alt=[[0, 0], [0, m - 1], [m - 1, 0]]))
        E.append(entry(f, "neg", S_unop("neg"), [r()], alt=[[0], [1], [m - 1]]))
        E.append(entry(f, "mul", S_binop("mul"), [r(), r()], alt=[[0, 0], [m - 1, m - 1], [1, m - 1], [0, r()]]))
        E.append(entry(f, "square", S_unop("square"), [r()], alt=[[0], [m - 1]]))
        E.append(entry(f, "div", S_binop("div"), [r(), r()], alt=[[0, 1], [m - 1, m - 1]]))
        E.append(entry(f, "inv", S_unop("inv"), [r()], alt=[[1], [m - 1]]))
        c = r()
        E.append(entry(f, "add_constant", S_unop("add_constant", c), [r()], {"c": c}, alt=[[0], [m - 1]]))
        E.append(entry(f, "mul_by_constant", S_unop("mul_by_constant", c), [r()], {"c": c}, alt=[[0], [m - 1]]))
        x = r()
        E.append(entry(f, "is_equal", S_is_equal, [x, x], alt=[[x, (x + 1) % m], [0, 0], [0, m - 1]]))
        E.append(entry(f, "is_zero", S_is_zero, [0], alt=[[1], [m - 1], [r()]]))
        E.append(entry(f, "assert_equal", S_assert_equal, [x, x], alt=[[0, 0]]))
        E.append(entry(f, "assert_not_equal", S_assert_not_equal, [x, (x + 1) % m], alt=[[0, m - 1]]))
        E.append(entry(f, "add_mul", S_add_mul("add_mul"), [r(), r(), r()], alt=[[m - 1, m - 1, m - 1], [0, 0, 0]]))
        E.append(entry(f, "sub_mul", S_add_mul("sub_mul"), [r(), r(), r()], alt=[[0, m - 1, m - 1], [0, 0, 0]]))
        E.append(entry(f, "pi", S_pi, [r()], alt=[[0], [m - 1]]))
        E.append(entry(f, "add_pi", S_pi_add, [r(), r()], alt=[[m - 1, m - 1], [0, 0], [1, m - 1]]))
        # select between a well-formed element and an un-normalised three-term sum, then a consumer that depends on
        # the bounds bookkeeping of the selected element (added after seeded C05-c); alt inputs: sums that carry in a
        # limb and are congruent to zero, selected (c = 0) and not selected (c = 1)
        a, b = r(), r()
        zz = (-(a + b)) % m
        if f != "blsfp":   # 7-limb field: the is_zero consumer does not finish (quick > 60 s, thorough > 600 s measured); add_select_pi covers blsfp
          E.append(entry(f, "add_select_is_zero", S_add_select_is_zero, [0, a, b, zz, r()],
                       alt=[[0, m - 1, m - 1, 2, 5], [1, a, b, zz, 0], [1, a, b, zz, 7], [0, a, b, (zz + 1) % m, 0], [0, m - 1, m - 1, m - 1, 0]]))
        E.append(entry(f, "add_select_pi", S_add_select_pi, [0, a, b, r(), r()], alt=[[0, m - 1, m - 1, m - 1, 1], [1, a, b, zz, m - 1], [0, a, b, zz, 3]]))
    return E


def check(run):
    from vf import cengine, core
    t = core.tier()
    ents = family(t, core.seed())
    run.assumptions += [
        "constraint structure extracted at one admissible witness per (field, operation); C09 assumed, spot-checked on the alternative inputs",
        "foreign-field gate groups are decided by the chain A (aux polynomials vanish over Z), B (CRT reconstruction of the common integer expression), C (magnitude bound), D (CRT lemma), E (lifting to true powers of the base): every link is a solver query or a ground arithmetic fact; the composition of the links is the standard CRT argument and is performed by the checker",
        "products of two range-checked limbs are exact integers (bounds established from the system's own range checks) and are shared opaque atoms between gates and specification",
    ]
    run.outside += ["add_select_is_zero for the 7-limb BLS12-381 base field (> 600 s on both solvers)", "completeness beyond the concrete honest runs", "BigUint gadgets, mod_exp, bit/byte conversions of emulated elements: part C05_B", "bn256 parameter sets (dev-curves feature)"]
    run.bounds += [f"tier={t}: {len(ents)} (field, operation) shapes; emulated fields {sorted(set(e['params']['field'] for e in ents))} over the BLS12-381 scalar field; k=11"]
    run.notes.append("Engine C + chained foreign-field obligations: Sys => val(out) == f(val(in)) (mod m) for all limb representations within the chip's bounds.")
    cengine.run_family(run, "foreign", ents, timeout=60 if t == "quick" else 600, only=getattr(run, "only", None), workers=6)
    from vf.parts import run_parts
    run_parts(run, "C05")


def replay(payload):
    from vf.parts import replay_parts
    return replay_parts("C05", payload)
