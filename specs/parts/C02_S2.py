"""C02 (engine S, second part) — the verifying key and the development-time checker see the same circuit.

"The verifier's verdict coincides with the mock checker's" needs, before any proof exists, that the REAL
`keygen_vk` bakes into the verifying key the same copy constraints and the same fixed / selector columns that the
REAL `MockProver` enforces. Both implement `Assignment` separately (plonk/keygen.rs `Assembly` vs dev/mod.rs).

Per circuit shape `sx keygen` runs
  * the real keygen_vk at F = SymF, CS = SymCS: a commitment is the interned handle of the committed vector, so
    `vk.permutation().commitments()` decode to the sigma vectors — constants delta^j' * omega^i', i.e. the image
    cell (column j', row i') of every cell (column j, row i) — and `vk.fixed_commitments()` to the fixed columns
    followed by the selectors-as-fixed columns;
  * the real MockProver::run on the same circuit type: `permutation().columns()/mapping()`, `fixed()`, `selectors()`.

Obligations per shape
  perm-partition   the two permutations are over the same column list, sigma decodes to a bijection on the cells,
                   and they induce the same partition into cycles. Two EUF queries over an uninterpreted sort Cell
                   with one constant per cell: (checker's cycle edges as equalities) AND (some keygen edge is a
                   disequality) must be unsat, and vice versa. Twin: an edge between two different classes added
                   to the goal must make the query sat.
  fixed-columns    every fixed column and every selector the vk commits to equals the checker's table (ground
                   coefficient pairs to the solver, perturbed twin).
Family: the C02 shape family plus shapes built to hit index / row coincidences (advice #k <-> instance #k on the
same absolute row, advice #k <-> constant column #k row 0, advice #k <-> fixed #k same row, same column different
rows, different columns same row, a cell copied onto itself, ties through constrain_instance / constrain_constant,
near misses).
Static lookup tables (members `st-*`, vf/symf.py STATIC_SHAPES): `fixed-columns` covers the TableColumn columns that
`Layouter::assign_table` fills and pads through `fill_from_row` (keygen.rs Assembly vs dev/mod.rs), on every row: values
on the usable rows, "vk 0 / checker Unassigned" on the blinding rows; `lookup-inputs` compares the vk's compiled lookup
input (selectors -> fixed columns) with the declared input under the checker's selector bits. A differing table row
replays on the real stack as a witness looking that row up (notes/symfield.md, section "Static lookup tables").
A disagreement replays on the real stack: the copy entry whose tie the vk lost is violated by the witness (value
off by one, everything else honest): MockProver rejects, the real verifier (Fq, KZG, Blake2b) accepts.
"""
import json, random, time
from concurrent.futures import ThreadPoolExecutor

from vf import core, solvers, symf
from vf.core import HOLDS, VIOLATION, INCONCLUSIVE
from vf.symf import P

ENGINE = "S2"
FUNCS = ["proofs/src/plonk/keygen.rs::keygen_vk_with_k", "proofs/src/plonk/keygen.rs::Assembly::copy",
         "proofs/src/plonk/keygen.rs::Assembly::assign_fixed", "proofs/src/plonk/keygen.rs::Assembly::enable_selector",
         "proofs/src/plonk/permutation/keygen.rs::Assembly::copy", "proofs/src/plonk/permutation/keygen.rs::build_vk",
         "proofs/src/plonk/circuit.rs::directly_convert_selectors_to_fixed", "proofs/src/dev/mod.rs::MockProver::run",
         "proofs/src/dev/mod.rs::MockProver::copy", "proofs/src/circuit/floor_planner/single_pass.rs"]


def _wr(run, ob, payload):
    return run.write_replay(ob, dict(payload, engine_part="S2"))


def _base(copies, eq, ninst=0, nadv=3, nfix=1, const_col=False, lens=None):
    return dict(shape={"adv": [0] * nadv, "nfix": nfix, "ninst": ninst, "chal": [], "gates": [], "eq": eq,
                       "const_col": const_col, "copies": copies},
                np=1, nbc=0, lens=lens if lens is not None else [4] * ninst)


COINCIDENCE_SHAPES = {
    # advice #1 (row 2) tied to instance #1 (row 2): equal column index, equal absolute row, different column type
    "adv1-inst1-same-row": _base([["instr", 1, 2, 1, 2]], [["a", 1], ["i", 1]], ninst=2),
    # advice #1 (row 0) tied to the constant column (fixed #1) whose first constant lands on row 0
    "adv1-const1-row0": _base([["constr", 1, 0, 9]], [["a", 1]], const_col=True),
    # advice #0 (row 1) tied to fixed #0 (row 1)
    "adv0-fixed0-same-row": _base([["fixr", 0, 1, 0, 1]], [["a", 0], ["f", 0]]),
    # same column, different rows / different columns, same row / a cell copied onto itself
    "same-column-rows": _base([["eqr", 0, 3, 0, 5]], [["a", 0]]),
    "same-row-columns": _base([["eqr", 0, 4, 2, 4]], [["a", 0], ["a", 2]]),
    "self-copy": _base([["eqr", 2, 6, 2, 6], ["eqr", 2, 6, 1, 6]], [["a", 1], ["a", 2]]),
    # near misses: equal index different row, equal row different index
    "near-misses": _base([["instr", 1, 2, 1, 3], ["instr", 2, 3, 1, 3], ["constr", 0, 0, 5], ["constr", 2, 1, 6]],
                         [["a", 0], ["a", 1], ["a", 2], ["i", 1]], ninst=2, const_col=True),
    # everything at once, chained through shared cells (classes of size > 2, 6 permutation columns)
    "combined-chains": _base([["instr", 1, 2, 1, 2], ["constr", 1, 0, 9], ["fixr", 0, 1, 0, 1], ["instr", 2, 0, 1, 0],
                              ["eqr", 0, 3, 0, 5], ["eqr", 0, 4, 2, 4], ["eqr", 2, 6, 2, 6], ["eqr", 0, 5, 2, 4], ["eqr", 1, 7, 0, 3]],
                             [["a", 0], ["a", 1], ["a", 2], ["i", 1], ["f", 0]], ninst=2, const_col=True),
}


def family():
    members = dict(COINCIDENCE_SHAPES)
    members.update(symf.BOUNDARY_SHAPES)
    rnd = random.Random(1000 + core.seed())
    for i in range(2 if core.tier() == "quick" else 34):
        members[f"seeded{i}"] = symf.random_shape(rnd)
    members.update(symf.static_members())     # static lookup tables (own seed stream; the members above are unchanged)
    return members


def run_keygen(m):
    last = None
    for k in (m.get("k") or 4, 5):
        try:
            d = symf.sx("keygen", shape=m["shape"], k=k, lens=m["lens"] or [0])
            d["_k"] = k
            return d
        except symf.SxError as e:
            last = e
            if "NotEnoughRows" not in str(e) and "not enough rows" not in str(e).lower():
                raise
    raise last


class UF:
    def __init__(self):
        self.p = {}

    def find(self, x):
        self.p.setdefault(x, x)
        while self.p[x] != x:
            self.p[x] = self.p[self.p[x]]
            x = self.p[x]
        return x

    def union(self, a, b):
        self.p[self.find(a)] = self.find(b)


def decode(d):
    """keygen sigma as a mapping (j,i)->(j',i') ; problems list"""
    n = d["n"]
    w, delta = int(d["omega"], 16), int(d["delta"], 16)
    ncol = len(d["keygen"]["sigma"])
    table = {}
    for j in range(ncol):
        dj = pow(delta, j, P)
        for i in range(n):
            table[dj * pow(w, i, P) % P] = (j, i)
    sig, problems = {}, []
    for j, col in enumerate(d["keygen"]["sigma"]):
        if len(col) != n:
            problems.append(f"sigma column {j} has {len(col)} entries")
        for i, v in enumerate(col):
            img = table.get(int(v, 16)) if v.startswith("0x") else None
            if img is None:
                problems.append(f"sigma[{j}][{i}] = {v[:20]} is not delta^j' omega^i' of a permutation cell")
            else:
                sig[(j, i)] = img
    if len(set(sig.values())) != len(sig):
        problems.append("sigma is not injective")
    return sig, problems


def edges_of(mapping):
    return [(c, img) for c, img in mapping.items() if c != img]


def cname(c):
    return f"c_{c[0]}_{c[1]}"


def entail_smt(cells, hyp_edges, goal_edges, extra_goal=None):
    lines = ["(set-logic ALL)", "(declare-sort Cell 0)"]
    lines += [f"(declare-const {cname(c)} Cell)" for c in cells]
    for a, b in hyp_edges:
        lines.append(f"(assert (= {cname(a)} {cname(b)}))")
    goals = list(goal_edges) + ([extra_goal] if extra_goal else [])
    lines.append("(assert (or false " + " ".join(f"(distinct {cname(a)} {cname(b)})" for a, b in goals) + "))")
    return "\n".join(lines)


def copy_cells(shape, idx):
    """(advice cell, other cell or None) of copy entry idx, as (column name, row)"""
    cp = shape["copies"][idx]
    row = 3 * len(shape["gates"]) + idx
    kind = cp[0]
    if kind == "eq":
        return (f"a{cp[1]}", row), (f"a{cp[2]}", row)
    if kind == "inst":
        return (f"a{cp[1]}", row), (f"i{cp[2]}", cp[3])
    if kind == "const":
        return (f"a{cp[1]}", row), None
    if kind == "eqr":
        return (f"a{cp[1]}", cp[2]), (f"a{cp[3]}", cp[4])
    if kind == "instr":
        return (f"a{cp[1]}", cp[2]), (f"i{cp[3]}", cp[4])
    if kind == "constr":
        return (f"a{cp[1]}", cp[2]), None
    if kind == "fixr":
        return (f"a{cp[1]}", cp[2]), (f"f{cp[3]}", cp[4])
    return None, None


def analyse(d, shape):
    """returns dict with problems, smt queries, and (if the vk lost a tie) the copy entry to violate"""
    out = {"problems": []}
    kcols, mcols = d["keygen"]["columns"], d["mock"]["columns"]
    if kcols != mcols:
        out["problems"].append(f"column lists differ: keygen {kcols} vs checker {mcols}")
    n = d["n"]
    sig, probs = decode(d)
    out["problems"] += probs
    mock = {(j, i): tuple(img) for j, col in enumerate(d["mock"]["mapping"]) for i, img in enumerate(col)}
    cells = sorted(set(sig) | set(mock))
    ke, me = edges_of(sig), edges_of(mock)
    out["cells"], out["ke"], out["me"] = cells, ke, me
    ufk, ufm = UF(), UF()
    for a, b in ke:
        ufk.union(a, b)
    for a, b in me:
        ufm.union(a, b)
    out["lost"] = [(a, b) for a, b in me if ufk.find(a) != ufk.find(b)]      # ties the vk does not have
    out["extra"] = [(a, b) for a, b in ke if ufm.find(a) != ufm.find(b)]     # ties only the vk has
    out["n_classes"] = len({ufm.find(c) for c in cells if any(c in e for e in me)})
    # a pair of cells in different classes of both (for the twin)
    tw = None
    for c in cells:
        for c2 in cells:
            if c < c2 and ufm.find(c) != ufm.find(c2) and ufk.find(c) != ufk.find(c2):
                tw = (c, c2)
                break
        if tw:
            break
    out["twin_edge"] = tw
    # which copy entry explains a lost tie
    out["cheat"] = None
    out["cheats"] = []
    if out["lost"]:
        name = lambda c: (mcols[c[0]], c[1])
        for idx in range(len(shape["copies"])):
            a, b = copy_cells(shape, idx)
            if a is None or shape["copies"][idx][0] == "const":
                continue
            try:
                ca = (mcols.index(a[0]), a[1])
            except ValueError:
                continue
            if b is not None:
                try:
                    cb = (mcols.index(b[0]), b[1])
                except ValueError:
                    continue
                if ca != cb and ufm.find(ca) == ufm.find(cb) and ufk.find(ca) != ufk.find(cb):
                    out["cheats"].append(idx)
            else:
                # tie to a constant: the advice cell's class in the checker contains a constant-column cell the vk class lacks
                mclass = {c for c in cells if ufm.find(c) == ufm.find(ca)}
                kclass = {c for c in cells if ufk.find(c) == ufk.find(ca)}
                if any(mcols[c[0]].startswith("f") for c in mclass - kclass):
                    out["cheats"].append(idx)
        out["cheat"] = out["cheats"][0] if out["cheats"] else None
    return out


def fixed_pairs(d):
    """vk fixed vectors against the checker: MockProver::run converts its selectors to fixed columns the same way
    keygen does (appended after the circuit's fixed columns), so fixed() has the vk's column count; the appended
    columns must in addition equal selectors()."""
    kf, mf, ms = d["keygen"]["fixed"], d["mock"]["fixed"], d["mock"]["selectors"]
    pairs = [(len(kf), len(mf))]
    want = [[int(v, 16) for v in col] for col in mf]
    for kc, wc in zip(kf, want):
        pairs.append((len(kc), len(wc)))
        for a, b in zip(kc, wc):
            pairs.append((int(a, 16) if a.startswith("0x") else -1, b))
    base = len(kf) - len(ms)
    for s_i, sel in enumerate(ms):
        kc = kf[base + s_i] if 0 <= base + s_i < len(kf) else []
        pairs.append((len(kc), len(sel)))
        for a, b in zip(kc, sel):
            pairs.append((int(a, 16) if a.startswith("0x") else -1, 1 if b else 0))
    return pairs


def fixed_pairs_all(d):
    """fixed_pairs plus, for the circuit's own fixed columns (table columns included), the state of the checker's cells:
    on the usable rows the values are compared (an Unassigned cell counts as 0, which is how MockProver evaluates it); on
    the rows beyond (blinding rows) the vk must hold 0 and the checker's cell must be Unassigned - nothing may be
    assigned or padded there - and the two sides must agree on the number of usable rows."""
    pairs = fixed_pairs(d)
    st = d["mock"].get("fixed_state")
    if st is None:
        return pairs
    u = d["mock"]["usable_rows"]
    pairs.append((d["keygen"]["usable_rows"], u))
    ncirc = len(d["mock"]["fixed"]) - len(d["mock"]["selectors"])
    for col in st[:ncirc]:
        for i, c in enumerate(col):
            if i >= u:
                pairs.append((0 if c == "U" else 1, 0))
    return pairs


def static_tables_of(d, side):
    """per static lookup: the tuples of its table on the usable rows, read off the vk's vectors / the checker's cells"""
    cols = d["keygen"]["fixed"] if side == "vk" else d["mock"]["fixed"]
    u = d["mock"]["usable_rows"]
    out = []
    for lk in d.get("slookups", []):
        out.append([tuple(int(cols[c][i], 16) if cols[c][i].startswith("0x") else -1 for c in lk["table_fixed_cols"]) for i in range(u)])
    return out


def check_lookup_inputs(run, name, member, d, bound):
    """static lookups: the input expression the vk carries after keygen (selectors compiled to fixed columns), evaluated
    on every usable row over the fixed vectors the vk commits to, equals the input as declared with the selector bit the
    checker recorded (all advice cells symbolic)."""
    ob = core.Ob(f"C02/S2/{name}/lookup-inputs", ENGINE,
                 "static lookups: vk's compiled input expression over the vk's fixed vectors == declared input with the checker's selector bits, every usable row, advice symbolic",
                 functions=FUNCS + ["proofs/src/plonk/circuit.rs::ConstraintSystem::lookup", "proofs/src/plonk/circuit.rs::replace_selectors_with_fixed"],
                 bound=bound, key="vk-vs-checker:lookup-input")
    run.add(ob)
    dag = symf.Dag(d["arena"])
    ring, memo = symf.Ring(), {}
    pairs, bad = [], []
    for lk in d["slookups"]:
        for row, (ir, sr) in enumerate(zip(lk["impl"], lk["spec"])):
            for j, (a, b) in enumerate(zip(ir, sr)):
                A, B = dag.normal(ring, a, memo), dag.normal(ring, b, memo)
                for mono in set(A) | set(B):
                    pairs.append((A.get(mono, 0), B.get(mono, 0)))
                if A != B:
                    bad.append((lk["lookup_index"], row, j, ring.show(A), ring.show(B)))
    # translator validation: normal form vs direct evaluation of the DAG at a pseudo-random point
    names = [n[1] for n in dag.nodes if n[0] == "v"]
    rnd = random.Random(11 + core.seed())
    env = {nm: rnd.randrange(1, P) for nm in names}
    ev = {}
    for lk in d["slookups"]:
        for ir in lk["impl"][:4]:
            for a in ir:
                if ring.evaluate(dag.normal(ring, a, memo), {ring.vars[nm]: env[nm] for nm in names if nm in ring.vars}) != dag.evaluate(a, env, ev):
                    ob.set(INCONCLUSIVE, "translator validation failed: normal form and DAG disagree at a sample point")
                    return
    r = solvers.solve(symf.residual_smt(pairs), timeout=60)
    twp = list(pairs)
    twp[0] = (twp[0][0], (twp[0][1] + 1) % P)
    tw = solvers.solve(symf.residual_smt(twp), timeout=60)
    ob.queries += 2
    ob.vacuity = tw.status == "sat"
    if r.status == "unsat" and not bad and ob.vacuity:
        ob.set(HOLDS, f"{len(d['slookups'])} static lookups x {d['mock']['usable_rows']} usable rows, {len(pairs)} monomials; selector indices "
               f"{[lk['sel_index'] for lk in d['slookups']]}", solver=r.solver, solver_s=r.time_s)
    elif r.status == "sat" or bad:
        payload = {"kind": "lookup-inputs", "member": member}
        L, row, j, a, b = bad[0]
        detail = f"lookup {L} row {row} input {j}: vk has {a[:120]} ; declared {b[:120]} ({len(bad)} cells differ)"
        ob.set(VIOLATION if replay(payload) else INCONCLUSIVE, detail, solver=r.solver, solver_s=r.time_s, replay=_wr(run, ob, payload))
    else:
        ob.set(INCONCLUSIVE, f"solver {r.status}, twin {tw.status}")


def harness_sanity(member, d):
    """replay-harness validation (concrete, not evidence): on the real stack the honest witness is accepted by MockProver
    and by the real verifier, and a witness looking a non-member tuple up (the zero tuple when the table does not contain
    it) is rejected by both. Returns a list of problems."""
    probs = []
    mo, ro, txt = symf.static_real(member)
    if not (mo and ro):
        probs.append(f"honest witness: {txt}")
    for li, lk in enumerate(d["slookups"]):
        tup = symf.static_cheat_tuple(lk["table_rows"])
        mo, ro, txt = symf.static_real(member, li, tup)
        if mo or ro:
            probs.append(f"lookup {li} tuple {tup}: {txt}")
    return probs


def check_member(run, name, m):
    bound = f"shape {name}: {json.dumps(m['shape'])[:260]}; k in {{4,5}}"
    ob_p = core.Ob(f"C02/S2/{name}/perm-partition", ENGINE, "vk sigma and MockProver permutation: same columns, bijection, same cycle partition",
                   functions=FUNCS, bound=bound, key="vk-vs-checker:copy-constraints")
    ob_f = core.Ob(f"C02/S2/{name}/fixed-columns", ENGINE, "vk fixed + selector columns == MockProver fixed()/selectors()",
                   functions=FUNCS, bound=bound, key="vk-vs-checker:fixed-columns")
    run.add(ob_p)
    run.add(ob_f)
    try:
        d = run_keygen(m)
        an = analyse(d, m["shape"])
    except Exception as ex:
        ob_p.set(INCONCLUSIVE, f"{ex!r}"[:300])
        ob_f.set(INCONCLUSIVE, f"{ex!r}"[:300])
        return
    member = dict(m, k=d["_k"])
    # ---- permutation
    q1 = solvers.solve(entail_smt(an["cells"], an["me"], an["ke"]), timeout=60)       # checker |= every keygen edge
    q2 = solvers.solve(entail_smt(an["cells"], an["ke"], an["me"]), timeout=60)       # keygen  |= every checker edge
    if an["twin_edge"]:
        tw = solvers.solve(entail_smt(an["cells"], an["me"], an["ke"], extra_goal=an["twin_edge"]), timeout=60)
    else:   # fewer than two classes (e.g. no permutation argument at all): the goal `true` is the reachable twin
        tw = solvers.solve("(set-logic ALL)\n(assert true)", timeout=30)
    ob_p.queries += 3
    ob_p.vacuity = tw.status == "sat"
    sts = (q1.status, q2.status)
    if sts == ("unsat", "unsat") and not an["problems"] and ob_p.vacuity:
        ob_p.set(HOLDS, f"{len(an['cells'])} cells, {len(an['me'])} non-trivial checker edges in {an['n_classes']} classes, "
                 f"{len(an['ke'])} keygen edges; checker verify on the honest witness: {d['mock']['verify_ok']}",
                 solver=q1.solver, solver_s=q1.time_s + q2.time_s)
    elif "sat" in sts or an["problems"]:
        cols = d["mock"]["columns"]
        show = lambda e: f"{cols[e[0][0]]}[row {e[0][1]}] ~ {cols[e[1][0]]}[row {e[1][1]}]"
        detail = "; ".join(an["problems"][:2])
        if an["lost"]:
            detail += f" the vk LOST checker ties: {[show(e) for e in an['lost'][:3]]}"
        if an["extra"]:
            detail += f" the vk has ties the checker lacks: {[show(e) for e in an['extra'][:3]]}"
        payload = {"kind": "perm", "member": member, "cheat": an["cheat"], "lost": [show(e) for e in an["lost"][:5]],
                   "extra": [show(e) for e in an["extra"][:5]]}
        ob_p.key = "vk-vs-checker:copy-constraint-dropped" if an["lost"] else "vk-vs-checker:copy-constraints"
        if replay(payload):
            ob_p.set(VIOLATION, detail.strip(), solver=q2.solver, solver_s=q1.time_s + q2.time_s, replay=_wr(run, ob_p, payload))
        else:
            ob_p.set(INCONCLUSIVE, "disagreement did not replay: " + detail.strip())
    else:
        ob_p.set(INCONCLUSIVE, f"solver {sts}, twin {tw.status if tw else 'none'}")
    # ---- fixed columns
    pairs = fixed_pairs_all(d)
    r = solvers.solve(symf.residual_smt(pairs), timeout=60)
    twp = list(pairs)
    twp[-1] = (twp[-1][0], (twp[-1][1] + 1) % P)
    tw2 = solvers.solve(symf.residual_smt(twp), timeout=60)
    ob_f.queries += 2
    ob_f.vacuity = tw2.status == "sat"
    static = bool(m["shape"].get("slookups"))
    if r.status == "unsat" and ob_f.vacuity:
        detail = f"{len(d['keygen']['fixed'])} columns x {d['n']} rows"
        sane = []
        if static:
            detail += (f" ({sum(len(lk['table_fixed_cols']) for lk in d['slookups'])} table columns of static lookups; values on the "
                       f"{d['mock']['usable_rows']} usable rows, vk 0 / checker Unassigned on the others)")
            sane = harness_sanity(member, d)
            STATIC_SANITY.append((name, sane))
        if sane:
            ob_f.set(INCONCLUSIVE, "columns agree but the real-stack replay harness does not behave as declared: " + "; ".join(sane)[:400])
        else:
            ob_f.set(HOLDS, detail, solver=r.solver, solver_s=r.time_s)
    elif r.status == "sat":
        payload = {"kind": "fixed", "member": member}
        detail = "a fixed / selector column of the vk differs from the checker's table"
        if static:
            tv, tc = static_tables_of(d, "vk"), static_tables_of(d, "checker")
            for li, (a, b) in enumerate(zip(tv, tc)):
                if set(a) != set(b):
                    ob_f.key = "vk-vs-checker:lookup-table-rows"
                    detail += (f"; static lookup {li}: rows only in the vk's table {sorted(set(a) - set(b))[:3]}, only in the checker's "
                               f"{sorted(set(b) - set(a))[:3]}")
            bad = [(c, i) for c, (kc, mc) in enumerate(zip(d["keygen"]["fixed"], d["mock"]["fixed"])) for i, (x, y) in enumerate(zip(kc, mc)) if x != y]
            detail += f"; differing cells (column,row): {bad[:6]}"
        ob_f.set(VIOLATION if replay(payload) else INCONCLUSIVE, detail, replay=_wr(run, ob_f, payload))
    else:
        ob_f.set(INCONCLUSIVE, f"solver {r.status}")
    if static:
        check_lookup_inputs(run, name, member, d, bound)


STATIC_SANITY = []


def check(run):
    symf.build(run)
    members = family()
    if getattr(run, "only", None):
        members = {k: v for k, v in members.items() if run.only in k} or members
    run.bounds.append(f"C02/S2: {len(members)} shapes ({len(COINCIDENCE_SHAPES)} index/row coincidence shapes + the C02 family), k in {{4,5}}")
    run.assumptions += ["S2: a SymCS commitment is the committed vector itself (no hiding), so the vk's sigma / fixed vectors are read off the handles"]
    run.outside += ["C02/S2: the prover-side proving key (keygen_pk builds its permutation with the same Assembly; not compared), "
                    "floor planners other than SimpleFloorPlanner, dynamic tables"]
    run.translator_validation.append("S2/C02: every sigma entry must decode to delta^j' omega^i' of a cell of the argument and sigma must be "
                                     "injective; each EUF query has a twin with an edge across two classes that must be sat")
    with ThreadPoolExecutor(max_workers=4) as ex:
        futs = {n: ex.submit(check_member, run, n, m) for n, m in members.items()}
        for n, f in futs.items():
            try:
                f.result()
            except Exception as e:
                import traceback
                traceback.print_exc()
                ob = core.Ob(f"C02/S2/{n}/engine", ENGINE, "engine S infrastructure")
                run.add(ob)
                ob.set(INCONCLUSIVE, f"crashed: {e!r}")
    nst = len([n for n in members if n.startswith("st-")])
    if nst:
        run.bounds.append(f"C02/S2 static tables: {nst} shapes (1-2 table columns; {{1,2,3}}, {{(1,5),(2,6)}}, zero-containing controls, length 1, "
                          "usable rows - 1, two tables assigned in reverse order, seeded); input an advice cell or a linear expression, "
                          "with / without a complex selector; k = 4")
        run.translator_validation.append(
            "S2/C02 static tables: replay harness (`sx real`) validated on every static shape whose columns agree: honest witness accepted "
            "by MockProver and the real verifier, a witness looking a non-member tuple (the zero tuple unless the table contains it) up "
            f"rejected by both: {sum(1 for _, p in STATIC_SANITY if not p)}/{len(STATIC_SANITY)} shapes as declared")
        run.outside += ["C02/S2 static tables: V1 floor planner's assign_table (near-duplicate of single_pass's), tables assigned with "
                        "non-constant values, tables whose zero tuple is not the first row (the padded COLUMN then differs from the "
                        "checker's under a padding slip while the row SET does not), keygen_pk's own fixed columns (same Assembly)"]


def replay(payload):
    if payload.get("engine_part") not in (None, "S2") or payload.get("kind") not in ("perm", "fixed", "lookup-inputs"):
        return None
    symf.build()
    m = payload["member"]
    if payload["kind"] == "lookup-inputs":
        # re-run; the two terms of a differing cell are evaluated at a pseudo-random point (concrete disagreement on the
        # real keygen's output); the real stack's verdicts on the honest witness are printed for information
        d = symf.sx("keygen", shape=m["shape"], k=m["k"], lens=m["lens"] or [0])
        dag = symf.Dag(d["arena"])
        names = [n[1] for n in dag.nodes if n[0] == "v"]
        rnd = random.Random(5)
        env = {nm: rnd.randrange(1, P) for nm in names}
        ev, n_bad = {}, 0
        for lk in d["slookups"]:
            for row, (ir, sr) in enumerate(zip(lk["impl"], lk["spec"])):
                for j, (a, b) in enumerate(zip(ir, sr)):
                    va, vb = dag.evaluate(a, env, ev), dag.evaluate(b, env, ev)
                    if va != vb:
                        if not n_bad:
                            print(f"lookup {lk['lookup_index']} row {row} input {j}: vk's compiled input = {hex(va)[:18]}.. declared input = {hex(vb)[:18]}.. at a random point")
                        n_bad += 1
        print(f"{n_bad} (lookup,row,input) cells differ; real stack, honest witness: {symf.static_real(m)[2]}")
        return 1 if n_bad else 0
    if payload["kind"] == "fixed":
        d = symf.sx("keygen", shape=m["shape"], k=m["k"], lens=m["lens"] or [0])
        bad = [(a, b) for a, b in fixed_pairs_all(d) if a != b]
        print(f"{len(bad)} fixed/selector cells differ between vk and checker")
        if bad and d.get("slookups"):
            # a row in exactly one of the two tables: looked up on the real stack (Fq, KZG, Blake2b, MockProver)
            r = symf.static_tuple_replay(m, static_tables_of(d, "vk"), static_tables_of(d, "checker"), "the checker")
            if r is not None:
                print("reproduced: MockProver and the real verifier disagree on that witness" if r else
                      "the verdicts agree on every tuple tried")
                return r
        if not bad and d.get("slookups"):
            for li, lk in enumerate(d["slookups"]):
                tup = symf.static_cheat_tuple(lk["table_rows"])
                print(f"columns agree on this tree; witness looking {tuple(tup)} up in static lookup {li}: {symf.static_real(m, li, tup)[2]}")
        return 1 if bad else 0
    d = symf.sx("keygen", shape=m["shape"], k=m["k"], lens=m["lens"] or [0])
    an = analyse(d, m["shape"])
    print(f"re-run: vk lost {len(an['lost'])} checker ties, has {len(an['extra'])} extra ties, problems {an['problems'][:2]}")
    if an["lost"] and an["cheats"]:
        # real stack: the witness violates exactly one copy entry whose tie the vk lost (entries whose cells take part
        # in further ties may break those too; every candidate entry is tried until one isolates the lost tie)
        for idx in an["cheats"]:
            rd = symf.sx("real", shape=m["shape"], k=m["k"], np=1, nbc=0, lens=m["lens"] or [0], cheat=idx)
            mock_rejects = any(not x.startswith("Ok") for x in rd.get("mock_prover", []))
            print(f"real stack with copy entry #{idx} {m['shape']['copies'][idx]} violated: "
                  f"MockProver {rd.get('mock_prover')[0][:140]} ; real verifier verdict: {rd.get('verdict')}")
            if mock_rejects and rd.get("accepted") is True:
                return 1
        return 0
    if an["extra"] and not an["lost"]:
        # the vk ties cells the checker does not: an honest proof is then rejected
        rd = symf.sx("real", shape=m["shape"], k=m["k"], np=1, nbc=0, lens=m["lens"] or [0])
        print(f"real stack, honest witness: MockProver {rd.get('mock_prover')} verdict {rd.get('verdict')}")
        return 1 if (all(x == "Ok(())" for x in rd.get("mock_prover", [])) and rd.get("accepted") is False) else 0
    return 1 if (an["lost"] or an["extra"] or an["problems"]) else 0
