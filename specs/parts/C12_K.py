"""C12 (MSM/FFT), engine K part: the Booth window recoding `get_booth_index` (hook H5) for ALL scalars, the batch-affine adder on toy
curves (hook H7), and the window loop of the real generic `msm_serial` at toy groups with 1..3-byte scalar fields (notes/K4.md).
Harnesses: /verif/engines/kani/curves/src/c12.rs, toy types src/toy.rs, src/toy_msm.rs."""
from vf import core, kani

CRATE = "engines/kani/curves"
H = kani.H
F = ["curves/src/msm.rs::get_booth_index"]
TELE_C = (1, 2, 3, 4, 5, 7, 8, 11, 13, 16)  # msm uses c=1 (<4 bases), 3 (<32), ceil(ln n) otherwise; 16 = largest claimed

SPECS = [
    H(f"c12::booth_c{c}", f"C12.K.booth.digit.c{c}",
      f"get_booth_index(i, {c}, s) equals the signed Booth digit b[ic..ic+{c}) + b[ic-1] - 2^{c} b[ic+{c}-1] and |digit| <= 2^{c - 1} (bucket index in range)",
      F, f"all 2^256 scalars x all window indices 0..={256 // c}", f"get_booth_index:digit:c{c}",
      est=15, timeout={"quick": 200, "thorough": 900})
    for c in range(1, 17)
] + [
    H("c12::booth_windows_above_are_zero", "C12.K.booth.msm_serial.windows",
      "msm_serial's window count (8m/c + 1 for m significant bytes) loses nothing: every window above it is 0 and the top window is non-negative",
      F + ["curves/src/msm.rs::msm_serial"], "all 2^256 scalars, all m in 0..=32, all c in 1..=16, windows up to 300",
      "get_booth_index:msm_serial-window-count", est=30, timeout={"quick": 200, "thorough": 900}),
    H("c12::booth_top_window_msm_best", "C12.K.booth.msm_best.windows",
      "msm_best's window count (NUM_BITS/c + 1) loses nothing for scalars below 2^NUM_BITS (255: BLS Fq, 252: Jubjub Fr)",
      F + ["curves/src/msm.rs::msm_best"], "all scalars below 2^255 / 2^252, all c in 1..=16", "get_booth_index:msm_best-window-count",
      est=20, timeout={"quick": 200, "thorough": 900}),
] + [
    H(f"c12::booth_telescope_c{c}", f"C12.K.booth.telescope.u32.c{c}",
      f"sum_i digit_i 2^({c}i) over msm_serial's {32 // c + 1} windows equals the scalar",
      F, "all 2^32 four-byte scalars", f"get_booth_index:telescoping:c{c}", est=40, timeout={"quick": 200, "thorough": 900})
    for c in TELE_C
] + [
    H(f"c12::batch_add_p13_n{n}", f"C12.K.batch_add.p13.n{n}",
      f"batch_add with {n} live schedule point(s): every bucket ends as (old bucket) +/- base by the textbook affine group law "
      "(add, doubling with either sign, P+(-P), untouched/identity buckets, shared batch inversion)",
      ["curves/src/msm.rs::batch_add", "curves/src/msm.rs::BucketAffine", "curves/src/msm.rs::Affine"],
      "every point of the toy curve y^2 = x^3 + 2 over F_13 (19 points) for 2 bases and max(n,2) buckets, all signs/indices", f"batch_add:group-law:n{n}",
      tiers=("quick", "thorough") if n < 3 else ("thorough",), est=30, timeout={"quick": 300, "thorough": 1200},
      flags=["--no-assertion-reach-checks"])
    for n in (1, 2, 3)
] + [
    H("c12::batch_add_p31_n2", "C12.K.batch_add.p31.n2",
      "batch_add with 2 live schedule points equals the textbook affine group law on a second toy curve",
      ["curves/src/msm.rs::batch_add"], "every point of y^2 = x^3 + 3 over F_31 (43 points)", "batch_add:group-law:p31", tiers=("thorough",),
      est=60, timeout=1200, flags=["--no-assertion-reach-checks"]),
]

# ---- the window loop of the REAL generic msm_serial at toy groups (notes/K4.md; added after seeded change C12-c) ----
FM = ["curves/src/msm.rs::msm_serial"]
NOREACH = ["--no-assertion-reach-checks"]
QNAME = {163: "one-byte scalar field F_163", 65521: "two-byte scalar field F_65521", 16777213: "three-byte scalar field F_16777213"}


def _msm(harness, oid, what, bound, key, tiers, est, functions=FM):
    # level 1 of the native replay = the same harness body (real generic msm_serial + real get_booth_index at the toy group) on the
    # solver's values; it also prints level 2 (msm_best / msm_parallel / msm_serial on the real BLS12-381 G1 with the same scalars),
    # which needs the real blst, hence replay_real
    d = H(harness, oid, what, functions, bound, key, tiers=tiers, est=est, timeout={"quick": 600, "thorough": 1800}, flags=NOREACH,
          stubs=["get_booth_index -> c12::booth_digit_by_definition (proved equal by C12.K.booth.short.l1..l3)"])
    d["replay_bin"] = "replay_real"
    return d


def _unit(q, n, tiers, est):
    c = 1 if n < 4 else 3
    return _msm(f"c12::msm_serial_unit_q{q}_n{n}", f"C12.K.msm_serial.unit.q{q}.n{n}",
                f"msm_serial (acc = identity) with {n} base(s), window size {c}: with base j the formal point P and the others the identity (j symbolic), "
                "the result is scalar_j * P modulo q, and msm_serial never inspected a point; by linearity this fixes every coefficient of sum_i scalar_i * base_i",
                f"ALL {n}-tuples of scalars of the {QNAME[q]} (0, q-1, short scalars with the top bit of their top byte set), every j < {n}",
                f"msm_serial:window-count:q{q}:n{n}", tiers, est)


Q, T, QT = ("quick", "thorough"), ("thorough",), ("quick", "thorough")
SPECS += [
    H(f"c12::booth_short_slices_l{l}", f"C12.K.booth.short.l{l}",
      f"get_booth_index on a {l}-byte scalar equals the loop-free Booth definition that stands in for it inside the msm_serial harnesses "
      "(and the module's first statement of the definition)", F, f"all {l}-byte scalars, window sizes 1..=4, window indices 0..=8*{l}/c + 1",
      f"get_booth_index:short-slice:l{l}", est=8, timeout={"quick": 200, "thorough": 900})
    for l in (1, 2, 3)
] + [
    H("c12::toy_e139_is_a_group_of_order_163", "C12.K.toy.e139.group",
      "environment validation: the affine chord-and-tangent law on y^2 = x^3 + 2 over F_139 is the cyclic group Z_163 (every pair of multiples of G = (3, 53) "
      "against an independently computed table; every curve point is a multiple of G), so C12.K.msm_serial.z163.n1 speaks about this curve",
      [], "all 163 x 163 pairs of points, all points of the curve", "toy-curve:e139:group-law", est=80, timeout={"quick": 600, "thorough": 1800}, flags=NOREACH),
    _msm("c12::msm_serial_dlog163_n1", "C12.K.msm_serial.z163.n1",
         "msm_serial (acc = identity) with ONE base in the group of prime order 163 (= the toy curve y^2 = x^3 + 2 over F_139 by C12.K.toy.e139.group): "
         "result == scalar * base by plain double-and-add", "every group element as base (identity included) x every scalar of F_163",
         "msm_serial:window-count:z163:n1", QT, 45),
    _msm("c12::msm_serial_zp_q163_n1", "C12.K.msm_serial.weights.q163.n1",
         "msm_serial with one base of integer weight -2..=2: result == scalar * weight modulo 163", "all scalars of F_163, weights -2..=2",
         "msm_serial:weights:q163:n1", T, 50),
    _msm("c12::msm_serial_zp_q163_n2", "C12.K.msm_serial.weights.q163.n2",
         "msm_serial with two bases of integer weights -2..=2 (repeated, opposite and identity bases among them): result == sum_i scalar_i * weight_i modulo 163",
         "all pairs of scalars of F_163, all weights in -2..=2", "msm_serial:weights:q163:n2", QT, 100),
    _unit(163, 2, T, 50), _unit(163, 3, QT, 60), _unit(163, 4, QT, 85),
    _unit(65521, 1, T, 60), _unit(65521, 2, T, 90), _unit(65521, 3, QT, 120), _unit(65521, 4, T, 220),
    _unit(16777213, 1, QT, 130), _unit(16777213, 2, T, 200), _unit(16777213, 3, T, 260), _unit(16777213, 4, T, 420),
] + [
    _msm(f"c12::msm_serial_lin_q163_n{n}", f"C12.K.msm_serial.free.q163.n{n}",
         f"msm_serial with {n} independent formal points (free module of rank {n}): every coefficient of the result equals its scalar modulo 163",
         f"all {n}-tuples of scalars of F_163", f"msm_serial:free-module:q163:n{n}", T, 60 * n)
    for n in (2, 3)
] + [
    dict(H("c12::msm_serial_real_booth_q163_n1", "C12.K.msm_serial.real_booth.q163.n1",
           "end-to-end anchor of the assume-guarantee split: msm_serial with the REAL get_booth_index inside (no stand-in), one base of integer weight -2..=2",
           FM + F, "all scalars of F_163, weights -2..=2", "msm_serial:real-booth:q163:n1", tiers=T, est=90, timeout=1800, flags=NOREACH),
         replay_bin="replay_real"),
]


def check(run):
    run.bounds.append("K/C12: window sizes 1..=16, every window index the two MSM loops can pass, ALL scalar bytes; telescoping for c in %s" % (TELE_C,))
    run.outside += [
        "K/C12: window-size selection `ln(n).ceil()` and the thread chunking of msm_parallel are inlined in generic functions (no callable helper; f64 ln is not modelled by CBMC)",
        "K/C12: batch_add / Schedule are decided on TOY curves (y^2=x^3+2 over F_13, y^2=x^3+3 over F_31; odd group order, so no point with y=0: the code divides by 2y). "
        "The code is generic in C: CurveAffine and only uses C::Base field operations, so genericity is what transfers the statement to BLS12-381; the toy field is the bound. "
        "Preconditions taken from the callers: scheduled buckets are non-identity and pairwise distinct within a batch, bases are never the identity",
        "K/C12: Schedule::add / execute / contains around batch_add: harnesses c12::schedule_p13_* exist (hook H7 VerifSchedule) but CBMC's symbolic execution does not "
        "constant-fold the scheduler state through the heap and gives no result in 15 min; BucketAffine::assign (identity bucket takes the point) is therefore not covered either",
        "K/C12: the flush-when-full path of Schedule::add (64 pending entries need 64 distinct non-empty buckets), the Jacobian `Bucket` accumulation and the window summation of msm_best (projective group ops)",
        "K/C12: `bitreverse` is a nested fn of best_fft (not callable; the FFT as a linear map is engine S's obligation); the serial bucket accumulation of msm_serial (group arithmetic)",
        "K/C12: the full 256-bit telescoping identity follows from the per-window definition (proved for all scalars) by the algebra written in c12.rs; it is machine-checked here for 32-bit scalars only",
    ]
    run.bounds.append("K/C12 msm_serial: 1..=4 bases (window sizes 1 and 3), acc = identity on entry, ALL scalars of toy scalar fields of 1, 2 and 3 bytes "
                      "(q = 163, 65521, 16777213); groups: Z_163 (= the curve y^2 = x^3 + 2 over F_139) with every element as base, and integer-weight / "
                      "free-module points for which the statement transfers to every abelian group of exponent q")
    run.assumptions += [
        "K/C12 msm_serial: the code is generic in C: CurveAffine and reaches the group only through identity/double/+/+=/neg and the scalars only through "
        "to_repr()/NUM_BITS (type-checked: every other trait method of the toy instance is unimplemented!() or counted, and the count is asserted to be 0), "
        "so the toy instance transfers to BLS12-381 G1 / Fq; the scalar byte length (1..3 instead of 32) is the bound",
        "K/C12 msm_serial: acc = identity on entry (what msm_parallel, its only caller in the repository, passes; msm_serial doubles acc c * windows times, "
        "so it is not additive in a non-identity acc and its doc comment does not say what acc means)",
    ]
    run.translator_validation.append(
        "K/C12 msm_serial: the Booth stand-in used under Kani is proved equal to the real get_booth_index on its whole asserted domain (C12.K.booth.short.l1..l3); "
        "C12.K.msm_serial.real_booth.q163.n1 (thorough) runs without it; the native replay always runs the real function; the toy curve's law is proved to be "
        "Z_163 against a table computed by an independent python implementation (C12.K.toy.e139.group)")
    run.outside += [
        "K/C12 msm_serial: more than 4 bases (window sizes ceil(ln n) >= 4 need n >= 32; f64 ln is not modelled by CBMC), scalars longer than 3 bytes (the real 32-byte "
        "width follows by genericity only), a non-identity accumulator on entry",
        "K/C12: msm_parallel's chunking (`coeffs.len() / num_threads`, `chunks(chunk)`, rayon::scope, the final fold) and rayon scheduling: inlined in a generic function "
        "that calls rayon::current_num_threads(); only its leaf msm_serial is decided. msm_best for c < 10 is msm_parallel",
        "K/C12: msm_best's own window loop for c >= 10 (>= 8104 bases): window count NUM_BITS/c + 1 is decided by C12.K.booth.msm_best.windows, the batch-affine adder by "
        "C12.K.batch_add.*, but the loop that puts them together (Schedule, Jacobian buckets, per-window shift `for _ in 0..c*w`, final sum) is not executed",
        "K/C12 msm_serial directly on the toy CURVE's coordinates (harnesses c12::msm_serial_e139_n1/n2, kept in the source, not registered): the solver would have to "
        "rediscover the group law through ~50 chord-and-tangent steps; no answer in 30 min. Replaced by Z_163 + the proved isomorphism",
        "K/C12 msm_serial with full-range symbolic bases AND two or more symbolic scalars in Z_163 (c12::msm_serial_dlog163_n2/n3) or weights -2..=2 with 3 bases: "
        "products of independent unknowns, no answer in 15 min; the unit-vector family decides the same coefficients one at a time",
    ]
    kani.run_harnesses(run, CRATE, SPECS)


def replay(payload):
    return kani.replay(payload)
