"""C12 (MSM/FFT), engine K part: the Booth window recoding `get_booth_index` (hook H5) for ALL scalars.
Harnesses: /verif/engines/kani/curves/src/c12.rs."""
from vf import core, kani

CRATE = "engines/kani/curves"
H = kani.H
F = ["curves/src/msm.rs::get_booth_index"]
TELE_C = (1, 2, 3, 4, 5, 7, 8, 11, 13, 16)  # msm uses c=1 (<4 bases), 3 (<32), ceil(ln n) otherwise; 16 = largest claimed

SPECS = [
    H(f"c12::booth_c{c}", f"C12.K.booth.digit.c{c}",
      f"get_booth_index(i, {c}, s) equals the signed Booth digit b[ic..ic+{c}) + b[ic-1] - 2^{c} b[ic+{c}-1] and |digit| <= 2^{c - 1} (bucket index in range)",
      F, f"all 2^256 scalars x all window indices 0..={256 // c}", f"get_booth_index:digit:c{c}",
      est=15, timeout={"quick": 200, "thorough": 900})
    for c in range(1, 17)
] + [
    H("c12::booth_windows_above_are_zero", "C12.K.booth.msm_serial.windows",
      "msm_serial's window count (8m/c + 1 for m significant bytes) loses nothing: every window above it is 0 and the top window is non-negative",
      F + ["curves/src/msm.rs::msm_serial"], "all 2^256 scalars, all m in 0..=32, all c in 1..=16, windows up to 300",
      "get_booth_index:msm_serial-window-count", est=30, timeout={"quick": 200, "thorough": 900}),
    H("c12::booth_top_window_msm_best", "C12.K.booth.msm_best.windows",
      "msm_best's window count (NUM_BITS/c + 1) loses nothing for scalars below 2^NUM_BITS (255: BLS Fq, 252: Jubjub Fr)",
      F + ["curves/src/msm.rs::msm_best"], "all scalars below 2^255 / 2^252, all c in 1..=16", "get_booth_index:msm_best-window-count",
      est=20, timeout={"quick": 200, "thorough": 900}),
] + [
    H(f"c12::booth_telescope_c{c}", f"C12.K.booth.telescope.u32.c{c}",
      f"sum_i digit_i 2^({c}i) over msm_serial's {32 // c + 1} windows equals the scalar",
      F, "all 2^32 four-byte scalars", f"get_booth_index:telescoping:c{c}", est=40, timeout={"quick": 200, "thorough": 900})
    for c in TELE_C
] + [
    H(f"c12::batch_add_p13_n{n}", f"C12.K.batch_add.p13.n{n}",
      f"batch_add with {n} live schedule point(s): every bucket ends as (old bucket) +/- base by the textbook affine group law "
      "(add, doubling with either sign, P+(-P), untouched/identity buckets, shared batch inversion)",
      ["curves/src/msm.rs::batch_add", "curves/src/msm.rs::BucketAffine", "curves/src/msm.rs::Affine"],
      "every point of the toy curve y^2 = x^3 + 2 over F_13 (19 points) for 2 bases and max(n,2) buckets, all signs/indices", f"batch_add:group-law:n{n}",
      tiers=("quick", "thorough") if n < 3 else ("thorough",), est=30, timeout={"quick": 300, "thorough": 1200},
      flags=["--no-assertion-reach-checks"])
    for n in (1, 2, 3)
] + [
    H("c12::batch_add_p31_n2", "C12.K.batch_add.p31.n2",
      "batch_add with 2 live schedule points equals the textbook affine group law on a second toy curve",
      ["curves/src/msm.rs::batch_add"], "every point of y^2 = x^3 + 3 over F_31 (43 points)", "batch_add:group-law:p31", tiers=("thorough",),
      est=60, timeout=1200, flags=["--no-assertion-reach-checks"]),
]


def check(run):
    run.bounds.append("K/C12: window sizes 1..=16, every window index the two MSM loops can pass, ALL scalar bytes; telescoping for c in %s" % (TELE_C,))
    run.outside += [
        "K/C12: window-size selection `ln(n).ceil()` and the thread chunking of msm_parallel are inlined in generic functions (no callable helper; f64 ln is not modelled by CBMC)",
        "K/C12: batch_add / Schedule are decided on TOY curves (y^2=x^3+2 over F_13, y^2=x^3+3 over F_31; odd group order, so no point with y=0: the code divides by 2y). "
        "The code is generic in C: CurveAffine and only uses C::Base field operations, so genericity is what transfers the statement to BLS12-381; the toy field is the bound. "
        "Preconditions taken from the callers: scheduled buckets are non-identity and pairwise distinct within a batch, bases are never the identity",
        "K/C12: Schedule::add / execute / contains around batch_add: harnesses c12::schedule_p13_* exist (hook H7 VerifSchedule) but CBMC's symbolic execution does not "
        "constant-fold the scheduler state through the heap and gives no result in 15 min; BucketAffine::assign (identity bucket takes the point) is therefore not covered either",
        "K/C12: the flush-when-full path of Schedule::add (64 pending entries need 64 distinct non-empty buckets), the Jacobian `Bucket` accumulation and the window summation of msm_best (projective group ops)",
        "K/C12: `bitreverse` is a nested fn of best_fft (not callable; the FFT as a linear map is engine S's obligation); the serial bucket accumulation of msm_serial (group arithmetic)",
        "K/C12: the full 256-bit telescoping identity follows from the per-window definition (proved for all scalars) by the algebra written in c12.rs; it is machine-checked here for 32-bit scalars only",
    ]
    kani.run_harnesses(run, CRATE, SPECS)


def replay(payload):
    return kani.replay(payload)
