"""C06 (engine C, foreign part "F") — emulated-curve ECC chip at gate level: secp256k1 and BLS12-381 G1
emulated over the BLS12-381 scalar field (circuits/src/ecc/foreign).

Instance layout (harness engines/extract/src/foreign_ecc.rs): a point is exposed as
(x limbs, y limbs, is_id); inputs first, outputs after, in call order. val(limbs) = 1 + sum base^i limb_i,
res(.) = val(.) mod m (m = emulated base-field modulus), MM = product of residues (uninterpreted with
field lemmas, csmt.Enc.MM).

What is decided per operation (vf/ffecc.py documents the per-gate-group part):
  (G) one obligation per conditional foreign-field gate group and reachable value of its condition cell:
      chain links A-E + the lifted polynomial is the textbook identity over the group's own limb vectors;
  (S) the operation's obligation: Sys + the groups' residue-form hypotheses => the specification below for
      all assignments. The specification names the chip's own lambda vector L (located from the groups:
      existentially quantified, any vector for which the identities are provable is acceptable) and states
      the affine identities  s*qy - py = L*(qx - px),  x1 + x2 + x3 = L^2,  3 px^2 = 2 py L,
      y^2 = x^3 + b  on residues, in expanded form (L*qx - L*px rather than L*(qx - px))."""
import random
from vf.cspec import *
from vf import csmt, ffecc

P = csmt.P_BLS
CURVES = {
    "k256": dict(order=0xfffffffffffffffffffffffffffffffebaaedce6af48a03bbfd25e8cd0364141),
    "bls": dict(order=0x73eda753299d7d483339d80809a1d80553bda402fffe5bfeffffffff00000001),
}
# NOTE: the group orders above only serve to pick admissible honest inputs (scalars k for k*G); every
# quantity used in an obligation (modulus, base, limbs, auxiliary moduli, curve constants a and b) is
# read from the extractor's output, i.e. from the real parameters of the current tree.


def N(e):
    return int(e.extra["nb_limbs"])


def M(e):
    return int(e.extra["emulated_modulus"], 16)


def pts(e, atoms):
    """split exposed atoms into points (x limbs, y limbs, is_id)"""
    n = N(e)
    w = 2 * n + 1
    return [(atoms[i:i + n], atoms[i + n:i + 2 * n], atoms[i + 2 * n]) for i in range(0, len(atoms) - w + 1, w)]


def res(e, v):
    return ffecc.res(e, v)


def wf(e, limbs):
    n, lb, m = N(e), int(e.extra["log2_base"]), M(e)
    msl = m.bit_length() - (n - 1) * lb
    return AND(*[lt(l, 1 << (lb if i < n - 1 else msl)) for i, l in enumerate(limbs)])


def cubic(e, x, y):
    """y^2 = x^3 + a*x + b on residues"""
    m = M(e)
    a, b = ffecc.curve_ab(e)
    rx, ry = res(e, x), res(e, y)
    x3 = e.MM(rx, e.MM(rx, rx, m), m)
    rhs = ffecc.lincomb(e, [(1, x3)] + ([(a, rx)] if a else []), b)
    return eq(e.MM(ry, ry, m), rhs)


def the_lambda(e, kind, s=None, **known):
    """the chip's own lambda vector of the group of `kind` wired to the given vectors (None if there is none)"""
    hits = ffecc.locate(e, kind, s=s, **{k: tuple(v) for k, v in known.items()})
    if not hits:
        # without the group there is no lambda to name: the specification cannot be stated ("false" below makes
        # the obligation fail; it is then reported as INCONCLUSIVE with this reason, never as a violation)
        ob = getattr(e, "fecc_ob", None)
        if ob is not None and getattr(e, "fecc_chain_ok", False):
            ob._no_lambda = f"no {kind} gate group wired to the exposed operand limbs was found (the chip's lambda cannot be located)"
        return None
    return list(hits[0][1]["L"])


def chord(e, Pt, Qt, Rt, guards=None):
    """exists L (the chip's): qy - py = L(qx - px), px + qx + rx = L^2, -ry - py = L(rx - px).
    `guards` (list) receives the enabling conditions of the three located gate groups."""
    L = the_lambda(e, "slope", s=1, px=Pt[0], py=Pt[1], qx=Qt[0], qy=Qt[1])
    if L is None:
        return "false"
    if guards is not None:
        guards += [ffecc.guard_of(e, "slope", s=1, L=L, px=Pt[0], py=Pt[1], qx=Qt[0], qy=Qt[1]),
                   ffecc.guard_of(e, "lambda_squared", L=L, x1=Pt[0], x2=Qt[0], x3=Rt[0]),
                   ffecc.guard_of(e, "slope", s=-1, L=L, px=Pt[0], py=Pt[1], qx=Rt[0], qy=Rt[1])]
    return AND(ffecc.identity(e, "slope", dict(L=L, px=Pt[0], py=Pt[1], qx=Qt[0], qy=Qt[1]), 1),
               ffecc.identity(e, "lambda_squared", dict(L=L, x1=Pt[0], x2=Qt[0], x3=Rt[0])),
               ffecc.identity(e, "slope", dict(L=L, px=Pt[0], py=Pt[1], qx=Rt[0], qy=Rt[1]), -1))


def tangent(e, Pt, Rt, guards=None):
    """exists L (the chip's): 3 px^2 + a = 2 py L, 2 px + rx = L^2, -ry - py = L(rx - px)"""
    L = the_lambda(e, "tangent", px=Pt[0], py=Pt[1])
    if L is None:
        return "false"
    if guards is not None:
        guards += [ffecc.guard_of(e, "tangent", L=L, px=Pt[0], py=Pt[1]),
                   ffecc.guard_of(e, "lambda_squared", L=L, x1=Pt[0], x2=Pt[0], x3=Rt[0]),
                   ffecc.guard_of(e, "slope", s=-1, L=L, px=Pt[0], py=Pt[1], qx=Rt[0], qy=Rt[1])]
    return AND(ffecc.identity(e, "tangent", dict(L=L, px=Pt[0], py=Pt[1])),
               ffecc.identity(e, "lambda_squared", dict(L=L, x1=Pt[0], x2=Pt[0], x3=Rt[0])),
               ffecc.identity(e, "slope", dict(L=L, px=Pt[0], py=Pt[1], qx=Rt[0], qy=Rt[1]), -1))


def cut(e, parts, pre=()):
    """the specification is the conjunction of `parts` [(label, Bool)]; each part (and before them the
    auxiliary facts `pre`) the solver proves from the hypotheses is asserted as a lemma, so the main query
    of the operation only has to combine them (ffecc.prove_cuts)."""
    e.__dict__.setdefault("_cut_log", []).append([lbl for lbl, _ in parts])
    missing = ffecc.prove_cuts(e, [x for x in list(pre) + list(parts) if x[1] is not None], timeout=CUT_TIMEOUT[0])
    ob = getattr(e, "fecc_ob", None)
    for lbl, f in parts:
        if lbl in missing and ob is not None and hasattr(e, "s") and not getattr(ob, "_forged", None) \
                and getattr(e, "fecc_chain_ok", False) and not getattr(ob, "_no_lambda", None):
            # a part of the specification is not implied: look for a forged assignment (honest run with the
            # outputs concerned and their neighbourhood left to the solver), replayed on the real MockProver
            try:
                ob._forged = ffecc.search_forged(e, f, lbl)
            except Exception as ex:   # the search is best effort; decide() still runs its own
                ob._forged = None
                if ffecc.os.environ.get("FECC_DEBUG"):
                    print("   fecc forged-assignment search failed:", repr(ex))
    if ob is not None and getattr(ob, "_forged", None):
        # a replayed forged assignment is in hand: let decide() stop at once (its vacuity twin fails on "false",
        # which it reports as INCONCLUSIVE; check() below turns the obligation into the VIOLATION with the replay)
        return "false"
    return AND(*[f for _, f in parts])


CUT_TIMEOUT = [60]


def enabled(gs):
    gs = [g for g in gs if g and g != "true"]
    return AND(*sorted(set(gs))) if gs else None


def same_coords(e, A, B):
    return AND(eq(res(e, A[0]), res(e, B[0])), eq(res(e, A[1]), res(e, B[1])))


def same_point(e, A, B):
    """equality of points: identity flags agree and, unless both are the identity, so do the coordinates"""
    return AND(eq(A[2], B[2]), OR(eq(A[2], 1), same_coords(e, A, B)))


# ---- specifications -------------------------------------------------------------------------------------
def S_assign(e, I, O):
    (x, y, i), = pts(e, I)
    return AND(isbit(i), wf(e, x), wf(e, y), IMP(eq(i, 0), cubic(e, x, y)))


def S_from_coords(e, I, O):
    n = N(e)
    x, y = I[:n], I[n:2 * n]
    (ox, oy, oi), = pts(e, O)
    return AND(*[eq(a, b) for a, b in zip(ox + oy, x + y)], eq(oi, 0), cubic(e, x, y))


def S_double(e, I, O):
    Pt, = pts(e, I)
    Rt, = pts(e, O)
    gs = []
    body = tangent(e, Pt, Rt, gs)
    return cut(e, [("flags+wf", AND(isbit(Rt[2]), eq(Rt[2], Pt[2]), wf(e, Rt[0]), wf(e, Rt[1]))),
                   ("tangent-law", IMP(eq(Pt[2], 0), body))],
               pre=[("gates-enabled", IMP(eq(Pt[2], 0), enabled(gs)) if enabled(gs) else None)])


def S_add(e, I, O):
    Pt, Qt = pts(e, I)
    Rt, = pts(e, O)
    m = M(e)
    opposite = AND(eq(res(e, Pt[0]), res(e, Qt[0])), eq(e.addmod(res(e, Pt[1]), res(e, Qt[1]), m), 0))
    none = AND(eq(Pt[2], 0), eq(Qt[2], 0), eq(Rt[2], 0))
    dbl_case = AND(none, same_coords(e, Pt, Qt))
    add_case = AND(none, ne(res(e, Pt[0]), res(e, Qt[0])))
    g1, g2 = [], []
    dbl = tangent(e, Pt, Rt, g1)
    add = chord(e, Pt, Qt, Rt, g2)
    pre = [("double-gates-enabled", IMP(dbl_case, enabled(g1)) if enabled(g1) else None),
           ("chord-gates-enabled", IMP(add_case, enabled(g2)) if enabled(g2) else None)]
    parts = [("flags+wf", AND(isbit(Rt[2]), wf(e, Rt[0]), wf(e, Rt[1]))),
             ("p-identity", IMP(eq(Pt[2], 1), AND(eq(Rt[2], Qt[2]), same_coords(e, Rt, Qt)))),
             ("q-identity", IMP(eq(Qt[2], 1), AND(eq(Rt[2], Pt[2]), same_coords(e, Rt, Pt)))),
             ("opposite", IMP(AND(eq(Pt[2], 0), eq(Qt[2], 0)), eq(Rt[2], b2i(opposite)))),
             ("tangent-law", IMP(dbl_case, dbl)),
             ("chord-law", IMP(add_case, add))]
    return cut(e, parts, pre)


def S_incomplete_add(e, I, O):
    """private helper (hook H11): condition bit fixed to 1, so the chord identities hold unconditionally; the
    result carries p's identity flag (the caller guarantees p, q, r are not the identity and p != +-q)"""
    Pt, Qt = pts(e, I)
    Rt, = pts(e, O)
    gs = []
    body = chord(e, Pt, Qt, Rt, gs)
    return cut(e, [("flags+wf", AND(isbit(Rt[2]), eq(Rt[2], Pt[2]), wf(e, Rt[0]), wf(e, Rt[1]))),
                   ("chord-law", body)],
               pre=[("gates-enabled", enabled(gs))])


def S_assert_different_x(e, I, O):
    """private helper (hook H11), soundness: an accepted pair of well-formed x coordinates represents different
    residues (the helper is documented as sound but incomplete)"""
    Pt, Qt = pts(e, I)
    # definitional hints (fresh variables defined by linear equations, always satisfiable): the integer difference
    # D of the two limb sums and the quotient T of "base^i -> base^i mod p" in the native linear combination:
    #   sum base^i d_i  =  sum (base^i mod p) d_i  +  p * T      (ground identity, t_i = (base^i - base^i mod p) / p)
    # Naming T spares the solver the search for seven ~140-bit multipliers (same lesson as the Montgomery quotient).
    if hasattr(e, "s"):
        base = 1 << int(e.extra["log2_base"])
        terms = [(base ** i, a, b) for i, (a, b) in enumerate(zip(Pt[0], Qt[0]))]
        D = e.fresh("hintD")
        T = e.fresh("hintT")
        e.lines.append(f"(assert (= {D} (+ 0 " + " ".join(f"(* {w} (- {A(a)} {A(b)}))" for w, a, b in terms) + ")))")
        e.lines.append(f"(assert (= {T} (+ 0 " + " ".join(f"(* {(w - w % P) // P} (- {A(a)} {A(b)}))" for w, a, b in terms) + ")))")
        # D - (res px - res qx) is a multiple of m by the definition of the residues: name the multiple
        K = e.fresh("hintK")
        e.lines.append(f"(assert (= {D} (+ (- {A(res(e, Pt[0]))} {A(res(e, Qt[0]))}) (* {M(e)} {K}))))")
    return ne(res(e, Pt[0]), res(e, Qt[0]))


def S_negate(e, I, O):
    Pt, = pts(e, I)
    Rt, = pts(e, O)
    return AND(*[eq(a, b) for a, b in zip(Rt[0], Pt[0])], eq(Rt[2], Pt[2]), wf(e, Rt[1]),
               eq(e.addmod(res(e, Rt[1]), res(e, Pt[1]), M(e)), 0))


def S_select(e, I, O):
    c = I[0]
    Pt, Qt = pts(e, I[1:])
    Rt, = pts(e, O)
    flat = lambda T: list(T[0]) + list(T[1]) + [T[2]]
    return AND(isbit(c), *[eq(r, ITE(eq(c, 1), a, b)) for r, a, b in zip(flat(Rt), flat(Pt), flat(Qt))])


def S_is_equal(e, I, O):
    Pt, Qt = pts(e, I)
    sp = same_point(e, Pt, Qt)
    return cut(e, [("bit", isbit(O[0])), ("only-if", IMP(eq(O[0], 1), sp)), ("if", IMP(sp, eq(O[0], 1)))])


def S_assert_equal(e, I, O):
    Pt, Qt = pts(e, I)
    return same_point(e, Pt, Qt)


def S_assert_not_equal(e, I, O):
    Pt, Qt = pts(e, I)
    return NOT(same_point(e, Pt, Qt))


def S_cond_assert_equal(e, I, O):
    Pt, Qt = pts(e, I[1:])
    return AND(isbit(I[0]), IMP(eq(I[0], 1), same_point(e, Pt, Qt)))


def S_assert_zero(e, I, O):
    return eq(pts(e, I)[0][2], 1)


def S_assert_non_zero(e, I, O):
    return eq(pts(e, I)[0][2], 0)


def S_pi(e, I, O):
    """the chip's public-input form of a point: limbs of x (first one carrying base*is_id) and of y,
    well-formed, representing the same residues"""
    Pt, = pts(e, I)
    n, base = N(e), 1 << int(e.extra["log2_base"])
    x0 = e.define_mod([(1, O[0]), (-base, Pt[2])])
    ox, oy = [x0] + list(O[1:n]), list(O[n:2 * n])
    return AND(isbit(Pt[2]), wf(e, ox), wf(e, oy), eq(res(e, ox), res(e, Pt[0])), eq(res(e, oy), res(e, Pt[1])))


def with_cut(spec):
    """the whole specification as one lemma cut (tried on slices of the hypotheses before the full query).
    Also asks the solver whether the HONEST run itself (accepted by the real MockProver) violates the
    specification: cengine.decide reports that situation as a failed vacuity twin; the part turns it into a
    violation whose replay is the honest run (see check / replay below)."""
    def sp(e, I, O):
        n0 = len(getattr(e, "_cut_log", []))
        pre_lines = len(e.lines)
        f = spec(e, I, O)
        if len(getattr(e, "_cut_log", [])) == n0:      # the specification did not cut itself
            f = cut(e, [("spec", f)])
        ob = getattr(e, "fecc_ob", None)
        if ob is not None and hasattr(e, "s") and getattr(e, "fecc_chain_ok", False) and not getattr(ob, "_no_lambda", None):
            try:
                from vf import solvers
                honest = e.s.honest_assign()
                hon = e.exact_atoms({n_: honest.get(c_, 0) for c_, n_ in e.vars.items()})
                pins = [f"(assert (= {n_} {v_}))" for n_, v_ in hon.items()]
                r1 = solvers.solve(e.text(pins + [f"(assert {f})"]), timeout=30)
                if r1.status == "unsat":
                    r2 = solvers.solve(e.text(pins), timeout=30)
                    ob.queries += 2
                    if r2.status == "sat":
                        iv = {c_: hex(honest.get(e.s.cls(c_), e.s.const.get(e.s.cls(c_), 0))) for c_ in e.s.ins + e.s.outs}
                        ob._honest_violates = iv
            except Exception:
                pass
        return f
    return sp


def entry(curve, op, spec, ins, alt=(), k=11, what=None):
    spec = with_cut(spec)
    return dict(op=op, spec=spec, ins=list(ins), params={"curve": curve}, alt=[list(a) for a in alt], k=k, ff=True,
                what=what, functions=[f"ecc::foreign::ForeignEccChip::{op}", "ecc::foreign::gates"])


def family(tier, seed, only_curves=None):
    rnd = random.Random(6100 + seed)
    E = []
    curves = ["k256"] if tier == "quick" else ["k256", "bls"]
    for c in curves:
        if only_curves and c not in only_curves:
            continue
        q = CURVES[c]["order"]
        r = lambda: rnd.randrange(2, q - 1)
        a, b = r(), r()
        E += [
            entry(c, "assign", S_assign, [a], alt=[[0], [1], [q - 1]]),
            entry(c, "point_from_coordinates", S_from_coords, [a], alt=[[1], [q - 1]]),
            entry(c, "double", S_double, [a], alt=[[0], [1], [q - 1]]),
            entry(c, "add", S_add, [a, b], alt=[[a, a], [a, q - a], [0, a], [a, 0], [0, 0], [1, 2]], k=11),
            entry(c, "negate", S_negate, [a], alt=[[0], [1]]),
            entry(c, "select", S_select, [1, a, b], alt=[[0, a, b], [1, 0, a], [0, a, 0]]),
            entry(c, "is_equal", S_is_equal, [a, a], alt=[[a, b], [0, 0], [a, q - a], [0, a]]),
            entry(c, "assert_equal", S_assert_equal, [a, a], alt=[[0, 0]]),
            entry(c, "assert_not_equal", S_assert_not_equal, [a, b], alt=[[0, a], [a, q - a]]),
            entry(c, "cond_assert_equal", S_cond_assert_equal, [1, a, a], alt=[[0, a, b], [1, 0, 0], [0, 0, a]]),
            entry(c, "assert_zero", S_assert_zero, [0]),
            entry(c, "assert_non_zero", S_assert_non_zero, [a], alt=[[1]]),
            entry(c, "pi", S_pi, [a], alt=[[0], [1]]),
            entry(c, "incomplete_add", S_incomplete_add, [a, b], alt=[[1, 2], [b, a]]),
        ]
        if c == "k256":
            # BLS12-381 (base^5, base^6 exceed the native modulus): the query did not finish in 600 s even with
            # the quotient hints; listed in run.outside
            E.append(entry(c, "assert_different_x", S_assert_different_x, [a, b], alt=[[1, 2]]))
    return E


def check(run):
    from vf import cengine, core
    t = core.tier()
    ents = family(t, core.seed())
    ffecc.RUN = run
    ffecc.install()
    CUT_TIMEOUT[0] = 60 if t == "quick" else 300
    run.assumptions += [
        "fecc: constraint structure extracted at one admissible witness per (curve, operation); C09 assumed, spot-checked on the alternative inputs (k*G incl. the identity, P = Q, P = -Q)",
        "fecc: conditional foreign-field gate groups are decided per reachable value of their condition cell (solver: the system confines it to {0, 1, -1}); for each value the five-link foreign-field chain of C05 is run on the substituted group; the comparison of the lifted polynomial with the textbook identity is a ground coefficient comparison modulo the emulated modulus",
    ]
    run.outside += [
        "fecc: that the identities  s*qy - py = L(qx - px),  x1 + x2 + x3 = L^2,  3 px^2 = 2 py L,  y^2 = x^3 + b  ARE the affine chord/tangent law of the curve group (and that the chip's case split on identity flags / x1 = x2 covers the group law, incl. the absence of points of order 2 and 3) is textbook mathematics outside the check",
        "fecc: scalar multiplication (mul_by_constant, mul_by_u128, msm, windowed_msm, GLV split, k_out_of_n / multi_select dynamic lookups), hash-to-curve and subgroup checks (assert_in_bls12_381_subgroup) are not decided; of the private helpers they are built from, incomplete_add and incomplete_assert_different_x are decided in isolation (hook H11)",
        "fecc: incomplete_assert_different_x for BLS12-381 G1 (limb weights base^5, base^6 exceed the native modulus; the soundness query did not finish in 600 s): decided for secp256k1 only",
        "fecc: completeness beyond the concrete honest runs",
    ]
    run.bounds.append(f"fecc tier={t}: {len(ents)} (curve, operation) shapes of the foreign ECC chip; curves {sorted(set(e_['params']['curve'] for e_ in ents))} emulated over the BLS12-381 scalar field; k=11")
    run.translator_validation.append("fecc: every extracted system is validated on the honest run (exact arithmetic vs MockProver::verify); the role search of ffecc is validated by the vacuity twin (honest assignment satisfies encoding + hypotheses + specification)")
    for en in ents:
        ffecc.ALT[(en["op"], en["params"]["curve"])] = en["alt"]
    n_before = len(run.obs)
    cengine.run_family(run, "fecc", ents, timeout=90 if t == "quick" else 600, only=getattr(run, "only", None), workers=6)
    # the honest run (accepted by the real MockProver) violates the specification: a violation whose replay is
    # the honest run itself. decide() reports it as a failed vacuity twin.
    by_id = {f"fecc/{en['op']}[{cengine.pstr(en['params'])}]": en for en in ents}
    for ob in run.obs[n_before:]:
        fg = getattr(ob, "_forged", None)
        if fg and ob.status == core.INCONCLUSIVE:
            path = run.write_replay(ob, dict(kind="forged-assignment", cx=fg["cx"], overrides=fg["overrides"], instance=fg["instance"],
                                             note=f"real MockProver::verify() accepts this assignment (honest run with the listed cells overridden) although the instance violates the part '{fg['part']}' of the operation's specification"))
            ob.set(core.VIOLATION, f"{ob.id}: the real MockProver accepts a forged assignment whose instance {fg['instance']} violates the specification (part '{fg['part']}')", replay=path)
            continue
        if getattr(ob, "_chain_fail", None) and ob.status == core.INCONCLUSIVE and "chain failed" not in ob.detail:
            ob.set(core.INCONCLUSIVE, "foreign-field chain failed: " + ob._chain_fail + " (and no forged assignment was found); " + ob.detail[:200])
            continue
        if getattr(ob, "_no_lambda", None) and ob.status in (core.INCONCLUSIVE, core.VIOLATION) and "honest" not in (ob.key or ""):
            ob.set(core.INCONCLUSIVE, ob._no_lambda + "; " + ob.detail[:300])
            continue
        iv = getattr(ob, "_honest_violates", None)
        if iv and ob.status == core.INCONCLUSIVE and "vacuity twin" in ob.detail and ob.id in by_id:
            en = by_id[ob.id]
            ob.key = ob.key + ":honest-output-violates-spec"
            path = run.write_replay(ob, dict(kind="honest-output-violates-spec", engine_part="F", instance=iv,
                                             cx=cengine.cx_args("fecc", en["op"], en["params"], en["ins"], en["k"]),
                                             note="the real chip's own witness generation produces this (inputs, outputs) instance, the real MockProver accepts it, and it violates the operation's specification (solver: honest values + encoding + specification is unsat, honest values + encoding is sat)"))
            ob.set(core.VIOLATION, f"{en['op']}: the honest run of the real chip is accepted by the real MockProver with instance {iv}, which violates the specification", replay=path)


def replay(payload):
    """replay of `honest-output-violates-spec`: re-run the real synthesis + MockProver on the recorded inputs;
    reproduces iff the honest witness is accepted and the instance is the recorded one"""
    if payload.get("kind") != "honest-output-violates-spec":
        return None
    import json, subprocess
    from vf import cengine
    cengine.build()
    p = subprocess.run([cengine.CX] + payload["cx"], capture_output=True, text=True)
    if p.returncode != 0:
        print("extractor failed:", p.stderr[-300:])
        return 0
    d = json.loads(p.stdout)
    inst = {f"i1_{x['row']}": int(x["value"], 16) for x in d["io"]}
    same = all(inst.get(c_) == int(v_, 16) for c_, v_ in payload["instance"].items())
    print("honest_verify:", d["honest_verify"], "instance as recorded:", same)
    return 1 if d["honest_verify"] and same else 0
