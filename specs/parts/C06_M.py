"""C06 (part M, engine C) — the ladder rows of the native Edwards chip: `EccChip::mul` (msm,
msm_by_bounded_scalars, mul_by_constant, clear_cofactor, the cofactor-clearing half of assign /
point_from_coordinates).

Two obligations per ladder shape, both over the constraint system extracted from the real chip
(vf/edladder.py):
  * functional, gate level: the rows imply the textbook denominator-cleared double-and-add recurrence along
    the scalar's bits, the intermediate points being witnessed by the ladder's own cells and each of them
    determined by the previous one (no auxiliary cell occurs in the specification);
  * determinism (2-safety), no arithmetic specification: the operation laid out twice on the same assigned
    inputs yields equal results in every accepted assignment (where no conditional-add denominator
    vanishes). A forged assignment found here is one accepted circuit with two different results for one
    input: one of them violates ANY functional specification.
NOT decided: that the recurrence computes s*P in the group (group law), the full-width ladders (252 / 255
bits), windowed MSM (foreign chip), hash-to-curve."""
import random
from vf import core, cengine, edladder as L

R_JUBJUB = 0x0e7db4ea6533afa906673b0101343b00a6682093ccc81082d0970e5ed6f72cb7
FN_MUL = ["EccChip::mul", "EccChip::add_then_double", "EccChip::cond_add", "EccConfig::create_double_gate", "EccConfig::create_cond_add_gate"]


def ent(op, spec, ins, params, what, functions, alt=(), timeout=None, k=11):
    return dict(op=op, spec=spec, ins=list(ins), params=dict(params), alt=[list(a) for a in alt], k=k, what=what,
                functions=functions, timeout=timeout)


WHAT_F = "the ladder rows emitted by {} imply the textbook denominator-cleared double-and-add recurrence along the scalar's bits (intermediate points = the ladder's cells, each determined by the previous one)"
WHAT_D = "{} laid out twice on the same assigned inputs: every accepted assignment has equal results (2-safety; no arithmetic specification; conditional-add denominators assumed non-zero)"


def family(tier, seed):
    rnd = random.Random(6100 + seed)
    r = lambda: rnd.randrange(2, R_JUBJUB)
    a, a2, by = r(), r(), rnd.randrange(1, 256)
    quick = tier == "quick"
    tmo = 30 if quick else 600
    E = []
    consts = [2, 3, 5, 8] if quick else [2, 3, 4, 5, 6, 7, 8, 11, 13, 0xa5]
    for c in consts:
        E.append(ent("mul_const", L.S_mul_const(c), [a], {"c": c, "free": 1}, WHAT_F.format(f"mul_by_constant({c}, P)" + (" = clear_cofactor's ladder" if c == 8 else "")),
                     FN_MUL + ["EccChip::mul_by_constant", "EccChip::msm"] + (["EccChip::clear_cofactor"] if c == 8 else []), alt=[[a2], [1], [0]], timeout=tmo))
    # the cofactor-clearing half of point assignment (Q witnessed on the curve, P = 8Q exposed)
    E.append(ent("assign", L.S_assign_cofactor, [a], {"shape": "cofactor"},
                 "assign: the exposed point is 2*2*2*Q (textbook doubling three times) for the witnessed point Q, which satisfies the curve equation",
                 FN_MUL + ["EccChip::assign", "EccChip::clear_cofactor", "EccConfig::create_membership_gate"], alt=[[a2], [1], [0]], timeout=tmo))
    E.append(ent("point_from_coordinates", L.S_pfc_cofactor, [a], {"shape": "cofactor"},
                 "point_from_coordinates: the result has the given coordinates and is 2*2*2*Q for a witnessed curve point Q",
                 FN_MUL + ["EccChip::point_from_coordinates", "EccChip::assign", "EccChip::clear_cofactor"], alt=[[a2], [1]], timeout=tmo))
    vias = ["mul"] if quick else ["mul", "msm", "bounded"]
    for via in vias:
        E.append(ent("mul_bytes", L.S_mul_bytes(1), [by, a], {"nbytes": 1, "free": 1, "via": via},
                     WHAT_F.format({"mul": "mul", "msm": "msm", "bounded": "msm_by_bounded_scalars"}[via] + " with an 8-bit variable scalar (scalar_from_le_bytes)"),
                     FN_MUL + ["EccChip::scalar_from_le_bytes"] + {"mul": [], "msm": ["EccChip::msm"], "bounded": ["EccInstructions::msm_by_bounded_scalars"]}[via],
                     alt=[[0, a], [255, a2], [1, 0]], timeout=tmo))
    E.append(ent("msm_const2", L.S_msm_const2(2, 3), [a, a2], {"c": 2, "c1": 3, "free": 1},
                 "msm([2, 3], [P0, P1]): two ladders and the textbook addition of their results", FN_MUL + ["EccChip::msm", "EccChip::add"], alt=[[a2, a], [0, 1]], timeout=tmo))
    # determinism
    for c in consts:
        E.append(ent("mul_const", L.S_det([(0, 1)]), [a], {"c": c, "free": 1, "twice": 1}, WHAT_D.format(f"mul_by_constant({c}, P)"),
                     FN_MUL + ["EccChip::mul_by_constant"] + (["EccChip::clear_cofactor"] if c == 8 else []), timeout=tmo))
    E.append(ent("mul_bytes", L.S_det([(0, 1)]), [by, a], {"nbytes": 1, "free": 1, "via": "mul", "twice": 1}, WHAT_D.format("mul with an 8-bit variable scalar"),
                 FN_MUL + ["EccChip::scalar_from_le_bytes"], timeout=tmo))
    if not quick:
        E.append(ent("mul_bytes", L.S_mul_bytes(2), [by, (by * 7 + 3) % 256, a], {"nbytes": 2, "free": 1, "via": "mul"},
                     WHAT_F.format("mul with a 16-bit variable scalar"), FN_MUL + ["EccChip::scalar_from_le_bytes"], alt=[[0, 0, a], [255, 255, a2]], timeout=tmo))
        E.append(ent("mul_bytes", L.S_det([(0, 1)]), [by, (by * 7 + 3) % 256, a], {"nbytes": 2, "free": 1, "via": "mul", "twice": 1}, WHAT_D.format("mul with a 16-bit variable scalar"),
                     FN_MUL + ["EccChip::scalar_from_le_bytes"], timeout=tmo))
        E.append(ent("mul_bytes", L.S_mul_bytes(4), [by, (by * 7 + 3) % 256, 1, 0x80, a], {"nbytes": 4, "free": 1, "via": "mul"},
                     WHAT_F.format("mul with a 32-bit variable scalar"), FN_MUL + ["EccChip::scalar_from_le_bytes"], timeout=tmo))
        E.append(ent("msm_const2", L.S_det([(0, 3), (1, 4), (2, 5)]), [a, a2], {"c": 2, "c1": 3, "free": 1, "twice": 1}, WHAT_D.format("msm([2, 3], [P0, P1])"),
                     FN_MUL + ["EccChip::msm", "EccChip::add"], timeout=tmo))
    return E


def check(run):
    t = core.tier()
    ents = family(t, core.seed())
    run.assumptions += [
        "ladder rows: the cells holding the intermediate points are located by the layout documented in the chip (doc comments of cond_add / add_then_double / create_double_gate); the extracted gate polynomials are compared with that layout, a mismatch is INCONCLUSIVE",
        "determinism of the doubling rows uses: a product with an even multiset of cells is a square and a square differs from a quadratic non-residue (1/d and -1/d are non-residues: Euler's criterion, evaluated on ground terms by the solvers in edladder/nonresidue)"]
    run.outside += [
        "native Edwards ladders: that the double-and-add recurrence equals s*P in the group (group law); the full-width ladders (252-bit `assign`ed scalars, 255-bit `convert`ed scalars: 2 x 254 degree-5 rows, not attempted as one query — every row is an instance of the two row shapes decided here, but the per-shape claim is for ladders of 2..8 rows (thorough: 16))",
        "determinism is claimed on accepted assignments where no conditional-add denominator 1 +- b*d*xq*yq*xs*ys vanishes (for curve points this is the completeness theorem of the twisted Edwards addition law with d a non-square: group-law mathematics)",
        "variable scalars shorter than 8 bits cannot be built through the chip's public interface (AssignedScalarOfNativeCurve has a private constructor; scalar_from_le_bytes yields 8n bits, assign 252, convert 255): 1..4-bit ladders are covered with CONSTANT bits (mul_by_constant), variable bits from 8 bits upwards",
        "windowed MSM of the foreign-curve chip, hash-to-curve, point compression"]
    run.bounds.append(f"part M tier={t}: {len(ents)} ladder shapes of the native Edwards chip, k=11")
    run.translator_validation.append("edladder: every ladder shape's honest run (real witness generation) satisfies the encoded system AND the recurrence with the documented cells as intermediate points (vacuity twin of each obligation); forged assignments are replayed on the real MockProver")
    L.NONRES_USED.clear()
    L.STATS.update(local_queries=0, local_proved=0, local_s=0.0)
    cengine.run_family(run, "edwards", ents, timeout=60 if t == "quick" else 600, only=getattr(run, "only", None), workers=6)
    # obligations the deciding query left open (abstract models that the engine's 8 refinement rounds do not make
    # exact): row-by-row search for a forged assignment, replayed on the real MockProver (can only find violations)
    byid = {}
    for en in ents:
        byid.setdefault(f"edwards/{en['op']}[{cengine.pstr(en['params'])}]", en)
    for ob in list(run.obs):
        if ob.status == core.INCONCLUSIVE and ob.id in byid:
            try:
                if L.forge(run, ob, "edwards", byid[ob.id]):
                    run.log(f"{ob.status:12s} {ob.id} (forged assignment found row by row) {ob.detail[:140]}")
            except Exception as ex:  # noqa
                run.log(f"  forge failed for {ob.id}: {ex!r}")
    run.extra["edladder"] = dict(L.STATS)
    run.log(f"edladder: row-local proofs {L.STATS['local_proved']}/{L.STATS['local_queries']} proved, {L.STATS['local_s']:.1f}s solver time")
    if L.NONRES_USED:
        L.nonresidue_obligation(run, L.NONRES_USED)
