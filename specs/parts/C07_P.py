"""C07 (engine C, part P) — variable-length SHA-256: PADDING and block-selection logic, NOT the compression function.

`VarLenSha256Gadget::varhash` = [scheduling of conditional compressions over the buffer chunks] + final_block_len +
compute_padding (merge_chunks, insert_in_array) + two more compressions. This part decides the middle piece: with
the input vector created by the real `VectorGadget::assign` and ALL its cells symbolic, the constraint system the
real private helpers emit (hook H13, extractor family `sha256pad`) implies that the one or two 64-byte blocks handed
to the last compressions are the FIPS 180-4 section 5.1.1 padding of the message's last chunk - for every value
of the buffer bytes that are not payload (the unconstrained filler cells of the vector). One obligation per
concrete message length (case split); helper gadgets additionally for every field element as length / index.
Specifications: vf/shapad.py. Forged assignments are replayed on the real MockProver."""
from vf import core, shapad


def check(run):
    t = core.tier()
    only = getattr(run, "only", None)
    run.assumptions += [
        "sha256pad: the input vector is created by the real VectorGadget::assign as AssignedVector<F, AssignedByte, M, 64> (every buffer cell a range-checked byte, len in [0, M], payload placed as documented in circuits/src/vec/vector.rs: front padding 0 mod 64, back padding in [0, 64)); the last chunk buffer[M-64..M], len, and the results of the real final_block_len::<M>(len) are handed to the real compute_padding exactly as sha256_varlen does",
        "sha256pad: specification = FIPS 180-4 section 5.1.1 applied to the last chunk (vf/shapad.py padded_tail), case split on the concrete message length; when no extra block is needed the first of the two returned blocks is NOT specified (sha256_varlen discards the state computed from it: conditional_update_state with update = extra_block)",
        "sha256pad: constraint structure extracted at one admissible witness per length (C09 assumed; spot-checked: a second honest run with filler byte 0xff emits the same structure and is accepted)",
    ]
    run.outside += [
        "SHA-256 variable-length gadget: the compression function (block_from_bytes, message_schedule, compression_round, CompressionState::add) and therefore the digest itself; the scheduling loop of sha256_varlen (rounded_len, the `updating` flag, conditional_update_state / CompressionState::select over the chunks before the last one) is interleaved with the compressions inside one function and is not covered; that the first padding block is ignored when extra_block = 0 is part of that scheduling",
        "SHA-256 variable-length gadget: buffer sizes M other than 64, 128 (256 in the thorough tier); quick tier: the listed lengths only (thorough: every length 0..M for M = 64, 128)",
        "fixed-length Sha256Chip::pad / Sha512Chip / RipeMD160 padding: lengths are compile-time constants there and the helpers are private (no hook); no other variable-length hash gadget exists in circuits/src/hash besides Poseidon (C07_C) and SHA-256 (grep varlen|VarLen|varhash: poseidon_varlen.rs, sha256_varlen.rs only); Keccak/SHA3/BLAKE2b live in external crates",
    ]
    run.notes.append("Engine C / sha256pad: the real final_block_len, compute_padding, merge_chunks, insert_in_array of VarLenSha256Gadget (hook H13) on a vector assigned by the real VectorGadget; every cell symbolic; Sys => FIPS 180-4 5.1.1 padding per concrete length, decided by z3-new || cvc5 (encoder vecmap.EarlyZeroEnc).")
    J = shapad.run_all(run, only=only)
    Ms = sorted({j[3]["M"] for j in J if "M" in j[3]})
    run.bounds.append(f"sha256pad: tier={t}: buffer sizes M in {Ms}, " + "; ".join(
        f"M={M}: lengths {sorted(int(j[0].rsplit('=', 1)[1]) for j in J if j[3].get('M') == M and '/len=' in j[0])}" for M in Ms)
        + f"; merge_chunks / insert_in_array at L in {sorted({j[3]['L'] for j in J if 'L' in j[3]})} for every field element as len / idx; k={shapad.K}")
    run.translator_validation.append("sha256pad: per obligation the honest assignment of the real run satisfies the encoded system and the specification (vacuity twin) and every extracted row exactly; a model is re-evaluated with exact integer arithmetic and replayed on the real MockProver before it is reported")


def replay(payload):
    """re-execute a recorded counterexample against the real code; 1 = reproduces"""
    if payload.get("cx", [None])[0] != shapad.FAMILY:
        return None
    import json, subprocess, tempfile
    from vf import cengine
    cengine.build()
    kind = payload.get("kind")
    args = [cengine.CX] + payload["cx"]
    if payload.get("overrides"):
        with tempfile.NamedTemporaryFile("w", suffix=".json", delete=False) as f:
            json.dump(payload["overrides"], f)
        args.append(f"replay={f.name}")
    if kind == "keygen-structure":
        return None       # generic replayer
    p = subprocess.run(args, capture_output=True, text=True)
    if kind == "honest-panics":
        print("exit code:", p.returncode, p.stderr[-300:])
        return 1 if p.returncode != 0 else 0
    out = json.loads(p.stdout) if p.returncode == 0 else {"error": p.stderr[-500:]}
    if kind == "honest-rejected":
        print("honest_verify:", out.get("honest_verify"))
        return 1 if out.get("honest_verify") is False else 0
    if kind == "honest-output":
        io = {f"i1_{x['row']}": int(x["value"], 16) for x in out.get("io", [])}
        same = all(io.get(c) == int(v, 16) for c, v in payload.get("instance", {}).items())
        print("honest_verify:", out.get("honest_verify"), "same instance as recorded:", same)
        if payload["cx"][1] == "op=padding":
            print(shapad.explain_instance(payload["cx"], payload["instance"]))
        return 1 if (out.get("honest_verify") and same) else 0
    print("real MockProver verdict on the forged assignment:", out)
    inst = payload.get("instance")
    if inst and payload["cx"][1] == "op=padding":
        print(shapad.explain_instance(payload["cx"], inst))
    return 1 if out.get("accepted") else 0
