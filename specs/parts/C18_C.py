"""C18 (engine C part) — ZKIR: the circuit compiled from a one-operation program accepts exactly the
published values the operation's documented semantics prescribes.

Program shape: load inputs; publish inputs; op; publish outputs. The REAL off-circuit evaluator
(`ZkirRelation::public_inputs`) computes the instance that the REAL compiled circuit (MidnightCircuit)
must accept (honest run); the soundness obligation `Sys => published_out = sem(op)(published_in)` is
decided for all assignments. Failing evaluations (assertions, underflow, range) are the Dom conjunct."""
import json, os, random, hashlib
from vf import core, cengine, csmt
from vf.cspec import *

P = csmt.P_BLS
PROGDIR = os.path.join(core.BUILD, "zkir")


def T(t):
    if t == "native":
        return "Native"
    if t == "bool":
        return "Bool"
    if t[0] == "bytes":
        return {"Bytes": t[1]}
    if t[0] == "biguint":
        return {"BigUint": t[1]}
    raise KeyError(t)


def wit(t, v):
    if t == "native":
        return {"t": "native", "v": hex(v % P)}
    if t == "bool":
        return {"t": "bool", "v": str(int(v))}
    if t[0] == "bytes":
        return {"t": "bytes", "v": "0x" + bytes(v).hex()}
    if t[0] == "biguint":
        return {"t": "biguint", "v": hex(v)}
    raise KeyError(t)


def ncells(t):
    if t in ("native", "bool"):
        return 1
    if t[0] == "bytes":
        return t[1]
    if t[0] == "biguint":
        return None   # discovered from the run
    raise KeyError(t)


def program(op, in_types, values, nout=1):
    """load each input, publish them, apply op, publish outputs"""
    names = [f"x{i}" for i in range(len(in_types))]
    ins = []
    for n, t in zip(names, in_types):
        ins.append({"op": {"load": T(t)}, "outputs": [n]})
    outs = [f"z{i}" for i in range(nout)]
    prog = ins + [{"op": "publish", "inputs": names}]
    prog.append({"op": op, "inputs": names, "outputs": outs})
    if nout:
        prog.append({"op": "publish", "inputs": outs})
    w = {n: wit(t, v) for n, t, v in zip(names, in_types, values)}
    return {"instructions": prog, "witness": w}


def write_prog(p):
    os.makedirs(PROGDIR, exist_ok=True)
    s = json.dumps(p, sort_keys=True)
    path = os.path.join(PROGDIR, hashlib.sha256(s.encode()).hexdigest()[:16] + ".json")
    with open(path, "w") as f:
        f.write(s)
    return path


def ent(name, op, in_types, values, spec, nin, alt=(), nout=1):
    path = write_prog(program(op, in_types, values, nout))
    alts = [{"prog": write_prog(program(op, in_types, a, nout)), "nin": nin} for a in alt]
    return dict(op=name, spec=spec, ins=[], params={"prog": path, "nin": nin}, alt_params=alts, k=None, complete=True,
                functions=[f"zkir::{name}", "zkir::parser::incircuit", "zkir::parser::offcircuit"])


def lin(coeffs, const=0):
    return lambda e, I, O: eq(O[0], e.define_mod([(c, I[i]) for i, c in enumerate(coeffs)], const))


def S_inner(n):
    def spec(e, I, O):
        return eq(O[0], e.define_mod([(1, e.fmul(I[i], I[n + i])) for i in range(n)]))
    return spec


def S_into_bytes(n):
    def spec(e, I, O):
        assert len(O) == n
        if 256 ** n > csmt.P_BLS:
            return canonical_digits(e, I[0], list(O), 256, csmt.P_BLS)
        return AND(*[lt(o, 256) for o in O], eq(I[0], e.named_sum([(256 ** i, o) for i, o in enumerate(O)])))
    return spec


def S_from_bytes_native(n):
    def spec(e, I, O):
        dom = AND(*[lt(x, 256) for x in I[:n]])
        if n <= 31:
            return AND(dom, eq(O[0], e.named_sum([(256 ** i, x) for i, x in enumerate(I[:n])])))
        # 32 bytes and more: the integer is reduced modulo p on both sides (off-circuit `big_to_fe` reduces,
        # in-circuit `assigned_from_le_bytes` is a linear combination in the field); the documentation says
        # "the bytes are interpreted as an integer": non-canonical encodings are NOT rejected.
        tot = e.named_sum([(256 ** i, x) for i, x in enumerate(I[:n])])
        return AND(dom, f"(= {O[0]} (mod {tot} {csmt.P_BLS}))")
    return spec


def S_bytes_eq(n, neg=False, assertion=False):
    def spec(e, I, O):
        same = AND(*[eq(I[i], I[n + i]) for i in range(n)])
        dom = AND(*[lt(x, 256) for x in I[:2 * n]])
        if assertion:
            return AND(dom, NOT(same) if neg else same)
        return AND(dom, eq(O[0], b2i(same)))
    return spec


def family(tier, seed):
    rnd = random.Random(18000 + seed)
    r = lambda: rnd.randrange(P)
    E = []
    N, B = "native", "bool"
    E.append(ent("add", "add", [N, N], [r(), r()], lin([1, 1]), 2, alt=[[P - 1, 1], [0, 0]]))
    E.append(ent("sub", "sub", [N, N], [r(), r()], lin([1, -1]), 2, alt=[[0, 1], [0, 0]]))
    E.append(ent("mul", "mul", [N, N], [r(), r()], lambda e, I, O: eq(O[0], e.fmul(I[0], I[1])), 2, alt=[[0, 5], [P - 1, P - 1]]))
    E.append(ent("neg", "neg", [N], [r()], lin([-1]), 1, alt=[[0], [1]]))
    x = r()
    E.append(ent("is_equal[native]", "is_equal", [N, N], [x, x], lambda e, I, O: eq(O[0], b2i(eq(I[0], I[1]))), 2, alt=[[x, (x + 1) % P], [0, P - 1]]))
    E.append(ent("is_equal[bool]", "is_equal", [B, B], [1, 0], lambda e, I, O: AND(isbit(I[0]), isbit(I[1]), eq(O[0], b2i(eq(I[0], I[1])))), 2, alt=[[1, 1], [0, 0]]))
    E.append(ent("assert_equal[native]", "assert_equal", [N, N], [x, x], lambda e, I, O: eq(I[0], I[1]), 2, nout=0))
    E.append(ent("assert_not_equal[native]", "assert_not_equal", [N, N], [x, (x + 1) % P], lambda e, I, O: ne(I[0], I[1]), 2, nout=0, alt=[[0, P - 1]]))
    E.append(ent("assert_equal[bool]", "assert_equal", [B, B], [1, 1], lambda e, I, O: AND(isbit(I[0]), eq(I[0], I[1])), 2, nout=0, alt=[[0, 0]]))
    for n in ([1, 2, 3] if tier == "quick" else [1, 2, 3, 4, 6]):
        vals = [r() for _ in range(2 * n)]
        E.append(ent(f"inner_product[n={n}]", "inner_product", [N] * (2 * n), vals, S_inner(n), 2 * n))
    for n in ([1, 4, 31, 32] if tier == "quick" else [1, 2, 4, 16, 31, 32]):
        v = rnd.randrange(min(P, 1 << (8 * n)))
        E.append(ent(f"into_bytes[native,n={n}]", {"into_bytes": n}, [N], [v], S_into_bytes(n), 1, alt=[[0], [min(P, 1 << (8 * n)) - 1]]))
        bs = [rnd.randrange(256) for _ in range(n)]
        if n == 32:
            bs[31] = rnd.randrange(0x73)
        E.append(ent(f"from_bytes[native,n={n}]", {"from_bytes": "Native"}, [("bytes", n)], [bs], S_from_bytes_native(n), n, alt=[[[0] * n], [[255] * n if n < 32 else [0] * 31 + [0x73]]]))
    # n >= 32: byte strings longer than one native element (any packing of >= 32 bytes into a field element wraps; seeded C18-b)
    for n in ([1, 3, 32, 33] if tier == "quick" else [1, 3, 8, 31, 32, 33, 40, 64]):
        a = [rnd.randrange(256) for _ in range(n)]
        b = list(a)
        b[-1] ^= 1
        E.append(ent(f"is_equal[bytes,n={n}]", "is_equal", [("bytes", n), ("bytes", n)], [a, a], S_bytes_eq(n), 2 * n, alt=[[a, b]]))
        E.append(ent(f"assert_equal[bytes,n={n}]", "assert_equal", [("bytes", n), ("bytes", n)], [a, a], S_bytes_eq(n, assertion=True), 2 * n, nout=0))
        E.append(ent(f"assert_not_equal[bytes,n={n}]", "assert_not_equal", [("bytes", n), ("bytes", n)], [a, b], S_bytes_eq(n, neg=True, assertion=True), 2 * n, nout=0))
    return E


def check(run):
    t = core.tier()
    ents = family(t, core.seed())
    run.assumptions += ["C18/C: off-circuit and in-circuit agreement is decided per operation on one-instruction programs; composition through the shared memory map is not re-verified",
                        "the off-circuit evaluator is exercised concretely (its output is the instance of the honest run, which the real MockProver must accept); its agreement with the documented semantics for ALL inputs follows only where the circuit obligation pins the semantics (sound circuit + accepted honest run)"]
    run.outside += ["Jubjub point/scalar operations, Poseidon/SHA operations (C06/C07 limits), BigUint operations (part C18_B), random multi-instruction programs, JSON/bincode round trips (third-party codecs)"]
    run.bounds.append(f"C18/C tier={t}: {len(ents)} one-operation programs over Native/Bool/Bytes")
    # zkir circuits choose their own k (MidnightCircuit::min_k)
    for en in ents:
        en["k"] = 0
    # vecmap.EarlyZeroEnc: the is-zero lemma is applied before range inference, so the result bits of the
    # byte-wise equality gadgets are statically known bits when the AND chain is encoded
    # (is_equal[bytes,n=32]: 526 s -> 2 s; same facts, different order)
    from vf.vecmap import EarlyZeroEnc, use_encoder
    with use_encoder(EarlyZeroEnc):
        cengine.run_family(run, "zkir", ents, timeout=60 if t == "quick" else 600, only=getattr(run, "only", None), workers=6)
