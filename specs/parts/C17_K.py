"""C17 (keys survive serialisation unchanged), engine K part.

Harness crate: /verif/engines/kani/kmain, module src/h_roundtrip.rs (+ src/scenarios17.rs for the real-key level of
the native replay). Every harness executes the REAL functions named in `functions` on symbolic bytes / symbolic
descriptor values; stand-ins are listed per harness (and printed by Kani as `Stub:` lines, recorded in evidence).

Clauses decided here:
  * "writing then reading a verifying key yields an object that serialises to the same bytes": the REAL
    `VerifyingKey::write` / `VerifyingKey::read_from_cs` (+ `permutation::VerifyingKey::{write, read}`) at the toy
    field F_97 and a commitment scheme whose commitment has a symmetric, format-dependent wire format
    (Processed: 1 byte; RawBytes: 2 bytes with a check byte), toy constraint system with 1 fixed column and 1
    permutation column; ALL buffers of <= 11 bytes, per format:
      read_then_write   accepted b  =>  write(read(b)) == consumed prefix of b (same length, same bytes)
      write_then_read   accepted b with consumed prefix p (= write(read(b)) by the previous obligation)  =>
                        read(p) is accepted, consumes all of p, and yields the same k and the same commitments;
                        with read_then_write applied to p: write(read(write(vk))) == write(vk).
    Keys range over the image of read_from_cs (every k the reader lets through, every commitment value: covers);
    the toy keygen itself (keygen_vk) does not run under Kani (EvaluationDomain::new, rayon).
  * the same for `ZkStdLibArch::write` / `read`: all buffers of <= 18 bytes, and all 2^11 * 256 descriptor values.
  * "has the same transcript identity" (thorough tier): the REAL `VerifyingKey::from_parts` with Blake2b's `update`
    replaced by a recording oracle: everything `write` emits is in the hash input, in order.
  * side obligation (not in the statement of C17, reported as a defect of the serialisation API):
    `VerifyingKey::bytes_length(format)` == number of bytes `write(format)` emits.
A FAILED harness is a VIOLATION only if the native replay binary reproduces it on the solver's values (level 1 = the
harness body natively, real EvaluationDomain::new / from_parts / Blake2b; level 2 where it exists = the same
comparison on a real BLS12-381/KZG key, `replay --scenario vk-bytes-length|vk-roundtrip <format>`)."""
from vf import core, kani

CRATE = "engines/kani/kmain"
H = kani.H
PM, PP, ZL = "proofs/src/plonk/mod.rs", "proofs/src/plonk/permutation.rs", "zk_stdlib/src/lib.rs"
VK_STUBS = ["std::fmt::format", "std::hash::RandomState::new", "midnight_proofs::poly::EvaluationDomain::new (struct-assembling stand-in)",
            "midnight_proofs::plonk::VerifyingKey::from_parts (struct-assembling stand-in, keeps the k <= S assertion)"]
VK_FUNCS = [f"{PM}::VerifyingKey::write", f"{PM}::VerifyingKey::read_from_cs", f"{PP}::VerifyingKey::write", f"{PP}::VerifyingKey::read"]
VK_BOUND = ("all buffers of length 0..=11 (the longest key of the toy constraint system is 10 bytes), format {}; toy field F_97, "
            "commitments of 1 byte (Processed) / 2 bytes with check byte (RawBytes), decoder failures signalled out of band; "
            "constraint system: 1 fixed + 1 advice column, 1 permutation column, no gates")
T = {"quick": 900, "thorough": 1800}


def _vk(fmt_name, f):
    return [
        H(f"h_roundtrip::vk_read_then_write_{f}", f"C17.K.vk.read_then_write.{f}",
          f"for every buffer VerifyingKey::read_from_cs accepts ({fmt_name}), VerifyingKey::write of the decoded key emits exactly the consumed prefix of the buffer (same length, byte for byte)",
          VK_FUNCS, VK_BOUND.format(fmt_name), "vk-roundtrip:write-of-read", est=70, timeout=T, min_covers=2, stubs=VK_STUBS, replay=False),
        H(f"h_roundtrip::vk_write_then_read_{f}", f"C17.K.vk.write_then_read.{f}",
          f"for every key in the image of read_from_cs ({fmt_name}) the bytes write produces (the consumed prefix, by read_then_write) are accepted by read_from_cs, "
          "consumed entirely, and decode to the same k and the same fixed / permutation commitments (hence re-write to the same bytes)",
          VK_FUNCS, VK_BOUND.format(fmt_name) + "; keys: every k in 0..=4 (what the reader lets through for F_97), every commitment value 0..=255",
          "vk-roundtrip:read-of-write", est=110, timeout=T, min_covers=3, stubs=VK_STUBS, replay=False),
    ]


SPECS = _vk("Processed", "processed") + _vk("RawBytes", "rawbytes") + [
    H("h_roundtrip::arch_read_then_write", "C17.K.arch.read_then_write",
      "for every buffer ZkStdLibArch::read accepts, ZkStdLibArch::write of the decoded descriptor emits exactly the consumed prefix (same length, byte for byte)",
      [f"{ZL}::ZkStdLibArch::read", f"{ZL}::ZkStdLibArch::write", "bincode::decode_from_std_read / encode_into_std_write (third party, executed)"],
      "all buffers of length 0..=18", "arch-roundtrip:write-of-read", est=65, timeout=T, min_covers=2, stubs=["std::fmt::format"]),
    H("h_roundtrip::arch_write_then_read", "C17.K.arch.write_then_read",
      "for every ZkStdLibArch value: read(write(a)) == Ok(a) with nothing left unread iff nr_pow2range_cols < 5 (what configure accepts); the others are emitted by write and refused by read",
      [f"{ZL}::ZkStdLibArch::write", f"{ZL}::ZkStdLibArch::read", "bincode::encode_into_std_write / decode_from_std_read (third party, executed)"],
      "all 2^11 flag combinations x all 256 values of nr_pow2range_cols", "arch-roundtrip:read-of-write", est=35, timeout=T, min_covers=2, stubs=["std::fmt::format"]),
    H("h_roundtrip::vk_bytes_length_processed", "C17.K.vk.bytes_length.processed",
      "VerifyingKey::bytes_length(Processed) (documented 'Return the bytes_length of a VerifyingKey'; the capacity to_bytes reserves) equals the number of bytes write(Processed) emits",
      [f"{PM}::VerifyingKey::bytes_length", f"{PP}::VerifyingKey::bytes_length", "proofs/src/utils/helpers.rs::byte_length", f"{PM}::VerifyingKey::write"],
      "all full-length buffers (11 bytes) that read_from_cs accepts, Processed; environment as vk.read_then_write", "vk-bytes-length:header-size",
      est=60, timeout=T, min_covers=1, stubs=VK_STUBS, replay=False),   # counterexample via PINS (Kani's playback run takes > 200 s)
    H("h_roundtrip::vk_bytes_length_rawbytes", "C17.K.vk.bytes_length.rawbytes",
      "VerifyingKey::bytes_length(RawBytes) equals the number of bytes write(RawBytes) emits",
      [f"{PM}::VerifyingKey::bytes_length", f"{PM}::VerifyingKey::write"],
      "all full-length buffers (11 bytes) that read_from_cs accepts, RawBytes", "vk-bytes-length:header-size",
      est=60, timeout=T, min_covers=1, stubs=VK_STUBS, replay=False, tiers=("thorough",)),
    H("h_roundtrip::vk_transcript_binds_written_rawbytes", "C17.K.vk.transcript_binds_written",
      "the buffer the REAL VerifyingKey::from_parts hands to Blake2b for transcript_repr contains every byte write(_, RawBytesUnchecked) emits, in write's order: "
      "input = write[..header+fixed] ++ le32(#permutation commitments) ++ write[header+fixed..] ++ {:?} renderings; hashed in exactly one update",
      [f"{PM}::VerifyingKey::from_parts", f"{PM}::VerifyingKey::write", f"{PM}::VerifyingKey::read_from_cs"],
      VK_BOUND.format("RawBytes") + "; {:?} renderings of domain and constraint system are the empty string (std::fmt::format stubbed), the digest is arbitrary",
      "vk-transcript:written-fields-hashed", est=240, timeout={"thorough": 1800}, min_covers=1, tiers=("thorough",),
      stubs=["std::fmt::format", "std::hash::RandomState::new", "midnight_proofs::poly::EvaluationDomain::new (struct-assembling stand-in)",
             "core::arch::x86_64::__cpuid_count", "blake2b_simd::State::update (recording oracle)", "blake2b_simd::State::finalize (any digest)"],
      replay=False),
]


def check(run):
    run.bounds.append("K/C17: verifying-key buffers <= 11 bytes per format (Processed, RawBytes), architecture descriptors <= 18 bytes and every descriptor value; "
                      "every byte and every length symbolic")
    run.assumptions += [
        "K/C17: the verifying-key harnesses instantiate the generic code at a toy field (F_97) and a stub commitment scheme (h_roundtrip.rs::RCS) whose "
        "commitment decoder reports failure out of band (ghost flag) instead of through io::Error (an io::Error created inside collect::<Result<..>> "
        "is dropped through std's bit-packed repr, which CBMC cannot resolve); a buffer counts as accepted iff read_from_cs returns Ok and the flag is clear",
        "K/C17: EvaluationDomain::new and (except in vk.transcript_binds_written) VerifyingKey::from_parts are struct-assembling stand-ins under Kani "
        "(field-for-field mirrors, layout self-checked through the public getters in every run); natively the real ones run",
        "K/C17: write_then_read uses read_then_write as a lemma (assume-guarantee): write(vk) is identified with the consumed prefix of the buffer vk was decoded from",
    ]
    run.outside += [
        "C17/K: keys built by the real keygen (keygen_vk: EvaluationDomain::new does not finish under CBMC, permutation keygen uses rayon); keys range over the image of read_from_cs instead",
        "C17/K: RawBytesUnchecked (the toy commitment's unchecked decoder accepts non-canonical check bytes, so write(read(b)) = b is not a property of that environment); "
        "real curve point encodings (blst) in any format; constraint systems with gates/selectors (K2.md)",
        "C17/K: ProvingKey::write/read (Polynomial vectors, recomputed cosets and evaluator: rayon + field FFTs), ParamsKZG::write_custom/read_custom under Kani "
        "(collect::<Result<_, io::Error>> drop problem, K2.md); MidnightVK::write/read as a whole (ZkStdLib::configure does not finish under CBMC): its three parts "
        "(descriptor, 5 plain bytes, inner key) are covered separately and on one real key natively (replay --scenario vk-roundtrip)",
        "C17/K: 'produces and accepts exactly the same proofs' (needs the real prover and pairing); determinism across thread pools and repeated keygen runs",
    ]
    if core.tier() == "quick":
        run.outside.append("C17/K quick tier: vk.transcript_binds_written (~240 s of CBMC) and vk.bytes_length.rawbytes run in the thorough tier only")
    # the pinned re-decision of a FAILED replay=False harness starts as soon as that harness is decided, next to the
    # harnesses still running (sequentially after the pool it costs ~55 s of wall)
    import threading, time
    stop, handled = threading.Event(), set()

    def pin_able(ob):
        return ob.id in PINS and ob.id not in handled and ob.status == core.INCONCLUSIVE and "no native replay exists" in (ob.detail or "")

    def watcher():
        while not stop.is_set():
            for ob in list(run.obs):
                if pin_able(ob):
                    handled.add(ob.id)
                    try:
                        _extract_by_pins(run, ob, *PINS[ob.id])
                    except Exception as ex:  # noqa
                        ob.set(core.INCONCLUSIVE, f"pin extraction failed: {ex!r}")
            time.sleep(1)

    th = threading.Thread(target=watcher, daemon=True)
    th.start()
    try:
        obs = kani.run_harnesses(run, CRATE, SPECS, jobs=7)
    finally:
        stop.set()
        th.join()
    for ob in obs:
        if pin_able(ob):
            handled.add(ob.id)
            _extract_by_pins(run, ob, *PINS[ob.id])


# Counterexample extraction. Kani's concrete playback of the verifying-key harnesses (formula slicing off) needs > 200 s for
# the cheapest one and > 12 GB for those with a symbolic length, so they are registered with replay=False and a FAILED one is
# re-decided on a ladder of PINNED variants of the SAME harness body (h_roundtrip.rs::input_pinned):
#   pin_1  one canonical key with pairwise distinct field bytes + trailing bytes, len = 11     (values known, ~45 s)
#   pin_2  the same key, len = its exact length                                              (values known, ~45 s)
#   pin_3  all bytes symbolic, len = 11: Kani's playback is feasible and yields the values   (~250 s)
# The first variant that FAILS with a genuine check gives the concrete values (in the order of the main harness's any()
# calls: 11 buffer bytes, then len), which are replayed natively on the MAIN harness (level 1: body on the real functions;
# level 2 where scenario_cli.rs has one: the same comparison on a real BLS12-381/KZG key).
def _key(f, exact):
    fx, pm, tr, m = 0x11, 0x22, 0x33, 0x5A
    b = [3, 2, 1, 0, 0, 0] + ([fx, pm, tr, tr, tr] if f == "processed" else [fx, fx ^ m, pm, pm ^ m, tr])
    n = 11 if not exact else (8 if f == "processed" else 10)
    return [[x] for x in b] + [list(n.to_bytes(8, "little"))]


def _ladder(base, f, rungs=(1, 2, 3)):
    out = []
    for r in rungs:
        out.append((f"{base}_pin_{r}", _key(f, exact=(r == 2)) if r in (1, 2) else None))
    return out


PINS = {
    "C17.K.vk.bytes_length.processed": ("h_roundtrip::vk_bytes_length_processed", [
        ("h_roundtrip::vk_bytes_length_processed_pin", [[3], [0], [1], [0], [0], [0], [0], [0], [0], [0], [0]])]),
    "C17.K.vk.bytes_length.rawbytes": ("h_roundtrip::vk_bytes_length_rawbytes", [
        ("h_roundtrip::vk_bytes_length_rawbytes_pin", [[3], [0], [1], [0], [0], [0], [0], [0x5A], [0], [0x5A], [0]])]),
    "C17.K.vk.transcript_binds_written": ("h_roundtrip::vk_transcript_binds_written_rawbytes",
                                          _ladder("h_roundtrip::vk_transcript_binds_written_rawbytes", "rawbytes", (1, 3))),
}
for _f in ("processed", "rawbytes"):
    for _d in ("read_then_write", "write_then_read"):
        PINS[f"C17.K.vk.{_d}.{_f}"] = (f"h_roundtrip::vk_{_d}_{_f}", _ladder(f"h_roundtrip::vk_{_d}_{_f}", _f))


def _extract_by_pins(run, ob, main_harness, pins):
    import os, time
    crate = kani._Crate(CRATE, None, ("-Z", "stubbing"), "replay", 12 * 1024 * 1024)
    t0 = time.time()
    tried = []
    for pinned, vals in pins:
        cmd = ["cargo", "kani", "--target-dir", crate.base(), "-Z", "stubbing", "--harness", pinned, "--exact", "--output-format", "terse"]
        if vals is None:
            cmd += ["-Z", "concrete-playback", "--concrete-playback=print"]
        lock = crate.locked()
        try:
            rc, out, dt = kani._sh(cmd, crate.crate_dir, 1500 if vals is None else 600, crate.mem_kb,
                                   os.path.join(crate.logs, pinned.replace(":", "_") + ".pin.log"))
        finally:
            lock.close()
        ob.queries += 1
        r = kani.parse_output(out)
        genuine = [c for c in r["failed_checks"] if not kani.TOOL_FAILURE_PAT.search(c["description"])]
        run.log(f"K pin {pinned}: failed={bool(r['failed'])} genuine={len(genuine)} {dt:.0f}s")
        tried.append(f"{pinned.split('::')[-1]}:{'FAILED' if r['failed'] else 'ok' if r['successful'] else f'rc={rc}'}")
        if not (r["failed"] and genuine) or r["unwinding"] or r["unsupported"]:
            continue
        cands = [vals] if vals is not None else [t["vals"] for t in kani.parse_playback(out) if t["check_kind"] != "cover"][:4]
        last = None
        for cv in cands:
            reproduced, detail, per = crate.run_native(main_harness, cv)
            payload = dict(engine="K", crate=CRATE, harness=main_harness, concrete_vals=cv, failed_checks=genuine, pinned_harness=pinned,
                           replay_bin="replay", native=per, engine_part="K",
                           how="counterexample obtained by re-deciding the harness with its input (partly) pinned (Kani playback of the unpinned "
                               "harness is infeasible); check <ID> --replay <this file>: native run of the harness body (+ the real-key scenario where one exists)")
            last = (payload, detail)
            if reproduced:
                path = run.write_replay(ob, payload)
                fdesc = "; ".join(f"{c['description']} @ {c['file']}:{c['line']}" for c in genuine)[:300]
                return ob.set(core.VIOLATION, f"{fdesc}; counterexample from {pinned}; native replay reproduces ({detail})",
                              solver="cbmc+cadical", solver_s=ob.solver_s + time.time() - t0, replay=path)
        if last:
            path = run.write_replay(ob, last[0])
            ob.set(core.INCONCLUSIVE, f"{(ob.detail or '')[:200]}; counterexample of {pinned} does not reproduce natively ({last[1]}); see {path}")
    if ob.status == core.INCONCLUSIVE:
        ob.set(core.INCONCLUSIVE, f"{(ob.detail or '')[:300]} | pin ladder: {', '.join(tried)}")
    return ob


def replay(payload):
    return kani.replay(payload)
