"""C08 (engine C, part "P") -- public-input exposure of every exposable type, both exposure paths, plain and
committed instance column, arity of the encodings, and the number of public inputs ZKIR keys record.

Extractor family `pubin` (engines/extract/src/pubin.rs), helpers vf/pubin.py. Per shape (type, path, source):

  (D) determination, solver-decided for ALL assignments of the extracted system: the cells the REAL chip's
      `constrain_as_public_input` / `assign_as_public_input` / `constrain_as_committed_public_input` ties to the
      instance column determine the exposed object (its value cells, exposed natively by the harness) and
      satisfy the type's invariant; forged assignments are replayed on the real MockProver.
      On `assign_as_public_input` the claim is exactly what the path promises: the instance cells ARE the value
      cells (same copy class), hence no other vector satisfies the circuit for the same value cells; range /
      curve invariants the path documents as skipped are NOT claimed, and an accepted assignment violating
      them is exhibited and recorded in the obligation's detail (never a verdict).
  (E) encoder, concrete honest runs at boundary values: the REAL off-circuit encoder applied to the object's
      own `value()` is the instance the honest witness implies; the exposure consumes as many rows as the
      encoder emits; every instance row is tied by a copy constraint.
  (Z) ZKIR programs: `nb_public_inputs` read back from the MidnightVK the REAL `setup_vk` produces equals the
      number of rows the compiled circuit ties and the length of `format_instance(public_inputs(..))`.
"""
import random
from concurrent.futures import ThreadPoolExecutor
from vf import core, cengine, csmt, pubin, ffecc
from vf.cspec import *

P = csmt.P_BLS
R_JJ = 0x0e7db4ea6533afa906673b0101343b00a6682093ccc81082d0970e5ed6f72cb7
ORDER = {"k256": 0xfffffffffffffffffffffffffffffffebaaedce6af48a03bbfd25e8cd0364141,
         "bls": 0x73eda753299d7d483339d80809a1d80553bda402fffe5bfeffffffff00000001}
# NOTE: the constants above only pick admissible honest inputs; every quantity used in an obligation is read
# from the extractor's output (the real parameters of the current tree).

C05 = pubin.load_spec("C05.py")
C06F = pubin.load_spec("parts/C06_F.py")

WHAT_D = "the instance cells tied by the chip's public-input exposure determine the exposed object and satisfy its invariant, for every assignment"
WHAT_A = "assign_as_public_input: the instance cells ARE the value cells of the returned object (no other vector satisfies the circuit for the same value cells)"


def ent(op, spec, ins, params=None, alt=(), k=11, ff=False, what=WHAT_D, functions=(), monomial=False):
    return dict(op=op, spec=spec, ins=list(ins), params=dict(params or {}), alt=[list(a) for a in alt], k=k, ff=ff, what=what,
                functions=list(functions) or [f"pubin::{op}"], monomial=monomial)


# ---- (D) families --------------------------------------------------------------------------------------
def cells_family(rnd):
    E = []
    vals = {"bit": ([1], [[0]]), "byte": ([rnd.randrange(256)], [[0], [255]]), "native": ([rnd.randrange(P)], [[0], [P - 1]])}
    fn = {"bit": "NativeChip", "byte": "NativeGadget", "native": "NativeChip"}
    for ty in ("bit", "byte", "native"):
        for path in ("constrain", "assign_pi", "committed"):
            checked = not (path == "assign_pi" and ty == "byte")
            f = {"constrain": "constrain_as_public_input", "assign_pi": "assign_as_public_input", "committed": "constrain_as_committed_public_input"}[path]
            E.append(ent(f"{ty}.{path}", pubin.S_cell(ty, checked), vals[ty][0], alt=vals[ty][1], k=9,
                         what=WHAT_A if path == "assign_pi" else WHAT_D, functions=[f"{fn[ty]}::{f}<Assigned{ty.capitalize()}>"]))
    return E


def field_family(rnd, fields, tier):
    E = []
    for f in fields:
        m = C05.FIELDS[f]["m"]
        r = lambda: rnd.randrange(m)
        fns = ["FieldChip::constrain_as_public_input", "FieldChip::as_public_input", "FieldChip::normalize"]
        E.append(ent(f"{f}.constrain", pubin.arity_guard(S_field_exact), [r()], {"field": f, "src": "assign"}, alt=[[0], [1], [m - 1]], ff=True, functions=fns))
        srcs = ["add"] if tier == "quick" else ["add", "sub", "mul"]
        for s in srcs:
            spec = {"add": C05.S_pi_add, "sub": S_pi_of(C05, "sub"), "mul": S_pi_of(C05, "mul")}[s]
            E.append(ent(f"{f}.constrain", pubin.arity_guard(spec), [r(), r()], {"field": f, "src": s}, alt=[[m - 1, m - 1], [0, 0], [1, m - 1]], ff=True, functions=fns))
        E.append(ent(f"{f}.assign_pi", pubin.arity_guard(pubin.S_same_cells), [r()], {"field": f}, alt=[[0], [1], [m - 1]], what=WHAT_A,
                     functions=["FieldChip::assign_as_public_input"]))
    return E


def S_field_exact(e, I, O):
    """element assigned by the chip (well-formed): the exposure is a function of the value cells -- the exposed
    cells are the limbs themselves -- on top of the residue / well-formedness claim"""
    return AND(C05.S_pi(e, I, O), *[eq(o, i) for o, i in zip(O, I)])


def S_point_exact(e, I, O):
    """point assigned by the chip: exposed cells = coordinate limbs, the first one carrying base * is_id"""
    (x, y, i), = C06F.pts(e, I)
    base = 1 << int(e.extra["log2_base"])
    cells = list(x) + list(y)
    return AND(C06F.S_pi(e, I, O), eq(O[0], e.define_mod([(1, cells[0]), (base, i)])), *[eq(o, c) for o, c in zip(O[1:], cells[1:])])


def S_pi_of(C05_, kind):
    def spec(e, I, O):
        x, y = C05_.split(e, I)[:2]
        z = O[:int(e.extra["nb_limbs"])]
        rx, ry = C05_.res(e, x), C05_.res(e, y)
        want = C05_.addmod(e, rx, ry, -1) if kind == "sub" else e.MM(rx, ry, C05_.M(e))
        return AND(eq(C05_.res(e, z), want), C05_.wellformed(e, z))
    return spec


def point_family(rnd, curves):
    E = []
    for c in curves:
        q = ORDER[c]
        a = rnd.randrange(2, q - 1)
        fns = ["ecc::foreign::ForeignEccChip::constrain_as_public_input", "ecc::foreign::ForeignEccChip::as_public_input", "FieldChip::as_public_input"]
        E.append(ent(f"{c}pt.constrain", C06F.with_cut(pubin.arity_guard(S_point_exact, what=same_point_cells)), [a], {"curve": c, "src": "assign"},
                     alt=[[0], [1], [q - 1]], ff=True, functions=fns))
        # the same shape extracted at the identity: the seeded counterexample search then starts from is_id = 1
        E.append(ent(f"{c}pt.constrain", C06F.with_cut(pubin.arity_guard(S_point_exact, what=same_point_cells)), [0], {"curve": c, "src": "assign", "at": "identity"},
                     alt=[[a]], ff=True, functions=fns))
        E.append(ent(f"{c}pt.assign_pi", C06F.with_cut(pubin.arity_guard(S_point_exact, what=same_point_cells)), [a], {"curve": c},
                     alt=[[0], [1], [q - 1]], ff=True, functions=["ecc::foreign::ForeignEccChip::assign_as_public_input"] + fns[:1]))
    return E


def same_point_cells(e, I, hI):
    """pinned fallback for points: same identity flag and same coordinate residues as the honest point"""
    (x, y, i), = C06F.pts(e, I)
    (hx, hy, hi), = C06F.pts(e, hI)
    return AND(eq(i, hi), eq(C06F.res(e, x), C06F.res(e, hx)), eq(C06F.res(e, y), C06F.res(e, hy)))


def jub_family(rnd):
    a = rnd.randrange(1, R_JJ)
    E = [
        ent("jjpt.constrain", pubin.arity_guard(pubin.S_same_cells), [a], {"src": "assign"}, alt=[[0], [1], [R_JJ - 1]],
            functions=["ecc::native::EccChip::constrain_as_public_input<AssignedNativePoint>"]),
        ent("jjpt.assign_pi", pubin.arity_guard(pubin.S_same_cells), [a], {}, alt=[[0], [1], [R_JJ - 1]], what=WHAT_A,
            functions=["ecc::native::EccChip::assign_as_public_input<AssignedNativePoint>"]),
        ent("jjscalar.constrain", pubin.arity_guard(pubin.S_jjscalar_hidden), [a], {"src": "assign"}, alt=[[0], [1], [R_JJ - 1]], k=10,
            functions=["ecc::native::EccChip::constrain_as_public_input<AssignedScalarOfNativeCurve>", "NativeGadget::assigned_from_le_bits"]),
        ent("jjscalar.assign_pi", pubin.arity_guard(pubin.S_jjscalar_hidden), [a], {}, alt=[[0], [R_JJ - 1]], k=10,
            functions=["ecc::native::EccChip::assign_as_public_input<AssignedScalarOfNativeCurve>"]),
    ]
    for n in (1, 31):
        bs = [rnd.randrange(256) for _ in range(n)]
        E.append(ent("jjscalar.constrain", pubin.S_jjscalar_bytes(n), bs, {"src": "bytes", "n": n}, alt=[[255] * n, [0] * n], k=10,
                     functions=["ecc::native::EccChip::scalar_from_le_bytes", "ecc::native::EccChip::constrain_as_public_input<AssignedScalarOfNativeCurve>"]))
    # wide scalars (8n bits > one cell): the arity disagreement with the off-circuit encoder is the listed finding of
    # the (E)/(Z) groups; what is decided here is that the in-circuit exposure itself loses nothing (no chunk wraps
    # modulo p), extracted at the all-ones bytes (the largest chunk values)
    for n in (32, 33):
        E.append(ent("jjscalar.constrain.wide-determination", pubin.S_jjscalar_wide(n), [255] * n, {"src": "bytes", "n": n},
                     alt=[[rnd.randrange(256) for _ in range(n)], [0] * n], k=11,
                     what="the cells tied by the exposure of a Jubjub scalar of more bits than one cell holds determine every bit of it (each cell is the integer value of its chunk of bits: no wrap modulo p)",
                     functions=["ecc::native::EccChip::scalar_from_le_bytes", "ecc::native::EccChip::as_public_input<AssignedScalarOfNativeCurve>", "NativeGadget::assigned_from_le_bits"]))
    # the same n = 32 shape extracted at seeded random bytes: a wrap must then be FOUND by the solver (forged assignment)
    E.append(ent("jjscalar.constrain.wide-determination", pubin.S_jjscalar_wide(32), [rnd.randrange(256) for _ in range(31)] + [0x40 + rnd.randrange(0x30)],   # bit 254 set (identifies the width), value below p
                 {"src": "bytes", "n": 32, "at": "random"}, alt=[[255] * 32], k=11, what=E[-1]["what"], functions=E[-1]["functions"]))
    return E


def big_family(rnd, tier):
    E = []
    widths = [0, 1, 96, 97, 192, 200, 288, 384]
    fns = ["BigUintGadget::constrain_as_public_input", "BigUintGadget::normalize", "BigUintGadget::assign_biguint"]
    for w in widths:
        mx = (1 << w) - 1
        alt = [[0], [mx]] + ([[1 << 96], [(1 << 96) - 1]] if w > 96 else [])
        E.append(ent("biguint.constrain", pubin.S_biguint, [rnd.randrange(1 << w) if w else 0], {"src": "assign", "bx": w}, alt=alt if w else [], k=11, functions=fns, monomial=True))
    # un-normalised operands reach the normalisation branch of the exposure only through the gadget's own results
    for bx, by in ([(96, 96), (200, 100)] if tier == "quick" else [(96, 96), (200, 100), (192, 192), (8, 384)]):
        mx, my = (1 << bx) - 1, (1 << by) - 1
        E.append(ent("biguint.constrain", pubin.S_biguint, [rnd.randrange(1 << bx), rnd.randrange(1 << by)], {"src": "add", "bx": bx, "by": by},
                     alt=[[mx, my], [0, 0], [mx, 1]], k=11, functions=fns + ["BigUintGadget::add"], monomial=True))
    return E


# ---- (E) concrete encoder cases ---------------------------------------------------------------------------
def encoder_cases(rnd, fields, curves):
    """{(type, path/source label): [(op, params, ins)]}"""
    G = {}
    add = lambda key, op, params, ins: G.setdefault(key, []).append((op, dict(params), list(ins)))
    for path in ("constrain", "assign_pi", "committed"):
        for v in (0, 1):
            add(("bit", path), f"bit.{path}", {}, [v])
        for v in (0, 1, 255, rnd.randrange(256)):
            add(("byte", path), f"byte.{path}", {}, [v])
        for v in (0, 1, P - 1, rnd.randrange(P)):
            add(("native", path), f"native.{path}", {}, [v])
    for f in fields:
        m = C05.FIELDS[f]["m"]
        vals = [0, 1, 2, m - 1, m - 2, (1 << 64) - 1, 1 << 64, (1 << 128) + 1, rnd.randrange(m), rnd.randrange(m)]
        for v in vals:
            add((f, "constrain"), f"{f}.constrain", {"src": "assign"}, [v % m])
            add((f, "assign_pi"), f"{f}.assign_pi", {}, [v % m])
        for x, y in [(m - 1, m - 1), (0, 0), (rnd.randrange(m), rnd.randrange(m))]:
            for s in ("add", "sub", "mul", "neg"):
                add((f, "constrain:un-normalised"), f"{f}.constrain", {"src": s}, [x, y])
    for c in curves:
        q = ORDER[c]
        ks = [0, 1, q - 1, 2, rnd.randrange(2, q - 1)]
        for k_ in ks:
            add((c + "pt", "constrain"), f"{c}pt.constrain", {"curve": c, "src": "assign"}, [k_])
            add((c + "pt", "assign_pi"), f"{c}pt.assign_pi", {"curve": c}, [k_])
        a = rnd.randrange(2, q - 1)
        # results of the chip's own operations, in particular the identity it produces
        for s, ins in [("add", [a, q - a]), ("add", [a, 0]), ("add", [0, 0]), ("add", [a, a]), ("double", [0]), ("double", [a]),
                       ("negate", [0]), ("negate", [a])]:
            add((c + "pt", "constrain:chip-results"), f"{c}pt.constrain", {"curve": c, "src": s}, ins)
        for cc in (0, 1, a):
            add((c + "pt", "constrain:chip-results"), f"{c}pt.constrain", {"curve": c, "src": "fixed", "c": cc}, [1])
    a = rnd.randrange(1, R_JJ)
    for k_ in (0, 1, R_JJ - 1, a):
        add(("jjpt", "constrain"), "jjpt.constrain", {"src": "assign"}, [k_])
        add(("jjpt", "assign_pi"), "jjpt.assign_pi", {}, [k_])
    for s, ins in [("add", [a, R_JJ - a]), ("add", [a, 0]), ("negate", [0]), ("negate", [a])]:
        add(("jjpt", "constrain:chip-results"), "jjpt.constrain", {"src": s}, ins)
    for v in (0, 1, R_JJ - 1, 1 << 251, a):
        add(("jjscalar", "constrain"), "jjscalar.constrain", {"src": "assign"}, [v])
        add(("jjscalar", "assign_pi"), "jjscalar.assign_pi", {}, [v])
        add(("jjscalar", "constrain"), "jjscalar.constrain", {"src": "fixed", "c": v}, [])
    for n in (1, 4, 31):
        for bs in ([0] * n, [255] * n, [rnd.randrange(256) for _ in range(n)]):
            add(("jjscalar", "constrain:from-bytes"), "jjscalar.constrain", {"src": "bytes", "n": n}, bs)
    # 32 bytes and more: 256 bits, more than one cell holds and possibly above the group order
    for n in (32, 40):
        for bs in ([0] * n, [255] * n, [7] * n, [rnd.randrange(256) for _ in range(n)]):
            add(("jjscalar", f"constrain:from-bytes-wide"), "jjscalar.constrain", {"src": "bytes", "n": n}, bs)
    for w in (0, 1, 96, 97, 192, 200, 288, 384):
        vals = {0, (1 << w) - 1, rnd.randrange(1 << w) if w else 0}
        vals |= {v for v in (1 << 96, (1 << 96) - 1) if v < (1 << w)}
        for v in sorted(vals):
            add(("biguint", "constrain"), "biguint.constrain", {"src": "assign", "bx": w}, [v])
    for bx, by in [(96, 96), (97, 96), (200, 100), (8, 384)]:
        mx, my = (1 << bx) - 1, (1 << by) - 1
        for s in ("add", "mul"):
            for x, y in [(mx, my), (0, 0), (rnd.randrange(1 << bx), rnd.randrange(1 << by))]:
                add(("biguint", "constrain:chip-results"), "biguint.constrain", {"src": s, "bx": bx, "by": by}, [x, y])
    for c in (0, 1, (1 << 96) - 1, 1 << 96, (1 << 200) - 1):
        add(("biguint", "constrain:chip-results"), "biguint.constrain", {"src": "fixed", "c": c}, [])
    return G


# ---- (Z) ZKIR programs --------------------------------------------------------------------------------------
def T(t):
    return {"native": "Native", "bool": "Bool", "jjpt": "JubjubPoint", "jjscalar": "JubjubScalar"}.get(t) or \
        ({"Bytes": t[1]} if t[0] == "bytes" else {"BigUint": t[1]})


def W(t, v):
    if t in ("native", "bool", "jjpt", "jjscalar"):
        return {"t": t, "v": hex(v)}
    if t[0] == "bytes":
        return {"t": "bytes", "v": "0x" + bytes(v).hex()}
    return {"t": "biguint", "v": hex(v)}


def prog_publish(typed_values, chunk=8):
    """load every value, publish them all (several publish instructions)"""
    names = [f"x{i}" for i in range(len(typed_values))]
    ins = [{"op": {"load": T(t)}, "outputs": [n]} for n, (t, _) in zip(names, typed_values)]
    pubs = [{"op": "publish", "inputs": names[i:i + chunk]} for i in range(0, len(names), chunk)]
    return {"instructions": ins + pubs, "witness": {n: W(t, v) for n, (t, v) in zip(names, typed_values)}}


def prog_scalar_from_bytes(bs):
    return {"instructions": [{"op": {"load": {"Bytes": len(bs)}}, "outputs": ["b"]},
                             {"op": {"from_bytes": "JubjubScalar"}, "inputs": ["b"], "outputs": ["s"]},
                             {"op": "publish", "inputs": ["s"]}],
            "witness": {"b": W(("bytes", len(bs)), bs)}}


def random_typed(rnd, n):
    out = []
    for _ in range(n):
        k = rnd.randrange(8)
        if k == 0:
            out.append(("bool", rnd.randrange(2)))
        elif k == 1:
            b = rnd.choice([1, 2, 5])
            out.append((("bytes", b), [rnd.randrange(256) for _ in range(b)]))
        elif k == 2:
            out.append(("native", rnd.choice([0, P - 1, rnd.randrange(P)])))
        elif k in (3, 4):
            w = rnd.choice([1, 64, 96, 97, 192, 200, 300])
            out.append((("biguint", w), rnd.choice([0, (1 << w) - 1, rnd.randrange(1 << w)])))
        elif k == 5:
            out.append(("jjpt", rnd.choice([0, 1, rnd.randrange(R_JJ)])))
        else:
            out.append(("jjscalar", rnd.choice([0, R_JJ - 1, rnd.randrange(R_JJ)])))
    return out


def zkir_programs(rnd):
    G = {}
    singles = [("bool", 1), (("bytes", 3), [0, 255, 7]), ("native", P - 1), (("biguint", 1), 1), (("biguint", 96), (1 << 96) - 1),
               (("biguint", 97), 1 << 96), (("biguint", 200), (1 << 200) - 1), (("biguint", 384), rnd.randrange(1 << 384)),
               ("jjpt", 0), ("jjpt", rnd.randrange(R_JJ)), ("jjscalar", 0), ("jjscalar", R_JJ - 1)]
    G["publish:each-type"] = [prog_publish([tv]) for tv in singles]
    G["publish:mixed-0-40"] = [prog_publish(random_typed(rnd, n)) for n in (0, 1, 7, 19, 40)]
    G["publish:jubjub-scalar-from-bytes"] = [prog_scalar_from_bytes(bs) for bs in ([1, 2, 3, 4], [255] * 31, [rnd.randrange(256) for _ in range(31)])]
    G["publish:jubjub-scalar-from-32-bytes"] = [prog_scalar_from_bytes(bs) for bs in ([7] * 32, [255] * 32, [0] * 32)]
    return G


def zkir_obs(run, rnd):
    only = getattr(run, "only", None)
    for label, progs in zkir_programs(rnd).items():
        ob = core.Ob(f"pubin/zkir[{label}]", "C",
                     "nb_public_inputs recorded in the MidnightVK (real setup_vk) = rows the compiled circuit ties = length of format_instance(public_inputs(..)); the off-circuit instance is the instance the honest witness implies",
                     functions=["midnight_zk_stdlib::setup_vk", "MidnightVK::write", "ZkirRelation::public_inputs", "ZkirRelation::format_instance", "zkir::publish_incircuit", "CircuitValue::as_public_input"],
                     bound=f"{len(progs)} programs", key=f"pubin/zkir:{label}")
        run.add(ob)
        ob.nontrivial = False
        if only and only not in ob.id:
            ob.set(core.HOLDS, "skipped by --only")
            continue
        bad, refused, why = [], 0, []
        try:
            with ThreadPoolExecutor(4) as ex_:
                results = list(ex_.map(pubin.zkir_vk, progs))
            for p, (d, err) in zip(progs, results):
                if d is None:
                    import re as _re
                    if "panicked at" in err and core.REPO in err:
                        bad.append((p, ["the real code panics: " + err[err.find("panicked at"):][:200]]))
                        continue
                    ob.set(core.INCONCLUSIVE, f"harness failed: {err[-300:]}")
                    break
                f = pubin.zkir_facts(d, may_refuse="32-bytes" in label)
                if "rejected_at" in d:
                    refused += 1
                    why.append(f"{d['rejected_at']}: {d.get('error')}"[:200])
                if f:
                    bad.append((p, f))
            ob.queries = len(progs)
            if ob.status is None:
                if bad:
                    sfx = {pubin.V_wide_scalar_zkir(f) for _, f in bad} if "32-bytes" in label else {None}
                    if len(sfx) == 1 and None not in sfx:
                        ob.key = f"{ob.key}:{sfx.pop()}"
                    path = run.write_replay(ob, dict(kind="pubin-zkir", engine_part="P", cases=[dict(prog=p, facts=f) for p, f in bad[:4]]))
                    ob.set(core.VIOLATION, f"{len(bad)}/{len(progs)} programs: {bad[0][1][0]}", replay=path)
                else:
                    ob.set(core.HOLDS, f"{len(progs)} programs" + (f" ({refused} refused by the library: {why[0]})" if refused else ""))
        except Exception as ex:  # noqa
            ob.set(core.INCONCLUSIVE, repr(ex))
        run.log(f"{ob.status:12s} {ob.id} {ob.detail[:160]}")


# ---- what the assign_as_public_input paths document as skipped: exhibited, recorded, never a verdict -----------
def documented_gaps(run, fields, curves):
    notes = []
    wf_out = lambda e, I, O: C05.wellformed(e, O)
    jobs = [("byte.assign_pi", {}, [5], 9, lambda e, I, O: lt(O[0], 256), "range [0,256) of an AssignedByte"),
            ("jjpt.assign_pi", {}, [5], 9, lambda e, I, O: on_curve_jj(e, O), "curve membership of an AssignedNativePoint")]
    for f in fields[:1]:
        jobs.append((f"{f}.assign_pi", {"field": f}, [5], 9, wf_out, f"well-formed limb bounds of an AssignedField ({f})"))
    for op, params, ins, k, claim, label in jobs:
        r = pubin.witness_not_implied(op, params, ins, k, claim)
        notes.append(f"{op}: {label} is not enforced in-circuit on this path (documented; the verifier's off-circuit encoder binds it): {r}")
    return notes


def on_curve_jj(e, O):
    d = int(e.extra["curve_d"], 16)
    x, y = O[0], O[1]
    xx, yy = e.fmul(x, x), e.fmul(y, y)
    return eq(e.define_mod([(1, yy), (-1, xx), (-d, e.fmul(xx, yy))], -1), 0)


def check(run):
    t = core.tier()
    rnd = random.Random(8800 + core.seed())
    only = getattr(run, "only", None)
    fields = ["k256fp", "k256fq", "blsfp"] + (["c25519fp", "c25519fq"] if t != "quick" else [])
    curves = ["k256", "bls"]
    ffecc.RUN = run
    ffecc.install()
    C06F.CUT_TIMEOUT[0] = 60 if t == "quick" else 300
    run.assumptions += [
        "C08/P: an exposed object is identified with its value cells (limbs / coordinates / identity flag / bits / bytes), exposed natively by the harness next to the chip's own exposure; BigUint limbs and the bits of a chip-assigned Jubjub scalar are private to their types: the BigUint is observed through the gadget's own to_le_bits (decided in C05), the scalar only through its exposure",
        "C08/P: non-canonical representations (an emulated element given by limbs of v - 1 + m, an identity point with arbitrary coordinates, Jubjub scalar bits of s + r) are different VALUE CELLS: the claim is that the vector determines the cells' value and vice versa per representation, not that a prover cannot pick another representation of the same abstract value (DESIGN section 11, third item)",
        "C08/P: constraint structure extracted at one admissible witness per shape (C09 assumed; spot-checked on the alternative inputs)",
    ]
    run.outside += [
        "C08/P: AssignedVk, AssignedAccumulator, AssignedMsm (verifier gadget, C20 territory) and aggregator::FakePoint (test double) are not covered",
        "C08/P: ZkStdLib's PublicInputInstructions / CommittedInstanceInstructions are one-line forwards to the native gadget (covered there); committed exposure exists for single-cell types only (bit, byte, native)",
        "C08/P: Jubjub scalars produced by ConversionInstructions<AssignedNative, AssignedScalarOfNativeCurve> (255 bits, documented tech debt, convert_value unimplemented) are only run concretely (notes/pubin.md)",
        "C08/P: the off-circuit encoders for ALL values (BigUint / curve code): compared with the honest instance at boundary and seeded values only",
    ]
    cengine.build(run)
    tmo = 60 if t == "quick" else 600
    ents = cells_family(rnd) + jub_family(rnd) + big_family(rnd, t)
    heavy = field_family(rnd, fields, t) + point_family(rnd, curves if t != "quick" else curves)
    run.bounds.append(f"C08/P tier={t}: {len(ents) + len(heavy)} exposure shapes (type x path x source): bit, byte, native (plain + committed), emulated fields {fields}, foreign points {curves}, Jubjub points and scalars, BigUint widths 0..384 bits; k <= 11")
    n0 = len(run.obs)
    cengine.run_family(run, pubin.FAMILY, heavy + ents, timeout=tmo, only=only, workers=8)
    post_fecc(run, n0, heavy)
    pubin.honest_violations(run, n0, heavy + ents)
    # arity mismatches seen by a specification (the pinned fallback was used): say so in the detail
    # ---- (E) ----
    G = encoder_cases(rnd, fields, curves)

    def enc(item):
        (ty, label), cases = item
        path = label.split(":")[0]
        ob = pubin.encoder_ob(run, f"pubin/{ty}.{label}:encoder", f"pubin/{ty}.{path}:offcircuit-encoder" + (":" + label.split(":")[1] if ":" in label else ""),
                              "the REAL off-circuit encoder on the exposed object's value() is the instance the honest witness implies; the exposure consumes as many instance rows as the encoder emits; every instance row is tied",
                              ["Instantiable::as_public_input / AssignedBigUint::as_public_input (off-circuit)", f"{ty}: {path}"], cases, workers=2,
                              bound=f"{len(cases)} honest runs at boundary and seeded values",
                              variant=pubin.V_wide_scalar if label.endswith("from-bytes-wide") else None)
        run.log(f"{ob.status:12s} {ob.id} {ob.detail[:200]}")
    with ThreadPoolExecutor(4) as ex:
        list(ex.map(enc, sorted(G.items(), key=lambda kv: -len(kv[1]))))
    # ---- (Z) ----
    zkir_obs(run, rnd)
    if not only:
        for n in documented_gaps(run, fields, curves):
            run.notes.append(n)
            run.log("note: " + n[:220])
    run.translator_validation.append("C08/P: every extracted system is validated on the honest run (exact arithmetic vs MockProver::verify, vacuity twin); the honest instance is read off the copy constraints of the real synthesis (each instance cell takes the value of the advice cell it is tied to), not computed by the harness; scratch-worktree mutations (notes/pubin.md) flip determination / encoder / arity obligations to VIOLATION with replays")


def post_fecc(run, n_before, ents):
    """same post-processing as C06_F.check for the foreign-point shapes (forged assignment found inside a cut,
    chain failure, honest run violating the specification)"""
    by_id = {}
    for en in ents:
        by_id[f"{pubin.FAMILY}/{en['op']}[{cengine.pstr(en['params'])}]"] = en
    for ob in run.obs[n_before:]:
        fg = getattr(ob, "_forged", None)
        if fg and ob.status == core.INCONCLUSIVE:
            path = run.write_replay(ob, dict(kind="forged-assignment", cx=fg["cx"], overrides=fg["overrides"], instance=fg["instance"],
                                             note=f"real MockProver::verify() accepts this assignment although the instance violates the part '{fg['part']}' of the specification"))
            ob.set(core.VIOLATION, f"{ob.id}: the real MockProver accepts a forged assignment whose instance {fg['instance']} violates the specification (part '{fg['part']}')", replay=path)
            continue
        if getattr(ob, "_chain_fail", None) and ob.status == core.INCONCLUSIVE and "chain failed" not in ob.detail:
            ob.set(core.INCONCLUSIVE, "foreign-field chain failed: " + ob._chain_fail + "; " + ob.detail[:200])
            continue
        iv = getattr(ob, "_honest_violates", None)
        if iv and ob.status == core.INCONCLUSIVE and "vacuity twin" in ob.detail and ob.id in by_id:
            en = by_id[ob.id]
            ob.key = ob.key + ":honest-output-violates-spec"
            path = run.write_replay(ob, dict(kind="honest-output-violates-spec", engine_part="P", instance=iv,
                                             cx=cengine.cx_args(pubin.FAMILY, en["op"], en["params"], en["ins"], en["k"])))
            ob.set(core.VIOLATION, f"{en['op']}: the honest run of the real chip is accepted with instance {iv}, which violates the specification", replay=path)


def replay(payload):
    kind = payload.get("kind")
    if kind == "pubin-encoder":
        return pubin.replay_encoder(payload)
    if kind == "pubin-zkir":
        n = 0
        for c in payload["cases"]:
            d, err = pubin.zkir_vk(c["prog"])
            f = pubin.zkir_facts(d, may_refuse=True) if d else ["harness: " + err[-200:]]
            print(f)
            n += bool(f)
        return 1 if n else 0
    if kind == "honest-output-violates-spec":
        return C06F.replay(payload)
    return None
