"""C04 (engine C, families `vector` and `map`) — variable-length vectors and the key-value map gadget.

vector: one operation of the real `VectorGadget` on `AssignedVector<F, T, M, A>` per obligation, M in {4, 8},
        A | M. Every vector is created by the real `assign`; its M buffer cells and its length cell are exposed
        as inputs, results as outputs. Specifications are the documented meaning of the operation on the PAYLOAD
        (circuits/src/vec/vector.rs: payload = buffer[start, end), back padding in [0, A), front padding 0 mod A;
        filler cells are unconstrained), never the gadget's way of computing it.
map:    see the second half of this file."""
import random
from vf.cspec import *
from vf import csmt, core
from vf.vecmap import lims, split_vec, by_len, vec_input, EarlyZeroEnc, use_encoder

P = csmt.P_BLS


# ================================================================================================ vector
# instance layout: inputs = buffer[0..M], len (per input vector, in call order); outputs as documented per op.

def S_assign(M, A):
    """`len` ... is guaranteed to be in the range [0, M]; filler values are UNCONSTRAINED."""
    def spec(e, I, O):
        _, ln = split_vec(I, M)
        return le(ln, M)
    return spec


def S_limits(M, A):
    """"Returns the first and last positions of data in the buffer" = [start, end) of the struct doc."""
    def spec(e, I, O):
        _, ln = split_vec(I, M)
        return by_len(ln, M, lambda L: AND(eq(O[0], lims(M, A, L)[0]), eq(O[1], lims(M, A, L)[1])))
    return spec


def S_padding(M, A):
    """1 on the cells that are padding, 0 on the cells that carry payload."""
    def spec(e, I, O):
        _, ln = split_vec(I, M)

        def f(L):
            s, t = lims(M, A, L)
            return AND(*[eq(O[i], 0 if s <= i < t else 1) for i in range(M)])
        return by_len(ln, M, f)
    return spec


def S_trim(M, A, n):
    """Trims n elements from the beginning: unsatisfiable if len < n; the result has length len - n and its
    payload is the input's payload without its first n elements (what the other cells hold is not specified)."""
    def spec(e, I, O):
        buf, ln = split_vec(I, M)
        obuf, oln = split_vec(O, M)

        def f(L):
            s, _ = lims(M, A, L)
            s2, _ = lims(M, A, L - n)
            return AND(eq(oln, L - n), *[eq(obuf[s2 + j], buf[s + n + j]) for j in range(L - n)])
        return by_len(ln, M, f, lo=n)
    return spec


def S_resize(M, A, L2):
    """Same vector (length and payload) in a buffer of L2 cells."""
    def spec(e, I, O):
        buf, ln = split_vec(I, M)
        obuf, oln = split_vec(O, L2)

        def f(L):
            s, _ = lims(M, A, L)
            s2, _ = lims(L2, A, L)
            return AND(eq(oln, L), *[eq(obuf[s2 + j], buf[s + j]) for j in range(L)])
        return by_len(ln, M, f)
    return spec


def vec_equal(M, A, x, lx, y, ly):
    """SMT Bool: the two vectors are equal as sequences (same length, same payload)."""
    cases = []
    for L in range(M + 1):
        s, t = lims(M, A, L)
        cases.append(AND(eq(lx, L), eq(ly, L), *[eq(x[i], y[i]) for i in range(s, t)]))
    return OR(*cases)


def S_eq(M, A, kind):
    def spec(e, I, O):
        x, lx = split_vec(I, M)
        y, ly = split_vec(I, M, M + 1)
        dom = AND(le(lx, M), le(ly, M))
        same = vec_equal(M, A, x, lx, y, ly)
        if kind == "is_equal":
            return AND(dom, eq(O[0], b2i(same)))
        if kind == "is_not_equal":
            return AND(dom, eq(O[0], b2i(NOT(same))))
        if kind == "assert_equal":
            return AND(dom, same)
        return AND(dom, NOT(same))
    return spec


def S_eq_fixed(M, A, kind, c):
    def spec(e, I, O):
        x, lx = split_vec(I, M)
        s, t = lims(M, A, len(c))
        same = AND(eq(lx, len(c)), *[eq(x[s + j], c[j]) for j in range(len(c))])
        dom = le(lx, M)
        if kind == "is_equal_to_fixed":
            return AND(dom, eq(O[0], b2i(same)))
        if kind == "is_not_equal_to_fixed":
            return AND(dom, eq(O[0], b2i(NOT(same))))
        if kind == "assert_equal_to_fixed":
            return AND(dom, same)
        return AND(dom, NOT(same))
    return spec


def V_short(M, A, at=0):
    """Class of counterexamples: the (first) vector is non-empty and not longer than one chunk (0 < len <= A)."""
    def pred(e, I, O):
        _, ln = split_vec(I, M, at)
        return AND(lt(0, ln), le(ln, A))
    return pred


def ventry(op, M, A, spec, ins, params=None, alt=(), variants=(), what="", k=10):
    p = {"M": M, "A": A}
    p.update(params or {})
    return dict(op=op, spec=spec, ins=list(ins), params=p, alt=[list(a) for a in alt], k=k, what=what,
                variants=list(variants),
                functions=[f"VectorGadget::{op}", "circuits/src/vec/vector_gadget.rs"])


def vector_family(tier, seed):
    rnd = random.Random(4400 + seed)
    rf = lambda: rnd.randrange(P)
    E = []
    shapes = [(4, 1), (4, 2), (4, 4), (8, 1), (8, 2), (8, 4), (8, 8)]
    full_ops = {(4, 2), (8, 4)} if tier == "quick" else set(shapes)
    for (M, A) in shapes:
        vals = [rf() for _ in range(M)]
        v = lambda L, off=0: vec_input(M, [(x + off) % P for x in vals[:L]])
        # honest length of the deciding run: more than one chunk when such a length exists (the vacuity twin
        # needs an honest run that meets the specification)
        L0 = M - 1 if M - 1 > A else (M if M > A else 0)
        lens = sorted({0, 1, M - 1, M, A, min(M, A + 1)})
        altv = [v(L) for L in lens if L != L0]
        short = [("short-vector", V_short(M, A))]
        E.append(ventry("assign", M, A, S_assign(M, A), v(L0), alt=altv))
        E.append(ventry("get_limits", M, A, S_limits(M, A), v(L0), alt=altv))
        E.append(ventry("padding_flag", M, A, S_padding(M, A), v(L0), alt=altv, variants=short))
        ns = sorted({0, 1, A, min(M, A + 1), M - 1, M}) if (M, A) in full_ops else sorted({1, M})
        for n in ns:
            Lh = max(n, L0)
            E.append(ventry("trim_beginning", M, A, S_trim(M, A, n), v(Lh), {"n": n},
                            alt=[v(L) for L in sorted({n, M, min(M, n + 1), min(M, n + A)}) if L != Lh]))
        E.append(ventry("is_equal", M, A, S_eq(M, A, "is_equal"), v(L0) + v(L0), alt=[v(0) + v(0), v(M) + v(M), v(M) + v(M, 1), v(1) + v(1), v(M - 1) + v(M), v(1) + v(1, 1)],
                        variants=short))
        if (M, A) not in full_ops:
            continue
        E.append(ventry("assign", M, A, S_assign(M, A), v(L0), {"filler": 7}, alt=altv))
        E.append(ventry("assign", M, A, lambda e, I, O, M=M: AND(le(I[M], M), *[lt(x, 256) for x in I[:M]]),
                        vec_input(M, [x % 256 for x in vals[:L0]]), {"t": "byte"},
                        alt=[vec_input(M, [255] * M), vec_input(M, [])], what="byte vector: every buffer cell (payload and filler) is a byte, len in [0, M]"))
        for L2 in sorted({M + A, 2 * M}):
            E.append(ventry("resize", M, A, S_resize(M, A, L2), v(L0), {"L": L2}, alt=altv))
        E.append(ventry("is_not_equal", M, A, S_eq(M, A, "is_not_equal"), v(L0) + v(L0, 1), alt=[v(0) + v(0), v(M) + v(M), v(M - 1) + v(M)], variants=short))
        E.append(ventry("assert_equal", M, A, S_eq(M, A, "assert_equal"), v(L0) + v(L0), alt=[v(0) + v(0), v(M) + v(M), v(1) + v(1)], variants=short))
        E.append(ventry("assert_not_equal", M, A, S_eq(M, A, "assert_not_equal"), v(L0) + v(L0, 1), alt=[v(0) + v(1), v(M) + v(M, 1), v(M - 1) + v(M)], variants=short))
        for Lc in sorted({0, 1, L0, M}):
            c = [(x + 0) % P for x in vals[:Lc]]
            E.append(ventry("is_equal_to_fixed", M, A, S_eq_fixed(M, A, "is_equal_to_fixed", c), v(Lc), {"c": c, "nc": Lc}, alt=[v(M), v(0), v(Lc, 1)]))
        c = vals[:L0]
        E.append(ventry("is_not_equal_to_fixed", M, A, S_eq_fixed(M, A, "is_not_equal_to_fixed", c), v(L0), {"c": c, "nc": L0}, alt=[v(M), v(0), v(L0, 1)]))
        E.append(ventry("assert_equal_to_fixed", M, A, S_eq_fixed(M, A, "assert_equal_to_fixed", c), v(L0), {"c": c, "nc": L0}))
        E.append(ventry("assert_not_equal_to_fixed", M, A, S_eq_fixed(M, A, "assert_not_equal_to_fixed", c), v(L0, 1), {"c": c, "nc": L0}, alt=[v(0) if L0 else v(1), v(M) if L0 != M else v(1)]))
        E.append(ventry("is_equal", M, A, S_eq(M, A, "is_equal"), vec_input(M, [x % 256 for x in vals[:L0]]) * 2, {"t": "byte"}, variants=short))
    return E


def check(run):
    from vf import cengine
    t = core.tier()
    only = getattr(run, "only", None)
    ents = vector_family(t, core.seed())
    run.assumptions += [
        "vector: every AssignedVector is created by the real VectorGadget::assign (the operations are decided under the type invariant that assign enforces); A divides M (the documented layout has no solution otherwise)",
        "vector specifications (/verif/specs/parts/C04_V.py) speak about the payload only: filler cells are documented as unconstrained",
    ]
    run.bounds.append(f"vector: tier={t}: {len(ents)} (operation, M, A, parameter) shapes, M in {{4, 8}}, A | M, T = AssignedNative (AssignedByte for assign / is_equal), k=10")
    with use_encoder(EarlyZeroEnc):
        cengine.run_family(run, "vector", ents, timeout=60 if t == "quick" else 600, only=only)
