"""C04 (engine C, families `vector` and `map`) — variable-length vectors and the key-value map gadget.

vector: one operation of the real `VectorGadget` on `AssignedVector<F, T, M, A>` per obligation, M in {4, 8},
        A | M. Every vector is created by the real `assign`; its M buffer cells and its length cell are exposed
        as inputs, results as outputs. Specifications are the documented meaning of the operation on the PAYLOAD
        (circuits/src/vec/vector.rs: payload = buffer[start, end), back padding in [0, A), front padding 0 mod A;
        filler cells are unconstrained), never the gadget's way of computing it.
map:    see the second half of this file."""
import os, random
from vf.cspec import *
from vf import csmt, core
from vf.vecmap import lims, split_vec, by_len, vec_input, EarlyZeroEnc, use_encoder, honest_wrong_pass

P = csmt.P_BLS


# ================================================================================================ vector
# instance layout: inputs = buffer[0..M], len (per input vector, in call order); outputs as documented per op.

def S_assign(M, A):
    """`len` ... is guaranteed to be in the range [0, M]; filler values are UNCONSTRAINED."""
    def spec(e, I, O):
        _, ln = split_vec(I, M)
        return le(ln, M)
    return spec


def S_limits(M, A):
    """"Returns the first and last positions of data in the buffer" = [start, end) of the struct doc."""
    def spec(e, I, O):
        _, ln = split_vec(I, M)
        return by_len(ln, M, lambda L: AND(eq(O[0], lims(M, A, L)[0]), eq(O[1], lims(M, A, L)[1])))
    return spec


def S_padding(M, A):
    """1 on the cells that are padding, 0 on the cells that carry payload."""
    def spec(e, I, O):
        _, ln = split_vec(I, M)

        def f(L):
            s, t = lims(M, A, L)
            return AND(*[eq(O[i], 0 if s <= i < t else 1) for i in range(M)])
        return by_len(ln, M, f)
    return spec


def S_trim(M, A, n):
    """Trims n elements from the beginning: unsatisfiable if len < n; the result has length len - n and its
    payload is the input's payload without its first n elements (what the other cells hold is not specified)."""
    def spec(e, I, O):
        buf, ln = split_vec(I, M)
        obuf, oln = split_vec(O, M)

        def f(L):
            s, _ = lims(M, A, L)
            s2, _ = lims(M, A, L - n)
            return AND(eq(oln, L - n), *[eq(obuf[s2 + j], buf[s + n + j]) for j in range(L - n)])
        return by_len(ln, M, f, lo=n)
    return spec


def S_resize(M, A, L2):
    """Same vector (length and payload) in a buffer of L2 cells."""
    def spec(e, I, O):
        buf, ln = split_vec(I, M)
        obuf, oln = split_vec(O, L2)

        def f(L):
            s, _ = lims(M, A, L)
            s2, _ = lims(L2, A, L)
            return AND(eq(oln, L), *[eq(obuf[s2 + j], buf[s + j]) for j in range(L)])
        return by_len(ln, M, f)
    return spec


def vec_equal(M, A, x, lx, y, ly):
    """SMT Bool: the two vectors are equal as sequences (same length, same payload)."""
    cases = []
    for L in range(M + 1):
        s, t = lims(M, A, L)
        cases.append(AND(eq(lx, L), eq(ly, L), *[eq(x[i], y[i]) for i in range(s, t)]))
    return OR(*cases)


def S_eq(M, A, kind):
    def spec(e, I, O):
        x, lx = split_vec(I, M)
        y, ly = split_vec(I, M, M + 1)
        dom = AND(le(lx, M), le(ly, M))
        same = vec_equal(M, A, x, lx, y, ly)
        if kind == "is_equal":
            return AND(dom, eq(O[0], b2i(same)))
        if kind == "is_not_equal":
            return AND(dom, eq(O[0], b2i(NOT(same))))
        if kind == "assert_equal":
            return AND(dom, same)
        return AND(dom, NOT(same))
    return spec


def S_eq_fixed(M, A, kind, c):
    def spec(e, I, O):
        x, lx = split_vec(I, M)
        s, t = lims(M, A, len(c))
        same = AND(eq(lx, len(c)), *[eq(x[s + j], c[j]) for j in range(len(c))])
        dom = le(lx, M)
        if kind == "is_equal_to_fixed":
            return AND(dom, eq(O[0], b2i(same)))
        if kind == "is_not_equal_to_fixed":
            return AND(dom, eq(O[0], b2i(NOT(same))))
        if kind == "assert_equal_to_fixed":
            return AND(dom, same)
        return AND(dom, NOT(same))
    return spec


def V_short(M, A, at=0):
    """Class of counterexamples: the (first) vector is non-empty and not longer than one chunk (0 < len <= A)."""
    def pred(e, I, O):
        _, ln = split_vec(I, M, at)
        return AND(lt(0, ln), le(ln, A))
    return pred


def ventry(op, M, A, spec, ins, params=None, alt=(), variants=(), what="", k=10):
    p = {"M": M, "A": A}
    p.update(params or {})
    return dict(op=op, spec=spec, ins=list(ins), params=p, alt=[list(a) for a in alt], k=k, what=what,
                variants=list(variants),
                functions=[f"VectorGadget::{op}", "circuits/src/vec/vector_gadget.rs"])


def vector_family(tier, seed):
    rnd = random.Random(4400 + seed)
    rf = lambda: rnd.randrange(P)
    E = []
    shapes = [(4, 1), (4, 2), (4, 4), (8, 1), (8, 2), (8, 4), (8, 8)]
    full_ops = {(4, 2), (8, 4)} if tier == "quick" else set(shapes)
    for (M, A) in shapes:
        vals = [rf() for _ in range(M)]
        v = lambda L, off=0: vec_input(M, [(x + off) % P for x in vals[:L]])
        # honest length of the deciding run: more than one chunk when such a length exists (the vacuity twin
        # needs an honest run that meets the specification)
        L0 = M - 1 if M - 1 > A else (M if M > A else 0)
        lens = sorted({0, 1, M - 1, M, A, min(M, A + 1)})
        altv = [v(L) for L in lens if L != L0]
        short = [("short-vector", V_short(M, A))]
        E.append(ventry("assign", M, A, S_assign(M, A), v(L0), alt=altv))
        E.append(ventry("get_limits", M, A, S_limits(M, A), v(L0), alt=altv))
        E.append(ventry("padding_flag", M, A, S_padding(M, A), v(L0), alt=altv, variants=short))
        ns = sorted({0, 1, A, min(M, A + 1), M - 1, M}) if (M, A) in full_ops else sorted({1, M})
        for n in ns:
            Lh = max(n, L0)
            E.append(ventry("trim_beginning", M, A, S_trim(M, A, n), v(Lh), {"n": n},
                            alt=[v(L) for L in sorted({n, M, min(M, n + 1), min(M, n + A)}) if L != Lh]))
        E.append(ventry("is_equal", M, A, S_eq(M, A, "is_equal"), v(L0) + v(L0), alt=[v(0) + v(0), v(M) + v(M), v(M) + v(M, 1), v(1) + v(1), v(M - 1) + v(M), v(1) + v(1, 1)],
                        variants=short))
        if (M, A) not in full_ops:
            continue
        E.append(ventry("assign", M, A, S_assign(M, A), v(L0), {"filler": 7}, alt=altv))
        E.append(ventry("assign", M, A, lambda e, I, O, M=M: AND(le(I[M], M), *[lt(x, 256) for x in I[:M]]),
                        vec_input(M, [x % 256 for x in vals[:L0]]), {"t": "byte"},
                        alt=[vec_input(M, [255] * M), vec_input(M, [])], what="byte vector: every buffer cell (payload and filler) is a byte, len in [0, M]"))
        for L2 in sorted({M + A, 2 * M}):
            E.append(ventry("resize", M, A, S_resize(M, A, L2), v(L0), {"L": L2}, alt=altv))
        E.append(ventry("is_not_equal", M, A, S_eq(M, A, "is_not_equal"), v(L0) + v(L0, 1), alt=[v(0) + v(0), v(M) + v(M), v(M - 1) + v(M)], variants=short))
        E.append(ventry("assert_equal", M, A, S_eq(M, A, "assert_equal"), v(L0) + v(L0), alt=[v(0) + v(0), v(M) + v(M), v(1) + v(1)], variants=short))
        E.append(ventry("assert_not_equal", M, A, S_eq(M, A, "assert_not_equal"), (v(L0) + v(L0, 1)) if L0 else (v(0) + v(1)), alt=[v(0) + v(1), v(M) + v(M, 1), v(M - 1) + v(M)], variants=short))
        for Lc in sorted({0, 1, L0, M}):
            c = [(x + 0) % P for x in vals[:Lc]]
            E.append(ventry("is_equal_to_fixed", M, A, S_eq_fixed(M, A, "is_equal_to_fixed", c), v(Lc), {"c": c, "nc": Lc}, alt=[v(M), v(0), v(Lc, 1)]))
        c = vals[:L0]
        E.append(ventry("is_not_equal_to_fixed", M, A, S_eq_fixed(M, A, "is_not_equal_to_fixed", c), v(L0), {"c": c, "nc": L0}, alt=[v(M), v(0), v(L0, 1)]))
        E.append(ventry("assert_equal_to_fixed", M, A, S_eq_fixed(M, A, "assert_equal_to_fixed", c), v(L0), {"c": c, "nc": L0}))
        E.append(ventry("assert_not_equal_to_fixed", M, A, S_eq_fixed(M, A, "assert_not_equal_to_fixed", c), v(L0, 1) if L0 else v(1), {"c": c, "nc": L0}, alt=[v(0) if L0 else v(2), v(M) if L0 != M else v(1)]))
        E.append(ventry("is_equal", M, A, S_eq(M, A, "is_equal"), vec_input(M, [x % 256 for x in vals[:L0]]) * 2, {"t": "byte"}, variants=short))
    return E


# =================================================================================================== map
# MapGadget (circuits/src/map/{map_gadget.rs,cpu.rs}, instructions/map.rs): key-value map committed to by the root
# of a Merkle tree of height 128; the leaf of `key` sits at index = the low 128 bits (little endian) of hash(key, 0);
# at level i the running node is the RIGHT input of the hash iff bit i of the index is 1 (cpu.rs conditional_swap).
# `get(key)` returns a value and constrains it to be authenticated under the current root at the key's index;
# `insert(key, value)` replaces the root by one that authenticates `value` at the key's index ALONG THE SAME
# SIBLINGS that authenticate the old leaf under the old root. There is no separate (non-)membership bit in the API:
# an absent key has the default value.
#
# Hash abstraction: the hash chip is recorded, call j = ((a_j, b_j), o_j); o_j = Hf(a_j, b_j) for ONE uninterpreted Hf.
# MapSpec under the abstraction, for one authentication of (key, leaf) under root:
#     exists b in {0,1}^255, s_0..s_127:  b = binary digits of the integer Hf(key, 0) in [0, p);  n_0 = leaf;
#        n_{i+1} = Hf(s_i, n_i) if b_i = 1 else Hf(n_i, s_i);  n_128 = root.
# Decided in WITNESS FORM over the recorded calls (quantifier free): call c_0 has inputs (key, 0); the system's own
# binary digits of o(c_0) are its binary representation over the integers (vecmap.canonical_bits); for every level i
# the input of call c_{i+1} on the side selected by b_i is n_i (n_0 = leaf, n_i = o(c_i)); o(c_128) = root. The
# siblings are the inputs on the other side. Witness form => MapSpec by instantiating s_i, b (and by functionality
# of Hf, which is what makes the index of `key` the same in every authentication; uniqueness of binary
# representations is integer arithmetic).
from vf.vecmap import HashCalls, canonical_bits, prove_then_assume, TREE_HEIGHT

AUX_LEMMAS = ("index-sum-mod-p", "index-lsb-is-parity")      # tried and used when proved; not part of the specification


def _auth(e, tag, c0, chain, key, leaf, root):
    """([(name, SMT Bool, ...)], sibling terms) for one authentication; leaf None = existentially quantified."""
    (a, b), idx = c0
    assert len(chain) == TREE_HEIGHT
    bits, canon = canonical_bits(e, idx)
    node, sibs, lv = leaf, [], []
    for i, ((l, r), out) in enumerate(chain):
        if node is not None:
            lv.append(f"(ite (= {A(bits[i])} 1) {eq(r, node)} {eq(l, node)})")
        sibs.append(ITE(eq(bits[i], 1), l, r))
        node = out
    parts = [(f"{tag}:index-call", AND(eq(a, key), eq(b, 0)))]
    parts += [(f"{tag}:index-{st[0]}",) + tuple(st[1:]) for st in canon]
    # the level facts are local to the two cond_swap rows of each level: proved from a slice of the system
    parts += [(f"{tag}:path-levels", AND(*lv), True, (2, 8)), (f"{tag}:path-root", eq(node, root))]
    return parts, sibs


def S_map(op):
    def spec(e, I, O):
        hc = HashCalls(e)
        n_aux = int(e.extra["n_aux"])
        real, calls, H = O[n_aux:], hc.calls, TREE_HEIGHT
        per = H + 1
        want = {"get": 1, "insert": 2, "insert_get": 3}[op]
        if len(calls) != want * per:
            raise NotImplementedError(f"{len(calls)} hash calls recorded, {want * per} expected")
        A_ = lambda j: (calls[j * per], calls[j * per + 1:(j + 1) * per])
        if op == "get":
            root, key = I
            parts, _ = _auth(e, "get", *A_(0), key, real[0], root)
        else:
            root, key, value = I[:3]
            p1, s1 = _auth(e, "old", *A_(0), key, None, root)          # some old leaf under the old root
            p2, s2 = _auth(e, "new", *A_(1), key, value, real[0])      # the new value under the new root
            parts = p1 + p2 + [("same-siblings", AND(*[eq(x, y) for x, y in zip(s1, s2)]), True, (2, 8))]
            if op == "insert_get":
                p3, _ = _auth(e, "get", *A_(2), I[3], real[1], real[0])    # get(key2) against the NEW root
                parts += p3
        # every conjunct is first tried on its own (sound cut, see vecmap.prove_then_assume); the specification
        # returned to the deciding query is always the full conjunction (auxiliary lemmas excluded)
        if not getattr(e, "_pta_done", False) and hasattr(e, "s"):
            e._pta_done = True
            prove_then_assume(e, parts, timeout=60)
        return AND(*[p[1] for p in parts if not p[0].endswith(AUX_LEMMAS)])
    return spec


def mentry(op, hash_mode, ins, pre, alt=(), alt_pre=(), k=12, what=""):
    p = {"hash": hash_mode, "pre": list(pre)}
    return dict(op=op, spec=S_map(op), ins=list(ins), params=p, alt=[list(a) for a in alt],
                alt_params=[{"hash": hash_mode, "pre": list(q)} for q in alt_pre], k=k, what=what,
                functions=[f"MapGadget::{op.split('_')[0]}", "MapGadget::verify_path", "circuits/src/map/map_gadget.rs"])


def map_family(tier, seed):
    rnd = random.Random(4500 + seed)
    rf = lambda: rnd.randrange(P)
    k1, k2, k3, v1, v2, v3, vn = rf(), rf(), rf(), rf(), rf(), rf(), rf()
    pre = [k1, v1, k2, v2, 1, 11]
    absent = rf()
    E = []
    for mode, kk in (("uf", (11, 12, 13)), ("poseidon", (13, 14, 15))):
        E.append(mentry("get", mode, [k1], pre, alt=[[absent], [1], [0], [P - 1], [k2]], alt_pre=[[], [k1, 0]], k=kk[0],
                        what="get: the returned value is authenticated under the root at the index of the key (present and absent keys)"))
        E.append(mentry("insert", mode, [k1, vn], pre, alt=[[absent, vn], [k1, v1], [k1, 0], [0, 0], [P - 1, P - 1]], alt_pre=[[]], k=kk[1],
                        what="insert: the new root authenticates the value at the key's index along the siblings that authenticate the old leaf under the old root"))
        if mode == "uf" or tier != "quick":
            E.append(mentry("insert_get", mode, [k3, v3, k3], pre, alt=[[k3, v3, k1], [k3, v3, absent], [k1, vn, k1]], k=kk[2],
                            what="insert then get: the get is checked against the root produced by the insert (state threading)"))
    return E


def check(run):
    from vf import cengine, vecmap
    t = core.tier()
    only = getattr(run, "only", None)
    ents = vector_family(t, core.seed())
    ments = map_family(t, core.seed())
    run.assumptions += [
        "vector: every AssignedVector is created by the real VectorGadget::assign (the operations are decided under the type invariant that assign enforces); A divides M (the documented layout - front padding 0 mod A, back padding in [0, A), sum M - has no solution otherwise; the repository's own tests also use A not dividing M, where a vector of length M cannot be assigned: get_lims underflows)",
        "vector specifications (/verif/specs/parts/C04_V.py) speak about the payload only: filler cells are documented as unconstrained",
        "map: the hash is ABSTRACTED. Every call hash([a, b]) -> o of the hash chip handed to the real MapGadget is recorded (cells a, b, o exposed on the instance column) and o = Hf(a, b) for one uninterpreted Hf is all that is assumed about it; that the real PoseidonChip makes o the Poseidon digest of (a, b) is property C07 (poseidon/hash[n=2])",
        "map, hash=poseidon: the extracted system is the one the real MapGadget + NativeGadget + PoseidonChip emit; the rows that live entirely in the PoseidonChip's own advice columns (its permutation rows and the rows of its private NativeChip) are cut out and replaced by o = Hf(a, b); hash=uf: the same MapGadget/NativeGadget code is instantiated (through MapGadget's own type parameter H) with a hash chip whose digest is an unconstrained advice cell",
        "map: the decided statement is the WITNESS FORM over the recorded calls (see the comment block above S_map): per authentication, call c_0 hashes (key, 0); the system's own binary digits b of its output x satisfy b_i in {0,1} and sum b_i 2^i = x over the integers; at level i the input of call c_(i+1) on the side selected by b_i is the running node; the last output is the root; insert additionally: the siblings of the two authentications coincide. Witness form => 'exists path' form by instantiation; that two authentications of one key use the same index is functionality of Hf plus uniqueness of binary representations",
        "map: collision resistance of the hash (what makes the root a commitment to the map) is outside; the tree height 128 is the only one the API offers",
        "lemma chain (vecmap.prove_then_assume): conjuncts of a specification are proved one at a time from the system (some from a syntactic slice of it) and then used as facts; each step is an unsat answer for `hypotheses and not conjunct` with hypotheses a subset of the system plus earlier proved conjuncts",
    ]
    run.outside += [
        "vector: M outside {4, 8}, A not dividing M, element types other than AssignedNative / AssignedByte, AssignedVector::value (off-circuit)",
        "map: completeness beyond the listed honest runs (present / absent / boundary keys, empty map); hash=poseidon obligations cannot turn a solver counterexample into a replay (the model's digests are not Poseidon digests): under a defect they report INCONCLUSIVE and the hash=uf twin reports the VIOLATION",
    ]
    run.bounds.append(f"vector: tier={t}: {len(ents)} (operation, M, A, parameter) shapes, M in {{4, 8}}, A | M, T = AssignedNative (AssignedByte for assign / is_equal), k=10")
    run.bounds.append(f"map: tier={t}: {len(ments)} shapes: get / insert / insert-then-get x hash in {{uf, poseidon}}, tree height 128 (129 hash calls per authentication), k=11..15")
    run.notes.append("Engine C, families vector/map: csmt.Enc subclass vecmap.EarlyZeroEnc (is-zero lemma before range inference; rows whose products share a Boolean factor as an exact case split; no pairwise congruence/associativity lemma instances; inverse-hint cells re-solved in counterexample models before the exact re-check).")
    with use_encoder(EarlyZeroEnc):
        if not os.environ.get("VERIF_V_SKIP_VECTOR"):
            cengine.run_family(run, "vector", ents, timeout=60 if t == "quick" else 600, only=only)
            honest_wrong_pass(run, "vector", ents)
        if not os.environ.get("VERIF_V_SKIP_MAP"):
            cengine.run_family(run, "map", ments, timeout=120 if t == "quick" else 600, only=only, workers=5)
            honest_wrong_pass(run, "map", ments)
    st = vecmap.STATS
    run.translator_validation.append(f"vector/map: per obligation the honest assignment of the real run satisfies the encoded system and the specification (vacuity twin) and the exact re-evaluation of every extracted row; map lemma chain: {st['lemma_queries']} lemma queries, {st['lemma_proved']} proved, {st['solver_s']:.1f} s (not counted in the per-obligation query numbers)")
