"""C17 (engine S) — clause "parameters downsized to k' equal parameters derived for k' from the same secret".

REAL code executed on the symbolic pairing engine SymE (G1/G2 = discrete logarithms over the term-building
field SymF), scenario `sx params` (engines/symfield/src/c17.rs):
  ParamsKZG::<SymE>::unsafe_setup(k, rng)      the toxic waste is `SymF::random(rng)` = the VARIABLE rnd1 (the
                                               counter is reset before every setup call: same secret); its two
                                               `parallelize`d loops run on a rayon pool of the stated size
  <ParamsKZG<SymE> as Params>::downsize(k')    -> ParamsKZG::downsize -> g_to_lagrange -> best_fft (rayon)
  ParamsKZG::from_parts(k', g[..2^k'], None, g2, s_g2)   the public constructor that derives the Lagrange basis
  ParamsKZG::write_custom / read_custom         used to read the vectors off (g has no accessor)
Nothing is replaced: `unsafe_setup` runs as is (its RNG draw is the symbol).

Per (k, k', pool) the obligations are polynomial identities in s, decided as in C12/C14: both sides are
normalised (vf/symf.py, exact arithmetic mod p) in F_p[s, W]/(W (s^(2^k) - 1) - 1) — W = 1/(s^n - 1) absorbs the
`(s - omega^j)^-1` of unsafe_setup — and the ground residual "some coefficient differs mod p" goes to the
portfolio z3-new || cvc5 (unsat = HOLDS) together with a perturbed twin that must be sat:
  g            len = 2^k', g'[i] = s^i; header k and max_k() = k'; g2 and s_g2 unchanged (= 1, = s)
  g_lagrange   len = 2^k', g_lagrange'[j] = l_j^(k')(s) = (1/2^k') sum_m omega'^(-jm) s^m, omega' re-derived from
               ROOT_OF_UNITY / S and checked primitive inside the query
  same-as-setup  downsized == unsafe_setup(k') with the same s == from_parts(k', g[..2^k'], None, ..), member-wise
plus per (k, pool):  setup  unsafe_setup(k) itself equals the definition (g[i] = s^i, g_lagrange[j] = l_j^(k)(s)).
For all s with s^(2^k) != 1 (the path condition of unsafe_setup's inversions; s = omega^j makes the setup panic).
A VIOLATION is replayed by re-running the same real code in concrete mode (vals: rnd1 = a point where the residual
does not vanish) and comparing the concrete exponents with the definition evaluated in Python.

Second family (`sx paramsio`, clause "writing then reading a parameter set yields an object that serialises to the same
bytes", restricted to what SymE can see: framing, order, counts, and independence of the rayon pool): per (k, format,
pool t) the REAL write_custom runs inside local rayon pools of 1 and of t threads on the same parameters, the REAL
read_custom reads the t-thread bytes back inside the t-thread pool, and the result is re-written:
  bytes    Ok, byte string equal to the 1-thread one, and (decoded by record layout, normalised as above) equal to
           k, [s^i], [l_j(s)], [1], [s]
  read     Ok, everything consumed, same g_lagrange / g2 / s_g2 terms, max_k = k
  rewrite  same bytes again (1 thread and t threads)
Replay: the same in concrete mode AND `sx paramsio_real` = the same sequence on ParamsKZG<Bls12> (real curve points).
"""
import random
from concurrent.futures import ThreadPoolExecutor

from vf import core, solvers, symf
from vf.core import HOLDS, VIOLATION, INCONCLUSIVE
from vf.symf import P

ENGINE = "S"
KP = "proofs/src/poly/kzg/params.rs"
F_DOWN = [f"{KP}::ParamsKZG::downsize", f"{KP}::<ParamsKZG as Params>::downsize", f"{KP}::<ParamsKZG as Params>::max_k",
          "proofs/src/utils/arithmetic.rs::g_to_lagrange", "proofs/src/utils/arithmetic.rs::parallelize", "curves/src/fft.rs::best_fft",
          f"{KP}::ParamsKZG::unsafe_setup", f"{KP}::ParamsKZG::write_custom"]
F_SAME = F_DOWN + [f"{KP}::ParamsKZG::from_parts"]
F_SETUP = [f"{KP}::ParamsKZG::unsafe_setup", "proofs/src/utils/arithmetic.rs::parallelize", f"{KP}::ParamsKZG::write_custom"]


def _wr(run, ob, payload):
    return run.write_replay(ob, dict(payload, engine_part="S"))


def H(x):
    return int(x, 16)


def inv(a):
    return pow(a % P, P - 2, P)


def root(consts, logn):
    return pow(H(consts["root_of_unity"]), 1 << (consts["S"] - logn), P)


def root_facts(w, n):
    f = [(pow(w, n, P), 1)]
    if n > 1:
        f.append((pow(w, n // 2, P), P - 1))
    return f


CONSTS = None


def consts():
    """ROOT_OF_UNITY and S as the real constants report them (sx fft prints them)"""
    global CONSTS
    if CONSTS is None:
        CONSTS = symf.sx("fft", logn=1, threads=1)["consts"]
    return CONSTS


class Member:
    """one parameter set of an `sx params` run, normalised lazily in the run's ring"""

    def __init__(self, view, j):
        self.v, self.j = view, j
        self.ok = j is not None and j.get("status", "ok") == "ok"

    def nf(self, i):
        return self.v.dag.normal(self.v.ring, i, self.v.memo)

    def g(self):
        return [self.nf(i) for i in self.j["g"]]

    def gl(self):
        return [self.nf(i) for i in self.j["gl"]]


class View:
    def __init__(self, d):
        self.d = d
        self.k, self.kp = d["k"], d["kp"]
        self.dag = symf.Dag(d["arena"])
        self.sname = self.dag.var_name(d["s"])
        self.concrete = self.sname is None
        self.ring = symf.Ring(self.sname or "rnd1", 1 << self.k)
        self.memo = {}
        self.orig, self.down = Member(self, d["orig"]), Member(self, d.get("down"))
        self.fresh, self.parts = Member(self, d.get("fresh")), Member(self, d.get("parts"))

    def spow(self, i):
        X = self.ring.X
        return {(((X, i),) if i else ()): 1}

    def lagrange(self, logn, j):
        """l_j(X) = (1/n) sum_m omega^(-jm) X^m on the domain of size n = 2^logn"""
        n = 1 << logn
        w = root(consts(), logn)
        ninv = inv(n)
        X = self.ring.X
        return {(((X, m),) if m else ()): ninv * pow(w, (-j * m) % n, P) % P for m in range(n)}


def eq_pairs(a, b):
    return [(a.get(m, 0), b.get(m, 0)) for m in set(a) | set(b)] or [(0, 0)]


def vec_pairs(real, spec):
    pairs = [(len(real), len(spec))]
    for a, b in zip(real, spec):
        pairs += eq_pairs(a, b)
    return pairs


def pairs_g(v, m, logn):
    """monomial basis, header, G2 part of member m against the definition for size 2^logn"""
    one, s = v.ring.const(1), v.spow(1)
    pairs = [(m.j["k_header"], logn), (m.j["g2"], m.j["g2_acc"]), (m.j["s_g2"], m.j["s_g2_acc"])]
    if "max_k" in m.j:
        pairs.append((m.j["max_k"] if isinstance(m.j["max_k"], int) else -1, logn))
    pairs += vec_pairs(m.g(), [v.spow(i) for i in range(1 << logn)])
    pairs += eq_pairs(m.nf(m.j["g2"]), one) + eq_pairs(m.nf(m.j["s_g2"]), s)
    # unchanged G2 part: the same terms as the original's
    pairs += eq_pairs(m.nf(m.j["g2"]), v.orig.nf(v.orig.j["g2"])) + eq_pairs(m.nf(m.j["s_g2"]), v.orig.nf(v.orig.j["s_g2"]))
    return pairs


def pairs_gl(v, m, logn):
    w = root(consts(), logn)
    return root_facts(w, 1 << logn) + vec_pairs(m.gl(), [v.lagrange(logn, j) for j in range(1 << logn)])


def pairs_same(v, a, b):
    pairs = [(a.j["k_header"], b.j["k_header"])]
    pairs += vec_pairs(a.g(), b.g()) + vec_pairs(a.gl(), b.gl())
    pairs += eq_pairs(a.nf(a.j["g2"]), b.nf(b.j["g2"])) + eq_pairs(a.nf(a.j["s_g2"]), b.nf(b.j["s_g2"]))
    return pairs


def clause_pairs(v, clause):
    """-> (pairs, problem) for one clause of one run; problem = text when the run itself went wrong"""
    if clause == "setup":
        return pairs_g(v, v.orig, v.k) + pairs_gl(v, v.orig, v.k), None
    if not v.down.ok:
        return [(0, 1)], f"downsize({v.kp}) on parameters of size k={v.k}: {v.d['down'].get('status')} {v.d['down'].get('msg', '')[:200]}"
    if clause == "g":
        return pairs_g(v, v.down, v.kp), None
    if clause == "g_lagrange":
        return pairs_gl(v, v.down, v.kp), None
    if clause == "same-as-setup":
        for nm, m in (("unsafe_setup", v.fresh), ("from_parts", v.parts)):
            if not m.ok:
                return [(0, 1)], f"{nm}({v.kp}) did not return: {(m.j or {}).get('msg', 'absent')}"
        return pairs_same(v, v.down, v.fresh) + pairs_same(v, v.down, v.parts), None
    raise ValueError(clause)


def validate_normaliser(v, rnd):
    """translator validation: DAG value == normal-form value at a pseudo-random point (never evidence)"""
    if v.concrete:
        return True
    n = 1 << v.k
    s0 = rnd.randrange(2, P)
    env = {v.sname: s0}
    val = {v.ring.X: s0, v.ring.W: inv(pow(s0, n, P) - 1)}
    em = {}
    ids = list(v.d["orig"]["gl"][:3]) + (list(v.d["down"]["gl"][:3]) if v.down.ok else []) + (list(v.d["fresh"]["gl"][-2:]) if v.fresh.ok else [])
    for i in ids:
        if v.dag.evaluate(i, env, em) != v.ring.evaluate(v.dag.normal(v.ring, i, v.memo), val):
            return False
    return True


def settle(run, ob, v, clause, payload):
    pairs, problem = clause_pairs(v, clause)
    if v.ring.atoms:
        return ob.set(INCONCLUSIVE, f"{len(v.ring.atoms)} opaque inverse atoms left after normalisation")
    r = solvers.solve(symf.residual_smt(pairs), timeout=60)
    tw_pairs = list(pairs[:40])
    tw_pairs[-1] = (tw_pairs[-1][0], (tw_pairs[-1][1] + 1) % P)
    tw = solvers.solve(symf.residual_smt(tw_pairs), timeout=60)
    ob.queries += 2
    ob.vacuity = tw.status == "sat"
    if r.status == "unsat" and ob.vacuity and not problem:
        return ob.set(HOLDS, f"{len(pairs)} coefficient equalities in F_p[s,W]/(W(s^{1 << v.k}-1)-1)", solver=r.solver, solver_s=r.time_s + tw.time_s)
    if r.status == "sat" or problem:
        bad = sum(1 for a, b in pairs if a != b)
        rnd = random.Random(1000 * core.seed() + 17 * v.k + v.kp)
        for _ in range(4):
            payload = dict(payload, s=hex(rnd.randrange(2, P)), differing=bad)
            if replay(payload):
                return ob.set(VIOLATION, problem or f"{bad} of {len(pairs)} coefficients differ from the definition; concrete re-run at s = {payload['s'][:14]}.. differs too",
                              solver=r.solver, solver_s=r.time_s, replay=_wr(run, ob, payload))
        return ob.set(INCONCLUSIVE, f"mismatch ({problem or bad}) did not reproduce in concrete mode")
    return ob.set(INCONCLUSIVE, f"solver {r.status} / twin {tw.status}")


CLAUSE_WHAT = {
    "g": "downsized monomial basis: 2^k' elements, g'[i] = [s^i]; header k / max_k() = k'; g2, s_g2 unchanged",
    "g_lagrange": "downsized Lagrange basis is the Lagrange basis of the size-2^k' domain: g_lagrange'[j] = [l_j^(k')(s)]",
    "same-as-setup": "downsize(unsafe_setup(k), k') == unsafe_setup(k') with the same secret == from_parts(k', g[..2^k'], None, g2, s_g2), member-wise",
}
CLAUSE_KEY = {"g": "downsize:monomial-basis", "g_lagrange": "downsize:lagrange-basis", "same-as-setup": "downsize:equals-setup"}


def check_pair(run, k, kp, t):
    obs = {}
    bound = (f"k={k}, k'={kp}, rayon pool {t}; all secrets s with s^{1 << k} != 1 (symbolic); group elements = their discrete logarithms")
    clauses = ["g", "g_lagrange", "same-as-setup"] + (["setup"] if kp == k else [])
    for c in clauses:
        if c == "setup":
            ob = core.Ob(f"C17/S/setup/k{k}/threads{t}", ENGINE,
                         "unsafe_setup(k) equals the definition: g[i] = [s^i], g_lagrange[j] = [l_j^(k)(s)], g2 = [1], s_g2 = [s]",
                         functions=F_SETUP, bound=f"k={k}, rayon pool {t}; all s with s^{1 << k} != 1", key="setup:definition")
        else:
            ob = core.Ob(f"C17/S/downsize/k{k}-to-{kp}/threads{t}/{c}", ENGINE, CLAUSE_WHAT[c], functions=F_SAME if c == "same-as-setup" else F_DOWN,
                         bound=bound, key=CLAUSE_KEY[c] + (":k'=0" if kp == 0 else ""))
        run.add(ob)
        obs[c] = ob
    try:
        v = View(symf.sx("params", k=k, kp=kp, threads=t))
        if not validate_normaliser(v, random.Random(core.seed() * 7919 + 64 * k + kp)):
            raise RuntimeError("normaliser validation failed: DAG value != normal form value at a random point")
        for m in (v.orig, v.down, v.fresh, v.parts):
            if m.ok and not m.j.get("reread_same_bytes"):
                raise RuntimeError("extraction check failed: read_custom(write_custom(p)) does not re-write to the same bytes")
        if v.dag.ord_symbolic:
            raise RuntimeError("value-order comparison of a symbolic term occurred")
    except Exception as ex:
        for ob in obs.values():
            ob.set(INCONCLUSIVE, str(ex)[-300:])
        return
    for c in clauses:
        settle(run, obs[c], v, c, {"kind": "c17-params", "k": k, "kp": kp, "threads": t, "clause": c})


# ------------------------------------------------------------------ write_custom / read_custom under thread pools
# `sx paramsio`: parameters for k with symbolic secret (built under a 1-thread pool: deterministic arena); the REAL
# write_custom runs inside a local rayon pool of 1 thread and of t threads on the SAME object, the REAL read_custom
# (its Processed branch uses `parallelize` too) reads the t-thread bytes back inside the t-thread pool, and the
# result is written again. SymE points go through the same calls as real curve points: `<Exp<1> as
# ProcessedSerdeObject>::write(writer, format)`, `<Exp<1> as GroupEncoding>::to_bytes/from_bytes`, with
# `byte_length::<Exp<1>>(Processed)` = Repr length = 40 bytes (one term record). A parallel writer that splits the
# BYTE buffer evenly over the pool is aligned to 40-byte records only if 40 * 2^k / t is a multiple of 40: never for
# t = 3 and t = 5, for t = 4 only when k >= 2 (for the 48-byte BLS12-381 G1 encoding: never for 3 and 5, t = 4 only when
# k >= 2 as well), so pools {3, 5} break alignment for every k and pool 4 for k < 2; pool 1 is the reference.
F_IO = [f"{KP}::ParamsKZG::write_custom", f"{KP}::ParamsKZG::read_custom", "proofs/src/utils/arithmetic.rs::parallelize",
        "proofs/src/utils/helpers.rs::byte_length", f"{KP}::ParamsKZG::unsafe_setup"]
IO_WHAT = {
    "bytes": "write_custom under a pool of t threads returns Ok and emits the same byte string as under 1 thread; the bytes are header k, "
             "then the records of [s^i], [l_j(s)], g2 = [1], s_g2 = [s] in this order",
    "read": "read_custom of those bytes (inside the same pool) returns Ok, consumes everything, and yields parameters with the same "
            "g_lagrange, g2, s_g2 (terms equal) and max_k = k",
    "rewrite": "write_custom of the re-read parameters emits the same bytes again (under 1 thread and under t threads); with `bytes` this also "
               "pins the re-read monomial basis g",
}
IO_KEY = {"bytes": "params-io:write-pool-independent", "read": "params-io:read-of-write", "rewrite": "params-io:rewrite-same-bytes"}
TAG_G1, TAG_G2 = 0xE1, 0xE2


class IoView:
    def __init__(self, d):
        self.d, self.k = d, d["k"]
        self.dag = symf.Dag(d["arena"])
        self.sname = self.dag.var_name(d["s"])
        self.ring = symf.Ring(self.sname or "rnd1", 1 << self.k)
        self.memo = {}

    def nf(self, i):
        return self.dag.normal(self.ring, i, self.memo)

    spow = View.spow
    lagrange = View.lagrange


def io_records(v, hexbytes):
    """-> (header k, [(tag, id)], problem)"""
    b = bytes.fromhex(hexbytes)
    rec = v.d["rec"]
    if len(b) < 4 or (len(b) - 4) % rec:
        return None, [], f"{len(b)} bytes is not a header plus whole records"
    out = []
    for o in range(4, len(b), rec):
        r = b[o:o + rec]
        if any(r[5:]):
            return None, [], f"record at offset {o} has non-zero padding"
        out.append((r[0], int.from_bytes(r[1:5], "little")))
    return int.from_bytes(b[:4], "little"), out, None


def io_pairs(v, r, clause, by_value=None):
    """(pairs, problem) of one clause for one pool run r. by_value: concrete replay (compare values, not coefficients)"""
    n = 1 << v.k
    if clause == "bytes":
        if r.get("write_t_err") or r.get("write_1_err"):
            return [(0, 1)], f"write_custom: {r.get('write_t_err') or r.get('write_1_err')}"
        bt, b1 = r["bytes_t"], r["bytes_1"]
        pairs = [(len(bt) // 2, 4 + (2 * n + 2) * v.d["rec"]), (len(bt), len(b1)), (1 if r["bytes_equal"] else 0, 1)]
        pairs += [(x, y) for x, y in zip(bytes.fromhex(bt), bytes.fromhex(b1))]
        kh, recs, problem = io_records(v, bt)
        if problem:
            return pairs + [(0, 1)], problem
        pairs.append((kh, v.k))
        pairs.append((len(recs), 2 * n + 2))
        tags = [TAG_G1] * (2 * n) + [TAG_G2] * 2
        pairs += [(t, e) for (t, _), e in zip(recs, tags)]
        if [t for t, _ in recs] != tags[:len(recs)] or len(recs) != 2 * n + 2:
            bad = next((i for i, ((t, _), e) in enumerate(zip(recs, tags)) if t != e), len(recs))
            return pairs, f"record {bad} of the bytes written under {r['threads']} threads is not a point record (tag {recs[bad][0] if bad < len(recs) else None})"
        ids = [i for _, i in recs]
        spec = [v.spow(i) for i in range(n)] + [v.lagrange(v.k, j) for j in range(n)] + [v.ring.const(1), v.spow(1)]
        if by_value is not None:
            ev = lambda nf: v.ring.evaluate(nf, by_value)
            pairs += [(ev(v.nf(i)), ev(sp)) for i, sp in zip(ids, spec)]
        else:
            pairs += root_facts(root(consts(), v.k), n)
            for i, sp in zip(ids, spec):
                pairs += eq_pairs(v.nf(i), sp)
        # the accessors see the same terms as the bytes
        pairs += [(a, b) for a, b in zip(ids[n:2 * n], v.d["gl_acc"])] + [(ids[2 * n], v.d["g2_acc"]), (ids[2 * n + 1], v.d["s_g2_acc"])]
        return pairs, None
    rd = r.get("read")
    if rd is None:
        return [(0, 1)], f"nothing to read: write_custom under {r['threads']} threads: {r.get('write_t_err')}"
    if rd["status"] != "ok":
        return [(0, 1)], f"read_custom of the bytes written under {r['threads']} threads: {rd['status']} {rd.get('msg', '')[:160]}"
    if clause == "read":
        return [(rd["unread"], 0), (1 if rd["same_accessors"] else 0, 1), (rd["max_k"] if isinstance(rd["max_k"], int) else -1, v.k)], None
    if clause == "rewrite":
        problem = f"re-write: {rd['rewrite_err']}" if rd.get("rewrite_err") else None
        return [(1 if rd["rewrite_1_equal"] else 0, 1), (1 if rd["rewrite_t_equal"] else 0, 1)], problem
    raise ValueError(clause)


def settle_io(run, ob, v, r, clause, payload):
    pairs, problem = io_pairs(v, r, clause)
    if v.ring.atoms:
        return ob.set(INCONCLUSIVE, f"{len(v.ring.atoms)} opaque inverse atoms left after normalisation")
    q = solvers.solve(symf.residual_smt(pairs), timeout=60)
    tw_pairs = list(pairs[:40])
    tw_pairs[-1] = (tw_pairs[-1][0], (tw_pairs[-1][1] + 1) % P)
    tw = solvers.solve(symf.residual_smt(tw_pairs), timeout=60)
    ob.queries += 2
    ob.vacuity = tw.status == "sat"
    if q.status == "unsat" and ob.vacuity and not problem:
        return ob.set(HOLDS, f"{len(pairs)} equalities (bytes, record structure, coefficients)", solver=q.solver, solver_s=q.time_s + tw.time_s)
    if q.status == "sat" or problem:
        bad = sum(1 for a, b in pairs if a != b)
        rnd = random.Random(1000 * core.seed() + 31 * v.k + r["threads"])
        payload = dict(payload, s=hex(rnd.randrange(2, P)), differing=bad)
        if replay(payload):
            return ob.set(VIOLATION, (problem or f"{bad} of {len(pairs)} equalities fail") + "; reproduced by the concrete re-run and on the real BLS12-381 stack",
                          solver=q.solver, solver_s=q.time_s, replay=_wr(run, ob, payload))
        return ob.set(INCONCLUSIVE, f"mismatch ({problem or bad}) did not reproduce (concrete re-run + real BLS12-381 stack)")
    return ob.set(INCONCLUSIVE, f"solver {q.status} / twin {tw.status}")


def check_io(run, k, fmt, pools):
    obs = {}
    for t in pools:
        for c in ("bytes", "read", "rewrite"):
            ob = core.Ob(f"C17/S/params-io/k{k}/{fmt}/threads{t}/{c}", ENGINE, IO_WHAT[c], functions=F_IO,
                         bound=f"k={k} ({2 << k} G1 points + 2 G2 points), format {fmt}, rayon pool {t} (reference: pool 1); symbolic secret s, s^{1 << k} != 1; "
                               "points = 40-byte term records", key=IO_KEY[c])
            run.add(ob)
            obs[(t, c)] = ob
    try:
        v = IoView(symf.sx("paramsio", k=k, fmt=fmt, pools=list(pools)))
        if v.dag.ord_symbolic:
            raise RuntimeError("value-order comparison of a symbolic term occurred")
    except Exception as ex:
        for ob in obs.values():
            ob.set(INCONCLUSIVE, str(ex)[-300:])
        return
    for r in v.d["runs"]:
        for c in ("bytes", "read", "rewrite"):
            settle_io(run, obs[(r["threads"], c)], v, r, c, {"kind": "c17-io", "k": k, "fmt": fmt, "threads": r["threads"], "clause": c})


def io_family():
    quick = core.tier() == "quick"
    ks = range(0, 4) if quick else range(0, 6)
    fmts = ("processed", "rawbytes") if quick else ("processed", "rawbytes", "unchecked")
    return [(k, f) for k in ks for f in fmts], (1, 3, 4, 5)


def replay_io(payload):
    """(1) the same real write_custom/read_custom at SymE in concrete mode (rnd1 := payload['s']); (2) the same on the real
    BLS12-381 stack (`sx paramsio_real`): write under the pool, compare with the 1-thread bytes, read back, re-write."""
    s0 = H(payload["s"])
    k, fmt, t, clause = payload["k"], payload["fmt"], payload["threads"], payload["clause"]
    v = IoView(symf.sx("paramsio", k=k, fmt=fmt, pools=[t], vals={"rnd1": hex(s0)}))
    val = {v.ring.X: s0, v.ring.W: inv(pow(s0, 1 << k, P) - 1)}
    pairs, problem = io_pairs(v, v.d["runs"][0], clause, by_value=val)
    bad = sum(1 for a, b in pairs if a != b)
    print(f"SymE concrete re-run (k={k}, {fmt}, pool {t}, clause {clause}): {problem or f'{bad} of {len(pairs)} equalities fail'}")
    real = symf.sx("paramsio_real", k=k, fmt=fmt, pools=[t])["runs"][0]
    rd = real.get("read") or {}
    real_bad = {"bytes": bool(real.get("write_t_err")) or not real["bytes_equal"],
                "read": rd.get("status") != "ok" or rd.get("unread") != 0 or not rd.get("same_accessors") or rd.get("max_k") != k,
                "rewrite": rd.get("status") != "ok" or not (rd.get("rewrite_1_equal") and rd.get("rewrite_t_equal"))}[clause]
    print(f"real BLS12-381 stack (ParamsKZG<Bls12>, k={k}, {fmt}, pool {t}): bytes equal to the 1-thread bytes = {real['bytes_equal']}, "
          f"write error = {real.get('write_t_err')}, read_custom = {rd.get('status')} {rd.get('msg', '')[:80]}, same parameters = {rd.get('same_accessors')}, "
          f"re-written bytes equal = {rd.get('rewrite_1_equal')}/{rd.get('rewrite_t_equal')}  => clause {clause} {'FAILS' if real_bad else 'holds'}")
    return 1 if ((bad or problem) and real_bad) else 0



def family():
    quick = core.tier() == "quick"
    kmax = 4 if quick else 6
    pools = (1, 3, 4, 5) if quick else (1, 2, 3, 4, 5, 8, 16)
    return [(k, kp, t) for k in range(1, kmax + 1) for kp in range(0, k + 1) for t in pools], kmax, pools


def check(run):
    symf.build(run)
    jobs, kmax, pools = family()
    run.bounds.append(f"C17/S: parameters of size k = 1..{kmax}, downsize targets k' = 0..k, rayon pools {list(pools)}; toxic waste s symbolic "
                      "(all s with s^(2^k) != 1)")
    run.assumptions += [
        "S/C17: group elements are modelled by their discrete logarithms (SymE): scalar multiplication = product, addition = sum; "
        "curve arithmetic, MSM and blst are not executed",
    ]
    run.outside += [
        "C17: determinism under parallelism as a property over thread SCHEDULES and whole key-generation runs (blst MSM/FFT, rayon "
        "work stealing): engine S decides the downsize/setup routines for fixed POOL SIZES only (each pool size yields the same canonical polynomial)",
        "C17: proving keys (ProvingKey::read/write, rebuilt polynomials and evaluator), 'produces and accepts exactly the same proofs' "
        "(cross-verification of proofs between original and reloaded keys needs the real prover over real curve points)",
        "C17: serialisation formats of ParamsKZG over real curve points (Processed / RawBytes / RawBytesUnchecked encodings of G1/G2, "
        "subgroup and on-curve checks): at SymE a point is a 40-byte term record whatever the format; the params-io obligations decide the "
        "framing (header, order, counts), pool independence and the read-back of write_custom/read_custom, not the point encodings",
        "C17: downsize(k') with k' > k: refused by `assert!(n < self.g_lagrange.len())` before anything is modified (observed: panic, object "
        "unchanged); k' >= 64 overflows `1 << new_k` (debug: panic; release: wraps). The documentation asks for a smaller k; not an obligation",
        "C17: unsafe_setup with s a 2^k-th root of unity panics in `(s - root_pow).invert().unwrap()` (excluded by the path condition)",
    ]
    run.translator_validation.append(
        "S/C17: per run the normaliser is validated by evaluating DAG and normal form of 8 Lagrange-basis terms at a pseudo-random s; "
        "write_custom's second vector is compared with the g_lagrange() accessor inside sx; every query has a perturbed twin that must be sat; "
        "omega is re-derived from ROOT_OF_UNITY/S and checked primitive inside the g_lagrange queries")
    consts()
    io_jobs, io_pools = io_family()
    if getattr(run, "only", None):
        dj = [j for j in jobs if run.only in f"downsize/k{j[0]}-to-{j[1]}/threads{j[2]}"]
        ij = [j for j in io_jobs if run.only in f"params-io/k{j[0]}/{j[1]}/"]
        if dj or ij:
            jobs, io_jobs = dj, ij
    run.bounds.append(f"C17/S params-io: k = {io_jobs[0][0] if io_jobs else 0}..{io_jobs[-1][0] if io_jobs else 0}, formats {sorted(set(j[1] for j in io_jobs))}, "
                      f"rayon pools {list(io_pools)} for write_custom and read_custom (local pools, reference pool 1)")
    with ThreadPoolExecutor(max_workers=4) as ex:
        futs = [ex.submit(check_pair, run, *j) for j in jobs] + [ex.submit(check_io, run, k, f, io_pools) for k, f in io_jobs]
        for f in futs:
            try:
                f.result()
            except Exception as e:
                import traceback
                traceback.print_exc()
                ob = core.Ob("C17/S/engine", ENGINE, "engine S infrastructure")
                run.add(ob)
                ob.set(INCONCLUSIVE, f"crashed: {e!r}")


def replay(payload):
    """Concrete re-run: the same real unsafe_setup / downsize / from_parts with rnd1 := payload['s']; every exponent is
    then a constant, compared with the definition evaluated here. Returns 1 if the named clause fails at that point."""
    if payload.get("engine_part") not in (None, "S") or payload.get("kind") not in ("c17-params", "c17-io"):
        return None
    symf.build()
    if payload["kind"] == "c17-io":
        return replay_io(payload)
    s0 = H(payload["s"])
    d = symf.sx("params", k=payload["k"], kp=payload["kp"], threads=payload["threads"], vals={"rnd1": hex(s0)})
    v = View(d)
    pairs, problem = clause_pairs(v, payload["clause"])
    # in concrete mode every normal form is a constant and the specification polynomials must be evaluated at s0
    val = {v.ring.X: s0, v.ring.W: inv(pow(s0, 1 << v.k, P) - 1)}
    # clause_pairs compared coefficient-wise against polynomials in s; redo it by value
    bad = concrete_mismatches(v, payload["clause"], val)
    if problem:
        print(f"real code at s = {hex(s0)[:18]}..: {problem}")
        return 1
    print(f"concrete re-run at s = {hex(s0)[:18]}..: {len(bad)} members differ from the definition: {bad[:4]}")
    return 1 if bad else 0


def concrete_mismatches(v, clause, val):
    ev = lambda nf: v.ring.evaluate(nf, val)
    bad = []

    def cmp_vec(name, real, spec):
        if len(real) != len(spec):
            bad.append(f"{name}: length {len(real)} != {len(spec)}")
        for i, (a, b) in enumerate(zip(real, spec)):
            if ev(a) != ev(b):
                bad.append(f"{name}[{i}]")

    def cmp_g(m, logn):
        if m.j["k_header"] != logn:
            bad.append(f"header k {m.j['k_header']} != {logn}")
        if "max_k" in m.j and m.j["max_k"] != logn:
            bad.append(f"max_k {m.j['max_k']} != {logn}")
        cmp_vec("g", m.g(), [v.spow(i) for i in range(1 << logn)])
        cmp_vec("g2/s_g2", [m.nf(m.j["g2"]), m.nf(m.j["s_g2"])], [v.ring.const(1), v.spow(1)])

    if clause == "setup":
        cmp_g(v.orig, v.k)
        cmp_vec("g_lagrange", v.orig.gl(), [v.lagrange(v.k, j) for j in range(1 << v.k)])
        return bad
    if not v.down.ok:
        return ["downsize did not return"]
    if clause == "g":
        cmp_g(v.down, v.kp)
    elif clause == "g_lagrange":
        cmp_vec("g_lagrange", v.down.gl(), [v.lagrange(v.kp, j) for j in range(1 << v.kp)])
    elif clause == "same-as-setup":
        for nm, m in (("unsafe_setup", v.fresh), ("from_parts", v.parts)):
            if not m.ok:
                bad.append(f"{nm} did not return")
                continue
            cmp_vec(f"g vs {nm}", v.down.g(), m.g())
            cmp_vec(f"g_lagrange vs {nm}", v.down.gl(), m.gl())
            cmp_vec(f"g2/s_g2 vs {nm}", [v.down.nf(v.down.j["g2"]), v.down.nf(v.down.j["s_g2"])], [m.nf(m.j["g2"]), m.nf(m.j["s_g2"])])
    return bad
