"""C12 (engine S) — FFT and evaluation-domain algebra equal their definitions.

The REAL generic routines run on term-building inputs:
  * LinF unit forms (affine forms over Fq): a linear routine applied to the unit forms e_1..e_n returns
    the rows of its matrix, i.e. its result for ALL input vectors. Obligation "for all a: R(a) = Spec(a)"
    becomes the coefficient-wise equality of two matrices (ground after extraction), sent to the solver
    portfolio as `some coefficient differs mod p` (unsat = HOLDS) with a perturbed twin (sat).
    A product of two non-constant forms would panic (non-linear path => reported, not mis-decided).
  * SymF for the routines with a symbolic point (l_i_range in x, kate_division / eval_polynomial in z):
    both sides are normalised to canonical polynomials (vf/symf.py) and compared coefficient-wise.
Symbolic: the vector entries, x, z. Concrete per obligation: the size n, omega (derived in the
specification from ROOT_OF_UNITY and S as reported by the real constants and validated: omega^n = 1,
omega^(n/2) = -1), the rayon pool size.
"""
import json, time
from concurrent.futures import ThreadPoolExecutor

from vf import core, solvers, symf
from vf.core import HOLDS, VIOLATION, INCONCLUSIVE
from vf.symf import P

ENGINE = "S"


def _wr(run, ob, payload):
    """replay file of this part (the aggregator dispatches on engine_part)"""
    return run.write_replay(ob, dict(payload, engine_part="S"))


def H(x):
    return int(x, 16)


def inv(a):
    return pow(a % P, P - 2, P)


def row(r, width):
    v = [H(x) for x in r]
    return v + [0] * (width + 1 - len(v))


def mat(rows_, width):
    return [row(r, width) for r in rows_]


def root(consts, logn):
    return pow(H(consts["root_of_unity"]), 1 << (consts["S"] - logn), P)


def root_facts(w, n):
    """pairs that are equal iff w is a primitive n-th root of unity (n a power of two)"""
    f = [(pow(w, n, P), 1)]
    if n > 1:
        f.append((pow(w, n // 2, P), P - 1))
    return f


def settle(run, ob, pairs, payload, detail=""):
    r = solvers.solve(symf.residual_smt(pairs), timeout=60)
    tw_pairs = list(pairs[:40]) or [(0, 0)]
    tw_pairs[-1] = (tw_pairs[-1][0], (tw_pairs[-1][1] + 1) % P)
    tw = solvers.solve(symf.residual_smt(tw_pairs), timeout=60)
    ob.queries += 2
    ob.vacuity = tw.status == "sat"
    if r.status == "unsat" and ob.vacuity:
        ob.set(HOLDS, f"{len(pairs)} coefficient equalities. {detail}", solver=r.solver, solver_s=r.time_s + tw.time_s)
    elif r.status == "sat":
        bad = [i for i, (a, b) in enumerate(pairs) if a != b]
        payload = dict(payload, differing=len(bad))
        if replay(payload):
            ob.set(VIOLATION, f"{len(bad)} of {len(pairs)} coefficients differ from the definition. {detail}",
                   solver=r.solver, solver_s=r.time_s, replay=_wr(run, ob, payload))
        else:
            ob.set(INCONCLUSIVE, "mismatch did not reproduce")
    else:
        ob.set(INCONCLUSIVE, f"solver {r.status} / twin {tw.status}")


def matrix_pairs(real, spec):
    """real: list of rows [c0, c1..cw]; spec: list of rows [s1..sw] (constant term must be 0)"""
    pairs = []
    for rr, sr in zip(real, spec):
        pairs.append((rr[0], 0))
        for a, b in zip(rr[1:], sr):
            pairs.append((a, b % P))
    if len(real) != len(spec):
        pairs.append((len(real), len(spec)))
    return pairs


# ------------------------------------------------------------------ FFT
def fft_pairs(d):
    logn = d["logn"]
    n = 1 << logn
    w = root(d["consts"], logn)
    spec = [[pow(w, i * j, P) for i in range(n)] for j in range(n)]
    pairs = root_facts(w, n) + [(H(d["omega"]), w)]
    pairs += matrix_pairs(mat(d["out"], n), spec)
    pairs += matrix_pairs(mat(d["out_field"], n), spec)
    return pairs


def check_fft(run, logn, threads):
    n = 1 << logn
    ob = core.Ob(f"C12/S/fft/n{n}/threads{threads}", ENGINE, "best_fft(a) = [omega^(ij)] a for all a in F^n (group=LinF/scalar=Fq and group=scalar=LinF)",
                 functions=["curves/src/fft.rs::best_fft", "curves/src/fft.rs::recursive_butterfly_arithmetic"],
                 bound=f"n={n}, rayon pool {threads} ({'recursive' if logn > max(0, threads.bit_length() - 1) else 'iterative'} path), all input vectors",
                 key="fft-matrix")
    run.add(ob)
    try:
        d = symf.sx("fft", logn=logn, threads=threads)
    except Exception as ex:
        ob.set(INCONCLUSIVE, str(ex)[-300:])
        return
    settle(run, ob, fft_pairs(d), {"kind": "fft", "logn": logn, "threads": threads})


# ------------------------------------------------------------------ EvaluationDomain
def domain_specs(d):
    """routine -> (real matrix, spec matrix, width)"""
    k, j, n, N = d["k"], d["j"], d["n"], d["extended_len"]
    c = d["consts"]
    w = root(c, k)
    ek = k
    while (1 << ek) < n * (j - 1):
        ek += 1
    we = root(c, ek)
    zeta = H(c["zeta"])
    out = {}
    facts = root_facts(w, n) + root_facts(we, 1 << ek) + [(H(d["omega"]), w), (H(d["extended_omega"]), we), (d["extended_k"], ek),
                                                          (N, 1 << ek), (pow(zeta, 3, P), 1), (H(d["omega_inv"]) * w % P, 1)]
    if zeta == 1:
        facts.append((0, 1))
    ninv, Ninv = inv(n), inv(N)
    pt = [zeta * pow(we, r, P) % P for r in range(N)]       # the coset points
    out["c2l"] = (mat(d["c2l"], n), [[pow(w, i * m, P) for i in range(n)] for m in range(n)])
    out["l2c"] = (mat(d["l2c"], n), [[ninv * pow(w, -i * m % n, P) % P for m in range(n)] for i in range(n)])
    out["l2c_c2l"] = (mat(d["l2c_c2l"], n), [[1 if i == m else 0 for m in range(n)] for i in range(n)])
    out["c2e"] = (mat(d["c2e"], n), [[pow(pt[r], i, P) for i in range(n)] for r in range(N)])
    out["e2c_c2e"] = (mat(d["e2c_c2e"], n), [[1 if (i == m and i < n) else 0 for m in range(n)] for i in range(N)])
    if "e2c" in d:
        e2c = [[Ninv * inv(pow(pt[r], i, P)) % P for r in range(N)] for i in range(N)]
        out["e2c"] = (mat(d["e2c"], N), e2c)
        out["div"] = (mat(d["div"], N), [[inv(pow(pt[r], n, P) - 1) if r == m else 0 for m in range(N)] for r in range(N)])
        # extended -> lagrange: coefficients of degree < n of the interpolant, evaluated on the small domain
        out["e2l"] = (mat(d["e2l"], N), [[sum(e2c[i][r] * pow(w, m * i, P) for i in range(n)) % P for r in range(N)] for m in range(n)])
    for r, rowsr in d["rot"].items():
        r = int(r)
        out[f"rot{r}"] = (mat(rowsr, n), [[1 if m == (i + r) % n else 0 for m in range(n)] for i in range(n)])
    return out, facts


ROUTINE_FUNCS = {
    "c2l": "coeff_to_lagrange", "l2c": "lagrange_to_coeff", "l2c_c2l": "lagrange_to_coeff∘coeff_to_lagrange",
    "c2e": "coeff_to_extended", "e2c_c2e": "extended_to_coeff∘coeff_to_extended", "e2c": "extended_to_coeff",
    "div": "divide_by_vanishing_poly", "e2l": "extended_to_lagrange",
}
ROUTINE_WHAT = {
    "c2l": "evaluations on the domain {omega^m}", "l2c": "inverse DFT (1/n)[omega^(-im)]", "l2c_c2l": "identity",
    "c2e": "evaluation on the coset zeta*omega_ext^r", "e2c_c2e": "identity on degree < n (zero-padded)",
    "e2c": "interpolation from the coset: (1/N)(zeta omega_ext^r)^(-i)", "div": "pointwise division by X^n - 1 on the coset",
    "e2l": "coset evaluations -> evaluations on the small domain of the degree<n part",
}


def check_domain(run, k, j, threads):
    obs = {}
    names = list(ROUTINE_FUNCS) + ["rot"]
    for rn in names:
        what = ROUTINE_WHAT.get(rn, "Polynomial<Lagrange>::rotate(r) = index shift by r, r in -3..3")
        fn = ROUTINE_FUNCS.get(rn, "Polynomial::rotate")
        ob = core.Ob(f"C12/S/domain/k{k}-j{j}/threads{threads}/{rn}", ENGINE, f"{fn} = {what}",
                     functions=[f"proofs/src/poly/domain.rs::{fn}" if rn != "rot" else "proofs/src/poly/mod.rs::Polynomial::rotate",
                                "proofs/src/poly/domain.rs::EvaluationDomain::new"],
                     bound=f"k={k} (n={1 << k}), quotient degree j={j}, rayon pool {threads}, all input vectors", key=f"domain-{rn}")
        run.add(ob)
        obs[rn] = ob
    try:
        d = symf.sx("domain", k=k, j=j, threads=threads)
        specs, facts = domain_specs(d)
    except Exception as ex:
        for ob in obs.values():
            ob.set(INCONCLUSIVE, str(ex)[-300:])
        return
    for rn in names:
        payload = {"kind": "domain", "k": k, "j": j, "threads": threads, "routine": rn}
        if rn == "rot":
            pairs = list(facts)
            for key, (real, spec) in specs.items():
                if key.startswith("rot"):
                    pairs += matrix_pairs(real, spec)
            settle(run, obs[rn], pairs, payload)
        elif rn in specs:
            real, spec = specs[rn]
            settle(run, obs[rn], list(facts) + matrix_pairs(real, spec), payload)
        else:
            obs[rn].set(INCONCLUSIVE, f"extended length {d['extended_len']} exceeds the {64} variables of LinF")


# ------------------------------------------------------------------ l_i_range, rotate_omega (SymF, x symbolic)
def lrange_pairs(d):
    k = d["k"]
    n = 1 << k
    dag = symf.Dag(d["arena"])
    ring = symf.Ring("x", n)
    memo = {}
    w = root(d["consts"], k)
    ninv = inv(n)
    pairs = root_facts(w, n) + [(dag.const(d["omega"]), w)]
    X = ring.X
    for idx, t in zip(range(d["lo"], d["hi"]), d["l"]):
        real = dag.normal(ring, t, memo)
        i = idx % n
        # l_i(X) = (1/n) sum_m omega^(-i m) X^m
        spec = {(((X, m),) if m else ()): ninv * pow(w, (-i * m) % n, P) % P for m in range(n)}
        for mono in set(real) | set(spec):
            pairs.append((real.get(mono, 0), spec.get(mono, 0)))
    for r, t in d["rotate_omega"]:
        real = dag.normal(ring, t, memo)
        spec = {((X, 1),): pow(w, r % n, P)}
        for mono in set(real) | set(spec):
            pairs.append((real.get(mono, 0), spec.get(mono, 0)))
    return pairs, len(ring.atoms)


def check_lrange(run, k):
    n = 1 << k
    lo, hi = -n - 2, 2 * n + 2
    ob = core.Ob(f"C12/S/l_i_range/k{k}", ENGINE,
                 "l_i_range(x, x^n, lo..hi)[i] = (1/n) sum_m omega^(-im) x^m (indices mod n) and rotate_omega(x,r) = omega^r x, x symbolic",
                 functions=["proofs/src/poly/domain.rs::l_i_range", "proofs/src/poly/domain.rs::rotate_omega"],
                 bound=f"k={k}, indices {lo}..{hi - 1} (negative and beyond n), rotations -3..3, all x with x^n != 1", key="l_i_range")
    run.add(ob)
    try:
        d = symf.sx("lrange", k=k, lo=lo, hi=hi)
        pairs, atoms = lrange_pairs(d)
    except Exception as ex:
        ob.set(INCONCLUSIVE, str(ex)[-300:])
        return
    if atoms:
        ob.set(INCONCLUSIVE, f"{atoms} opaque inverse atoms left after normalisation")
        return
    settle(run, ob, pairs, {"kind": "lrange", "k": k, "lo": lo, "hi": hi}, detail="rational functions reduced in F_p[x,W]/(W(x^n-1)-1)")


# ------------------------------------------------------------------ kate_division / eval_polynomial (SymF, z symbolic)
def kate_pairs(d):
    dag = symf.Dag(d["arena"])
    ring = symf.Ring()
    memo = {}
    deg = d["deg"]
    z = ring.var(dag.var_name(d["z"]))
    p = [dag.normal(ring, t, memo) for t in d["p"]]
    q = [dag.normal(ring, t, memo) for t in d["q"]]
    e = dag.normal(ring, d["eval"], memo)
    pairs = [(len(q), deg)]
    # eval = sum p_i z^i
    spec, zp = {}, ring.const(1)
    for i in range(deg + 1):
        spec = ring.add(spec, ring.mul(p[i], zp))
        zp = ring.mul(zp, z)
    for mono in set(e) | set(spec):
        pairs.append((e.get(mono, 0), spec.get(mono, 0)))
    # q(X)(X - z) + p(z) = p(X), coefficient of X^m
    for m in range(deg + 1):
        lhs = {}
        if m >= 1 and m - 1 < len(q):
            lhs = ring.add(lhs, q[m - 1])
        if m < len(q):
            lhs = ring.add(lhs, ring.neg(ring.mul(z, q[m])))
        if m == 0:
            lhs = ring.add(lhs, e)
        for mono in set(lhs) | set(p[m]):
            pairs.append((lhs.get(mono, 0), p[m].get(mono, 0)))
    return pairs


def check_kate(run, deg, threads):
    ob = core.Ob(f"C12/S/kate/deg{deg}/threads{threads}", ENGINE,
                 "kate_division(p, z)(X) * (X - z) + eval_polynomial(p, z) = p(X) coefficient-wise; eval_polynomial(p,z) = sum p_i z^i",
                 functions=["proofs/src/utils/arithmetic.rs::kate_division", "proofs/src/utils/arithmetic.rs::eval_polynomial"],
                 bound=f"degree {deg}, symbolic coefficients and z, rayon pool {threads}", key="kate-division")
    run.add(ob)
    try:
        d = symf.sx("kate", deg=deg, threads=threads)
        pairs = kate_pairs(d)
    except Exception as ex:
        ob.set(INCONCLUSIVE, str(ex)[-300:])
        return
    settle(run, ob, pairs, {"kind": "kate", "deg": deg, "threads": threads})


# ------------------------------------------------------------------ lagrange_interpolate
def interp_pairs(d):
    m = d["m"]
    pts = [H(x) for x in d["points"]]
    C = mat(d["coeffs"], m)       # C[k] = form of coefficient k
    pairs = [(len(C), m)]
    for jx, pt in enumerate(pts):
        for l in range(m + 1):      # l = 0: constant part must vanish
            val = sum(C[k][l] * pow(pt, k, P) for k in range(len(C))) % P
            pairs.append((val, 1 if l == jx + 1 else 0))
    return pairs


def check_interp(run, m, seed):
    ob = core.Ob(f"C12/S/lagrange_interpolate/m{m}", ENGINE, "the returned polynomial takes the value e_j at point x_j, for all e",
                 functions=["proofs/src/utils/arithmetic.rs::lagrange_interpolate"],
                 bound=f"{m} concrete distinct points (seed {seed}), symbolic values, degree < {m}", key="lagrange-interpolate")
    run.add(ob)
    try:
        d = symf.sx("interp", m=m, seed=seed)
        pairs = interp_pairs(d)
    except Exception as ex:
        ob.set(INCONCLUSIVE, str(ex)[-300:])
        return
    settle(run, ob, pairs, {"kind": "interp", "m": m, "seed": seed})


def check(run):
    symf.build(run)
    quick = core.tier() == "quick"
    jobs = []
    pools = (1, 2, 3, 4, 5, 16)       # 3 and 5: chunk boundaries of `parallelize` that are not multiples of any power of two (added after seeded C12-b)
    for logn in range(1, 7):
        for t in ((1, 2, 3, 16) if quick else pools):
            jobs.append((check_fft, (logn, t)))
    dom = [(1, 3), (2, 2), (3, 3), (4, 5), (3, 9)] if quick else [(1, 3), (2, 2), (2, 4), (3, 3), (3, 5), (4, 3), (4, 5), (3, 9), (4, 4)]
    for k, j in dom:
        for t in ((1, 3, 4) if quick else pools):
            jobs.append((check_domain, (k, j, t)))
    for k in (1, 2, 3, 4):
        jobs.append((check_lrange, (k,)))
    for deg in (1, 4, 8):
        for t in ((1, 3, 4) if quick else pools):
            jobs.append((check_kate, (deg, t)))
    for m in (1, 2, 3, 4):
        jobs.append((check_interp, (m, 1 + core.seed())))
    if getattr(run, "only", None):
        jobs = [j for j in jobs if run.only in j[0].__name__] or jobs
    run.bounds.append("C12/S: best_fft n = 2..64 x pools {1,2,3,4,5,16} (quick: a subset); EvaluationDomain k <= 4, extended length <= 64; "
                      "l_i_range k <= 4 indices -n-2..2n+1; kate/eval degree <= 8; lagrange_interpolate <= 4 points")
    run.outside += ["C12/S: MSM (engine K), g_to_lagrange, sizes beyond 64 (LinF has 64 variables), thread schedules other than pool sizes {1,2,3,4,5,16}",
                    "C12/S: lagrange_interpolate with symbolic points (points are concrete, values symbolic)",
                    "C12/S: Polynomial::rotate with |rotation| > n (slice::rotate_left panics; precondition, the function is only used by tests)"]
    run.translator_validation.append("S/C12: every matrix comparison carries a twin with one coefficient perturbed that must be sat; "
                                     "omega of the specification is re-derived from ROOT_OF_UNITY/S and checked primitive inside each query")
    with ThreadPoolExecutor(max_workers=4) as ex:
        futs = [ex.submit(f, run, *a) for f, a in jobs]
        for f in futs:
            try:
                f.result()
            except Exception as e:
                import traceback
                traceback.print_exc()
                ob = core.Ob("C12/S/engine", ENGINE, "engine S infrastructure")
                run.add(ob)
                ob.set(INCONCLUSIVE, f"crashed: {e!r}")


def replay(payload):
    """Re-run the real routine and compare again with the definition (the run is deterministic; the
    disagreement is a property of the code for all inputs: any unit vector with a differing coefficient is a witness)."""
    if payload.get("engine_part") not in (None, "S") or payload.get("kind") not in ['fft', 'domain', 'lrange', 'kate', 'interp']:
        return None
    symf.build()
    k = payload["kind"]
    if k == "fft":
        pairs = fft_pairs(symf.sx("fft", logn=payload["logn"], threads=payload["threads"]))
    elif k == "domain":
        d = symf.sx("domain", k=payload["k"], j=payload["j"], threads=payload["threads"])
        specs, facts = domain_specs(d)
        rn = payload["routine"]
        pairs = list(facts)
        for key, (real, spec) in specs.items():
            if key == rn or (rn == "rot" and key.startswith("rot")):
                pairs += matrix_pairs(real, spec)
    elif k == "lrange":
        pairs, _ = lrange_pairs(symf.sx("lrange", k=payload["k"], lo=payload["lo"], hi=payload["hi"]))
    elif k == "kate":
        pairs = kate_pairs(symf.sx("kate", deg=payload["deg"], threads=payload["threads"]))
    elif k == "interp":
        pairs = interp_pairs(symf.sx("interp", m=payload["m"], seed=payload["seed"]))
    else:
        return 0
    bad = [(a, b) for a, b in pairs if a != b]
    print(f"{len(bad)} of {len(pairs)} coefficients differ from the definition")
    return 1 if bad else 0
