"""C11 / engine M — coordinate helpers of the curve types, from the MIR of the current tree.

The bodies are straight field arithmetic over FFI-backed field types.  They are executed symbolically with the
field operations interpreted by a field theory (vf/mir_curve.py): uninterpreted functions + quantified field
axioms (`unsat` valid in every field: HOLDS) and, in parallel, exact arithmetic modulo the base-field prime read
from the tree (`sat` = concrete counterexample, replayed natively through engines/mirreplay/replay-curve).

Representation contracts (what a raw coordinate triple MEANS), stated once and used as the oracle:
  * blst `p1` / `p2` (G1Projective / G2Projective wrap them): JACOBIAN, affine = (X/Z^2, Y/Z^3), Z = 0 is
    infinity.  Evidence: blst's own conversion blst_p1_to_affine (used natively by every replay as ground truth),
    notes/probes/jacobian_check.rs.
  * the `derive` curves (bn256 G1/G2, curves/src/derive/curve.rs): HOMOGENEOUS, affine = (X/Z, Y/Z): that is what
    their own is_on_curve / to_affine (same file) compute.
  * CurveExt::jacobian_coordinates / new_jacobian (curves/src/curve.rs): "Return the Jacobian coordinates of this
    point" / "Obtains a point given Jacobian coordinates X : Y : Z": a triple (jx, jy, jz) denotes (jx/jz^2, jy/jz^3).
"""
import os, re, sys, time, json, threading, traceback
from concurrent.futures import ThreadPoolExecutor

from vf import core, solvers
from vf import mir_parse as mp
from vf import mir2smt as M
from vf import mir_field as MF
from vf import mir_curve as C
from vf import mir_obl as O
from vf.mir_obl import cap
from vf.mir2smt import Untranslatable, Opaque, Agg, Ref, B

ENGINE = "M"


def new_ob(run, oid, what, functions, bound, key=None):
    ob = core.Ob(f"C11/M/{oid}", ENGINE, what, functions=functions, bound=bound, key=key or oid)
    run.add(ob)
    return ob


# ------------------------------------------------------------------------------------------------
# curve descriptors (paths only)
# ------------------------------------------------------------------------------------------------
def curves():
    return [
        dict(key="g1", proj="bls12_381::g1::G1Projective", mod="bls12_381::g1", raw="blst::blst_p1",
             types=["bls12_381::fp::Fp", "blst::blst_fp"], const_types=["bls12_381::fp::Fp"], modulus="bls12_381::fp::MODULUS",
             ffi=r"^blst::blst_p1_(on_curve|is_inf)$", contract="jacobian", replay="g1", src="curves/src/bls12_381/g1.rs",
             wrapped=True),
        dict(key="g2", proj="bls12_381::g2::G2Projective", mod="bls12_381::g2", raw="blst::blst_p2",
             types=["bls12_381::fp2::Fp2", "blst::blst_fp2"], const_types=[], modulus="bls12_381::fp::MODULUS",
             ffi=r"^blst::blst_p2_(on_curve|is_inf)$", contract="jacobian", replay="g2", src="curves/src/bls12_381/g2.rs",
             wrapped=True),
        dict(key="bn256_g1", proj="bn256::curve::G1", mod="bn256::curve", raw=None,
             types=["bn256::fq::Fq"], const_types=["bn256::fq::Fq"], modulus="bn256::fq::Fq::MODULUS_LIMBS",
             ffi=None, contract="homogeneous", replay=None, src="curves/src/derive/curve.rs (bn256 G1)", wrapped=False),
        dict(key="bn256_g2", proj="bn256::curve::G2", mod="bn256::curve", raw=None,
             types=["ff_ext::quadratic::QuadExtField<bn256::fq::Fq>"], const_types=[], modulus="bn256::fq::Fq::MODULUS_LIMBS",
             ffi=None, contract="homogeneous", replay=None, src="curves/src/derive/curve.rs (bn256 G2)", wrapped=False),
    ]


class CurveOps:
    def __init__(self, run, P, rep, cv):
        self.run, self.P, self.rep, self.cv = run, P, rep, cv
        ipc = M.Interp(P)
        v = ipc.named_const(M.Frame(P.items[0]), cv["modulus"])
        limbs = []

        def walk(x):
            if isinstance(x, int):
                limbs.append(x)
            elif isinstance(x, Agg):
                for k in sorted(x.f):
                    walk(x.f[k])
        walk(v)
        self.p = sum(x << (64 * i) for i, x in enumerate(limbs))
        self.ft = cv["types"][0]

    # ---- plumbing
    def interp(self, mode):
        cv = self.cv
        extra = []
        if cv["ffi"]:
            def ffi(ip, fr, func, args, tys, dty, m):
                c = ip.ctx
                pt = args[0]
                pt = ip.read_path(pt.cell, pt.path)
                if m.group(1) == "is_inf":
                    z = C.elem(ip, ip.project(pt, ("field", 2, cv["types"][1])))
                    return B(c.define(f"(= {z.t} 0)", "inf", "Bool"))
                # on_curve: an oracle (its verdict is not used by the obligations below)
                return B(c.fresh_bool("oncurve"))
            extra.append((re.compile(cv["ffi"]), ffi))
        return C.mk_interp(self.P, mode, self.p, cv["types"], extra, const_types=cv["const_types"])

    def fn(self, name, sig=None):
        return self.P.fn("^" + re.escape(self.cv["mod"]) + r"::<impl at [^>]*>::" + name + "$", sig=sig)

    def sym_point(self, ip, hint):
        """symbolic projective point; returns (value, (X, Y, Z) terms)"""
        cv = self.cv
        ty = mp.parse_ty("&" + cv["proj"])
        a = M.sym_value(ip, ty, hint)
        pt = ip.read_path(a.cell, a.path)
        if cv["wrapped"]:
            raw = ip.project(pt, ("field", 0, cv["raw"]))
            xyz = [C.elem(ip, ip.project(raw, ("field", i, cv["types"][1]))).t for i in range(3)]
        else:
            xyz = [C.elem(ip, ip.project(pt, ("field", i, self.ft))).t for i in range(3)]
        return a, xyz

    def coords_of(self, ip, pv):
        cv = self.cv
        if isinstance(pv, Ref):
            pv = ip.read_path(pv.cell, pv.path)
        if cv["wrapped"]:
            raw = ip.project(pv, ("field", 0, cv["raw"]))
            return [C.elem(ip, ip.project(raw, ("field", i, cv["types"][1]))).t for i in range(3)]
        return [C.elem(ip, ip.project(pv, ("field", i, self.ft))).t for i in range(3)]

    def same_affine(self, c, A, Bc, ca, cb):
        """(X,Y,Z)=A under contract ca denotes the same affine point as B under contract cb (both Z != 0)"""
        sq = lambda t: c.fmul(t, t)
        cube = lambda t: c.fmul(sq(t), t)
        wx = {"jacobian": sq, "homogeneous": lambda t: t}
        wy = {"jacobian": cube, "homogeneous": lambda t: t}
        # X_A / wx_a(Z_A) = X_B / wx_b(Z_B)
        ex = f"(= {c.fmul(A[0], wx[cb](Bc[2]))} {c.fmul(Bc[0], wx[ca](A[2]))})"
        ey = f"(= {c.fmul(A[1], wy[cb](Bc[2]))} {c.fmul(Bc[1], wy[ca](A[2]))})"
        return f"(and {ex} {ey})"

    # ---- deciding: UF for unsat, exact for sat, in parallel
    def decide(self, ob, build, replay, vac=True):
        """build(mode) -> (ip, pre, goal, model_terms). replay(model) -> (reproduced, detail, payload)"""
        results = {}

        def one(mode):
            try:
                ip, pre, goal, mt = build(mode)
                c = ip.ctx
                smt = c.text() + f"(assert {pre})\n(assert {c.path_term()})\n(assert (not {goal}))\n"
                bad = [f"(and {c.path_term(pc)} {b_})" for pc, b_, msg, w in c.panics]
                r = solvers.solve(smt, timeout=min(cap(), 30), get_values=mt if mode == "exact" else None)
                results[mode] = (r, ip, pre, goal, mt, bad)
            except (Untranslatable, KeyError) as ex:
                results[mode] = ex
        ths = [threading.Thread(target=one, args=(m,), daemon=True) for m in ("uf", "exact")]
        for t in ths:
            t.start()
        # race: a decisive answer is `sat`/`unsat` in exact arithmetic or `unsat` from the field axioms
        while any(t.is_alive() for t in ths):
            ru_, re0 = results.get("uf"), results.get("exact")
            if isinstance(ru_, Exception) or isinstance(re0, Exception):
                break
            if re0 is not None and re0[0].status in ("sat", "unsat"):
                break
            if ru_ is not None and ru_[0].status == "unsat":
                break
            time.sleep(0.05)
        for mode in ("uf", "exact"):
            if isinstance(results.get(mode), Exception):
                ob.set(core.INCONCLUSIVE, f"untranslatable ({mode}): {results[mode]}")
                return
        unk = solvers.Result("unknown")
        ru = results["uf"][0] if results.get("uf") is not None else unk
        re_ = results["exact"][0] if results.get("exact") is not None else unk
        ob.queries += 2
        ob.solver_s = ru.time_s + re_.time_s
        if re_.status == "sat":
            ob.solver = re_.solver
            ok, detail, payload = replay(re_.model, results["exact"])
            if ok:
                payload = dict(payload, engine_part="M")
                ob.set(core.VIOLATION, detail, replay=self.run.write_replay(ob, payload))
            else:
                ob.set(core.INCONCLUSIVE, "exact-arithmetic counterexample does not reproduce natively: " + detail)
            return
        if ru.status == "unsat" or re_.status == "unsat":
            ob.solver = ru.solver if ru.status == "unsat" else re_.solver
            ob.detail = ("valid in every field (uninterpreted field operations + field axioms)" if ru.status == "unsat"
                         else "proved modulo the base-field prime only (the field-axiom query did not finish)")
            # panic sites (CtOption::unwrap etc.)
            r, ip, pre, goal, mt, bad = results["uf"] if (ru.status == "unsat" and results.get("uf")) else results["exact"]
            if bad:
                c = ip.ctx
                rp = solvers.solve(c.text() + f"(assert {pre})\n(assert (or " + " ".join(bad) + "))\n", timeout=min(cap(), 60))
                ob.queries += 1
                if rp.status != "unsat":
                    ob.set(core.INCONCLUSIVE, f"panic-site query: {rp.status}")
                    return
            # vacuity twin: hypotheses + goal satisfiable in exact arithmetic (fresh exact encoding)
            try:
                ip, pre, goal, mt = build("exact")
            except (Untranslatable, KeyError) as ex:
                ob.set(core.INCONCLUSIVE, f"vacuity twin untranslatable: {ex}")
                return
            c = ip.ctx
            rv = solvers.solve(c.text() + f"(assert {pre})\n(assert {c.path_term()})\n(assert {goal})\n", timeout=min(cap(), 60))
            ob.queries += 1
            ob.vacuity = rv.status == "sat"
            if rv.status != "sat":
                ob.set(core.INCONCLUSIVE, f"vacuity twin {rv.status}")
                return
            ob.set(core.HOLDS)
            return
        ob.set(core.INCONCLUSIVE, f"uf: {ru.status}; exact: {re_.status}")

    def native(self, args):
        out = {}
        for prof in list(self.rep.bins):
            rc, so, se = self.rep.run("replay-curve", [self.cv["replay"]] + args, prof)
            kv = {}
            for line in so.split("\n"):
                for tok in line.split():
                    if "=" in tok and not tok.startswith("("):
                        k, v = tok.split("=", 1)
                        kv[k] = v
            kv["_raw"] = so.strip()
            out[prof] = kv
        return out

    # ---- obligations
    def jacobian_coordinates(self):
        cv, run = self.cv, self.run
        ob = new_ob(run, f"{cv['key']}/jacobian_coordinates",
                    f"{cv['proj']}::jacobian_coordinates: for every raw representation (X,Y,Z), Z != 0 ({cv['contract']} "
                    f"contract of the wrapped type), the returned triple read as Jacobian coordinates (jx/jz^2, jy/jz^3) "
                    f"denotes the same affine point, and jz != 0",
                    [f"{cv['src']}::jacobian_coordinates"], "all field elements X, Y, Z with Z != 0",
                    key=f"{cv['key']}:jacobian_coordinates")

        def build(mode):
            ip = self.interp(mode)
            it = self.fn("jacobian_coordinates", sig=["&" + cv["proj"]])
            a, xyz = self.sym_point(ip, "P")
            r = ip.run_item(it, [a])
            c = ip.ctx
            J = [C.elem(ip, r.f[i]).t for i in range(3)]
            goal = f"(and (not (= {J[2]} 0)) {self.same_affine(c, J, xyz, 'jacobian', cv['contract'])})"
            return ip, f"(not (= {xyz[2]} 0))", goal, xyz

        def replay(model, res):
            ip, pre, goal, mt = res[1], res[2], res[3], res[4]
            vals = [model.get(t) for t in mt]
            if cv["replay"] is None or None in vals:
                return False, "no native replay for this curve", {}
            nat = self.native(["jacobian_coordinates"] + [format(v, "x") for v in vals])
            nat2 = self.native(["jacobian_coordinates_of_point", "6"])
            bad = {p: kv for p, kv in nat.items() if kv.get("jacobian_consistent") == "false"}
            detail = (f"{cv['proj']}::jacobian_coordinates converts as if the wrapped point were homogeneous: for the raw "
                      f"point (X,Y,Z) = ({vals[0]:#x}, {vals[1]:#x}, {vals[2]:#x}) the returned (jx,jy,jz) does not denote "
                      f"blst's own affine point of that representation; native: "
                      f"{ {p: kv.get('_raw', '')[-120:] for p, kv in nat.items()} }; same check on the genuine curve point 6*G "
                      f"(not normalised): { {p: kv.get('_raw', '') for p, kv in nat2.items()} }")
            return bool(bad) and len(bad) == len(nat), detail, dict(kind="curve", curve=cv["replay"], op="jacobian_coordinates",
                                                                      args=[format(v, "x") for v in vals],
                                                                      violated_when={"jacobian_consistent": "false"})
        return ob, lambda: self.decide(ob, build, replay)

    def new_jacobian(self):
        cv, run = self.cv, self.run
        ob = new_ob(run, f"{cv['key']}/new_jacobian",
                    f"{cv['proj']}::new_jacobian(x,y,z): for every x, y, z with z != 0 the point it constructs, read under the "
                    f"{cv['contract']} contract of the wrapped type, has affine coordinates (x/z^2, y/z^3) (the Jacobian "
                    f"triple the caller handed in); its Z is nonzero",
                    [f"{cv['src']}::new_jacobian"], "all field elements x, y, z with z != 0 (the on-curve verdict is an oracle)",
                    key=f"{cv['key']}:new_jacobian")

        def build(mode):
            ip = self.interp(mode)
            it = self.fn("new_jacobian", sig=[self.ft] * 3)
            args = [M.sym_value(ip, t, f"j{i}") for i, (l, t) in enumerate(it.params)]
            xyz = [a.t for a in args]
            r = ip.run_item(it, args)
            c = ip.ctx
            Pc = self.coords_of(ip, r.f[0])
            goal = f"(and (not (= {Pc[2]} 0)) {self.same_affine(c, Pc, xyz, cv['contract'], 'jacobian')})"
            return ip, f"(not (= {xyz[2]} 0))", goal, xyz

        def replay(model, res):
            mt = res[4]
            vals = [model.get(t) for t in mt]
            if cv["replay"] is None or None in vals:
                return False, "no native replay for this curve", {}
            z = vals[2]
            # the model's z with a real curve point: 6*G written as the textbook Jacobian triple (x z^2, y z^3, z)
            nat = self.native(["new_jacobian_of_point", "6", format(z, "x")])
            bad = {p: kv for p, kv in nat.items() if kv.get("input_satisfies_jacobian_equation") == "true"
                   and kv.get("equals_point") == "false"}
            detail = (f"{cv['proj']}::new_jacobian converts as if the wrapped point were homogeneous: solver model "
                      f"(x,y,z) = ({vals[0]:#x}, {vals[1]:#x}, {z:#x}); natively, the Jacobian triple (qx z^2, qy z^3, z) of "
                      f"Q = 6*G with that z satisfies Y^2 = X^3 + b Z^6 but new_jacobian does not return Q: "
                      f"{ {p: kv.get('_raw', '') for p, kv in nat.items()} }")
            return bool(bad) and len(bad) == len(nat), detail, dict(kind="curve", curve=cv["replay"], op="new_jacobian_of_point",
                                                                      args=["6", format(z, "x")],
                                                                      violated_when={"equals_point": "false"})
        return ob, lambda: self.decide(ob, build, replay)

    def roundtrip(self):
        cv, run = self.cv, self.run
        ob = new_ob(run, f"{cv['key']}/roundtrip",
                    f"new_jacobian(jacobian_coordinates(P)) rebuilds the raw coordinates of P exactly (Z != 0) - the two "
                    f"conversions are mutually inverse whatever the representation contract is",
                    [f"{cv['src']}::jacobian_coordinates", f"{cv['src']}::new_jacobian"], "all X, Y, Z with Z != 0",
                    key=f"{cv['key']}:jacobian-roundtrip")

        def build(mode):
            ip = self.interp(mode)
            a, xyz = self.sym_point(ip, "P")
            r = ip.run_item(self.fn("jacobian_coordinates", sig=["&" + cv["proj"]]), [a])
            r2 = ip.run_item(self.fn("new_jacobian", sig=[self.ft] * 3), [r.f[0], r.f[1], r.f[2]])
            Pc = self.coords_of(ip, r2.f[0])
            goal = "(and " + " ".join(f"(= {u} {v})" for u, v in zip(Pc, xyz)) + ")"
            return ip, f"(not (= {xyz[2]} 0))", goal, xyz

        def replay(model, res):
            return False, "round trip counterexample (not expected)", {}
        return ob, lambda: self.decide(ob, build, replay)

    def ct_eq(self):
        cv, run = self.cv, self.run
        ob = new_ob(run, f"{cv['key']}/ct_eq",
                    f"<{cv['proj']} as ConstantTimeEq>::ct_eq(P, Q) for two finite points (Z1, Z2 != 0): answers 1 exactly when the "
                    f"two raw representations denote the same affine point under the {cv['contract']} contract of the wrapped type",
                    [f"{cv['src']}::ct_eq"], "all X1,Y1,Z1,X2,Y2,Z2 with Z1, Z2 != 0", key=f"{cv['key']}:ct_eq")

        def build(mode):
            ip = self.interp(mode)
            it = self.fn("ct_eq", sig=["&" + cv["proj"], "&" + cv["proj"]])
            a, A = self.sym_point(ip, "P")
            b, Bc = self.sym_point(ip, "Q")
            r = ip.run_item(it, [a, b])
            c = ip.ctx
            bit = M.choice_bit(ip, r)
            same = self.same_affine(c, A, Bc, cv["contract"], cv["contract"])
            goal = f"(= (= {ip.term(bit)} 1) {same})"
            return ip, f"(and (not (= {A[2]} 0)) (not (= {Bc[2]} 0)))", goal, A + Bc

        def replay(model, res):
            mt = res[4]
            vals = [model.get(t) for t in mt]
            if cv["replay"] is None or None in vals:
                return False, "no native replay for this curve", {}
            nat = self.native(["ct_eq"] + [format(v, "x") for v in vals])
            bad = {p: kv for p, kv in nat.items() if kv.get("ct_eq") != kv.get("blst_is_equal") and kv.get("ct_eq") != kv.get("affine_equal")}
            detail = (f"<{cv['proj']} as ConstantTimeEq>::ct_eq compares cross-products X1*Z2 = X2*Z1 (homogeneous) while the wrapped "
                      f"point is Jacobian: for P = ({vals[0]:#x},{vals[1]:#x},{vals[2]:#x}), Q = ({vals[3]:#x},{vals[4]:#x},{vals[5]:#x}) "
                      f"ct_eq disagrees with blst's own equality / affine coordinates: { {p: kv.get('_raw', '') for p, kv in nat.items()} }")
            return bool(bad) and len(bad) == len(nat), detail, dict(kind="curve", curve=cv["replay"], op="ct_eq",
                                                                      args=[format(v, "x") for v in vals],
                                                                      violated_when={"ct_eq!=": "blst_is_equal"})
        return ob, lambda: self.decide(ob, build, replay)


# ------------------------------------------------------------------------------------------------
# Jubjub (twisted Edwards, extended coordinates over the BLS scalar field Fq = blst_fr)
# ------------------------------------------------------------------------------------------------
class Jubjub:
    TYPES = ["bls12_381::fq::Fq", "blst::blst_fr"]

    def __init__(self, run, P, rep):
        self.run, self.P, self.rep = run, P, rep
        ipc = M.Interp(P)
        v = ipc.named_const(M.Frame(P.items[0]), "bls12_381::fq::MODULUS")
        self.p = sum(x << (64 * i) for i, x in enumerate(v.f[k] for k in sorted(v.f)))
        self.helper = CurveOps.__new__(CurveOps)
        self.helper.run, self.helper.rep = run, rep

    def interp(self, mode):
        p = self.p

        def to_bytes_le(ip, fr, func, args, tys, dty, m):
            """contract of Fq::to_bytes_le (blst FFI): the 32 little-endian bytes of the canonical value, which is
            below the modulus (< 2^255, so the top bit of byte 31 is clear); equal elements give equal bytes"""
            a = C.elem(ip, args[0])
            c = ip.ctx
            key = ("tb", a.t)
            got = getattr(c, "tb_cache", {}).get(key)
            if got is None:
                bs = [c.fresh(0, 255 if i < 31 else (p >> 248), "tb") for i in range(32)]
                c.fact("(< (+ " + " ".join(f"(* {1 << (8 * i)} {b})" for i, b in enumerate(bs)) + f") {p})")
                c.tb_cache = getattr(c, "tb_cache", {})
                c.tb_cache[key] = bs
                c.tb_log = getattr(c, "tb_log", [])
                c.tb_log.append((a.t, bs))
                got = bs
            return Agg({i: M.S(b, "u8", ub=(256 if i < 31 else (p >> 248) + 1)) for i, b in enumerate(got)}, "[u8; 32]")
        extra = [(re.compile(r"^bls12_381::fq::Fq::to_bytes_le$"), to_bytes_le)]
        return C.mk_interp(self.P, mode, self.p, self.TYPES, extra, const_types=["bls12_381::fq::Fq"])

    def fn(self, span_rx, name, sig=None):
        return self.P.fn(r"^jubjub::curve::<impl at [^>]*>::" + name + "$", sig=sig)

    def decide(self, ob, build, replay=None):
        return CurveOps.decide(self.helper, ob, build, replay or (lambda m, r: (False, "no native replay", {})))

    def obligations(self):
        run = self.run
        out = []
        A, E = "jubjub::curve::JubjubAffine", "jubjub::curve::JubjubExtended"
        FT = self.TYPES[0]

        def fields(ip, v, n):
            if isinstance(v, Ref):
                v = ip.read_path(v.cell, v.path)
            return [C.elem(ip, ip.project(v, ("field", i, FT))).t for i in range(n)]

        # affine -> extended
        ob1 = new_ob(run, "jubjub/affine_to_extended", "From<JubjubAffine> for JubjubExtended and AffinePoint::to_extended: "
                     "(u,v) -> (U,V,Z,T1,T2) with Z = 1 (nonzero), U/Z = u, V/Z = v and T1*T2*Z = U*V (extended invariant)",
                     ["curves/src/jubjub/curve.rs::From<JubjubAffine> for JubjubExtended", "curves/src/jubjub/curve.rs::to_extended"],
                     "all field elements u, v", key="jubjub:affine_to_extended")

        def b1(mode):
            ip = self.interp(mode)
            it = self.fn(None, "from", sig=[A])
            a = M.sym_value(ip, mp.parse_ty(A), "a")
            uv = fields(ip, a, 2)
            r = ip.run_item(it, [a])
            it2 = self.P.fn(r"^jubjub::curve::<impl at [^>]*>::to_extended$", sig=["&" + A])
            r2 = ip.run_item(it2, [Ref(M.Cell(a))])
            c = ip.ctx
            goals = []
            for rr in (r, r2):
                U, V, Z, T1, T2 = fields(ip, rr, 5)
                goals.append(f"(and (= {Z} 1) (= {U} {c.fmul(uv[0], Z)}) (= {V} {c.fmul(uv[1], Z)}) "
                             f"(= {c.fmul(c.fmul(T1, T2), Z)} {c.fmul(U, V)}))")
            return ip, "true", "(and " + " ".join(goals) + ")", uv
        out.append((ob1, lambda: self.decide(ob1, b1)))

        # extended -> affine
        ob2 = new_ob(run, "jubjub/extended_to_affine", "From<&JubjubExtended> for JubjubAffine: for every (U,V,Z,T1,T2) with Z != 0 the "
                     "result (u,v) satisfies u*Z = U, v*Z = V, and the CtOption::unwrap of Z's inverse cannot panic",
                     ["curves/src/jubjub/curve.rs::From<&JubjubExtended> for JubjubAffine"], "all field elements, Z != 0",
                     key="jubjub:extended_to_affine")

        def b2(mode):
            ip = self.interp(mode)
            it = self.fn(None, "from", sig=["&" + E])
            e = M.sym_value(ip, mp.parse_ty("&" + E), "e")
            U, V, Z, T1, T2 = fields(ip, e, 5)
            r = ip.run_item(it, [e])
            u, v = fields(ip, r, 2)
            c = ip.ctx
            return ip, f"(not (= {Z} 0))", f"(and (= {c.fmul(u, Z)} {U}) (= {c.fmul(v, Z)} {V}))", [U, V, Z]
        out.append((ob2, lambda: self.decide(ob2, b2)))

        # round trip
        ob3 = new_ob(run, "jubjub/affine_roundtrip", "JubjubAffine::from(&JubjubExtended::from(a)) = a for every affine (u,v)",
                     ["curves/src/jubjub/curve.rs::From<JubjubAffine> for JubjubExtended",
                      "curves/src/jubjub/curve.rs::From<&JubjubExtended> for JubjubAffine"], "all field elements u, v",
                     key="jubjub:affine_roundtrip")

        def b3(mode):
            ip = self.interp(mode)
            a = M.sym_value(ip, mp.parse_ty(A), "a")
            uv = fields(ip, a, 2)
            e = ip.run_item(self.fn(None, "from", sig=[A]), [a])
            r = ip.run_item(self.fn(None, "from", sig=["&" + E]), [Ref(M.Cell(e))])
            u, v = fields(ip, r, 2)
            return ip, "true", f"(and (= {u} {uv[0]}) (= {v} {uv[1]}))", uv
        out.append((ob3, lambda: self.decide(ob3, b3)))

        # to_bytes: sign bit
        ob4 = new_ob(run, "jubjub/affine_to_bytes", "JubjubAffine::to_bytes: bytes 0..30 and the low 7 bits of byte 31 are the canonical "
                     "little-endian encoding of v, and bit 7 of byte 31 is exactly the parity of the canonical u (sign bit), with "
                     "Fq::to_bytes_le (blst) as a contract: 32 LE bytes of a value below the modulus; no MIR assert reachable",
                     ["curves/src/jubjub/curve.rs::to_bytes"], "all field elements u, v; all byte values allowed by the contract",
                     key="jubjub:affine_to_bytes")

        def b4(mode):
            ip = self.interp(mode)
            it = self.P.fn(r"^jubjub::curve::<impl at [^>]*>::to_bytes$", sig=["&" + A], inherent=True)
            a = M.sym_value(ip, mp.parse_ty("&" + A), "a")
            uv = fields(ip, a, 2)
            r = ip.run_item(it, [a])
            c = ip.ctx
            log = dict(getattr(c, "tb_log", []))
            if uv[0] not in log or uv[1] not in log:
                raise Untranslatable("to_bytes_le was not called on both coordinates")
            ub, vb = log[uv[0]], log[uv[1]]
            outb = [ip.term(ip.force(r.f[i])) for i in range(32)]
            par = c.fresh(0, 1, "par")
            half = c.fresh(0, 127, "half")
            c.fact(f"(= {ub[0]} (+ {par} (* 2 {half})))")
            goal = "(and " + " ".join(f"(= {outb[i]} {vb[i]})" for i in range(31)) + f" (= {outb[31]} (+ {vb[31]} (* 128 {par}))))"
            return ip, "true", goal, uv
        out.append((ob4, lambda: self.decide(ob4, b4)))
        return out


# ------------------------------------------------------------------------------------------------
def check(run):
    t0 = time.time()
    rep = MF.Replayer(run.log)
    res = {}
    th = threading.Thread(target=lambda: res.update(ok=rep.build()))
    th.start()
    try:
        path, secs = mp.dump_mir(log=run.log)
    except Exception as ex:
        th.join()
        ob = new_ob(run, "mir-dump", "nightly MIR dump of midnight-curves from a scratch copy of the tree", [], "")
        ob.set(core.INCONCLUSIVE, f"MIR dump failed: {ex}")
        return
    run.log(f"MIR dump {secs:.1f}s")
    P = mp.Program(open(path).read())
    th.join()
    if not res.get("ok"):
        run.notes.append("mirreplay build failed: " + (rep.err or "")[:300])
    jobs = []
    for cv in curves():
        try:
            ops = CurveOps(run, P, rep, cv)
            ops.fn("jacobian_coordinates", sig=["&" + cv["proj"]])
        except (Untranslatable, KeyError) as ex:
            if cv["key"].startswith("bn256"):
                run.outside.append(f"{cv['key']}: not in the MIR dump ({ex})")
                continue
            ob = new_ob(run, f"{cv['key']}/descriptor", f"functions of {cv['proj']} located in the MIR dump", [cv["src"]], "")
            ob.set(core.INCONCLUSIVE, f"untranslatable: {ex}")
            continue
        jobs += [ops.jacobian_coordinates(), ops.new_jacobian(), ops.roundtrip()]
        if cv["wrapped"]:
            jobs.append(ops.ct_eq())
    try:
        jobs += Jubjub(run, P, rep).obligations()
    except (Untranslatable, KeyError) as ex:
        ob = new_ob(run, "jubjub/descriptor", "Jubjub conversion functions located in the MIR dump", ["curves/src/jubjub/curve.rs"], "")
        ob.set(core.INCONCLUSIVE, f"untranslatable: {ex}")

    def wrap(j):
        ob, f = j
        try:
            f()
        except Exception as ex:
            traceback.print_exc()
            ob.set(core.INCONCLUSIVE, f"crashed: {ex!r}")
    with ThreadPoolExecutor(max_workers=4) as ex:
        list(ex.map(wrap, jobs))
    run.assumptions += [
        "engine M (C11): representation contracts: blst p1/p2 are Jacobian (affine = X/Z^2, Y/Z^3; blst's own to_affine is "
        "the native ground truth of every replay); derive curves are homogeneous (their own is_on_curve/to_affine); "
        "CurveExt::jacobian_coordinates/new_jacobian speak of Jacobian triples (trait docs in curves/src/curve.rs)",
        "engine M (C11): field operations behind FFI (blst_fp_mul, ...) are field operations: modelled by the field axioms "
        "(UF mode) / by arithmetic modulo the modulus read from the tree (exact mode); Fq::to_bytes_le returns the 32 "
        "little-endian bytes of a value below the modulus; blst_p1_is_inf answers Z = 0; blst_p1_on_curve is an oracle",
    ]
    run.translator_validation.append(
        "engine M (C11): the same MIR interpreter as C10 (validated there against native runs); here every exact-mode "
        "counterexample is replayed natively (replay-curve, dev and release) before it is reported")
    run.outside += [
        "group law (add/double/mul) of every curve type: blst / k256 / dalek internals or the same algebraic wall as C06; not claimed",
        "G1Affine/G2Affine from_xy / coordinates: from_raw_unchecked + blst_p*_affine_on_curve oracle and the generic "
        "Coordinates::from_xy closure; plumbing only, left to engine K's decoder-pair harnesses",
        "JubjubAffine::from_bytes_inner (closures through CtOption::and_then, Fq::sqrt FFI): not translated by engine M",
        "Jubjub is_on_curve_vartime: test-only code, absent from the library MIR",
    ]
    run.log(f"C11_M done in {time.time() - t0:.1f}s")


def replay(payload):
    if payload.get("engine_part") not in (None, "M") or payload.get("kind") != "curve":
        return None
    rep = MF.Replayer(print)
    if not rep.build():
        print(rep.err)
        return 2
    bad = 0
    for prof in rep.bins:
        rc, so, se = rep.run("replay-curve", [payload["curve"], payload["op"]] + payload["args"], prof)
        print(f"[{prof}] replay-curve {payload['curve']} {payload['op']} {' '.join(payload['args'])}\n{so}")
        kv = {}
        for line in so.split("\n"):
            for tok in line.split():
                if "=" in tok and not tok.startswith("("):
                    k, v = tok.split("=", 1)
                    kv[k] = v
        for k, v in payload.get("violated_when", {}).items():
            if k.endswith("!="):
                if kv.get(k[:-2]) != kv.get(v):
                    bad = 1
            elif kv.get(k) == v:
                bad = 1
    print("reproduces" if bad else "does not reproduce")
    return bad
