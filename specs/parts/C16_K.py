"""C16 (decoding / verifying untrusted bytes never crashes), engine K part.

Harness crate: /verif/engines/kani/kmain (src/h_vk_read.rs, h_domain.rs, h_arch.rs, h_transcript.rs). Every
harness executes the REAL function named in `functions` on symbolic bytes / lengths; what is replaced by a
stand-in is listed per harness (and printed by Kani as `Stub:` lines, recorded in evidence). A FAILED harness
is a VIOLATION only if the native replay binary of the crate reproduces it on the solver's values: level 1 =
the harness body run natively (no Kani stubs exist natively, the real functions run), level 2 (for the
harnesses that have one, src/scenario_cli.rs) = the situation re-created against the real public API of
midnight-zk-stdlib (`MidnightVK::read`, `verify`, ...) under catch_unwind."""
from vf import core, kani

CRATE = "engines/kani/kmain"
H = kani.H
PM, PD, ZL = "proofs/src/plonk/mod.rs", "proofs/src/poly/domain.rs", "zk_stdlib/src/lib.rs"
VK_STUBS = ["std::fmt::format", "std::hash::RandomState::new", "midnight_proofs::poly::EvaluationDomain::new (struct-assembling stand-in)",
            "midnight_proofs::plonk::VerifyingKey::from_parts (struct-assembling stand-in, keeps the k <= S assertion)"]

SPECS = [
    H("h_vk_read::vk_read_total", "C16.K.vk_read.total",
      "VerifyingKey::read_from_cs returns a value (Ok/Err) and never panics on any buffer of <= 8 bytes: any version byte, any k byte, any truncation, any commitment count <= 4",
      [f"{PM}::VerifyingKey::read_from_cs", "proofs/src/plonk/permutation.rs::VerifyingKey::read", "proofs/src/plonk/circuit.rs::ConstraintSystem::directly_convert_selectors_to_fixed"],
      "all buffers of length 0..=8 with header commitment count <= 4; toy field F_97, stub commitment scheme with zero-width infallible commitments; constraint system: 2 fixed + 1 advice column, 2 permutation columns, no gates",
      "vk-read:framing-total", est=40, timeout={"quick": 300, "thorough": 900}, min_covers=2, stubs=VK_STUBS),
    H("h_vk_read::vk_read_postcondition", "C16.K.vk_read.postcondition",
      "on Ok the decoded key is index-safe for the verifier: fixed_commitments.len() >= cs.num_fixed_columns() (verifier.rs indexes fixed_commitments[column.index()] for every fixed query) and permutation commitments == permutation columns",
      [f"{PM}::VerifyingKey::read_from_cs", "proofs/src/plonk/verifier.rs::verify_algebraic_constraints (index expression)"],
      "same inputs as vk_read.total", "vk-read:commitment-count-unchecked", est=45, timeout={"quick": 300, "thorough": 900}, min_covers=2, stubs=VK_STUBS,
      replay=False),  # counterexample via PINS below (Kani's playback emits tests for the covers only, after ~300 s)
    H("h_domain::domain_prefix_min_degree", "C16.K.domain.prefix.min_degree",
      "the integer prefix of EvaluationDomain::new(j = 3, k) (j - 1, 1 << k, the extended_k loop, assert!(extended_k <= F::S)) does not panic for any header byte k that read_from_cs lets through (k <= F::S = 32 and extended_k_for(j, k) <= F::S; that the reader calls new only there is proved by vk_read.total, whose stand-in for new asserts this precondition)",
      [f"{PD}::EvaluationDomain::new (up to the first field operation)", f"{PM}::VerifyingKey::read_from_cs (its only check on k)"],
      "all k in 0..=32, j = 3 (the minimum cs.degree() of a constraint system with a permutation argument); F = CutF (S = 32, every field operation ends the path)",
      "vk-read:k-domain-assert", est=5, min_covers=2),
    H("h_domain::domain_prefix_any_degree", "C16.K.domain.prefix.any_degree",
      "same for every degree j in 3..=17",
      [f"{PD}::EvaluationDomain::new (up to the first field operation)"], "all k in 0..=32, all j in 3..=17", "domain-new:extended-k-assert", est=5),
    H("h_arch::arch_read_total", "C16.K.arch.read_total",
      "ZkStdLibArch::read returns a value on any buffer of <= 18 bytes, accepts only version word 1 and at least 16 bytes, and lets through only nr_pow2range_cols < 5 (what ZkStdLib::configure / Pow2RangeChip::configure accept; cover: 4 is accepted)",
      [f"{ZL}::ZkStdLibArch::read", "bincode::decode_from_std_read (third party, executed)"], "all buffers of length 0..=18", "arch-read:total", est=60,
      timeout={"quick": 400, "thorough": 900}, min_covers=3, stubs=["std::fmt::format"]),
    H("h_arch::pow2range_configure_column_count", "C16.K.pow2range.column_count",
      "Pow2RangeChip::configure(meta, columns) does not panic for any number of columns the decoder lets through (ZkStdLib::configure passes &advice_columns[1..=nr_pow2range_cols], nr_pow2range_cols verbatim from the wire)",
      ["circuits/src/field/decomposition/pow2range.rs::Pow2RangeChip::configure", f"{ZL}::ZkStdLib::configure (call site, not executed)"],
      "all column counts 0..=4 (what arch.read_total proves the decoder lets through); the constraint system is an empty one (all-zero memory)", "vk-read:nr_pow2range_cols-out-of-range", est=10, min_covers=2,
      stubs=["midnight_proofs::plonk::ConstraintSystem::lookup (Expression-tree walk)"],
      replay=False),  # counterexample via PINS below (Kani's playback run exceeds 20 GB)
    H("h_transcript::serde_read_g1_processed_checked", "C16.K.serde.g1.processed",
      "<G1Projective as ProcessedSerdeObject>::read(_, Processed) never panics on short input and returns Ok only if blst_p1_uncompress succeeded AND the on-curve AND the subgroup oracle said yes",
      ["proofs/src/utils/helpers.rs::<C as ProcessedSerdeObject>::read", "curves/src/bls12_381/g1.rs::G1Projective::from_compressed"],
      "all buffers of length 0..=48, all oracle answers", "serde-read:g1-processed-contract", est=8, min_covers=2,
      oracle_scenario=["g1-decode-offsubgroup", "serde-processed"]),
    # proof parsing: every G1 commitment of a proof goes through this reader (also registered under C03)
    H("h_transcript::hashable_read_g1_checked", "C16.K.hashable.read.g1",
      "<G1Projective as Hashable<blake2b>>::read (the reader of every proof commitment) never panics on short input and returns Ok only if uncompress succeeded AND the on-curve AND the subgroup oracle said yes",
      ["proofs/src/transcript/implementors.rs::<G1Projective as Hashable<State>>::read", "curves/src/bls12_381/g1.rs::G1Projective::from_compressed"],
      "all buffers of length 0..=48, all oracle answers", "hashable-read:g1-checked", est=10, min_covers=2,
      oracle_scenario=["g1-decode-offsubgroup", "hashable"]),
    H("h_transcript::hashable_read_fq_canonical", "C16.K.hashable.read.fq",
      "<Fq as Hashable<blake2b>>::read (the reader of every proof scalar) returns Ok only on 32 bytes that blst's canonicity check accepted, Err otherwise; never panics",
      ["proofs/src/transcript/implementors.rs::<Fq as Hashable<State>>::read", "curves/src/bls12_381/fq.rs::Fq::from_bytes_le"],
      "all buffers of length 0..=32, all oracle answers", "hashable-read:fq-canonical", est=10, min_covers=2,
      stubs=["blst::blst_scalar_fr_check (recording oracle)", "blst::blst_fr_from_uint64", "zeroize::optimization_barrier"]),
]


SPECS_CURVES = [
    H("c11::g1p_from_compressed_contract", "C16.K.g1p.from_compressed",
      "G1Projective::from_bytes (checked, compressed) is Some iff uncompress succeeded AND the on-curve AND the subgroup oracle said yes for the decompressed point",
      ["curves/src/bls12_381/g1.rs::G1Projective::from_compressed"], "all 48-byte inputs, all oracle answers", "G1Projective::from_compressed:contract",
      est=8, timeout={"quick": 600, "thorough": 1800}, oracle_fallback=["decode-offsubgroup", "g1p"], scenario_bin="replay_real"),
    H("c11::g2p_from_compressed_contract", "C16.K.g2p.from_compressed",
      "G2Projective::from_bytes (checked, compressed; the reader of ParamsVerifierKZG / ParamsKZG g2, s_g2) is Some iff uncompress succeeded AND the on-curve AND the subgroup oracle said yes",
      ["curves/src/bls12_381/g2.rs::G2Projective::from_compressed"], "all 96-byte inputs, all oracle answers", "G2Projective::from_compressed:contract",
      est=12, timeout={"quick": 600, "thorough": 1800}, oracle_fallback=["decode-offsubgroup", "g2p"], scenario_bin="replay_real"),
]


def check(run):
    run.bounds.append("K/C16: buffers <= 8 (verifying-key framing), <= 18 (architecture descriptor), <= 48 bytes (points); every byte, every length and every stubbed-oracle answer symbolic")
    run.assumptions += [
        "K/C16: the verifying-key framing harnesses instantiate the generic code at a toy field (F_97) and a stub commitment scheme whose commitments occupy 0 bytes and always decode; decoder failures inside the commitment list are therefore not exercised (an io::Error created inside collect::<Result<..>> is dropped through std's bit-packed repr, which CBMC cannot resolve: measured non-termination)",
        "K/C16: EvaluationDomain::new and VerifyingKey::from_parts are replaced by struct-assembling stand-ins in the framing harnesses (field-for-field mirrors, layout self-checked through the public getters in every run); the integer prefix of EvaluationDomain::new is checked separately",
    ]
    run.outside += [
        "K/C16: whole ZkStdLib::configure with a symbolic architecture (CBMC > 12 GB even with create_gate/lookup stubbed; harness h_arch::configure_nr_pow2range_any kept in the crate, not registered); the slice advice_columns[1..=nr] inside it is covered only through the leaf Pow2RangeChip::configure + the native replay of MidnightVK::read",
        "K/C16: constraint systems with gates or selectors in the framing harness (recursive Expression walks / drop glue are not constant-folded by CBMC: measured out-of-memory / non-termination)",
        "K/C16: ParamsKZG::read_custom / ParamsVerifierKZG::read (collect::<Result<_, io::Error>> drop problem, measured non-termination). Observed natively with the scenario tool of the crate (replay --scenario params-k 60): read_custom(Processed) on a 4-byte input with k = 60 panics with 'capacity overflow' (vec![Repr::default(); 1 << k] before any input is read); not decided by a K check",
        "K/C16: zkir arity-vs-index harnesses (h_zkir::arity_*: process_instruction needs > 300 s / > 12 GB per operation), zkir constants parsing, circuits/src/parsing/serialization.rs, read_f / Polynomial::read (pub(crate))",
        "K/C16: proving keys (local artefacts)",
    ]
    obs = kani.run_harnesses(run, CRATE, SPECS, jobs=6)
    # the checked compressed decoders of the PROJECTIVE types are what the proof / parameter readers call
    # (ParamsVerifierKZG::read -> G2Projective::from_bytes; proof commitments -> G1Projective::from_bytes):
    # same harnesses as under C11, harness crate engines/kani/curves (added after seeded C16-c)
    obs += kani.run_harnesses(run, "engines/kani/curves", SPECS_CURVES, jobs=2)
    for ob in obs:
        if ob.status == core.INCONCLUSIVE and "no native replay exists" in (ob.detail or "") and ob.id in PINS:
            _extract_by_pins(run, ob, *PINS[ob.id])


# Counterexample extraction when Kani's concrete playback gives nothing (its un-sliced formula needs > 20 GB
# for the two harnesses below, or it emits tests for the covers only): the SAME harness body with its symbolic
# input pinned to one value is re-decided by Kani; the first pin that FAILS (same failed check) gives the
# concrete values, in the order of the main harness's `any()` calls, which are then replayed natively
# (level 1: harness body on the real functions; level 2: MidnightVK::read / verify on crafted bytes).
PINS = {
    # obligation id -> (main harness, [(pinned harness, concrete_vals of the main harness)])
    "C16.K.pow2range.column_count": ("h_arch::pow2range_configure_column_count", [
        ("h_arch::pow2range_pin_0", [[0]]), ("h_arch::pow2range_pin_4", [[4]])]),
    "C16.K.vk_read.postcondition": ("h_vk_read::vk_read_postcondition", [
        ("h_vk_read::vk_read_postcondition_pin_0", [[3], [0], [0], [0], [0], [0], [0], [0], [8, 0, 0, 0, 0, 0, 0, 0]]),
        ("h_vk_read::vk_read_postcondition_pin_1", [[3], [0], [1], [0], [0], [0], [0], [0], [8, 0, 0, 0, 0, 0, 0, 0]])]),
}


def _extract_by_pins(run, ob, main_harness, pins):
    import os, time
    crate = kani._Crate(CRATE, None, ("-Z", "stubbing"), "replay", 12 * 1024 * 1024)
    t0 = time.time()
    for pinned, vals in pins:
        cmd = ["cargo", "kani", "--target-dir", crate.base(), "-Z", "stubbing", "--harness", pinned, "--exact", "--output-format", "terse"]
        rc, out, dt = kani._sh(cmd, crate.crate_dir, 300, crate.mem_kb, os.path.join(crate.logs, pinned.replace(":", "_") + ".pin.log"))
        ob.queries += 1
        r = kani.parse_output(out)
        genuine = [c for c in r["failed_checks"] if not kani.TOOL_FAILURE_PAT.search(c["description"])]
        run.log(f"K pin {pinned}: failed={bool(r['failed'])} genuine={len(genuine)} {dt:.0f}s")
        if not (r["failed"] and genuine) or r["unwinding"] or r["unsupported"]:
            continue
        reproduced, detail, per = crate.run_native(main_harness, vals)
        payload = dict(engine="K", crate=CRATE, harness=main_harness, concrete_vals=vals, failed_checks=genuine, pinned_harness=pinned,
                       replay_bin="replay", native=per, engine_part="K",
                       how="counterexample obtained by re-deciding the harness with its input pinned (Kani playback unavailable); "
                           "check <ID> --replay <this file>: native run of the harness body + real-API scenario")
        path = run.write_replay(ob, payload)
        fdesc = "; ".join(f"{c['description']} @ {c['file']}:{c['line']}" for c in genuine)[:300]
        if reproduced:
            return ob.set(core.VIOLATION, f"{fdesc}; counterexample pinned by {pinned}; native replay reproduces ({detail})",
                          solver="cbmc+cadical", solver_s=ob.solver_s + time.time() - t0, replay=path)
        return ob.set(core.INCONCLUSIVE, f"{fdesc}; pinned counterexample does not reproduce natively ({detail}); see {path}")
    return ob


def replay(payload):
    return kani.replay(payload)
