"""C20 (engine S) — ONLY the last clause of C20: "the inner-product argument that ties the committed scalars to
the claimed point is complete and rejects any altered vector, commitment or claimed value".

Code under check: aggregator/src/inner_product_argument.rs — `ipa_prove<T, C>`, `ipa_verify<T, C>` (+ the private
`inner_product`, `fold`). Both are generic; they are executed by `sx ipa` at
    T = the real CircuitTranscript over SymHash (challenge = variable chi<k>, k = the absorbed history),
    C = SymG (engines/symfield/src/symg.rs): group elements are their discrete logarithms, SymF terms.
The source file is compiled from core.REPO on every run (build.rs copy; the module is private in
midnight-aggregator). `msm_best` is replaced by its contract sum_i bases[i]*coeffs[i] in the symbolic compilation
(the real one selects buckets from the BYTES of the scalars: to_repr() of a term is a concretisation); the real
compilation (real msm_best) is cross-run at concrete values on every run, and on Bls12-381 G1 + Blake2b.

The verifier's verdict is one identity test `inner_product(msm_scalars, msm_bases).to_affine().is_identity()`;
SymG reports the tested term E (a non-constant term is never silently "not the identity": the term goes to the
obligations below, the branch taken is recorded as a path condition).

Obligations, for n in {1, 2, 4, 8} (thorough: + 16, 32, 64, 128):
  completeness      honest proof (real ipa_prove on symbolic w, bases1, bases2; res = <w, bases> by definition; all
                    challenges = variables with the recorded conditions u_j != 0): prover Ok, verifier consumes the
                    whole proof, exactly one identity test, and E is the zero polynomial. Solver: for every Laurent
                    monomial the contributions of the MSM's summands (normalised separately) cancel mod p.
  claimed-values    the same honest prover with FREE claimed values R1, R2:  E == (R1 - <w,bases1>) + r (R2 - <w,bases2>)
                    (generalises completeness; a wrong claimed value leaves a non-zero polynomial in r).
  check-equation    real ipa_verify on a symbolic proof (fresh L_j, R_j, s), free bases and claimed values:
                    E == +-(textbook), textbook = (res1 + r res2) + sum_j (u_j^2 L_j + u_j^-2 R_j) - s * G_fin written
                    in vf/ipa.py::textbook from eprint 2019/1021 section 3.1 (closed form of the folded generator).
  verdict           (ground) the two sides of the identity test, both executed symbolically on a symbolic proof: sent into
                    "E is not the identity" ipa_verify returns Err(Opening), sent into "E is the identity" it returns Ok;
                    same tested element, whole proof consumed on both sides.
  transcript-order  (ground) verifier and prover logs: bases1, bases2, res1, res2 absorbed before r is squeezed;
                    L_j, R_j absorbed after u_(j-1) and before u_j; k+1 squeezes; every read is absorbed at once.
  sensitive/<X>     X in {res1, res2, L_j, R_j, s, bases1[i], bases2[i]}: X occurs linearly in E with a coefficient
                    that is a non-zero element of F_p(challenges)[other symbols]: altering exactly X with the
                    challenges fixed changes E. Solver: "all coefficients of the monomials containing X are 0 mod p"
                    is unsat.
  altered/<X>       (n = 4; thorough: n = 2, 8 too) honest proof, then X := X + delta before the real verifier runs
                    on the real symbolic hash: the challenges squeezed after X's absorption are NEW variables, and E
                    is a non-zero polynomial (so acceptance needs a root of a fixed non-zero polynomial).
Outside (run.outside): the probabilistic step (challenges are random / the hash is a random oracle), knowledge
soundness (extraction), the discrete-log model itself, msm_best's own correctness, everything else in C20.
"""
import random, time
from concurrent.futures import ThreadPoolExecutor

from vf import core, solvers, symf, ipa
from vf.core import HOLDS, VIOLATION, INCONCLUSIVE
from vf.symf import P
from vf.solvers import I

ENGINE = "S"
F_PROVE = "aggregator/src/inner_product_argument.rs::ipa_prove"
F_VERIFY = "aggregator/src/inner_product_argument.rs::ipa_verify"
F_IP = "aggregator/src/inner_product_argument.rs::inner_product"
F_FOLD = "aggregator/src/inner_product_argument.rs::fold"
F_TR = ["proofs/src/transcript/mod.rs::CircuitTranscript::read", "proofs/src/transcript/mod.rs::CircuitTranscript::write",
        "proofs/src/transcript/mod.rs::CircuitTranscript::common", "proofs/src/transcript/mod.rs::CircuitTranscript::squeeze_challenge"]
KINDS = ["completeness", "claimed", "equation", "order", "sensitive", "altered", "verdict"]


def _wr(run, ob, payload):
    """replay file of this part (the aggregator dispatches on engine_part)"""
    return run.write_replay(ob, dict(payload, engine_part="S"))


def sizes():
    return [1, 2, 4, 8] + ([16, 32, 64, 128] if core.tier() == "thorough" else [])


def altered_sizes():
    return [4] if core.tier() == "quick" else [2, 4, 8]


# ------------------------------------------------------------------ solver plumbing
def flatten_sum(dag, root):
    """summands of the top-level sum of `root` (the MSM accumulates acc + base*scalar)"""
    out, stack = [], [root]
    while stack:
        i = stack.pop()
        n = dag.nodes[i]
        if n[0] == "a":
            stack.extend(n[1:])
        else:
            out.append(i)
    return out


def cancel_smt(groups):
    """groups: list of (contributions, target). 'for some monomial sum(contributions) != target mod p'."""
    lines = ["(set-logic ALL)", f"(define-fun p () Int {P})"]
    names = []
    for i in range(0, len(groups), 200):
        dis = []
        for contribs, target in groups[i:i + 200]:
            s = "(+ 0 " + " ".join(I(c) for c in contribs) + ")"
            dis.append(f"(not (= (mod (- {s} {I(target)}) p) 0))")
        nm = f"d{i // 200}"
        lines.append(f"(define-fun {nm} () Bool (or false {' '.join(dis)}))")
        names.append(nm)
    lines.append("(assert (or false " + " ".join(names) + "))" if names else "(assert false)")
    return "\n".join(lines)


def decide_groups(ob, groups, rnd, timeout=120):
    """(status, solver, seconds): unsat = every monomial's contributions sum to its target. Sets ob.vacuity from the
    twin (one contribution perturbed, must be sat)."""
    r = solvers.solve(cancel_smt(groups), timeout=timeout)
    tw_groups = [(list(c), t) for c, t in groups[:400]] or [([0], 0)]
    j = rnd.randrange(len(tw_groups))
    tw_groups[j] = (tw_groups[j][0] + [1], tw_groups[j][1])
    tw = solvers.solve(cancel_smt(tw_groups), timeout=timeout)
    ob.queries += 2
    ob.vacuity = tw.status == "sat"
    return r, tw


def impl_groups(run_, target_nf):
    """contributions per monomial of the decided element, summand by summand, against the target normal form"""
    dag = run_.dag
    root = run_.verifier_tests()[0]["term"]
    per = {}
    for t in flatten_sum(dag, root):
        for m, c in run_.nf(t).items():
            per.setdefault(m, []).append(c)
    monos = set(per) | set(target_nf)
    return [(per.get(m, []), target_nf.get(m, 0)) for m in sorted(monos)], len(flatten_sum(dag, root))


def seeded_vals(n, seed, extra=()):
    """explicit values of every variable of a concrete run"""
    rnd = random.Random(1000 * seed + n)
    k = n.bit_length() - 1
    names = ([f"w{i}" for i in range(n)] + [f"g{i}" for i in range(n)] + [f"h{i}" for i in range(n)] + ["R1", "R2", "delta", "pf1"]
             + [f"pg{j + 1}" for j in range(2 * k)] + [f"chi{j}" for j in range(4 * k + 4)] + list(extra))
    return {nm: hex(rnd.randrange(1, P)) for nm in names}


def shape_guard(ob, r):
    """common preconditions of a symbolic run; returns False (and sets the obligation) when not met"""
    pr = r.problems()
    if pr:
        return pr
    nz, other = r.path_report()
    if other:
        return [f"unexpected path conditions {other[:3]}"]
    if r.ring.atoms:
        return [f"{len(r.ring.atoms)} opaque inverse atoms"]
    return []


# ------------------------------------------------------------------ obligations per size
def ob_completeness(run, n, rnd, r):
    ob = core.Ob(f"C20/S/ipa/n{n}/completeness", ENGINE,
                 "ipa_verify on the proof written by ipa_prove: the decided group element is the zero polynomial, for all "
                 "scalars, bases and challenges (u_j != 0); prover Ok, whole proof consumed, one identity test",
                 functions=[F_PROVE, F_VERIFY, F_IP, F_FOLD] + F_TR,
                 bound=f"n={n}; symbolic w[{n}], dlog(bases1)[{n}], dlog(bases2)[{n}], res=<w,bases>, challenges chi0..chi{n.bit_length() - 1}",
                 key="ipa-completeness")
    run.add(ob)
    payload = {"kind": "completeness", "n": n, "seed": core.seed()}
    if isinstance(r, Exception):
        ob.set(INCONCLUSIVE, f"sx: {str(r)[-300:]}")
        return
    pr = r.problems()
    if pr:
        # the run itself is wrong (prover error / panic / unread proof bytes): a completeness break if it replays
        ob.set(VIOLATION if replay(payload) else INCONCLUSIVE, "; ".join(pr), replay=_wr(run, ob, payload))
        return
    bad = shape_guard(ob, r)
    if bad:
        ob.set(INCONCLUSIVE, "; ".join(bad))
        return
    E = r.decided()
    nz, _ = r.path_report()
    chal = {dag_name for dag_name in (r.dag.var_name(s["term"]) for s in r.squeezes("V"))}
    if not (r.ring.inverted <= set(nz) and set(nz) <= chal):
        ob.set(INCONCLUSIVE, f"inverted {sorted(r.ring.inverted)} vs nz conditions {nz} vs challenges {sorted(chal)}")
        return
    # the feasible side of the identity test: the same run sent into "E is the identity" must return Ok
    try:
        ry = ipa.IpaRun(ipa.run_ipa(n, idanswer=1))
        accept = ry.verifier_result() == "Ok" and not ry.problems() and ry.decided() == E
    except Exception as ex:
        ob.set(INCONCLUSIVE, f"sx (accept branch): {str(ex)[-300:]}")
        return
    if not accept:
        ob.set(VIOLATION if replay(payload) else INCONCLUSIVE,
               f"on the branch 'decided element is the identity' the verifier returns {ry.verifier_result()} {ry.problems()}",
               replay=_wr(run, ob, payload))
        return
    groups, nsum = impl_groups(r, {})
    res, tw = decide_groups(ob, groups, rnd)
    detail = (f"{nsum} MSM summands, {len(groups)} Laurent monomials, all cancel; path: u_j != 0 for {nz}; "
              f"branch E != 0 (Err) infeasible, branch E == 0 returns Ok")
    if res.status == "unsat" and not E and ob.vacuity:
        ob.set(HOLDS, detail, solver=res.solver, solver_s=res.time_s + tw.time_s)
    elif res.status == "sat" or E:
        ob.set(VIOLATION if replay(payload) else INCONCLUSIVE,
               f"decided element is not zero: {len(E)} monomials, e.g. {r.ring.show(E, 3)}", solver=res.solver, solver_s=res.time_s,
               replay=_wr(run, ob, payload))
    else:
        ob.set(INCONCLUSIVE, f"solver {res.status} / twin {tw.status}")


def ob_claimed(run, n, rnd):
    ob = core.Ob(f"C20/S/ipa/n{n}/claimed-values", ENGINE,
                 "honest prover with free claimed values R1, R2: decided element == (R1 - <w,bases1>) + r (R2 - <w,bases2>)",
                 functions=[F_PROVE, F_VERIFY, F_IP, F_FOLD],
                 bound=f"n={n}; symbolic w, bases, R1, R2, challenges", key="ipa-claimed-value-binding")
    run.add(ob)
    payload = {"kind": "claimed", "n": n, "seed": core.seed()}
    try:
        r = ipa.IpaRun(ipa.run_ipa(n, res="free"))
        bad = shape_guard(ob, r)
        if bad:
            ob.set(INCONCLUSIVE, "; ".join(bad))
            return
        S = ipa.claimed_value_spec(r.ring, r, r.symbols())
        E = r.decided()
    except Exception as ex:
        ob.set(INCONCLUSIVE, f"{type(ex).__name__}: {str(ex)[-300:]}")
        return
    groups, nsum = impl_groups(r, S)
    res, tw = decide_groups(ob, groups, rnd)
    if res.status == "unsat" and E == S and ob.vacuity:
        ob.set(HOLDS, f"{len(groups)} monomials ({len(S)} in the specification)", solver=res.solver, solver_s=res.time_s + tw.time_s)
    elif res.status == "sat" or E != S:
        D = r.ring.add(E, r.ring.neg(S))
        ob.set(VIOLATION if replay(payload) else INCONCLUSIVE, f"differs from the specification by {r.ring.show(D, 3)}",
               solver=res.solver, solver_s=res.time_s, replay=_wr(run, ob, payload))
    else:
        ob.set(INCONCLUSIVE, f"solver {res.status} / twin {tw.status}")


def ob_equation(run, n, rnd, rv):
    ob = core.Ob(f"C20/S/ipa/n{n}/check-equation", ENGINE,
                 "ipa_verify on a symbolic proof: decided element == +-[(res1 + r res2) + sum_j (u_j^2 L_j + u_j^-2 R_j) - s G_fin] "
                 "(eprint 2019/1021 s3.1, G_fin = sum_i coeff_i(prod_j (u_j^-1 + u_j X^(2^(k-1-j)))) (bases1[i] + r bases2[i]))",
                 functions=[F_VERIFY, F_IP],
                 bound=f"n={n}; fresh symbols L_j, R_j, s, dlog(bases), R1, R2, challenges", key="ipa-check-equation")
    run.add(ob)
    payload = {"kind": "equation", "n": n, "seed": core.seed()}
    if isinstance(rv, Exception):
        ob.set(INCONCLUSIVE, f"sx: {str(rv)[-300:]}")
        return
    pr = rv.problems()
    if pr:
        ob.set(VIOLATION if replay(payload) else INCONCLUSIVE, "; ".join(pr), replay=_wr(run, ob, payload))
        return
    bad = shape_guard(ob, rv)
    if bad:
        ob.set(INCONCLUSIVE, "; ".join(bad))
        return
    try:
        E = rv.decided()
        T = ipa.textbook(rv.ring, n, rv.symbols())
    except Exception as ex:
        ob.set(INCONCLUSIVE, f"{type(ex).__name__}: {str(ex)[-300:]}")
        return
    sign = "+"
    if E != T and E == rv.ring.neg(T):
        T, sign = rv.ring.neg(T), "-"
    groups, nsum = impl_groups(rv, T)
    res, tw = decide_groups(ob, groups, rnd)
    if res.status == "unsat" and E == T and ob.vacuity:
        ob.set(HOLDS, f"E == {sign}(RHS - LHS): {len(groups)} monomials, {nsum} MSM summands", solver=res.solver, solver_s=res.time_s + tw.time_s)
    elif res.status == "sat" or E != T:
        D = rv.ring.add(E, rv.ring.neg(T))
        ob.set(VIOLATION if replay(payload) else INCONCLUSIVE, f"E - textbook = {rv.ring.show(D, 4)} ({len(D)} monomials)",
               solver=res.solver, solver_s=res.time_s, replay=_wr(run, ob, payload))
    else:
        ob.set(INCONCLUSIVE, f"solver {res.status} / twin {tw.status}")


def order_facts(r, side):
    """positions in the side's log; returns (facts [(a, b, text)], structural problems [text])"""
    ev = [e for e in r.log if e["side"] == side]
    k, n = r.k, r.n
    sq = [i for i, e in enumerate(ev) if e["op"] == "squeeze"]
    problems, facts = [], []
    if len(sq) != k + 1:
        problems.append(f"{len(sq)} squeezes (expected {k + 1})")
        return facts, problems

    def first_absorb(term, after=-1):
        for i, e in enumerate(ev):
            if i > after and e["op"] == "absorb" and e["item"] == ["f", term]:
                return i
        return None

    stmt = ([(f"bases1[{i}]", t) for i, t in enumerate(r.d["b1"])] + [(f"bases2[{i}]", t) for i, t in enumerate(r.d["b2"])]
            + [("res1", r.d["res1"]), ("res2", r.d["res2"])])
    for name, t in stmt:
        pos = first_absorb(t)
        if pos is None:
            problems.append(f"{name} is never absorbed")
        else:
            facts.append((pos, sq[0], f"{name} absorbed before r"))
    # proof elements in transcript order
    op = "read" if side == "V" else "write"
    io = [(i, e["item"]) for i, e in enumerate(ev) if e["op"] == op]
    if len(io) != 2 * k + 1:
        problems.append(f"{len(io)} proof elements {op} (expected {2 * k + 1})")
        return facts, problems
    for j in range(k):
        for nm, (pos_io, item) in ((f"L_{j}", io[2 * j]), (f"R_{j}", io[2 * j + 1])):
            pos = first_absorb(item[1], after=sq[j])
            if pos is None:
                problems.append(f"{nm} is not absorbed after challenge #{j}")
                continue
            facts.append((sq[j], pos, f"{nm} absorbed after challenge #{j}"))
            facts.append((pos, sq[j + 1], f"{nm} absorbed before u_{j}"))
            # read => absorbed immediately after; write => absorbed immediately before (CircuitTranscript::read/write)
            facts.append((abs(pos - pos_io), 2, f"{nm}: {op} and absorb adjacent"))
    pos_s = first_absorb(io[2 * k][1][1], after=sq[k])
    if pos_s is None:
        problems.append("s is not absorbed")
    # histories behind the challenge variables (what each challenge is a function of)
    chis = r.d["world"]["chi"]
    sqi = [ev[i]["item"] for i in sq]
    hist_r = chis[sqi[0]["chi"]]
    for name, t in stmt:
        if ["f", t] not in hist_r:
            problems.append(f"history of r lacks {name}")
    for j in range(k):
        h = chis[sqi[j + 1]["chi"]]
        for nm, (_, item) in ((f"L_{j}", io[2 * j]), (f"R_{j}", io[2 * j + 1])):
            if ["f", item[1]] not in h:
                problems.append(f"history of u_{j} lacks {nm}")
        if h[:len(hist_r)] != hist_r:
            problems.append(f"history of u_{j} does not extend the history of r")
    return facts, problems


def ob_order(run, n, r, side):
    who = "verifier" if side == "V" else "prover"
    ob = core.Ob(f"C20/S/ipa/n{n}/transcript-order/{who}", ENGINE,
                 f"{who} log: bases1, bases2, res1, res2 absorbed before r; L_j, R_j absorbed between u_(j-1) and u_j; k+1 squeezes",
                 functions=[F_VERIFY if side == "V" else F_PROVE] + F_TR, bound=f"n={n}; log of the symbolic run (same for all values)",
                 key="ipa-transcript-binding")
    run.add(ob)
    ob.nontrivial = False
    payload = {"kind": "order", "n": n, "side": side}
    if isinstance(r, Exception) or r is None:
        ob.set(INCONCLUSIVE, f"no run: {str(r)[-200:]}")
        return
    try:
        facts, problems = order_facts(r, side)
    except Exception as ex:
        ob.set(INCONCLUSIVE, f"{type(ex).__name__}: {str(ex)[-300:]}")
        return
    res = solvers.solve(ipa.order_smt(facts), timeout=30)
    tw = solvers.solve(ipa.order_smt(facts + [(1, 0, "twin")]), timeout=30)
    ob.queries += 2
    ob.vacuity = tw.status == "sat"
    failing = [t for a, b, t in facts if not a < b] + problems
    if res.status == "unsat" and not problems and ob.vacuity:
        ob.set(HOLDS, f"{len(facts)} order facts", solver=res.solver, solver_s=res.time_s + tw.time_s)
    elif res.status == "sat" or problems:
        ob.set(VIOLATION if replay(payload) else INCONCLUSIVE, "; ".join(failing[:4]), solver=res.solver, solver_s=res.time_s,
               replay=_wr(run, ob, payload))
    else:
        ob.set(INCONCLUSIVE, f"solver {res.status} / twin {tw.status}")


def target_symbols(rv):
    """target name -> variable name in the verify-only run"""
    rd = rv.reads()
    k, n = rv.k, rv.n
    out = {"res1": rv.dag.var_name(rv.d["res1"]), "res2": rv.dag.var_name(rv.d["res2"]), "s": rv.dag.var_name(rd[2 * k][1])}
    for j in range(k):
        out[f"L{j}"] = rv.dag.var_name(rd[2 * j][1])
        out[f"R{j}"] = rv.dag.var_name(rd[2 * j + 1][1])
    for i in range(n):
        out[f"b1_{i}"] = rv.dag.var_name(rv.d["b1"][i])
        out[f"b2_{i}"] = rv.dag.var_name(rv.d["b2"][i])
    return out


def ob_sensitive(run, n, rv, target):
    ob = core.Ob(f"C20/S/ipa/n{n}/sensitive/{target}", ENGINE,
                 f"{target} occurs linearly in the decided element with a non-zero coefficient (fraction field of the challenges): "
                 "altering it alone, challenges fixed, changes the element",
                 functions=[F_VERIFY, F_IP], bound=f"n={n}; symbolic proof, bases, claimed values, challenges", key=f"ipa-insensitive:{kind_of(target)}")
    run.add(ob)
    payload = {"kind": "sensitive", "n": n, "target": target, "seed": core.seed()}
    if not isinstance(rv, Exception) and rv.problems() and rv.verifier_result() == "Ok" and not rv.verifier_tests():
        ob.set(VIOLATION if replay(payload) else INCONCLUSIVE, "the verifier returns Ok without an identity test", replay=_wr(run, ob, payload))
        return
    if isinstance(rv, Exception) or rv.problems() or shape_guard(ob, rv):
        ob.set(INCONCLUSIVE, "verify-only run unusable: " + (str(rv)[-200:] if isinstance(rv, Exception) else "; ".join(rv.problems() or shape_guard(ob, rv))))
        return
    try:
        name = target_symbols(rv)[target]
        E = rv.decided()
        if name is None:
            raise ValueError("target is not a variable of the run")
        sub, deg = ipa.occurs(E, rv.ring.var_index(name))
    except Exception as ex:
        ob.set(INCONCLUSIVE, f"{type(ex).__name__}: {str(ex)[-300:]}")
        return
    chal = {rv.ring.var_index(rv.dag.var_name(s["term"])) for s in rv.squeezes("V")}
    X = rv.ring.var_index(name)
    unit = len(sub) == 1 and all(v in chal or v == X for m in sub for v, e in m)
    res = solvers.solve(ipa.nonzero_smt(list(sub.values())), timeout=30)
    tw = solvers.solve(ipa.nonzero_smt([0] * max(1, len(sub))), timeout=30)
    ob.queries += 2
    ob.vacuity = tw.status == "sat"
    if res.status == "unsat" and deg == 1 and ob.vacuity:
        ob.set(HOLDS, f"coefficient of {name}: {len(sub)} monomials, " + ("a unit (monomial in the challenges: never zero)" if unit else
               f"non-zero polynomial, e.g. {rv.ring.show(sub, 2)}"), solver=res.solver, solver_s=res.time_s + tw.time_s)
    elif res.status == "sat" or deg == 0:
        ob.set(VIOLATION if replay(payload) else INCONCLUSIVE, f"{name} does not occur in the decided element", solver=res.solver,
               solver_s=res.time_s, replay=_wr(run, ob, payload))
    elif deg > 1:
        ob.set(INCONCLUSIVE, f"{name} occurs with degree {deg}: not the linear form the obligation assumes")
    else:
        ob.set(INCONCLUSIVE, f"solver {res.status} / twin {tw.status}")


def kind_of(target):
    if target in ("res1", "res2"):
        return "claimed-value"
    if target[0] in "LR" or target == "s":
        return "proof-element"
    return "base"


def ob_altered(run, n, target):
    ob = core.Ob(f"C20/S/ipa/n{n}/altered/{target}", ENGINE,
                 f"honest proof, then {target} := {target} + delta before the real verifier: later challenges are new variables and the "
                 "decided element is a non-zero polynomial",
                 functions=[F_PROVE, F_VERIFY, F_IP, F_FOLD] + F_TR, bound=f"n={n}; symbolic w, bases, delta, challenges",
                 key=f"ipa-altered-accepted:{kind_of(target)}")
    run.add(ob)
    payload = {"kind": "altered", "n": n, "target": target, "seed": core.seed()}
    try:
        r = ipa.IpaRun(ipa.run_ipa(n, tamper=target))
        pr = r.problems()
        if pr and r.verifier_result() == "Ok":
            ob.set(VIOLATION if replay(payload) else INCONCLUSIVE, "altered proof accepted: " + "; ".join(pr), replay=_wr(run, ob, payload))
            return
        bad = shape_guard(ob, r)
        if bad:
            ob.set(INCONCLUSIVE, "; ".join(bad))
            return
        E = r.decided()
    except Exception as ex:
        ob.set(INCONCLUSIVE, f"{type(ex).__name__}: {str(ex)[-300:]}")
        return
    psq = [s["chi"] for s in r.squeezes("P")]
    vsq = [s["chi"] for s in r.squeezes("V")]
    # first challenge that depends on the altered element (whether it does is transcript-order's business; reported here)
    first = 0 if kind_of(target) != "proof-element" else (r.k + 1 if target == "s" else int(target[1:]) + 1)
    new_after = psq[:first] == vsq[:first] and all(a != b for a, b in zip(psq[first:], vsq[first:]))
    delta = r.ring.var_index("delta")
    sub, deg = ipa.occurs(E, delta)
    res = solvers.solve(ipa.nonzero_smt(list(E.values())), timeout=30)
    tw = solvers.solve(ipa.nonzero_smt([0]), timeout=30)
    ob.queries += 2
    ob.vacuity = tw.status == "sat"
    if res.status == "unsat" and E and sub and r.verifier_result() == "Err(Opening)" and ob.vacuity:
        ob.set(HOLDS, f"{len(E)} monomials ({len(sub)} with delta); challenges from #{first} on are "
               f"{'new variables' if new_after else 'NOT all new (see transcript-order)'} (prover {psq}, verifier {vsq})",
               solver=res.solver, solver_s=res.time_s + tw.time_s)
    elif res.status == "sat" or not E or not sub or r.verifier_result() == "Ok":
        why = ("decided element is the zero polynomial" if not E else "delta does not occur in the decided element" if not sub
               else f"verifier result {r.verifier_result()}")
        ob.set(VIOLATION if replay(payload) else INCONCLUSIVE, why, solver=res.solver, solver_s=res.time_s, replay=_wr(run, ob, payload))
    else:
        ob.set(INCONCLUSIVE, f"solver {res.status} / twin {tw.status}; verifier {r.verifier_result()}")


def ob_verdict(run, n, rv):
    ob = core.Ob(f"C20/S/ipa/n{n}/verdict", ENGINE,
                 "both sides of the identity test: 'not the identity' -> Err(Opening), 'identity' -> Ok; same tested element",
                 functions=[F_VERIFY], bound=f"n={n}; symbolic proof, bases, claimed values, challenges; both branches executed",
                 key="ipa-verdict")
    run.add(ob)
    ob.nontrivial = False
    payload = {"kind": "verdict", "n": n, "seed": core.seed()}
    try:
        if isinstance(rv, Exception):
            raise rv
        ry = ipa.IpaRun(ipa.run_ipa(n, proof="fresh", res="free", idanswer=1))
        ty, tn = ry.verifier_tests(), rv.verifier_tests()
        facts = [
            (rv.verifier_result() == "Err(Opening)", f"'not identity' branch returns {rv.verifier_result()}"),
            (ry.verifier_result() == "Ok", f"'identity' branch returns {ry.verifier_result()}"),
            (len(tn) == 1 and len(ty) == 1, f"identity tests per branch: {len(tn)}, {len(ty)}"),
            (len(tn) == 1 and len(ty) == 1 and tn[0]["answer"] is False and ty[0]["answer"] is True and not tn[0]["constant"],
             "answers given to the code: false / true on a non-constant element"),
            (len(tn) == 1 and len(ty) == 1 and rv.decided() == ry.decided(), "same tested element on both branches"),
            (bool(rv.consumed_all()) and bool(ry.consumed_all()), "whole proof consumed on both branches"),
        ]
    except Exception as ex:
        ob.set(INCONCLUSIVE, f"{type(ex).__name__}: {str(ex)[-300:]}")
        return
    smt = "(set-logic ALL)\n(assert (or false " + " ".join("false" if ok else "true" for ok, _ in facts) + "))"
    res = solvers.solve(smt, timeout=30)
    tw = solvers.solve("(set-logic ALL)\n(assert (or false true))", timeout=30)
    ob.queries += 2
    ob.vacuity = tw.status == "sat"
    bad = [t for ok, t in facts if not ok]
    if res.status == "unsat" and ob.vacuity:
        ob.set(HOLDS, f"{len(facts)} facts", solver=res.solver, solver_s=res.time_s + tw.time_s)
    elif res.status == "sat":
        ob.set(VIOLATION if replay(payload) else INCONCLUSIVE, "; ".join(bad), solver=res.solver, solver_s=res.time_s,
               replay=_wr(run, ob, payload))
    else:
        ob.set(INCONCLUSIVE, f"solver {res.status} / twin {tw.status}")


# ------------------------------------------------------------------ translator validation
def validate(run, rnd):
    ok, txt = ipa.source_check()
    run.translator_validation.append(f"C20/S: source inclusion {'ok' if ok else 'FAILED'}: {txt}")
    run.translator_validation.append(f"C20/S: msm_best shim has the real signature + length assertion: {ipa.msm_contract_check()}")
    # real msm_best vs shim at concrete values, same transcript: identical proofs, verdicts and decided values
    # (equality of the two compilations is what is validated; whether the verdict is "Ok" is the obligations' business)
    same = []
    for n in (1, 4, 8):
        vals = seeded_vals(n, core.seed())
        a = ipa.IpaRun(ipa.run_ipa(n, impl="shim", vals=vals))
        b = ipa.IpaRun(ipa.run_ipa(n, impl="real", vals=vals))
        pa = [a.dag.const(x[1]) for x in a.d.get("prover", {}).get("records", [])]
        pb = [b.dag.const(x[1]) for x in b.d.get("prover", {}).get("records", [])]
        same.append(pa == pb and a.d.get("idtests") is not None and [a.dag.const(t["term"]) for t in a.d["idtests"]] ==
                    [b.dag.const(t["term"]) for t in b.d["idtests"]] and a.verifier_result() == b.verifier_result())
        c = ipa.IpaRun(ipa.run_ipa(n, impl="real", proof="fresh", res="free", vals=vals))
        e = ipa.IpaRun(ipa.run_ipa(n, impl="shim", proof="fresh", res="free", vals=vals))
        same.append([c.dag.const(t["term"]) for t in c.d.get("idtests", [])] == [e.dag.const(t["term"]) for t in e.d.get("idtests", [])]
                    and c.verifier_result() == e.verifier_result())
    run.translator_validation.append(f"C20/S: real msm_best vs contract shim at concrete values (n=1,4,8; proofs, verdicts, decided element): {same}")
    # the real stack, for the record (not a property of the machinery: an unexpected verdict shows up in the obligations' replays)
    nat = ipa.run_native(8, seed=core.seed() + 1, tamper=ipa.targets(8))
    rej = sum(1 for _, v in nat.get("tampered", []) if v.startswith("rejected"))
    run.translator_validation.append(f"C20/S: real stack (Bls12-381 G1, Blake2b, real msm_best) n=8: honest {nat.get('honest')}, "
                                     f"{rej}/{len(nat.get('tampered', []))} single alterations rejected; wrong claimed value: "
                                     f"{ipa.run_native(4, seed=core.seed() + 1, wrong=1).get('honest')}; proof re-encoding round trip {nat.get('roundtrip')}; "
                                     f"3 of 8 entries padded with (0, identity, identity) as light_aggregator does: "
                                     f"{ipa.run_native(8, seed=core.seed() + 1, pad=3).get('honest')}")
    return ok and all(same) and ipa.msm_contract_check()


def check(run):
    symf.build(run)
    rnd = random.Random(core.seed())
    ns = sizes()
    run.bounds.append(f"C20/S: vector lengths n in {ns}; all scalars, discrete logs of all bases, claimed values, proof elements and "
                      f"challenges symbolic; altered-element runs for n in {altered_sizes()}")
    run.assumptions += [
        "C20/S: group elements are modelled by their discrete logarithms over the scalar field (an identity between group elements "
        "is checked as an identity between exponents: it implies the group identity; a non-identity is a non-identity for "
        "independent generators)",
        "C20/S: msm_best(coeffs, bases) = sum_i bases[i]*coeffs[i] (its contract; the real function reads the scalars' bytes and is "
        "cross-run at concrete values only)",
        "C20/S: the probabilistic step is outside: 'challenges are random' / the hash is a random oracle. sensitive/* fixes the "
        "challenges and alters one element; altered/* lets the real transcript re-derive them as new variables; that a non-zero "
        "polynomial does not vanish at the derived challenges is not decided here",
        "C20/S: a coefficient that is not a unit (on res2: r; on s: the folded base; on bases: s times a monomial) vanishes on a "
        "proper subvariety (r = 0, s = 0, ...), which the code does not exclude (only u_j != 0 is enforced, by unwrap)",
    ]
    run.outside += [
        "C20: in-circuit verifier == off-circuit verifier (verifier_gadget, transcript_gadget, kzg, msm, accumulator, expressions): "
        "10^5-10^6 rows over emulated curve arithmetic, out of reach of a solver-based check here",
        "C20: aggregated-proof clauses (light_aggregator aggregate_proofs / verify, corruption of sections), ivc example",
        "C20: light_fiat_shamir.rs (SHA-512 then Poseidon on concrete Bls12 points: concrete hashing, nothing symbolic to decide), "
        "light_self_emulation.rs (fake curve chip inside midnight-circuits' layouter)",
        "C20/S: knowledge soundness of the inner-product argument (extraction from a tree of transcripts), zero knowledge (the "
        "argument has no blinding), vector lengths that are not powers of two (assert), n > 128",
    ]
    try:
        okv = validate(run, rnd)
        if not okv:
            run.log("translator validation FAILED: " + " | ".join(run.translator_validation[-4:]))
    except Exception as ex:
        run.translator_validation.append(f"C20/S: validation crashed: {str(ex)[-300:]}")
        okv = False
    t0 = time.time()
    for n in ns:
        try:
            rc = ipa.IpaRun(ipa.run_ipa(n))
        except Exception as ex:
            rc = ex
        ob_completeness(run, n, rnd, rc)
        ob_claimed(run, n, rnd)
        try:
            rv = ipa.IpaRun(ipa.run_ipa(n, proof="fresh", res="free"))
        except Exception as ex:
            rv = ex
        ob_equation(run, n, rnd, rv)
        ob_verdict(run, n, rv)
        ob_order(run, n, rv, "V")
        ob_order(run, n, rc, "P")
        tg = ipa.targets(n)
        with ThreadPoolExecutor(max_workers=4) as ex:
            list(ex.map(lambda t: ob_sensitive(run, n, rv, t), tg))
        if not isinstance(rv, Exception) and not rv.problems():
            nvalid = rv.validate_normaliser(core.seed() + n)
            if not nvalid:
                okv = False
            run.translator_validation.append(f"C20/S: n={n}: normal form == DAG value at a pseudo-random point: {nvalid}")
        run.log(f"n={n} done at {time.time() - t0:.1f}s")
    for n in altered_sizes():
        with ThreadPoolExecutor(max_workers=4) as ex:
            list(ex.map(lambda t: ob_altered(run, n, t), ipa.targets(n)))
    if not okv:
        # a failed validation of the machinery itself must not be reported as success
        ob = core.Ob("C20/S/ipa/translator-validation", ENGINE, "machinery self-check", key="ipa-translator")
        run.add(ob)
        ob.nontrivial = False
        ob.set(INCONCLUSIVE, " | ".join(run.translator_validation[-6:])[:500])


# ------------------------------------------------------------------ replay
def replay(payload):
    """Re-executes the finding on the real code: (a) the same compiled source at concrete values (`sx ipa vals=`,
    with the real msm_best), (b) where it applies, the real stack Bls12-381 G1 + Blake2b."""
    if payload.get("engine_part") not in (None, "S") or payload.get("kind") not in KINDS:
        return None
    symf.build()
    kind, n, seed = payload["kind"], payload["n"], payload.get("seed", 0)
    vals = seeded_vals(n, seed)
    if kind == "completeness":
        out = []
        for impl in ("real", "shim"):
            r = ipa.IpaRun(ipa.run_ipa(n, impl=impl, vals=vals))
            out.append((impl, r.d.get("prover", {}).get("result"), r.verifier_result(), r.d.get("verifier", {}).get("consumed_records")))
        nat = [ipa.run_native(n, seed=seed + i) for i in (1, 2)]
        print(f"concrete runs of the real source (prover, verifier, consumed): {out}")
        print(f"real stack (Bls12-381 G1, Blake2b, real msm_best), honest prover -> verifier: "
              f"{[(x.get('prover'), x.get('honest')) for x in nat]}")
        conc_bad = all(not (p == "Ok" and v == "Ok" and c == 2 * (n.bit_length() - 1) + 1) for _, p, v, c in out)
        nat_bad = all(x.get("honest") != "accepted" for x in nat)
        return 1 if (conc_bad and nat_bad) else 0
    if kind == "claimed":
        r = ipa.IpaRun(ipa.run_ipa(n, impl="real", res="free", vals=vals))
        if r.problems():
            print(f"concrete run: {r.problems()}")
            return 1
        S = ipa.claimed_value_spec(r.ring, r, r.symbols())
        E = r.decided()
        nat = ipa.run_native(n, seed=seed + 1, wrong=1)
        print(f"concrete run, free claimed values: decided {r.ring.show(E)} vs specification {r.ring.show(S)}; verifier {r.verifier_result()}; "
              f"real stack with res1 + G claimed: {nat.get('honest')}")
        return 1 if E != S else 0
    if kind == "equation":
        r = ipa.IpaRun(ipa.run_ipa(n, impl="real", proof="fresh", res="free", vals=vals))
        if r.problems():
            print(f"concrete run: {r.problems()}")
            return 1
        T = ipa.textbook(r.ring, n, r.symbols())
        E = r.decided()
        print(f"concrete run of ipa_verify on an arbitrary proof: decided {r.ring.show(E)} vs textbook {r.ring.show(T)}")
        return 1 if E != T and E != r.ring.neg(T) else 0
    if kind == "order":
        side = payload["side"]
        r = ipa.IpaRun(ipa.run_ipa(n, vals=vals) if side == "P" else ipa.run_ipa(n, proof="fresh", res="free", vals=vals))
        facts, problems = order_facts(r, side)
        failing = [t for a, b, t in facts if not a < b] + problems
        print(f"log of a concrete run ({side}): {failing[:6]}")
        return 1 if failing else 0
    if kind == "sensitive":
        t = payload["target"]
        r0 = ipa.IpaRun(ipa.run_ipa(n, impl="real", proof="fresh", res="free", vals=vals))
        name = target_symbols_concrete(n)[t]
        v2 = dict(vals)
        v2[name] = hex((int(vals[name], 16) + 1) % P)
        r1 = ipa.IpaRun(ipa.run_ipa(n, impl="real", proof="fresh", res="free", vals=v2))
        print(f"ipa_verify, same challenges, {t} ({name}) altered by +1: decided element {hex(r0.decided_value() or 0)[:18]} -> "
              f"{hex(r1.decided_value() or 0)[:18]}")
        return 1 if r0.decided_value() == r1.decided_value() else 0
    if kind == "verdict":
        h = ipa.IpaRun(ipa.run_ipa(n, impl="real", vals=vals))
        tg = ipa.targets(n)
        alt = [(t, ipa.IpaRun(ipa.run_ipa(n, impl="real", tamper=t, vals=vals))) for t in tg[:6]]
        nat = ipa.run_native(n, seed=seed + 1, tamper=tg)
        conc_bad = [("honest", h.decided_value(), h.verifier_result())] if (h.decided_value() == 0) != (h.verifier_result() == "Ok") else []
        conc_bad += [(t, x.decided_value(), x.verifier_result()) for t, x in alt if (x.decided_value() == 0) != (x.verifier_result() == "Ok")]
        nat_acc = [t for t, v in nat.get("tampered", []) if v == "accepted"]
        print(f"concrete runs where verdict != (decided element == 0): {[(t, hex(v or 0)[:14], r_) for t, v, r_ in conc_bad]}; "
              f"real stack: honest {nat.get('honest')}, altered but accepted: {nat_acc}")
        return 1 if (conc_bad or nat_acc or nat.get("honest") != "accepted") else 0
    if kind == "altered":
        t = payload["target"]
        r = ipa.IpaRun(ipa.run_ipa(n, impl="real", tamper=t, vals=vals))
        nat = ipa.run_native(n, seed=seed + 1, tamper=[t])
        print(f"concrete run, {t} altered after proving: verifier {r.verifier_result()}; real stack: {nat.get('tampered')}")
        return 1 if r.verifier_result() == "Ok" else 0
    return 0


def target_symbols_concrete(n):
    k = n.bit_length() - 1
    out = {"res1": "R1", "res2": "R2", "s": "pf1"}
    for j in range(k):
        out[f"L{j}"] = f"pg{2 * j + 1}"
        out[f"R{j}"] = f"pg{2 * j + 2}"
    for i in range(n):
        out[f"b1_{i}"] = f"g{i}"
        out[f"b2_{i}"] = f"h{i}"
    return out
