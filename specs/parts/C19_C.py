"""C19, engine C: the in-circuit half — `AutomatonChip::parse` and the Base64 chip.

The constraint system the REAL chips emit is extracted from MockProver by engines/auto (`ax automaton|base64
...`, same JSON shape as engine C's cx) and decided with csmt: for EVERY assignment of every advice /
instance cell, `Sys => Spec`.
  * parse:   Spec = the input bytes are accepted by the automaton (dump of the real `to_automaton()`, NOT
             the lookup table) and the exposed markers are exactly those of its run; separately, the
             lookup table the chip loaded = transitions (+1 state offset) + (0,0,0,0) + one sentinel
             (f+1, 256, 0, 0) per final state.
  * base64:  Spec = input well-formed (RFC 4648 alphabet / url-safe alphabet, '=' only as the last one or
             two characters of the last quantum) and output = decoding written from RFC 4648 section 4
             (24-bit groups, big-endian). Filler bytes of a padded / partial last quantum are a separate
             obligation (the instruction's documentation promises zeros).
"""
import json, time
from concurrent.futures import ThreadPoolExecutor
from vf import core, solvers, autosmt as A, csmt, cengine
from vf.cspec import eq, AND, OR, NOT, IMP
from vf.core import HOLDS, VIOLATION, INCONCLUSIVE

KINDS = ("c19-forged-assignment", "c19-honest-rejected", "c19-table", "c19-b64-table", "c19-libtable")
F_PARSE = ["circuits/src/parsing/automaton_chip.rs::AutomatonChip::parse", "circuits/src/parsing/automaton_chip.rs::AutomatonChip::apply_one_transition",
           "circuits/src/parsing/automaton_chip.rs::AutomatonChip::assert_final_state", "circuits/src/parsing/automaton_chip.rs::AutomatonChip::load"]
F_B64 = ["circuits/src/parsing/base64_chip.rs::Base64Chip::decode_base64", "circuits/src/parsing/base64_chip.rs::Base64Chip::process_padded_chunk",
         "circuits/src/parsing/base64_chip.rs::Base64Chip::base64_to_val_chunk", "circuits/src/parsing/base64_chip.rs::Base64Chip::val_to_ascii_chunk",
         "circuits/src/parsing/table.rs::two_entry_table"]


def _skip(run, ob):
    only = getattr(run, "only", None)
    if only and only not in ob.id:
        ob.set(HOLDS, "skipped by --only")
        ob.nontrivial = False
        return True
    return False


# ------------------------------------------------------------------------------------------------
# AutomatonChip::parse
# ------------------------------------------------------------------------------------------------

def small_regexes():
    b = A._b
    tbl = [None] * 256
    tbl[0x20] = 1
    for c in range(0x30, 0x3A):
        tbl[c] = 2
    return [
        ("abc_or_d", A._bin("or", A._n("cat", [A._u("list", A._w("ab")), b('c')]), A._u("non_empty_list", b('d')))),
        ("marked_any", A._u("list", A._u("mark", {"op": "any_byte"}, table=tbl))),
        ("numbers", A._u("separated_list", A._u("mark_bytes", A._u("non_empty_list", {"op": "digit"}), set=list(range(0x30, 0x3A)), m=1), sep=A._w(","))),
    ]


def accepted_word(auto, n, seed):
    """some accepted byte word of length n (deterministic choice), or None."""
    import random
    rnd = random.Random(seed * 31 + n)
    # backward layering: states from which a final state is reachable in exactly k steps
    layers = [set(auto.final)]
    for _ in range(n):
        prev = layers[-1]
        layers.append({s for (s, b), (t, m) in auto.tr.items() if t in prev})
    if auto.init not in layers[n]:
        return None
    s, w = auto.init, []
    for k in range(n, 0, -1):
        opts = sorted((b, t) for (s2, b), (t, m) in auto.tr.items() if s2 == s and t in layers[k - 1])
        pref = [o for o in opts if 0x20 <= o[0] < 0x7F] or opts
        b, t = pref[rnd.randrange(len(pref))]
        w.append(b)
        s = t
    return w


def parse_spec(e, I, O, system):
    auto = A.Auto(system.d["extra"]["automaton"])
    e.lines += auto.smt_defs("au")
    n = len(I)
    st = ["%d" % auto.init]
    for i in range(n):
        nm = e.fresh("ps")
        e.lines.append(f"(assert (= {nm} (au_t {st[-1]} {A_(I[i])})))")   # definitional
        st.append(nm)
    conj = [f"(au_f {st[n]})"] + [f"(>= {st[i + 1]} 0)" for i in range(n)] + [f"(= {A_(O[i])} (au_m {st[i]} {A_(I[i])}))" for i in range(n)]
    return AND(*conj)


def A_(x):
    return str(x) if isinstance(x, int) else x


def table_check(system):
    auto = A.Auto(system.d["extra"]["automaton"])
    lk = [l for l in system.d["lookups"] if l["name"].startswith("automaton transition check")]
    if len(lk) != 1:
        return None, None
    table = sorted({tuple(int(x, 16) for x in row) for row in lk[0]["table"]})
    expected = sorted({(0, 0, 0, 0)} | {(s + 1, b, t + 1, m) for s, b, t, m in auto.raw} | {(f + 1, 256, 0, 0) for f in auto.final})
    return table, expected


def table_obligation(run, oid, key, system, cx):
    ob = core.Ob(oid, "C", "lookup table loaded by AutomatonChip::load = transitions of the compiled automaton (states offset by 1) + (0,0,0,0) + one sentinel (f+1,256,0,0) per final state",
                 functions=[F_PARSE[3], "circuits/src/parsing/automaton_chip.rs::NativeAutomaton::from_collection"], bound="every 4-tuple", key=key + ":table")
    run.add(ob)
    if _skip(run, ob):
        return
    table, expected = table_check(system)
    if table is None:
        return ob.set(INCONCLUSIVE, "expected exactly one automaton lookup")

    def pred(name, rows):
        by = {}
        for r in rows:
            by.setdefault(r[0], []).append(r[1:])
        disj = " ".join("(and (= x0 %d) (or false %s))" % (a, " ".join("(and (= x1 %d) (= x2 %d) (= x3 %d))" % r for r in rest)) for a, rest in sorted(by.items()))
        return f"(define-fun {name} ((x0 Int) (x1 Int) (x2 Int) (x3 Int)) Bool (or false {disj}))"

    L = ["(set-logic ALL)", pred("tab", table), pred("exp", expected), "(declare-const x0 Int)(declare-const x1 Int)(declare-const x2 Int)(declare-const x3 Int)"]
    r = solvers.solve("\n".join(L + ["(assert (not (= (tab x0 x1 x2 x3) (exp x0 x1 x2 x3))))"]), timeout=60, get_values=["x0", "x1", "x2", "x3"])
    ob.queries += 1
    ob.solver_s += r.time_s
    if r.status == "unsat":
        rv = solvers.solve("\n".join(L + ["(assert (and (tab x0 x1 x2 x3) (= x1 256)))"]), timeout=60)
        ob.queries += 1
        ob.vacuity = rv.status == "sat"
        return ob.set(HOLDS, solver=r.solver)
    if r.status == "sat":
        t = tuple(r.model.get(f"x{i}", 0) for i in range(4))
        if (t in set(table)) != (t in set(expected)):
            path = run.write_replay(ob, dict(kind="c19-table", tuple=list(t), in_table=t in set(table), in_expected=t in set(expected), ax=cx))
            return ob.set(VIOLATION, f"tuple {t}: in the loaded lookup table: {t in set(table)}; in transitions+sentinels of the compiled automaton: {t in set(expected)}", solver=r.solver, replay=path)
        return ob.set(INCONCLUSIVE, "model does not re-evaluate")
    return ob.set(INCONCLUSIVE, f"solver {r.status} {r.raw[:160]}")


def parse_jobs(run, tier):
    quick = tier == "quick"
    lens = range(1, 7) if quick else range(1, 13)
    jobs = []
    targets = []       # (name, params, Auto)
    comps = A.ax_compile([(n, r) for n, r in small_regexes()])
    for name, r in small_regexes():
        if not comps[name].get("ok"):
            ob = core.Ob(f"C/parse[{name}]", "C", "regex of the in-circuit family compiles")
            run.add(ob)
            ob.set(INCONCLUSIVE, f"compilation failed: {comps[name]}")
            continue
        targets.append((name, {"r": json.dumps(r, separators=(",", ":"))}, A.Auto(comps[name]["automaton"]), lens))
    for ent in A.ax_lib():
        if ent["name"].startswith("hard_coded_example") and "fresh" in ent:
            auto = A.Auto(ent["fresh"])
            comp = A.completion_words(auto)
            mn = len(comp.get(auto.init, []))
            ls = [mn] if quick else [mn, mn + 1, mn + 3]
            targets.append((ent["name"], {"auto": ent["name"]}, auto, ls))
    for name, params, auto, ls in targets:
        first = True
        for n in ls:
            w = accepted_word(auto, n, core.seed())
            if w is None:
                continue
            jobs.append(lambda name=name, params=params, n=n, w=w, first=first: parse_one(run, name, params, n, w, first))
            first = False
    return jobs


def parse_one(run, name, params, n, w, with_table):
    k = 10
    oid = f"C/parse[{name},n={n}]"
    ob = core.Ob(oid, "C", "constraints emitted by AutomatonChip::parse imply: the input is accepted by the compiled automaton and the returned markers are those of its run",
                 functions=F_PARSE, bound=f"input length {n}, every byte / marker / state cell symbolic; k={k}", key=f"parse:{name}")
    run.add(ob)
    if _skip(run, ob):
        return
    t0 = time.time()
    try:
        A.c_decide(run, ob, "automaton", "parse", params, w, parse_spec, k=k, timeout=120, label=f"[{name}, input length {n}]")
    except Exception as ex:  # noqa
        import traceback
        ob.set(INCONCLUSIVE, f"engine error {ex!r} {traceback.format_exc()[-300:]}")
    run.log(f"{ob.status:12s} {oid} {ob.solver or ''} {ob.solver_s:.1f}s/{time.time() - t0:.1f}s {ob.detail[:160]}")
    if with_table:
        try:
            system = A.c_extract("automaton", "parse", params, w, k)
            table_obligation(run, f"C/parse[{name}]:table", f"parse:{name}", system, cengine.cx_args("automaton", "parse", params, w, k))
        except Exception as ex:  # noqa
            ob2 = core.Ob(f"C/parse[{name}]:table", "C", "lookup table = transitions + sentinels")
            run.add(ob2)
            ob2.set(INCONCLUSIVE, f"engine error {ex!r}")


# ------------------------------------------------------------------------------------------------
# Base64
# ------------------------------------------------------------------------------------------------

def b64_defs(e, url):
    """RFC 4648: section 4 alphabet (A-Z a-z 0-9 + /), section 5 url-safe alphabet (- _ instead of + /).
    For the url-safe entry points the `data` obligation reads 62 / 63 from either spelling ('-' or '+',
    '_' or '/'); that '+' and '/' are NOT characters of the url-safe alphabet is the separate `urlstrict`
    obligation."""
    if A.RFC4648_VAL not in e.lines:
        e.lines.append(A.RFC4648_VAL)
    if not url:
        return "rfc_b64"
    if ("b64", "url") not in e.monos:
        e.monos[("b64", "url")] = "rfc_b64url"
        # section 5: "identical to the base 64 alphabet except for the 62nd and 63rd characters": read '-' as
        # '+' and '_' as '/'
        e.lines.append("(define-fun rfc_b64url ((c Int)) Int (rfc_b64 (ite (= c 45) 43 (ite (= c 95) 47 c))))")
    return "rfc_b64url"


def rfc_val(c, url=False):
    """Python twin of the RFC 4648 alphabet (used by replays only)."""
    if 65 <= c <= 90:
        return c - 65
    if 97 <= c <= 122:
        return c - 71
    if 48 <= c <= 57:
        return c + 4
    if c == 43 or (url and c == 45):
        return 62
    if c == 47 or (url and c == 95):
        return 63
    return -1


def table_lemma(run):
    """the one-character function of the dumped two-characters table is the RFC 4648 alphabet."""
    ob = core.Ob("C/base64:table", "C", "Base64 lookup table = {(256a+b, 64 f(a)+f(b))} (exact, on the dump) with f(c) = RFC 4648 value of c for every byte c, no entry for bytes outside the alphabet",
                 functions=[F_B64[4], "circuits/src/parsing/table.rs::BASE64_TABLE", "circuits/src/parsing/base64_chip.rs::Base64Chip::load"], bound="every byte", key="base64:table")
    run.add(ob)
    if _skip(run, ob):
        return
    try:
        system = A.c_extract("base64", "decode_base64", {"padded": False}, list(b"QUJD"), 13)
    except Exception as ex:  # noqa
        return ob.set(INCONCLUSIVE, f"extraction failed: {ex}")
    lk = [l for l in system.d["lookups"] if l["name"].startswith("Base64 lookup")]
    if len(lk) != 1:
        return ob.set(INCONCLUSIVE, f"expected one Base64 lookup, found {len(lk)}")
    rows = [[int(x, 16) for x in row] for row in lk[0]["table"]]
    f = A.b64_factor(rows)
    if f is None:
        return ob.set(INCONCLUSIVE, "dumped table is not a product table (generic relational encoding will be used)")
    L = ["(set-logic ALL)", A.RFC4648_VAL, A.table_fun_smt("tf", f), "(declare-const c Int)", "(assert (and (<= 0 c) (<= c 255)))"]
    r = solvers.solve("\n".join(L + ["(assert (not (= (tf c) (rfc_b64 c))))"]), timeout=60, get_values=["c"])
    ob.queries += 1
    ob.solver_s += r.time_s
    if r.status == "unsat":
        rv = solvers.solve("\n".join(L + ["(assert (>= (tf c) 0))"]), timeout=60)
        ob.queries += 1
        ob.vacuity = rv.status == "sat"
        A.B64Enc.alphabet_lemma = True
        ob.set(HOLDS, solver=r.solver, detail=f"{len(rows)} table rows, {len(f)} characters")
    elif r.status == "sat":
        c = r.model["c"]
        rep = table_replay(c)
        if rep["reproduced"]:
            path = run.write_replay(ob, dict(kind="c19-b64-table", c=c, table_value=f.get(c, -1), rfc_value=rfc_val(c), detail=rep))
            ob.set(VIOLATION, f"byte {c} ({chr(c)!r}): table value {f.get(c, -1)}, RFC 4648 value {rfc_val(c)}; real chip on input {rep['input']}: {rep['what']}", solver=r.solver, replay=path)
        else:
            ob.set(INCONCLUSIVE, f"table differs from RFC 4648 at byte {c} but the real chip's run does not show it: {rep}")
    else:
        ob.set(INCONCLUSIVE, f"solver {r.status} {r.raw[:160]}")
    run.log(f"{ob.status:12s} {ob.id} {ob.detail[:200]}")


def table_replay(c):
    """real chip on the four characters c,'A','A','A' (unpadded): accepted? output?"""
    import subprocess
    A.build()
    inp = [c, 65, 65, 65]
    p = subprocess.run([A.AXBIN] + cengine.cx_args("base64", "decode_base64", {"padded": False}, inp, 13), capture_output=True, text=True)
    v = rfc_val(c)
    if p.returncode != 0 or not p.stdout.strip():
        return dict(input=inp, reproduced=v >= 0, what="witness generation of the real chip fails on a character of the RFC alphabet" if v >= 0 else "real chip refuses (as RFC)")
    d = json.loads(p.stdout)
    out = [int(x["value"], 16) for x in d["io"] if x["dir"] == "out"]
    if v < 0:
        return dict(input=inp, out=out, reproduced=bool(d["honest_verify"]), what=f"MockProver accepts a character outside the RFC 4648 alphabet, output {out}")
    exp = [(v << 18) >> 16, ((v << 18) >> 8) & 255, 0]
    return dict(input=inp, out=out, expected=exp, reproduced=out != exp and bool(d["honest_verify"]), what=f"MockProver accepts with output {out}, RFC 4648 decoding is {exp}")


def quantum(e, url, cs, os, npad_allowed, part):
    """spec of one 4-character quantum cs -> 3 bytes os. npad_allowed: '=' may close the quantum.
    part: 'data' (well-formedness + data bytes) | 'filler' (filler bytes are zero).
    Short last quantum of the unpadded form: cs has 2 or 3 entries.
    The character values and the 24-bit group are named by definitional variables (they exist and are
    unique for every value of the cells), which keeps the negated specification small."""
    v = b64_defs(e, url)
    c = [A_(x) for x in cs]
    o = [A_(x) for x in os]
    k = len(c)
    ispad = lambda x: f"(= {x} 61)"
    rng = lambda x: f"(and (<= 0 {x}) (<= {x} 255))"
    vals = []
    for i, x in enumerate(c):
        nm = e.fresh("cv")
        if npad_allowed and k == 4 and i >= 2:
            e.lines.append(f"(assert (= {nm} (ite {ispad(x)} 0 ({v} {x}))))")
        else:
            e.lines.append(f"(assert (= {nm} ({v} {x})))")
        vals.append(nm)
    vals += ["0"] * (4 - k)
    n = e.fresh("grp")
    e.lines.append(f"(assert (= {n} (+ (* 262144 {vals[0]}) (* 4096 {vals[1]}) (* 64 {vals[2]}) {vals[3]})))")
    isval = lambda i: f"(>= {vals[i]} 0)"
    b0 = f"(and {rng(o[0])} (<= (* 65536 {o[0]}) {n}) (< {n} (* 65536 (+ {o[0]} 1))))"
    b01 = f"(and {rng(o[1])} (<= (* 256 (+ (* 256 {o[0]}) {o[1]})) {n}) (< {n} (* 256 (+ (* 256 {o[0]}) {o[1]} 1))))"
    b012 = f"(and {rng(o[2])} (= {n} (+ (* 65536 {o[0]}) (* 256 {o[1]}) {o[2]})))"
    if k == 4 and npad_allowed:
        # vals[2], vals[3] are 0 on '=' : validity of those positions is "valid character or '='"
        wf = AND(isval(0), isval(1), isval(2), isval(3), IMP(ispad(c[2]), ispad(c[3])))
        if part == "data":
            return AND(wf, b0, IMP(NOT(ispad(c[2])), b01), IMP(NOT(ispad(c[3])), b012))
        return AND(IMP(ispad(c[2]), f"(= {o[1]} 0)"), IMP(ispad(c[3]), f"(= {o[2]} 0)"))
    wf = AND(*[isval(i) for i in range(k)])
    if part == "data":
        return AND(wf, b0, b01 if k >= 3 else "true", b012 if k == 4 else "true")
    return AND(f"(= {o[1]} 0)" if k == 2 else "true", f"(= {o[2]} 0)" if k <= 3 else "true")


def fixed_spec(url, padded, part):
    def spec(e, I, O, system):
        n = len(I)
        if part == "urlstrict":
            return AND(*[f"(and (not (= {A_(c)} 43)) (not (= {A_(c)} 47)))" for c in I])
        assert len(O) == 3 * ((n + 3) // 4)
        conj = []
        for q in range((n + 3) // 4):
            cs, os = I[4 * q:4 * q + 4], O[3 * q:3 * q + 3]
            last = 4 * q + 4 >= n
            conj.append(quantum(e, url, cs, os, padded and last, part))
        return AND(*conj)
    return spec


def var_spec(url, part):
    """instance = (buf[0..8], len, out[0..6], out_len); payload right-aligned (doc of AssignedVector)."""
    def spec(e, I, O, system):
        buf, ln = I[:8], A_(I[8])
        out, oln = O[:6], A_(O[6])
        q0 = quantum(e, url, buf[0:4], out[0:3], False, part)
        q1 = quantum(e, url, buf[4:8], out[3:6], True, part)
        if part == "data":
            return AND(OR(eq(ln, 0), eq(ln, 4), eq(ln, 8)), f"(= (* 4 {oln}) (* 3 {ln}))", IMP(f"(>= {ln} 4)", q1), IMP(eq(ln, 8), q0))
        return AND(IMP(f"(>= {ln} 4)", q1), IMP(eq(ln, 8), q0))
    return spec


def chip_refuses(op, params, ins, control, k):
    """True when the REAL chip panics while the circuit for `ins` is synthesized (exit status 101 of the
    harness, no dump) although the same harness, operation and parameters synthesize the well-formed
    `control` input. Anything else (harness failure, both fail, dump produced) is False: the caller then
    goes through the normal extraction, which reports its own failures as INCONCLUSIVE."""
    import subprocess
    A.build()
    p = subprocess.run([A.AXBIN] + cengine.cx_args("base64", op, params, ins, k), capture_output=True, text=True)
    if p.returncode != 101 or p.stdout.strip():
        return False
    c = subprocess.run([A.AXBIN] + cengine.cx_args("base64", op, params, control, k), capture_output=True, text=True)
    try:
        return c.returncode == 0 and bool(json.loads(c.stdout)["honest_verify"])
    except Exception:  # noqa
        return False


def b64_one(run, op, n, padded, honest, part, key, k=13, what=None, spec=None, twin=True, refusal_control=None):
    url = op.endswith("url")
    var = op.startswith("var_")
    tag = f"C/{op}[{'len=' if var else 'n='}{n}{'' if var else (',padded' if padded else ',unpadded')}]:{part}"
    what = what or {
        "data": "constraints imply: input well-formed (alphabet, '=' only as the last one or two characters) and data bytes = RFC 4648 decoding",
        "filler": "constraints imply: the bytes completing a padded / partial last quantum are zero (documentation: 'completed with one or two ASCII_ZERO chars')",
        "urlstrict": "constraints imply: no input character is '+' or '/' (they are not in the url-safe alphabet of RFC 4648 section 5)",
    }[part]
    ob = core.Ob(tag, "C", what, functions=F_B64 + ([f"circuits/src/parsing/base64_chip.rs::Base64Chip::{op}"] if var else []) + (["circuits/src/parsing/base64_chip.rs::Base64Chip::url_to_standard"] if url else []),
                 bound=f"{'payload' if var else 'input'} length {n}; every cell symbolic; k={k}", key=key)
    run.add(ob)
    if _skip(run, ob):
        return
    params = {} if var else {"padded": padded}
    spec = spec or (var_spec(url, part) if var else fixed_spec(url, padded, part))
    t0 = time.time()
    if refusal_control is not None and chip_refuses(op, params, list(honest), list(refusal_control), k):
        # the property asks that no assignment is accepted for a malformed input; it does not ask that a
        # circuit exists for a shape every input of which is malformed
        ob.nontrivial = False
        ob.vacuity = True
        ob.set(HOLDS, f"the real chip refuses this shape when the circuit is built (panic during synthesis; the well-formed sibling shape of length {len(refusal_control)} is synthesized): no circuit exists, hence no accepted assignment")
        run.log(f"{ob.status:12s} {tag} {ob.detail[:200]}")
        return
    try:
        A.c_decide(run, ob, "base64", op, params, list(honest), spec, k=k, timeout=120, enc_cls=A.B64Enc, twin=twin, discover=True)
    except Exception as ex:  # noqa
        import traceback
        ob.set(INCONCLUSIVE, f"engine error {ex!r} {traceback.format_exc()[-300:]}")
    run.log(f"{ob.status:12s} {tag} {ob.solver or ''} {ob.solver_s:.1f}s/{time.time() - t0:.1f}s {ob.detail[:200]}")


def b64_jobs(run, tier):
    J = []
    add = lambda *a, **kw: J.append(lambda: b64_one(run, *a, **kw))
    for part, key in (("data", "base64:decode"), ("filler", "base64:noncanonical-filler")):
        add("decode_base64", 4, True, b"QUI=", part, key)
        add("decode_base64", 8, True, b"QUJDRA==", part, key)
        add("decode_base64url", 4, True, b"Pz8-", part, key)
        add("decode_base64url", 8, True, b"Pz8_Pz4=", part, key)
        add("var_decode_base64", 4, True, b"QUI=", part, key)
        add("var_decode_base64", 8, True, b"QUJDRA==", part, key)
        add("var_decode_base64url", 8, True, b"Pz8_Pz4=", part, key)
        if part == "data":
            add("decode_base64", 4, False, b"QUJD", part, key)
            add("decode_base64", 8, False, b"QUJDREVG", part, key)
            add("var_decode_base64", 0, True, b"", part, key)
        add("decode_base64", 3, False, b"QUI", part, key)
        add("decode_base64", 6, False, b"QUJDRA", part, key)
        if tier != "quick":
            add("decode_base64", 2, False, b"QQ", part, key)
            add("decode_base64", 7, False, b"QUJDREU", part, key)
            add("decode_base64url", 7, False, b"Pz8_Pz4", part, key)
            add("var_decode_base64url", 4, True, b"Pz8-", part, key)
    add("decode_base64url", 4, True, b"Pz8-", "urlstrict", "base64url:accepts-standard-alphabet")
    # a length that no Base64 text has (1 mod 4): every input is malformed, the system must be unsatisfiable
    add("decode_base64", 5, False, b"QUJDR", "data", "base64:length-1-mod-4",
        what="unpadded input of length 1 mod 4 (no Base64 text has that length): the constraints must be unsatisfiable, or the chip must refuse to build the circuit",
        spec=lambda e, I, O, system: "false", twin=False, refusal_control=b"QUJDRA")
    return J



# ------------------------------------------------------------------------------------------------
# AutomatonChip with SEVERAL automata in one chip (one shared lookup table, per-automaton state offsets)
# ------------------------------------------------------------------------------------------------
# Added after seeded change C19-c was missed: `Automaton::offset_states` / `from_collection` handing out
# overlapping state ranges to different automata of one chip. The single-automaton harness never runs the
# offset logic. Here the chip's library holds 2 / 3 REAL compilations with different state counts,
# alphabets and markers; the specification of `parse(i, ..)` is written from automaton i compiled ALONE
# (dump of its own `to_automaton()`, no offsets, never the merged table).

F_LIB = F_PARSE + ["circuits/src/parsing/automaton_chip.rs::NativeAutomaton::from_collection", "circuits/src/parsing/automaton.rs::Automaton::offset_states"]


def lib_regexes():
    """A = `id=[0-9]+;+`, digits marked 1 (7 states);  B = any bytes, all marked 7 (1 state);
    C = `#[a-f]*`, letters marked 3 (2 states)."""
    dig = [None] * 256
    for c in range(0x30, 0x3A):
        dig[c] = 1
    hexl = [None] * 256
    for c in range(0x61, 0x67):
        hexl[c] = 3
    ra = A._n("cat", [A._w("id="), A._u("non_empty_list", A._u("mark", {"op": "digit"}, table=dig)), A._u("non_empty_list", A._w(";"))])
    rb = A._u("list", A._u("mark", {"op": "any_byte"}, table=[7] * 256))
    rc = A._n("cat", [A._b('#'), A._u("list", A._u("mark", A._b(*"abcdef"), table=hexl))])
    return {"lib2": [("A", ra), ("B", rb)], "lib3": [("A", ra), ("B", rb), ("C", rc)]}


def lib_params(lib, calls, lens):
    return {"lib": json.dumps([r for _, r in lib], separators=(",", ":")), "call": ":".join(str(c) for c in calls), "split": ":".join(str(n) for n in lens)}


def lib_spec(e, I, O, system):
    """for every `parse` call of the circuit: its slice of the input is accepted by the automaton it names
    (that automaton's OWN dump) and its slice of the exposed markers is the marking of that run."""
    ex = system.d["extra"]
    conj = []
    defined = set()
    for c in ex["calls"]:
        j = c["index"]
        auto = A.Auto(ex["automata"][j])
        if j not in defined:
            e.lines += auto.smt_defs(f"au{j}")
            defined.add(j)
        Ii, Oi = I[c["from"]:c["to"]], O[c["from"]:c["to"]]
        n = len(Ii)
        st = ["%d" % auto.init]
        for i in range(n):
            nm = e.fresh("ps")
            e.lines.append(f"(assert (= {nm} (au{j}_t {st[-1]} {A_(Ii[i])})))")   # definitional
            st.append(nm)
        conj += [f"(au{j}_f {st[n]})"] + [f"(>= {st[i + 1]} 0)" for i in range(n)] + [f"(= {A_(Oi[i])} (au{j}_m {st[i]} {A_(Ii[i])}))" for i in range(n)]
    return AND(*conj)


def lib_one(run, libname, lib, autos, calls, words):
    k = 10
    names = "+".join(lib[c][0] for c in calls)
    lens = [len(w) for w in words]
    oid = f"C/parse-lib[{libname},parse={names},n={'+'.join(map(str, lens))}]"
    ob = core.Ob(oid, "C", "chip holding several automata: constraints emitted by AutomatonChip::parse(i, ..) imply that the input is accepted by automaton i ALONE (its own compilation) and the returned markers are those of its run",
                 functions=F_LIB, bound=f"library of {len(lib)} automata ({', '.join('%s: %d states' % (lib[j][0], autos[j].nb) for j in range(len(lib)))}); parse calls on {names}, input lengths {lens}; every byte / marker / state cell symbolic; k={k}",
                 key=f"parse-lib:{libname}")
    run.add(ob)
    if _skip(run, ob):
        return
    t0 = time.time()
    try:
        A.c_decide(run, ob, "automaton", "parse", lib_params(lib, calls, lens), [b for w in words for b in w], lib_spec, k=k, timeout=120, enc_cls=A.RowKeyEnc,
                   label=f"[library {libname}, parse with {names}, input lengths {lens}]")
    except Exception as ex:  # noqa
        import traceback
        ob.set(INCONCLUSIVE, f"engine error {ex!r} {traceback.format_exc()[-300:]}")
    lib_tag_replay(ob)
    run.log(f"{ob.status:12s} {oid} {ob.solver or ''} {ob.solver_s:.1f}s/{time.time() - t0:.1f}s {ob.detail[:200]}")


def lib_tag_replay(ob):
    """`./check C19 --replay f` asks every part in turn unless the payload names its part (C19_A's replay
    answers 2 = unknown kind for the engine-C kinds): name it."""
    if ob.status == VIOLATION and ob.replay:
        try:
            d = json.load(open(ob.replay))
            if d.get("engine_part") != "C":
                d["engine_part"] = "C"
                json.dump(d, open(ob.replay, "w"), indent=1)
        except Exception:  # noqa
            pass


def lib_table_facts(system):
    """(rows of the merged lookup table, [Auto of every library automaton alone])"""
    lk = [l for l in system.d["lookups"] if l["name"].startswith("automaton transition check")]
    if len(lk) != 1:
        return None, None
    table = sorted({tuple(int(x, 16) for x in row) for row in lk[0]["table"]})
    return table, [A.Auto(d) for d in system.d["extra"]["automata"]]


def lib_used(auto):
    return sorted({auto.init} | set(auto.final) | {s for s, b, t, m in auto.raw} | {t for s, b, t, m in auto.raw})


def lib_rows(auto, o):
    return {(s + o, b, t + o, m) for s, b, t, m in auto.raw} | {(f + o, 256, 0, 0) for f in auto.final}


def lib_table_ground(table, autos, limit=200000):
    """Python twin of the table obligation (replays only): is there an offset per automaton with
    placement, disjointness of the used state numbers, and exactness?"""
    import itertools
    T = set(table)
    mx = max(r[0] for r in table) + 1
    cands = []
    for a in autos:
        cands.append([o for o in range(1, mx + 1) if lib_rows(a, o) <= T])
    n = 0
    for os_ in itertools.product(*cands):
        n += 1
        if n > limit:
            return None
        used = [set(s + o for s in lib_used(a)) for a, o in zip(autos, os_)]
        if any(used[i] & used[j] for i in range(len(autos)) for j in range(i)):
            continue
        if T == {(0, 0, 0, 0)}.union(*[lib_rows(a, o) for a, o in zip(autos, os_)]):
            return list(os_)
    return []


def lib_table_obligation(run, libname, lib, system, cx):
    """Structure of the merged table, decided on the table extracted from the real chip:
         EXISTS offsets o_j >= 1 (one per automaton) such that
           placement     every transition (s,b,t,m) of automaton j is the row (s+o_j, b, t+o_j, m), every final f the row (f+o_j,256,0,0);
           disjointness  the state numbers used by the rows of different automata are pairwise different (and none is 0);
         and with these offsets, FOR EVERY 4-tuple x
           exactness     x in table  <=>  x = (0,0,0,0) or x is one of those rows;
           closure       a row whose source is a state of automaton j has its target among automaton j's states (or is j's
                         final-state sentinel), a row with source 0 is (0,0,0,0)."""
    oid = f"C/parse-lib[{libname}]:table"
    ob = core.Ob(oid, "C", "merged lookup table of a chip with several automata = (0,0,0,0) + for every automaton its own transitions and final-state sentinels shifted by one offset per automaton, the shifted state sets being pairwise disjoint, without 0, and closed under the table's rows",
                 functions=[F_PARSE[3], F_LIB[-2], F_LIB[-1]], bound="every 4-tuple, every state number, every choice of offsets", key=f"parse-lib:{libname}:table")
    run.add(ob)
    if _skip(run, ob):
        return
    table, autos = lib_table_facts(system)
    if table is None:
        return ob.set(INCONCLUSIVE, "expected exactly one automaton lookup")
    K = len(autos)
    if any(len(r) != 4 for r in table):
        path = run.write_replay(ob, dict(kind="c19-libtable", engine_part="C", ax=cx, what="arity"))
        ob.nontrivial = False
        return ob.set(VIOLATION, f"the automaton lookup does not relate the four columns (source state, letter, target state, marker): its rows have {sorted({len(r) for r in table})} components", replay=path)
    mx = max(r[0] for r in table) + 1

    def pred(name, rows):
        by = {}
        for r in rows:
            by.setdefault(r[0], []).append(r[1:])
        disj = " ".join("(and (= x0 %d) (or false %s))" % (a, " ".join("(and (= x1 %d) (= x2 %d) (= x3 %d))" % r for r in rest)) for a, rest in sorted(by.items()))
        return f"(define-fun {name} ((x0 Int) (x1 Int) (x2 Int) (x3 Int)) Bool (or false {disj}))"

    head = ["(set-logic ALL)", pred("tab", table)]
    offs = [f"o{j}" for j in range(K)]
    decl = [f"(declare-const {o} Int)(assert (and (<= 0 {o}) (<= {o} {mx})))" for o in offs]
    place = []
    for j, a in enumerate(autos):
        for s, b, t, m in a.raw:
            place.append(f"(assert (tab (+ {s} o{j}) {b} (+ {t} o{j}) {m}))")
        for f in sorted(a.final):
            place.append(f"(assert (tab (+ {f} o{j}) 256 0 0))")
    dis = []
    for i in range(K):
        for j in range(i):
            for s in lib_used(autos[i]):
                for t in lib_used(autos[j]):
                    dis.append(f"(assert (not (= (+ {s} o{i}) (+ {t} o{j}))))")

    def fail(kind, detail, solver=None, **kw):
        g = lib_table_ground(table, autos)
        if g == []:
            path = run.write_replay(ob, dict(kind="c19-libtable", engine_part="C", ax=cx, what=kind, **kw))
            return ob.set(VIOLATION, detail, solver=solver, replay=path)
        return ob.set(INCONCLUSIVE, f"solver says '{kind}' but the ground re-evaluation on the dumped table finds offsets {g}")

    nz = [f"(assert (not (= (+ {s} o{j}) 0)))" for j in range(K) for s in lib_used(autos[j])]
    # 1. existence of offsets (this satisfiable query is also the vacuity twin of the universal ones below)
    r = solvers.solve("\n".join(head + decl + place + dis + nz), timeout=60, get_values=offs)
    ob.queries += 1
    ob.solver_s += r.time_s
    if r.status == "unsat":
        r1 = solvers.solve("\n".join(head + decl + place + dis), timeout=60, get_values=offs)
        ob.queries += 1
        if r1.status == "sat":
            o = [r1.model[x] for x in offs]
            who = [lib[j][0] for j in range(K) if any(s + o[j] == 0 for s in lib_used(autos[j]))]
            return fail("state-zero", f"state number 0 (source of the padding row (0,0,0,0), target of the final-state sentinels) is a state of automaton {'/'.join(who)} in the loaded lookup table (offsets {dict((lib[j][0], o[j]) for j in range(K))}); no placement avoids it",
                        solver=r.solver, offsets=o)
        r2 = solvers.solve("\n".join(head + decl + place), timeout=60, get_values=offs)
        ob.queries += 1
        if r2.status == "sat":
            o = [r2.model[x] for x in offs]
            used = [set(s + o[j] for s in lib_used(autos[j])) for j in range(K)]
            clash = sorted((i, j, sorted(used[i] & used[j])) for i in range(K) for j in range(i) if used[i] & used[j])
            txt = "; ".join(f"{lib[j][0]} and {lib[i][0]} share state number(s) {c}" for i, j, c in clash)
            return fail("overlap", f"the automata of one chip do not get disjoint state numbers in the shared lookup table: with the placement of their transitions that exists (offsets {dict((lib[j][0], o[j]) for j in range(K))}) {txt} -- no choice of offsets gives both placement and disjointness",
                        solver=r.solver, offsets=o)
        if r2.status == "unsat":
            return fail("missing-rows", "no choice of offsets places every automaton's transitions and final-state sentinels in the loaded lookup table", solver=r.solver)
        return ob.set(INCONCLUSIVE, f"solver {r2.status} on the placement query")
    if r.status != "sat":
        return ob.set(INCONCLUSIVE, f"solver {r.status} {r.raw[:160]}")
    ob.vacuity = True
    o = [r.model[x] for x in offs]
    # 2. exactness, 3. closure: universal in the tuple, offsets fixed to the witness
    exp = sorted({(0, 0, 0, 0)}.union(*[lib_rows(a, oj) for a, oj in zip(autos, o)]))
    X = "(declare-const x0 Int)(declare-const x1 Int)(declare-const x2 Int)(declare-const x3 Int)"
    r = solvers.solve("\n".join(head + [pred("exp", exp), X, "(assert (not (= (tab x0 x1 x2 x3) (exp x0 x1 x2 x3))))"]), timeout=60, get_values=["x0", "x1", "x2", "x3"])
    ob.queries += 1
    ob.solver_s += r.time_s
    if r.status == "sat":
        t = tuple(r.model.get(f"x{i}", 0) for i in range(4))
        return fail("not-exact", f"with offsets {o}: tuple {t} in the loaded lookup table: {t in set(table)}; among the shifted transitions / sentinels of the library: {t in set(exp)}", solver=r.solver, tuple=list(t), offsets=o)
    if r.status != "unsat":
        return ob.set(INCONCLUSIVE, f"solver {r.status} on exactness")
    inU = lambda j, x: "(or false " + " ".join(f"(= {x} {s + o[j]})" for s in lib_used(autos[j])) + ")"
    closed = ["(=> (= x0 0) (and (= x1 0) (= x2 0) (= x3 0)))", "(or (= x0 0) " + " ".join(inU(j, "x0") for j in range(K)) + ")"]
    for j in range(K):
        closed.append(f"(=> {inU(j, 'x0')} (or {inU(j, 'x2')} (and (= x1 256) (= x2 0) (= x3 0))))")
        closed += [f"(not (and {inU(j, 'x0')} {inU(i, 'x0')}))" for i in range(j)]
    r = solvers.solve("\n".join(head + [X, "(assert (tab x0 x1 x2 x3))", "(assert (not (and " + " ".join(closed) + ")))"]), timeout=60, get_values=["x0", "x1", "x2", "x3"])
    ob.queries += 1
    ob.solver_s += r.time_s
    if r.status == "sat":
        t = tuple(r.model.get(f"x{i}", 0) for i in range(4))
        return fail("not-closed", f"with offsets {o}: table row {t} leaves the state set of the automaton its source state belongs to", solver=r.solver, tuple=list(t), offsets=o)
    if r.status != "unsat":
        return ob.set(INCONCLUSIVE, f"solver {r.status} on closure")
    ob.set(HOLDS, solver=r.solver, detail=f"{len(table)} rows; offsets {dict((lib[j][0], o[j]) for j in range(K))}")


def lib_jobs(run, tier):
    quick = tier == "quick"
    lens = range(3, 7) if quick else range(3, 11)
    jobs = []
    libs = lib_regexes()
    uniq = {}
    for lib in libs.values():
        for nm, r in lib:
            uniq[nm] = r
    comps = A.ax_compile(list(uniq.items()))
    bad = [nm for nm in uniq if not comps[nm].get("ok")]
    if bad:
        ob = core.Ob("C/parse-lib", "C", "regexes of the multi-automaton library compile")
        run.add(ob)
        ob.set(INCONCLUSIVE, f"compilation failed: {[(nm, comps[nm]) for nm in bad]}")
        return []
    au = {nm: A.Auto(comps[nm]["automaton"]) for nm in uniq}
    seed = core.seed()
    for libname, lib in libs.items():
        autos = [au[nm] for nm, _ in lib]
        # one call per circuit: every automaton of the library, every length with an accepted word
        for j in range(len(lib)):
            for n in lens:
                w = accepted_word(autos[j], n, seed + 7 * j)
                if w is not None:
                    jobs.append(lambda libname=libname, lib=lib, autos=autos, j=j, w=w: lib_one(run, libname, lib, autos, [j], [w]))
        # several calls in one circuit, in library order (lib2: the region order of the seeded demo: A then B);
        # the same extraction feeds the table obligation
        ws = []
        for j in range(len(lib)):
            n = next(n for n in list(range(3 + (seed + j) % 2, 12)) if accepted_word(autos[j], n, seed) is not None)
            ws.append(accepted_word(autos[j], n, seed))
        calls = list(range(len(lib)))
        jobs.append(lambda libname=libname, lib=lib, autos=autos, calls=calls, ws=ws: lib_one(run, libname, lib, autos, calls[::-1], ws[::-1]))

        def both(libname=libname, lib=lib, autos=autos, calls=calls, ws=ws):
            lib_one(run, libname, lib, autos, calls, ws)
            try:
                ins = [b for w in ws for b in w]
                params = lib_params(lib, calls, [len(w) for w in ws])
                system = A.c_extract("automaton", "parse", params, ins, 10)
                lib_table_obligation(run, libname, lib, system, cengine.cx_args("automaton", "parse", params, ins, 10))
            except Exception as ex:  # noqa
                import traceback
                have = [o for o in run.obs if o.id == f"C/parse-lib[{libname}]:table"]
                if have:
                    ob2 = have[0]
                else:
                    ob2 = core.Ob(f"C/parse-lib[{libname}]:table", "C", "merged lookup table = disjoint shifted copies of the library's automata")
                    run.add(ob2)
                ob2.set(INCONCLUSIVE, f"engine error {ex!r} {traceback.format_exc()[-300:]}")
            for o in [o for o in run.obs if o.id == f"C/parse-lib[{libname}]:table"]:
                run.log(f"{o.status:12s} {o.id} {o.solver or ''} {(o.solver_s or 0):.1f}s {o.detail[:240]}")
        jobs.append(both)
    return jobs


def check(run):
    tier = core.tier()
    A.build(run)
    run.bounds.append("engine C (C19): AutomatonChip::parse input length 1..%s for 3 small automata, minimal accepted length for the two hard-coded test automata; Base64 fixed length 4 / 8 (+3, 6 unpadded), variable length payload 0 / 4 / 8 in a buffer of 8"
                      % ("6" if tier == "quick" else "12"))
    run.assumptions += [
        "engine C (C19): structure extracted at one honest witness per shape; state / marker / letter cells, the instance column and every other advice cell are symbolic",
        "engine C (C19): url-safe decoding is specified over the RFC 4648 section 5 alphabet; inputs come in as range-checked bytes (AssignedByte)",
    ]
    run.outside += ["ParserGadget (fetch_bytes, date parsing) and the credential example circuits",
                    "AutomatonChip with more than 3 automata in one table, libraries other than the fixed {A: id=[0-9]+;+, B: any bytes, C: #[a-f]*} (2 and 3 of them), LibIndex types other than usize (the order in which from_collection hands out offsets is the FxHashMap iteration order of the keys 0..2)"]
    run.bounds.append("engine C (C19): chips holding 2 / 3 automata (6, 1, 2 states): parse with every automaton of the library, input length 3..%s, one circuit with one parse call per automaton in library order and one in reverse order; merged table: every 4-tuple" % ("6" if tier == "quick" else "10"))
    table_lemma(run)          # first: on HOLDS the Base64 lookups are written with the RFC function
    jobs = parse_jobs(run, tier) + b64_jobs(run, tier) + lib_jobs(run, tier)
    with ThreadPoolExecutor(8) as ex:
        list(ex.map(lambda f: f(), jobs))
    run.translator_validation.append("engine C (C19): for every extracted circuit the honest assignment of the real synthesis satisfies the dumped constraints exactly (big-int arithmetic) and MockProver::verify() accepts it; the two-character Base64 table is factored through a one-character function only after the factorisation is checked exactly against the dumped table")


def replay(payload):
    if payload.get("kind") == "c19-b64-table":
        rep = table_replay(payload["c"])
        print(rep)
        return 1 if rep["reproduced"] else 0
    if payload.get("kind") == "c19-libtable":
        import subprocess
        A.build()
        p = subprocess.run([A.AXBIN] + payload["ax"], capture_output=True, text=True)
        system = csmt.System(json.loads(p.stdout), csmt.P_BLS)
        table, autos = lib_table_facts(system)
        if any(len(r) != 4 for r in table):
            print("rows of the automaton lookup of the real chip have", sorted({len(r) for r in table}), "components instead of 4")
            return 1
        g = lib_table_ground(table, autos)
        print("merged lookup table loaded by the real chip:", len(table), "rows; offsets with placement + disjoint state numbers + exactness:", g if g else "NONE", "; recorded:", payload.get("what"), payload.get("offsets"), payload.get("tuple"))
        return 1 if g == [] else 0
    if payload.get("kind") == "c19-table":
        import subprocess
        A.build()
        p = subprocess.run([A.AXBIN] + payload["ax"], capture_output=True, text=True)
        system = csmt.System(json.loads(p.stdout), csmt.P_BLS)
        table, expected = table_check(system)
        t = tuple(payload["tuple"])
        print("tuple", t, "in the lookup table loaded by the real chip:", t in set(table), "; in transitions+sentinels of the real compiled automaton:", t in set(expected))
        return 1 if (t in set(table)) != (t in set(expected)) else 0
    return A.c_replay_payload(payload)
