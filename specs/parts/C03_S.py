"""C03 (engine S) — structural binding conditions, read off the transcript logs of REAL symbolic runs.

Runs: the C02 family (real keygen_vk + prepare on a symbolic proof) and some C01 configurations (real
create_proof). The real `CircuitTranscript<SymHash>` code produces the log (read / write / absorb /
squeeze events); because the runs are symbolic the log is the same for every value of the variables on
the recorded path.

Obligations
  vk-first        vk.transcript_repr is the first absorbed item (verifier and prover)
  absorb-before-squeeze   every element read from (written to) the proof is absorbed before the next squeeze
  bound-elements  every proof element is in some later challenge's history or occurs in the final guard
  statement-injective   the map (public inputs, their lengths) -> absorbed sequence is injective:
                  for c plain instance columns, c <= 2 (and two proofs with c = 1), all length tuples in
                  {0..3}^c, symbolic entries; the absorbed sequences are taken from real verifier runs, one per
                  length tuple. Query: exists two different statements with the same absorbed sequence. Sequences
                  are terms of the datatype St = Init | Abs(St, Item). Twin (vacuity): the same query with the
                  length items removed must be sat ([a,b],[c] vs [a],[b,c]).
"""
import itertools, json, random, time
from concurrent.futures import ThreadPoolExecutor

from vf import core, solvers, symf
from vf.core import HOLDS, VIOLATION, INCONCLUSIVE
from vf.symf import P

ENGINE = "S"


def _wr(run, ob, payload):
    """replay file of this part (the aggregator dispatches on engine_part)"""
    return run.write_replay(ob, dict(payload, engine_part="S"))
FUNCS = ["proofs/src/transcript/mod.rs::CircuitTranscript::read", "proofs/src/transcript/mod.rs::CircuitTranscript::write",
         "proofs/src/transcript/mod.rs::CircuitTranscript::common", "proofs/src/plonk/mod.rs::VerifyingKey::hash_into",
         "proofs/src/plonk/verifier.rs::parse_trace", "proofs/src/plonk/verifier.rs::verify_algebraic_constraints",
         "proofs/src/plonk/prover.rs::compute_instances"]


def ground(run_ob, facts, what_ok):
    """facts: list of (bool ok, text). One ground SMT query: 'some fact is false'."""
    bad = [t for ok, t in facts if not ok]
    smt = "(set-logic ALL)\n(assert (or false " + " ".join("false" if ok else "true" for ok, _ in facts) + "))"
    r = solvers.solve(smt, timeout=30)
    tw = solvers.solve("(set-logic ALL)\n(assert (or false true))", timeout=30)
    run_ob.queries += 1
    run_ob.vacuity = tw.status == "sat"
    run_ob.nontrivial = False
    return r, bad


def log_checks(d, side, vk_repr):
    """(vk_first_ok, list of violations of absorb-before-squeeze, events)"""
    ev = [e for e in d["world"]["log"] if e["side"] == side]
    absorbs = [e for e in ev if e["op"] == "absorb"]
    vk_first = bool(absorbs) and absorbs[0]["item"] == ["f", vk_repr]
    bad = []
    pending = None
    for i, e in enumerate(ev):
        if e["op"] in ("read", "write"):
            if side == "V" and e["op"] == "read":
                # the real read() = T::read then common(): the very next event must be the absorb of that item
                nxt = ev[i + 1] if i + 1 < len(ev) else None
                if not nxt or nxt["op"] != "absorb" or nxt["item"] != e["item"]:
                    bad.append(f"read of {e['item']} at event {i} is not followed by its absorb")
            if side == "P" and e["op"] == "write":
                # the real write() = common() then to_bytes(): the previous event must be the absorb
                prv = ev[i - 1] if i else None
                if not prv or prv["op"] != "absorb" or prv["item"] != e["item"]:
                    bad.append(f"write of {e['item']} at event {i} is not preceded by its absorb")
    return vk_first, bad, ev


def check_member_logs(run, name, d, side, guard=None):
    bound = f"run {name} ({'verifier on a symbolic proof' if side == 'V' else 'prover, symbolic witness'})"
    vk_repr = d["vk"]["transcript_repr"]
    vk_first, bad, ev = log_checks(d, side, vk_repr)
    ob = core.Ob(f"C03/S/{name}/{side}/vk-first", ENGINE, "vk.transcript_repr is the first absorbed item", functions=FUNCS,
                 bound=bound, key="vk-not-first")
    run.add(ob)
    r, b = ground(ob, [(vk_first, "first absorbed item is not vk.transcript_repr")], "")
    _settle(run, ob, r, b, {"kind": "log", "name": name})
    ob = core.Ob(f"C03/S/{name}/{side}/absorb-before-squeeze", ENGINE,
                 "every proof element is absorbed before the next squeeze", functions=FUNCS, bound=bound,
                 key="unabsorbed-proof-element")
    run.add(ob)
    n_rw = sum(1 for e in ev if e["op"] in ("read", "write"))
    r, b = ground(ob, [(not bad, "; ".join(bad[:3]))], "")
    _settle(run, ob, r, b, {"kind": "log", "name": name}, ok_detail=f"{n_rw} proof elements, {sum(1 for e in ev if e['op'] == 'squeeze')} challenges")
    if side == "V" and guard is not None:
        ob = core.Ob(f"C03/S/{name}/V/bound-elements", ENGINE,
                     "every proof element is in a later challenge's history or occurs in the final guard",
                     functions=FUNCS, bound=bound, key="unbound-proof-element")
        run.add(ob)
        dag = symf.Dag(d["arena"])
        sup = {}
        gsup, gcoms = set(), set()
        for q in guard:
            gsup |= dag.support(q["eval"], sup)
            gcoms.update(q["coms"])
        last_sq = max((i for i, e in enumerate(ev) if e["op"] == "squeeze"), default=-1)
        unbound = []
        n = 0
        for i, e in enumerate(ev):
            if e["op"] != "read":
                continue
            n += 1
            in_challenge = i < last_sq
            it = e["item"]
            in_guard = (it[1] in gcoms) if it[0] == "c" else (dag.var_name(it[1]) in gsup)
            if not (in_challenge or in_guard):
                unbound.append(f"proof element {it} (event {i}) is neither hashed into a challenge nor in the guard")
            # elements read after the last challenge are bound only by the guard
        r, b = ground(ob, [(not unbound, "; ".join(unbound[:3]))], "")
        _settle(run, ob, r, b, {"kind": "log", "name": name}, ok_detail=f"{n} proof elements")


def _settle(run, ob, r, bad, payload, ok_detail=""):
    if r.status == "unsat" and ob.vacuity:
        ob.set(HOLDS, ok_detail, solver=r.solver, solver_s=r.time_s)
    elif r.status == "sat":
        payload = dict(payload, problems=bad)
        ob.set(VIOLATION, "; ".join(bad)[:400], replay=_wr(run, ob, payload))
    else:
        ob.set(INCONCLUSIVE, f"solver {r.status}")


# ------------------------------------------------------------------ statement -> sequence injectivity

def stmt_shape(c):
    return {"adv": [0, 0, 0], "nfix": 1, "ninst": c, "chal": [],
            "gates": [{"sel": "mul", "cons": [{"prods": [[["a", 0, 0], ["a", 1, 0]], [["f", 0, 0]]]
                                               + [[["i", j, 0]] for j in range(c)], "out": ["a", 2, 1]}]}],
            "eq": [["a", 0], ["a", 2]], "copies": [["eq", 0, 2]]}


def statement_sequence(c, np_, lens_per_proof):
    """absorbed items between vk_repr and the first proof read, from a real verifier run"""
    lens_arg = ";".join(",".join(str(x) for x in l) or "0" for l in lens_per_proof)
    d = symf.sx("verifier", shape=stmt_shape(c), k=4, np=np_, nbc=0, lens=lens_arg)
    dag = symf.Dag(d["arena"])
    seq = []
    for e in d["world"]["log"]:
        if e["side"] != "V":
            continue
        if e["op"] == "read":
            break
        if e["op"] == "absorb":
            it = e["item"]
            if it[0] == "f":
                cst = dag.const(it[1])
                seq.append(("k", cst) if cst is not None else ("v", dag.var_name(it[1])))
            else:
                seq.append(("c", it[1]))
    return seq[1:], d   # without vk_repr


def injectivity_smt(seqs, drop_lengths=False, drop_difference=False):
    """seqs: dict lens_tuple -> list of items (('k',const)|('v',name)). Two copies A,B of the variables."""
    lines = ["(set-logic ALL)",
             "(declare-datatypes ((Item 0)) (((F (fv Int)))))",
             "(declare-datatypes ((St 0)) (((Init) (Abs (prev St) (it Item)))))"]
    declared = set()

    def term(items, tag, lens):
        cur = "Init"
        # which items are length prefixes: constants (the run has no other constant in the statement part)
        for it in items:
            if it[0] == "k":
                if drop_lengths:
                    continue
                cur = f"(Abs {cur} (F {it[1]}))"
            else:
                nm = f"{tag}_{it[1]}"
                if nm not in declared:
                    declared.add(nm)
                    lines.append(f"(declare-const {nm} Int)")
                    lines.append(f"(assert (and (<= 0 {nm}) (< {nm} {P})))")
                cur = f"(Abs {cur} (F {nm}))"
        return cur

    dis = []
    keys = sorted(seqs)
    for la in keys:
        for lb in keys:
            if la > lb:
                continue
            ta, tb = term(seqs[la], "a", la), term(seqs[lb], "b", lb)
            if la != lb:
                dis.append(f"(= {ta} {tb})")
            else:
                names = [it[1] for it in seqs[la] if it[0] == "v"]
                if names:
                    diff = "(or " + " ".join(f"(distinct a_{n} b_{n})" for n in names) + ")"
                    dis.append(f"(= {ta} {tb})" if drop_difference else f"(and (= {ta} {tb}) {diff})")
    lines.append("(assert (or false " + "\n ".join(dis) + "))")
    return "\n".join(lines)


def check_injectivity(run, c, np_):
    name = f"statement-injective/c{c}-np{np_}"
    ob = core.Ob(f"C03/S/{name}", ENGINE, "statement -> absorbed sequence is injective (length prefix)",
                 functions=["proofs/src/plonk/verifier.rs::parse_trace"],
                 bound=f"{c} plain instance column(s), {np_} proof(s), lengths in {{0..3}}^{c}, symbolic entries; sequences from real verifier runs",
                 key="statement-not-injective")
    run.add(ob)
    seqs = {}
    try:
        for lens in itertools.product(range(4), repeat=c * np_):
            per = [list(lens[i * c:(i + 1) * c]) for i in range(np_)]
            s, d = statement_sequence(c, np_, per)
            seqs[lens] = s
    except Exception as ex:
        ob.set(INCONCLUSIVE, f"sx failed: {str(ex)[-300:]}")
        return
    r = solvers.solve(injectivity_smt(seqs), timeout=60)
    # twin: without the length items two different statements collide ([a,b],[c] vs [a],[b,c]); with a single
    # vector there is nothing to confuse, so the twin there only drops the "statements differ" conjunct
    single = c * np_ == 1
    tw = solvers.solve(injectivity_smt(seqs, drop_lengths=not single, drop_difference=single), timeout=60)
    ob.queries += 2
    ob.vacuity = tw.status == "sat"
    if r.status == "unsat" and ob.vacuity:
        ob.set(HOLDS, f"{len(seqs)} length tuples, {len(seqs) * (len(seqs) + 1) // 2} pairs; without the length items the query is sat (twin)",
               solver=r.solver, solver_s=r.time_s + tw.time_s)
    elif r.status == "sat":
        payload = {"kind": "injectivity", "c": c, "np": np_}
        ob.set(VIOLATION if replay(payload) else INCONCLUSIVE, "two different statements are absorbed as the same sequence",
               replay=_wr(run, ob, payload))
    else:
        ob.set(INCONCLUSIVE, f"solver {r.status}, twin {tw.status}")


def check(run):
    symf.build(run)
    # verifier logs of the C02 family
    members = dict(symf.BOUNDARY_SHAPES)
    rnd = random.Random(1000 + core.seed())
    for i in range(2 if core.tier() == "quick" else 12):
        members[f"seeded{i}"] = symf.random_shape(rnd)
    run.bounds.append(f"C03/S: logs of {len(members)} verifier runs (C02 family) and 4 prover runs; statement injectivity for "
                      "c in {1,2} plain columns (1 proof) and c = 1 (2 proofs), lengths 0..3")
    run.outside += ["C03: everything cryptographic (binding of commitments, collision resistance); bit flips of concrete proofs; "
                    "the KZG-level challenges x1..x4 (SymCS squeezes none)"]
    run.assumptions += ["S: the log is produced by SymHash::absorb/squeeze and Hashable::{read,to_bytes} called from the REAL CircuitTranscript"]
    for name, m in members.items():
        try:
            d = symf.run_verifier(m)
            if "guard" not in d:
                raise RuntimeError(d.get("prepare_error"))
            check_member_logs(run, name, d, "V", guard=d["guard"])
        except Exception as ex:
            ob = core.Ob(f"C03/S/{name}/V/engine", ENGINE, "engine S infrastructure")
            run.add(ob)
            ob.set(INCONCLUSIVE, f"{ex!r}"[:300])
    # prover logs
    import importlib.util, os
    spec = importlib.util.spec_from_file_location("c01s", os.path.join(core.VERIF, "specs", "parts", "C01_S.py"))
    c01 = importlib.util.module_from_spec(spec)
    spec.loader.exec_module(c01)
    for tn, np_, nbc, plain in [("t1", 1, 0, 1), ("t1", 2, 1, 0), ("t2", 1, 1, 1), ("t2", 3, 0, 2)]:
        shape, lens = c01.template(tn, nbc, plain)
        name = f"prover-{tn}-np{np_}-c{nbc}-p{plain}"
        try:
            d = symf.sx("prover", shape=shape, k=4, np=np_, nbc=nbc, lens=lens or [0], nodes=0)
            check_member_logs(run, name, d, "P")
        except Exception as ex:
            ob = core.Ob(f"C03/S/{name}/P/engine", ENGINE, "engine S infrastructure")
            run.add(ob)
            ob.set(INCONCLUSIVE, f"{ex!r}"[:300])
    for c, np_ in [(1, 1), (2, 1), (1, 2)]:
        check_injectivity(run, c, np_)


def replay(payload):
    if payload.get("engine_part") not in (None, "S") or payload.get("kind") not in ['injectivity', 'log']:
        return None
    symf.build()
    if payload["kind"] == "injectivity":
        # re-derive the sequences from the real code and exhibit a colliding pair concretely
        c, np_ = payload["c"], payload["np"]
        seen = {}
        for lens in itertools.product(range(4), repeat=c * np_):
            s, _ = statement_sequence(c, np_, [list(lens[i * c:(i + 1) * c]) for i in range(np_)])
            shape_key = tuple("k" if it[0] == "k" else "v" for it in s), tuple(it[1] for it in s if it[0] == "k")
            # two length tuples collide iff their sequences have the same constants at the same places and the same arity
            if shape_key in seen:
                print(f"length tuples {seen[shape_key]} and {lens} give unifiable absorbed sequences")
                return 1
            seen[shape_key] = lens
        return 0
    if payload["kind"] == "log":
        return 1 if payload.get("problems") else 0
    return 0
