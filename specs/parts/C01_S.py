"""C01-a (engine S) — Fiat–Shamir schedule agreement between the REAL prover and the REAL verifier.

For lookup-free circuit shapes and every configuration
    num_proofs in {1,2,3} x committed instance columns in {0,1,2} x plain instance columns in {0,1,2}  (k = 4)
the real `keygen_vk`, `keygen_pk`, `create_proof` (symbolic honest witness, symbolic public inputs,
`random()` = fresh variable) and then the real `prepare` on the bytes the prover produced are
executed at F = SymF, CS = SymCS, T = CircuitTranscript<SymHash>. Both transcripts log every absorbed
item; `squeeze` returns chi(<history>).

Obligation (per configuration and shape template): every challenge the verifier derives is the same
term as the prover's. Encoding: the absorbed histories are terms of an algebraic datatype
St = Init | Abs(St, Item), Item = F(Int) | C(Int) | SQ, chi : St -> Int is uninterpreted with a left
inverse on the states that occur (instantiated injectivity), absorbed field terms are Int variables
(one per term id; the verifier reads the very terms the prover wrote). Query: exists values such that
chi(st_P_j) != chi(st_V_j) for some j, or the two sides squeeze a different number of challenges.
unsat <=> same items in the same order before every challenge. A sat model names the first diverging
challenge; replay = the same shape over Fq + KZG(unsafe_setup) + Blake2b with the real create_proof /
prepare / guard.verify: the verifier must reject its own honest proof (MockProver accepts the witness).

C01-c  "the honest proof verifies, modulo the commitment scheme" (permutation-free, lookup-free shapes):
on the same runs, every query the real verifier hands to the commitment scheme — (commitment, point, claimed
evaluation), including the chopped quotient query whose evaluation is expected_h_eval computed from the proof's
evaluations — is compared with the vector the real prover committed under that handle: the claimed evaluation
must equal the value at the point of the committed polynomial (Lagrange / monomial basis by definition; quotient
= sum_i h_i(x) x^((n-1)i)). This is a polynomial identity in the witness, the blinding scalars, the public inputs
and x, decided by normalisation + ground residual (vf/symf.py). It contains numerator == h*(X^n-1) at x, i.e.
prover-side evaluate_h / quotient splitting / FFTs against verifier-side evaluate_identities. Twin: the same
shape with a constraint the free witness does not satisfy must give a differing quotient query.
Shapes with a permutation argument are outside (z is built with inverses of witness-dependent terms).
"""
import json, time
from concurrent.futures import ThreadPoolExecutor

from vf import core, solvers, symf
from vf.core import HOLDS, VIOLATION, INCONCLUSIVE
from vf.symf import P

ENGINE = "S"


def _wr(run, ob, payload):
    """replay file of this part (the aggregator dispatches on engine_part)"""
    return run.write_replay(ob, dict(payload, engine_part="S"))
FUNCS = ["proofs/src/plonk/prover.rs::create_proof", "proofs/src/plonk/prover.rs::compute_trace",
         "proofs/src/plonk/prover.rs::compute_instances", "proofs/src/plonk/prover.rs::parse_advices",
         "proofs/src/plonk/prover.rs::finalise_proof", "proofs/src/plonk/verifier.rs::parse_trace",
         "proofs/src/plonk/verifier.rs::verify_algebraic_constraints", "proofs/src/plonk/keygen.rs::keygen_pk",
         "proofs/src/plonk/permutation/prover.rs::commit", "proofs/src/plonk/trash/prover.rs::commit",
         "proofs/src/plonk/vanishing/prover.rs::construct", "proofs/src/transcript/mod.rs::CircuitTranscript"]


REAL_XVAL = []


def _a(c, r=0):
    return ["a", c, r]


def template(tname, nbc, plain):
    """lookup-free shape with nbc + plain instance columns (committed first); honest witness by construction"""
    ninst = nbc + plain
    # every queried instance row is supplied (MockProver insists on assigned instance cells): gate blocks use rows 0..5
    lens = [(6 if c % 2 == 0 else 7) for c in range(ninst)]
    eq_inst = [["i", c] for c in range(ninst) if c >= nbc]      # plain columns take part in the permutation
    if tname == "t1":
        prods = [[_a(0), _a(1)], [["f", 0, 0]]]
        if ninst:
            prods.append([["i", ninst - 1, 0]])                 # last instance column queried by the gate
        if nbc:
            # a committed column queried at rotation 0 and 1 (the cur-query is registered first: a first
            # verifier query at a rotated point makes the real KZG verifier panic, see finding
            # kzg-multi_prepare:chopped-point-index, which is not what this part is about)
            prods.append([["i", 0, 0], ["i", 0, 1], _a(0, 1)])
        shape = {"adv": [0, 0, 0], "nfix": 1, "ninst": ninst, "chal": [],
                 "gates": [{"sel": "mul", "cons": [{"prods": prods, "out": _a(2, 1)}]}],
                 "eq": [["a", 0], ["a", 2]] + eq_inst, "const_col": True,
                 "copies": [["eq", 0, 2], ["const", 0, 7]] + ([["inst", 2, ninst - 1, 0]] if plain else [])}
    else:
        # two phases, a challenge, a trash argument with two constraints, an unblinded column
        g2 = [[["c", 0], _a(0)]]
        if ninst:
            g2.append([["i", 0, 0], ["i", 0, -1]])
        shape = {"adv": [0, 0, 1, 1], "unbl": [1], "nfix": 1, "ninst": ninst, "chal": [0],
                 "gates": [{"sel": "add", "cons": [{"prods": [[_a(0), _a(1)]], "out": _a(0, 1)},
                                                   {"prods": [[_a(1), _a(1)], [["f", 0, 0]]], "out": _a(1, 1)}]},
                           {"sel": "cmul", "cons": [{"prods": g2, "out": _a(2)}]}],
                 "eq": [["a", 2], ["a", 3]] + eq_inst, "const_col": True,
                 "copies": [["eq", 2, 3], ["const", 3, 5]] + ([["inst", 3, ninst - 1, 0]] if plain else [])}
    return shape, lens


def configs():
    out = []
    for np_ in (1, 2, 3):
        for nbc in (0, 1, 2):
            for plain in (0, 1, 2):
                tns = ("t1", "t2") if (core.tier() != "quick" or (np_ + nbc + plain) % 2 == 0 or (nbc and plain)) else ("t1",)
                for tn in tns:
                    out.append((tn, np_, nbc, plain))
    return out


def histories(d):
    """per side: list of absorbed-history prefixes at each squeeze, as lists of items"""
    out = {}
    for side in ("P", "V"):
        hist, sq = [], []
        for e in d["world"]["log"]:
            if e["side"] != side:
                continue
            if e["op"] == "absorb":
                hist.append(tuple(e["item"]))
            elif e["op"] == "squeeze":
                sq.append(list(hist))
                hist.append(("sq",))
        out[side] = (sq, hist)
    return out


def smt_schedule(d, hP, hV, drop_last_of_V=False):
    leaves = d["arena"]["leaves"]
    lines = ["(set-logic ALL)",
             "(declare-datatypes ((Item 0)) (((F (fv Int)) (C (cv Int)) (SQ))))",
             "(declare-datatypes ((St 0)) (((Init) (Abs (prev St) (it Item)))))",
             "(declare-fun chi (St) Int)", "(declare-fun chi_inv (Int) St)"]
    declared = set()

    def item(it):
        if it[0] == "sq":
            return "SQ"
        if it[0] == "c":
            return f"(C {it[1]})"
        lf = leaves.get(str(it[1]))
        if lf and lf[0] == "c":
            return f"(F {int(lf[1], 16)})"
        nm = f"t{it[1]}"
        if nm not in declared:
            declared.add(nm)
            lines.append(f"(declare-const {nm} Int)")
            lines.append(f"(assert (and (<= 0 {nm}) (< {nm} {P})))")
        return f"(F {nm})"

    def states(side, hs):
        names = []
        prev_items, prev_name = [], "Init"
        for j, h in enumerate(hs):
            # h extends the previous history
            cur = prev_name
            ext = h[len(prev_items):]
            for it in ext:
                cur = f"(Abs {cur} {item(it)})"
            nm = f"s{side}{j}"
            lines.append(f"(define-fun {nm} () St {cur})")
            lines.append(f"(assert (= (chi_inv (chi {nm})) {nm}))")   # injectivity of chi, instantiated
            names.append(nm)
            prev_items, prev_name = h, nm
        return names

    if drop_last_of_V:
        hV = [list(h) for h in hV]
        hV[-1] = hV[-1][:-1]
    sP, sV = states("P", hP), states("V", hV)
    flags = []
    for j, (a, b) in enumerate(zip(sP, sV)):
        lines.append(f"(define-fun d{j} () Bool (distinct (chi {a}) (chi {b})))")
        flags.append(f"d{j}")
    cnt = "true" if len(sP) != len(sV) else "false"
    lines.append(f"(assert (or {cnt} {' '.join(flags) if flags else 'false'}))")
    return "\n".join(lines), flags


def first_divergence(hP, hV):
    for j, (a, b) in enumerate(zip(hP, hV)):
        if a != b:
            for pos, (x, y) in enumerate(zip(a, b)):
                if x != y:
                    return j, pos, x, y
            return j, min(len(a), len(b)), None, None
    return None


def check_config(run, tn, np_, nbc, plain):
    shape, lens = template(tn, nbc, plain)
    name = f"{tn}/np{np_}-c{nbc}-p{plain}"
    ob = core.Ob(f"C01/S/{name}/challenges-agree", ENGINE,
                 "every challenge derived by the real verifier is the same term as the real prover's",
                 functions=FUNCS,
                 bound=f"template {tn}, k=4, num_proofs={np_}, committed instance columns={nbc}, plain={plain}, "
                       f"lengths {lens}; symbolic witness, instances and blinding",
                 key="schedule-agreement")
    run.add(ob)
    try:
        d = symf.sx("prover", shape=shape, k=4, np=np_, nbc=nbc, lens=lens or [0])
    except Exception as ex:
        ob.set(INCONCLUSIVE, f"sx failed: {str(ex)[-300:]}")
        return
    if "create_proof_error" in d:
        ob.set(INCONCLUSIVE, f"create_proof failed on SymF: {d['create_proof_error']}")
        return
    h = histories(d)
    (hP, _), (hV, _) = h["P"], h["V"]
    smt, flags = smt_schedule(d, hP, hV)
    r = solvers.solve(smt, timeout=60, get_values=flags)
    tw_smt, _ = smt_schedule(d, hP, hV, drop_last_of_V=True)
    tw = solvers.solve(tw_smt, timeout=60)
    ob.queries += 2
    ob.vacuity = tw.status == "sat"
    member = dict(shape=shape, k=4, np=np_, nbc=nbc, lens=lens)
    struct_ok = ("prepare_error" not in d and d.get("verifier_trailing_ok")
                 and d.get("verifier_consumed_records") == d.get("proof_records"))
    if r.status == "unsat" and struct_ok and ob.vacuity:
        # cross-validation (not evidence): the same configuration on the real stack
        try:
            rd = symf.sx("real", shape=shape, k=4, np=np_, nbc=nbc, lens=lens or [0])
            REAL_XVAL.append((name, rd.get("verdict"), all(x == "Ok(())" for x in rd.get("mock_prover", []))))
        except Exception as ex:
            REAL_XVAL.append((name, f"error {ex!r}"[:80], False))
        ob.set(HOLDS, f"{len(hP)} challenges, {len(hP[-1]) if hP else 0} absorbed items; proof of "
               f"{d['proof_records']} records fully consumed; {d['arena']['n_nodes']} term nodes, "
               f"{d['arena']['n_path']} path conditions", solver=r.solver, solver_s=r.time_s + tw.time_s)
    elif r.status == "sat" or (r.status == "unsat" and not struct_ok):
        div = first_divergence(hP, hV)
        if nbc >= 1 and plain >= 1 and np_ >= 2:
            ob.key = "multi-proof:committed+plain-instance-order"
        elif not struct_ok:
            ob.key = "proof-not-consumed"
        else:
            ob.key = "schedule-divergence"
        payload = {"kind": "honest-rejected", "member": member, "first_divergence": div,
                   "differing_challenges": [f for f in flags if r.model.get(f)]}
        detail = (f"challenge #{div[0]} differs: absorbed item {div[1]} is {div[2]} for the prover and {div[3]} for the verifier"
                  if div else f"structure: prepare_error={d.get('prepare_error')} consumed={d.get('verifier_consumed_records')}/{d.get('proof_records')}")
        if replay(payload):
            ob.set(VIOLATION, detail + "; replay: real create_proof/prepare over Fq+KZG+Blake2b rejects the honest proof",
                   solver=r.solver, solver_s=r.time_s, replay=_wr(run, ob, payload))
        else:
            ob.set(INCONCLUSIVE, detail + "; the real stack accepted the honest proof (counterexample does not replay)")
    else:
        ob.set(INCONCLUSIVE, f"solver {r.status}; twin {tw.status}")
    run.log(f"{name}: {ob.status}")


E2E_SHAPES = {
    # k=3: one multiplicative gate, rows 0..1
    "gate-k3": dict(k=3, np=1, nbc=0, lens=[0], shape={"adv": [0, 0, 0], "nfix": 1, "ninst": 0, "chal": [],
                    "gates": [{"sel": "mul", "cons": [{"prods": [[_a(0), _a(1)], [["f", 0, 0]]], "out": _a(2, -1)}]}], "eq": [], "copies": []}),
    # trash argument (additive selector) with two constraints
    "trash-k4": dict(k=4, np=1, nbc=0, lens=[0], shape={"adv": [0, 0, 0], "nfix": 1, "ninst": 0, "chal": [],
                     "gates": [{"sel": "add", "cons": [{"prods": [[_a(0), _a(1)], [["f", 0, 0]]], "out": _a(2, -1)},
                                                       {"prods": [[_a(1, 1), _a(1)]], "out": _a(0, 1)}]}], "eq": [], "copies": []}),
    # two proofs, a committed instance column queried at rotations 0 and 1, a plain instance column
    "2proofs-instances-k4": dict(k=4, np=2, nbc=1, lens=[3, 3], shape={"adv": [0, 0, 0], "nfix": 1, "ninst": 2, "chal": [],
                                 "gates": [{"sel": "mul", "cons": [{"prods": [[_a(0), _a(1)], [["i", 0, 0], ["i", 0, 1]], [["i", 1, 0], ["f", 0, 0]]],
                                                                    "out": _a(2, -1)}]}], "eq": [], "copies": []}),
    # two phases, a challenge, an unblinded column, a degree-4 gate with rotations
    "2phase-challenge-k4": dict(k=4, np=1, nbc=0, lens=[3], shape={"adv": [0, 0, 1, 1], "unbl": [1], "nfix": 1, "ninst": 1, "chal": [0],
                                "gates": [{"sel": "cmul", "cons": [{"prods": [[["c", 0], _a(0), _a(1, -1)], [["i", 0, 1]]], "out": _a(2)},
                                                                   {"prods": [[_a(2), _a(0, 1)]], "out": _a(3, 1)}]}], "eq": [], "copies": []}),
}


def e2e_pairs(d):
    pr = symf.ProverRun(d)
    pairs, bad = [], []
    for q in d["guard"]:
        real, spec = pr.nf(q["eval"]), pr.spec_eval(q)
        if real != spec:
            bad.append(q["label"])
        for m in set(real) | set(spec):
            pairs.append((real.get(m, 0), spec.get(m, 0)))
    return pairs, bad, len(pr.ring.atoms)


def check_e2e(run, name, m):
    ob = core.Ob(f"C01/S/e2e/{name}/openings-consistent", ENGINE,
                 "every evaluation the real verifier claims (incl. the quotient's expected_h_eval) equals the value of the polynomial "
                 "the real prover committed, at the query point", functions=FUNCS + [
                     "proofs/src/plonk/evaluation.rs::Evaluator::evaluate_h", "proofs/src/plonk/mod.rs::evaluate_identities",
                     "proofs/src/plonk/vanishing/prover.rs::construct", "proofs/src/poly/domain.rs::coeff_to_extended",
                     "proofs/src/poly/domain.rs::extended_to_coeff", "proofs/src/poly/domain.rs::divide_by_vanishing_poly"],
                 bound=f"shape {name} k={m['k']} num_proofs={m['np']} committed={m['nbc']} lens={m['lens']}; all witnesses satisfying by construction, "
                       "all blinding scalars, public inputs, x", key="honest-proof-openings")
    run.add(ob)
    try:
        d = symf.sx("prover", shape=m["shape"], k=m["k"], np=m["np"], nbc=m["nbc"], lens=m["lens"], nodes=1, coms=1, guard=1)
        if "guard" not in d:
            raise RuntimeError(d.get("prepare_error") or d.get("create_proof_error"))
        pairs, bad, atoms = e2e_pairs(d)
        # twin: break the first constraint (drop its output cell): the free witness no longer satisfies it
        tw_shape = json.loads(json.dumps(m["shape"]))
        tw_shape["gates"][0]["cons"][0]["out"] = None
        td = symf.sx("prover", shape=tw_shape, k=m["k"], np=m["np"], nbc=m["nbc"], lens=m["lens"], nodes=1, coms=1, guard=1)
        tpairs, tbad, _ = e2e_pairs(td)
    except Exception as ex:
        ob.set(INCONCLUSIVE, f"{ex!r}"[:300])
        return
    if atoms:
        ob.set(INCONCLUSIVE, f"{atoms} opaque inverse atoms (shape outside the fragment)")
        return
    r = solvers.solve(symf.residual_smt(pairs), timeout=120)
    tw = solvers.solve(symf.residual_smt(tpairs), timeout=120)
    ob.queries += 2
    ob.vacuity = tw.status == "sat" and "custom:vanishing" in tbad
    member = dict(m)
    if r.status == "unsat" and not bad and ob.vacuity:
        ob.set(HOLDS, f"{len(d['guard'])} queries, {len(pairs)} monomials; twin (unsatisfied constraint) differs on {tbad}",
               solver=r.solver, solver_s=r.time_s + tw.time_s)
    elif r.status == "sat" or bad:
        payload = {"kind": "e2e", "member": member, "queries": bad}
        if replay(payload):
            ob.set(VIOLATION, f"claimed evaluation differs from the committed polynomial for {bad}", solver=r.solver,
                   solver_s=r.time_s, replay=_wr(run, ob, payload))
        else:
            ob.set(INCONCLUSIVE, f"mismatch on {bad} did not reproduce")
    else:
        ob.set(INCONCLUSIVE, f"solver {r.status}; twin {tw.status} {tbad}")
    run.log(f"e2e/{name}: {ob.status}")


def check(run):
    symf.build(run)
    cfgs = configs()
    if getattr(run, "only", None):
        cfgs = [c for c in cfgs if run.only in f"{c[0]}/np{c[1]}-c{c[2]}-p{c[3]}"] or cfgs
    run.bounds.append(f"C01/S: {len(cfgs)} (template, num_proofs, committed, plain) configurations, k=4, lookup-free shapes")
    run.assumptions += ["S: chi (the transcript hash) is injective on absorbed histories",
                        "S: SymCS commitments are interned handles of the committed vectors (equal vectors = equal commitments)"]
    run.outside += ["C01: lookups (value sorting concretises); shapes with a permutation argument in the e2e obligations (z is built with "
                    "inverses of witness-dependent terms: opaque atoms); MSM/pairing correctness and the KZG opening itself (C12/C14); "
                    "k > 4; C01-b as a separate hook-based comparison is subsumed by the e2e obligations on their fragment"]
    run.translator_validation.append(
        "S/C01: vacuity twin per configuration (one absorbed item removed on the verifier side must make the query sat); "
        "the F1 counterexample replays on the real stack and the configurations that HOLD are accepted there "
        "(spot-checked by `sx real` in notes/symfield.md)")
    e2e = E2E_SHAPES if not getattr(run, "only", None) else {k: v for k, v in E2E_SHAPES.items() if run.only in "e2e/" + k}
    run.bounds.append(f"C01/S e2e: {len(E2E_SHAPES)} permutation-free, lookup-free shapes (k=3,4; gates, trash, 2 phases + challenge, "
                      "2 proofs with committed+plain instances)")
    ef_groups = []
    if getattr(run, "only", None) and "exprfam" in run.only:
        cfgs = []
    if not getattr(run, "only", None) or "exprfam" in run.only:
        ef_groups = ef_prepare(run)
        if getattr(run, "only", None) and run.only != "exprfam":
            ef_groups = [g for g in ef_groups if run.only in f"exprfam/{g[0]}/g{g[1]:03d}"] or ef_groups
    with ThreadPoolExecutor(max_workers=4) as ex:
        futs = [ex.submit(check_config, run, *c) for c in cfgs] + [ex.submit(check_e2e, run, n, m) for n, m in e2e.items()]
        futs += [ex.submit(check_ef_twin, run)] if ef_groups else []
        for f in futs:
            try:
                f.result()
            except Exception as e:
                import traceback
                traceback.print_exc()
                ob = core.Ob("C01/S/engine", ENGINE, "engine S infrastructure")
                run.add(ob)
                ob.set(INCONCLUSIVE, f"crashed: {e!r}")
    if ef_groups:
        check_ef_groups(run, ef_groups)      # after the thread pool has been joined: fork is safe
        ef_summary(run)
    bad = [x for x in REAL_XVAL if x[1] != "accepted" or not x[2]]
    run.translator_validation.append(
        f"S/C01: every configuration that HOLDS was also run on the real stack (Fq, KZG, Blake2b, MockProver on the "
        f"witness): {len(REAL_XVAL) - len(bad)}/{len(REAL_XVAL)} honest and accepted" + (f"; NOT accepted: {bad[:5]}" if bad else ""))
    if bad:
        run.log(f"cross-validation: HOLDS but not accepted on the real stack: {bad[:5]}")


def replay(payload):
    """The same shape on the real stack (Fq, KZG unsafe_setup, Blake2b). Reproduces iff the verifier
    rejects the honest proof (MockProver must accept the witness)."""
    if payload.get("engine_part") not in (None, "S") or payload.get("kind") not in ['honest-rejected', 'e2e', 'exprfam']:
        return None
    symf.build()
    if payload["kind"] == "exprfam":
        return ef_replay(payload)
    m = payload["member"]
    if payload["kind"] == "e2e":
        # concrete mode: witness, blinding, public inputs and challenges are constants; the same real prover and
        # verifier run; compare each claimed evaluation with the committed vector evaluated by definition
        d = symf.sx("prover", shape=m["shape"], k=m["k"], np=m["np"], nbc=m["nbc"], lens=m["lens"], nodes=1, coms=1, guard=1, vals={})
        pr = symf.ProverRun(d)
        bad = [q["label"] for q in d["guard"] if pr.dag.const(q["eval"]) != pr.spec_eval_concrete(q)]
        rd = symf.sx("real", shape=m["shape"], k=m["k"], np=m["np"], nbc=m["nbc"], lens=m["lens"])
        print(f"concrete run: claimed evaluation != committed polynomial at the point for {bad}; real stack verdict: {rd.get('verdict')}")
        return 1 if bad else 0
    d = symf.sx("real", shape=m["shape"], k=m["k"], np=m["np"], nbc=m["nbc"], lens=m["lens"] or [0])
    honest = all(x == "Ok(())" for x in d.get("mock_prover", []))
    print(f"real stack: mock_prover={d.get('mock_prover')} verdict={d.get('verdict')} create_proof_error={d.get('create_proof_error')}")
    if d.get("panicked"):
        print("the real verifier PANICKED (different finding); not counted as a reproduction of a schedule divergence")
        return 0
    return 1 if (honest and d.get("accepted") is False and "create_proof_error" not in d) else 0


# ================================================================== expression-shape family (C01-c, prover's GraphEvaluator)
"""C01-c on an EXPRESSION-SHAPE FAMILY. Only the prover evaluates constraint polynomials through
`GraphEvaluator::add_expression` / `Calculation::evaluate` (constant folding, neutral operands, Double / Square,
operand ordering, Horner over the parts); the verifier and MockProver evaluate `Expression` directly. For one-gate
circuits whose constraints are  wrap(E_j, o_j)  with E_j drawn from a systematic family of Expression trees (built in
sx through the real operator overloads and as hand-built enum nodes, o_j := E_j(witness)), the obligation is the e2e
one: every claimed evaluation of the real verifier on the real prover's proof — in particular expected_h_eval against
the committed quotient pieces — equals the committed polynomial at the point, for ALL free witness cells, blinding
scalars, public inputs and challenges (normal form + ground residual, z3-new || cvc5; perturbed twin must be sat).
De-duplication: trees are renamed to first-occurrence column order, then grouped by the post-keygen polynomial the
REAL keygen produces (`sx exprsig`; keygen rebuilds every expression through the overloads): one representative per
class (picked by VERIF_SEED), so identical prover+verifier inputs are run once. A violating group is bisected to single
trees; replay = the single-tree circuit on the real stack (Fq, KZG unsafe_setup, Blake2b): MockProver accepts the
witness and the real verifier rejects the real prover's honest proof."""
import random as _random

EF_FUNCS = ["proofs/src/plonk/evaluation.rs::GraphEvaluator::add_expression", "proofs/src/plonk/evaluation.rs::GraphEvaluator::evaluate",
            "proofs/src/plonk/evaluation.rs::Calculation::evaluate", "proofs/src/plonk/evaluation.rs::ValueSource::get",
            "proofs/src/plonk/evaluation.rs::get_rotation_idx", "proofs/src/plonk/evaluation.rs::Evaluator::new",
            "proofs/src/plonk/evaluation.rs::Evaluator::evaluate_numerator", "proofs/src/plonk/circuit.rs::Expression::evaluate",
            "proofs/src/plonk/circuit.rs::ConstraintSystem::replace_selectors_with_fixed", "proofs/src/plonk/mod.rs::evaluate_identities",
            "proofs/src/plonk/prover.rs::create_proof", "proofs/src/plonk/verifier.rs::verify_algebraic_constraints",
            "proofs/src/plonk/vanishing/prover.rs::construct", "proofs/src/plonk/trash/prover.rs::commit"]
EF_GROUP = 24
EF_STATS = {"variants": {}, "trees": 0, "groups": 0, "folded": 0, "sections": {}, "arms": {}}


def _ef_sections():
    """section name -> list of trees (before de-duplication). Deterministic; the seed only picks representatives,
    the sample of the two-sided depth-2 / depth-3 sections, the packing and the context of each group."""
    from vf.symf import ef_a, ef_k as K, ef_grow, ef_dedupe
    quick = core.tier() == "quick"
    rnd = _random.Random(1000 + core.seed())
    a, b, c, f = ef_a(0), ef_a(1), ef_a(2), ["f", 0, 0]
    sec = {}
    # depth <= 1 over every leaf kind and the constants GraphEvaluator treats specially (0, 1, 2) and their negatives
    lfull = [a, b, c, f, K(0), K(1), K(2), K(3), K(-1), K(-2)]
    sec["d1"] = lfull + ef_grow(lfull)
    # queries of every kind at rotations 0, 1, -1 (depth <= 1)
    lrot = [[k, 0, r] for k in ("a", "f", "i") for r in (0, 1, -1)]
    sec["rot"] = lrot + ef_grow(lrot, raw=False, unary=[("neg",), ("scale", 0), ("scale", 3)]) + \
        ef_grow([["a", 1, 1], ["a", 1, -1]], lrot, raw=False, unary=[])
    # named nestings: Horner-like, chains of subtractions, e - e, squares, doubles, weighted sums, folded operands
    x = ["a", 0, 1]
    named = [
        ["add", ["mul", ["add", ["mul", a, b], c], b], f],
        ["add", ["mul", ["add", ["mul", ["add", ["mul", a, f], b], f], c], f], K(3)],
        ["add", ["mul", ["add", ["mul", a, x], b], x], c],
        ["sub", ["sub", ["sub", a, b], c], f], ["sub", a, ["sub", b, ["sub", c, f]]],
        ["neg", ["neg", a]], ["neg", ["neg", ["neg", a]]], ["neg", ["neg", K(3)]], ["neg", ["neg", K(0)]], ["neg", ["neg", K(-1)]],
        ["sub", a, a], ["sub", ["mul", a, b], ["mul", a, b]], ["sub", ["mul", a, b], ["mul", b, a]], ["add", ["add", a, b], ["neg", ["add", b, a]]],
        ["mul", ["add", a, b], ["add", b, a]], ["square", a], ["square", ["add", a, K(1)]], ["mul", ["mul", a, a], ["mul", a, a]],
        ["mul", ["scale", a, 1], a], ["square", ["neg", a]], ["square", K(3)], ["square", ["scale", a, 0]],
        ["mul", K(2), ["add", a, b]], ["mul", ["add", a, b], K(2)], ["mul", ["neg", K(-2)], a], ["mul", a, ["neg", K(-2)]], ["scale", a, 2],
        ["mul", ["add", K(1), K(1)], a], ["mul", K(2), K(2)], ["mul", K(2), K(3)],
        ["add", ["add", ["scale", a, 0], ["scale", b, 1]], ["scale", c, 3]], ["add", ["scale", a, 0], ["scale", b, 0]],
        ["sub", ["scale", a, 0], ["scale", b, 0]], ["sub", ["scale", a, 0], ["sub", ["scale", b, 0], c]],
        ["mul", ["scale", a, 0], b], ["mul", b, ["scale", a, 0]], ["mul", ["neg", K(-1)], a], ["mul", a, ["neg", K(-1)]],
        ["mul", ["scale", K(1), 1], a], ["add", ["neg", K(0)], ["neg", a]], ["sub", ["neg", K(0)], a], ["add", a, ["neg", ["neg", K(0)]]],
        ["Sum", K(0), ["Negated", a]], ["Sum", ["Negated", a], K(0)], ["Product", K(1), ["Product", K(0), a]], ["Sum", ["Product", K(0), a], ["Negated", b]],
        ["Product", ["Sum", K(1), K(0)], a], ["Scaled", ["Scaled", a, 0], 3], ["Scaled", ["Scaled", a, 3], 0], ["Scaled", ["Scaled", a, 3], 3],
    ]
    for w in (0, 1, -1, 3):       # the linear-combination gate  w*a - (b - c)  and variants
        named += [["sub", ["scale", a, w], ["sub", b, c]], ["sub", ["sub", b, c], ["scale", a, w]], ["add", ["scale", a, w], ["neg", b]],
                  ["sub", ["mul", a, K(w)], b], ["sub", ["mul", K(w), a], b]]
    sec["named"] = named
    # selector queried inside the polynomial / challenge leaves (second phase output column)
    q, ch = ["q"], ["c", 0]
    sec["sel"] = [q, ["mul", q, a], ["add", q, a], ["sub", ["mul", q, a], b], ["scale", q, 0], ["sub", ["scale", q, 0], a], ["mul", q, q],
                  ["neg", q], ["mul", q, K(2)], ["sub", K(1), q], ["mul", ["sub", K(1), q], a]]
    sec["chal"] = [ch, ["mul", ch, a], ["add", ch, a], ["sub", ["mul", a, ch], b], ["sub", ["scale", ch, 0], a], ["mul", ch, ch], ["neg", ch],
                   ["mul", K(2), ch], ["add", ["mul", ["add", ["mul", a, ch], b], ch], c], ["sub", ch, ch], ["scale", ch, 3]]
    # depth 2, one side a leaf: every parent arm with every depth-1 operand presentation on either side
    l0 = [a, b, K(0), K(1), K(3)]
    l1 = ef_dedupe(l0 + ef_grow(l0, raw=False), canon=False)
    lq = [a, b, c, K(0), K(1), K(3)]
    sec["d2one"] = ef_grow(l1, raw=False, binary=[]) + ef_grow(l1, lq, raw=False, unary=[]) + ef_grow(lq, l1, raw=False, unary=[])

    # depth 2, both sides depth 1: shared variables (a, b) and disjoint ones (c, f on the right)
    def disjoint(t):
        return symf.ef_map_leaves(t, lambda l: ["a", 2, l[2]] if l[:2] == ["a", 0] else (["f", 0, l[2]] if l[:2] == ["a", 1] else l))
    two = ef_dedupe(ef_grow(l1, raw=False, unary=[]) + ef_grow(l1, [disjoint(t) for t in l1], raw=False, unary=[]))
    sec["d2two"] = rnd.sample(two, 2400) if quick else two
    if not quick:
        # depth 3: a sampled depth-2 operand against every depth-1 operand, both orders, and unary on depth 2
        s2 = rnd.sample(two, 16)
        sec["d3"] = ef_grow(s2, raw=False, binary=[]) + ef_grow(s2, l1, raw=False, unary=[]) + ef_grow(l1, s2, raw=False, unary=[])
        # more leaves at depth 2: instance, rotated, constant 2 / -1
        lmore = [a, ["a", 0, 1], ["a", 1, -1], ["i", 0, 0], ["f", 0, 1], K(2), K(-1)]
        l1m = ef_dedupe(lmore + ef_grow(lmore, raw=False), canon=False)
        sec["d2more"] = ef_grow(l1m, raw=False, binary=[]) + ef_grow(l1m, lmore, raw=False, unary=[]) + ef_grow(lmore, l1m, raw=False, unary=[])
    return sec, len(two)


def _ef_ops(t):
    return 0 if t[0] in ("a", "f", "i", "c", "k", "q") else 1 + sum(_ef_ops(x) for x in t[1:] if isinstance(x, list))


def ef_prepare(run):
    """enumerate, de-duplicate through the real keygen, pack into groups; returns [(section, index, trees, ctx)]"""
    t0 = time.time()
    sections, n_two = _ef_sections()
    rnd = _random.Random(2000 + core.seed())
    groups, rows = [], []
    for name, trees in sections.items():
        canon = symf.ef_dedupe(trees)
        sel0 = "cmul" if name == "sel" else "mul"
        sig = symf.ef_sig([symf.ef_member([t], sel=sel0) for t in canon])
        cls, errs = {}, []
        for t, s in zip(canon, sig):
            if "error" in s:
                errs.append(symf.ef_show(t))
                continue
            cls.setdefault(s["polys"]["gates"][0], []).append((t, s))
        reps = []
        for members in cls.values():
            t, s = rnd.choice(members)
            reps.append(t)
            calcs = s["ev"]["graphs"][0]["calculations"]
            # wrap + selector + Horner add 2 Stores, 1 Sub, 1 Mul, 1 Horner to the graph of the tree itself
            if sum(1 for c_ in calcs if not c_.startswith("Store(")) - 3 < _ef_ops(t):
                EF_STATS["folded"] += 1
        rnd.shuffle(reps)
        size = EF_GROUP if name not in ("sel", "chal") else 12
        ng = 0
        for gi, i in enumerate(range(0, len(reps), size)):
            part = reps[i:i + size]
            if name == "sel":
                sel = "cmul"
            else:
                sel = ["mul", "cmul", "mul", "cmul", "mul", "add"][(gi + core.seed()) % 6]
            ctx = dict(sel=sel, blinded=((gi + core.seed()) % 8 == 3),
                       wraps=[symf.EF_WRAPS[(j + gi + core.seed()) % len(symf.EF_WRAPS)] for j in range(len(part))])
            groups.append((name, gi, part, ctx))
            ng += 1
        EF_STATS["sections"][name] = dict(enumerated=len(trees), canonical=len(canon), classes=len(cls), groups=ng, keygen_errors=errs[:5])
        rows.append(f"{name}: {len(trees)} trees -> {len(canon)} canonical -> {len(cls)} post-keygen classes -> {ng} circuits"
                    + (f" ({len(errs)} rejected by keygen: {errs[:3]})" if errs else ""))
        EF_STATS["trees"] += len(cls)
    EF_STATS["two_sided_universe"] = n_two
    run.log(f"exprfam: {EF_STATS['trees']} expression classes in {len(groups)} circuits, prepared in {time.time() - t0:.1f}s")
    for r in rows:
        run.log("  exprfam " + r)
    return groups


def _ef_run(member, ev=1):
    d = symf.sx("prover", shape=member["shape"], k=member["k"], np=1, nbc=0, lens=member["lens"], nodes=1, coms=1, guard=1, ev=ev)
    if "guard" not in d:
        raise RuntimeError(f"no guard: prepare_error={d.get('prepare_error')} create_proof_error={d.get('create_proof_error')}")
    return d


def ef_decide(name, gi, trees, ctx):
    """worker (separate process, no shared state): decide one group; returns a plain dict"""
    out = dict(status=INCONCLUSIVE, detail="", solver=None, solver_s=0.0, queries=0, vacuity=None, key=None, payload=None, variants={}, t0=time.time())
    member = symf.ef_member(trees, **ctx)
    try:
        d = _ef_run(member)
        pairs, bad, atoms = e2e_pairs(d)
    except Exception as ex:
        out["detail"] = f"{ex!r}"[:300]
        return out
    for g in d["ev"]["graphs"]:
        for v, n in g["counts"].items():
            out["variants"][v] = out["variants"].get(v, 0) + n
    if atoms:
        out["detail"] = f"{atoms} opaque inverse atoms"
        return out
    r = solvers.solve(symf.residual_smt(pairs), timeout=120)
    tw_pairs = list(pairs[:50]) or [(0, 0)]
    tw_pairs[0] = (tw_pairs[0][0], (tw_pairs[0][1] + 1) % P)
    tw = solvers.solve(symf.residual_smt(tw_pairs), timeout=60)
    out.update(queries=2, vacuity=tw.status == "sat", solver=r.solver, solver_s=r.time_s + tw.time_s)
    if r.status == "unsat" and not bad and out["vacuity"]:
        out.update(status=HOLDS, detail=f"{len(d['guard'])} queries, {len(pairs)} monomials, degree {d['polys']['degree']}, graph of "
                   f"{sum(len(g['calculations']) for g in d['ev']['graphs'])} calculations")
        return out
    if r.status != "sat" and not bad:
        out["detail"] = f"solver {r.status}; twin {tw.status}"
        return out
    # bisect to single trees (same context), smallest first; the solver decides the single-tree residual again
    shown = [symf.ef_show(t) for t in trees]
    failing = []
    for t, w in sorted(zip(trees, ctx["wraps"]), key=lambda tw_: (len(symf.ef_key(tw_[0])), symf.ef_key(tw_[0]))):
        m1 = symf.ef_member([t], sel=ctx["sel"], blinded=ctx["blinded"], wraps=[w])
        try:
            d1 = _ef_run(m1)
            p1, b1, _ = e2e_pairs(d1)
            r1 = solvers.solve(symf.residual_smt(p1), timeout=60)
            out["queries"] += 1
            if b1 and r1.status == "sat":
                failing.append((t, w, m1, b1, d1))
                if len(failing) >= 2:        # smallest two are enough for the report
                    break
        except Exception as ex:
            print(f"exprfam bisect {symf.ef_show(t)}: {ex!r}"[:200], flush=True)
    if failing:
        t, w, m1, b1, d1 = failing[0]
        out["key"] = "graph-evaluator:numerator-differs-from-expression"
        payload = {"kind": "exprfam", "member": m1, "tree": symf.ef_show(t), "wrap": w, "queries": b1,
                   "post_keygen_polynomial": (d1["polys"]["gates"] or [d1["polys"]["trashcans"]])[0][:1500],
                   "prover_graph": d1["ev"]["graphs"], "failing_trees": [symf.ef_show(x[0]) for x in failing]}
        detail = (f"single trees of the group fail alone ({[symf.ef_show(x[0]) for x in failing]}), smallest: E = {symf.ef_show(t)} (wrap {w}, {ctx['sel']} selector): the "
                  f"verifier's claim differs from the committed polynomial for {b1}; prover graph {d1['ev']['graphs'][-1]['calculations']}")
    else:
        payload = {"kind": "exprfam", "member": member, "tree": "  ".join(shown), "wrap": ctx["wraps"], "queries": bad}
        detail = f"the group fails on {bad} but no single tree does"
    if ef_replay(payload, quiet=True):
        out.update(status=VIOLATION, payload=payload, detail=detail + "; replay: MockProver accepts the witness, the real verifier rejects "
                   "the real prover's honest proof")
    else:
        out["detail"] = detail + "; did not reproduce on the real stack"
    return out


def ef_ob(name, gi, trees, ctx):
    return core.Ob(f"C01/S/exprfam/{name}/g{gi:03d}/quotient-consistent", ENGINE,
                   "expression-shape family: on the real prover's proof every evaluation the real verifier claims — the quotient's "
                   "expected_h_eval in particular — equals the polynomial the prover committed, at the query point",
                   functions=EF_FUNCS,
                   bound=f"one {ctx['sel']}-selector gate, k=3/4, {len(trees)} constraints wrap(E,o) with wraps {sorted(set(ctx['wraps']))}, "
                         f"{'all columns blinded' if ctx['blinded'] else 'a,b,c unblinded, output columns blinded'}; all free witness cells, "
                         f"blinding scalars, public inputs, challenges; E in: " + "  ".join(symf.ef_show(t) for t in trees),
                   key="graph-evaluator:numerator-differs-from-expression")


def check_ef_groups(run, groups):
    """the groups are decided in 4 worker processes (the normaliser is pure Python); obligations are registered first"""
    import multiprocessing
    from concurrent.futures import ProcessPoolExecutor
    obs = [run.add(ef_ob(*g)) for g in groups]
    # heaviest contexts first (trash / fully blinded / k=4)
    order = sorted(range(len(groups)), key=lambda i: -(2 * (groups[i][3]["sel"] == "add") + 2 * groups[i][3]["blinded"] + (groups[i][0] == "rot")))
    symf.EF_WORKERS["C01.ef_decide"] = ef_decide
    with ProcessPoolExecutor(max_workers=4, mp_context=multiprocessing.get_context("fork")) as ex:
        futs = {i: ex.submit(symf.ef_dispatch, "C01.ef_decide", *groups[i]) for i in order}
        for i, f in futs.items():
            ob, g = obs[i], groups[i]
            try:
                o = f.result()
            except Exception as e:
                ob.set(INCONCLUSIVE, f"worker crashed: {e!r}"[:300])
                continue
            ob.queries, ob.vacuity = o["queries"], o["vacuity"]
            if o["key"]:
                ob.key = o["key"]
            for v, n in o["variants"].items():
                EF_STATS["variants"][v] = EF_STATS["variants"].get(v, 0) + n
            EF_STATS["groups"] += 1
            if o["status"] == VIOLATION:
                ob.set(VIOLATION, o["detail"], solver=o["solver"], solver_s=o["solver_s"], replay=_wr(run, ob, o["payload"]))
            else:
                ob.set(o["status"], o["detail"], solver=o["solver"], solver_s=o["solver_s"])
            if o["status"] != HOLDS:
                run.log(f"exprfam/{g[0]}/g{g[1]:03d}: {ob.status} {o['detail'][:200]}")


def check_ef_twin(run):
    """vacuity of the family as a whole: a constraint the free witness does not satisfy must be seen on custom:vanishing"""
    from vf.symf import ef_a
    ob = core.Ob("C01/S/exprfam/twin/unsatisfied-constraint-is-seen", ENGINE,
                 "expression-shape family, reachability twin: with one extra constraint `a = 0` that the free witness does not satisfy, the "
                 "quotient query must differ (the obligation is not vacuous)", functions=EF_FUNCS,
                 bound="one group of the family + the constraint polynomial a", key="graph-evaluator:twin")
    run.add(ob)
    try:
        m = symf.ef_member([["mul", ef_a(0), ef_a(1)], ["sub", ["scale", ef_a(0), 0], ef_a(1)]])
        m["shape"]["gates"][0]["cons"].append({"prods": [[ef_a(0)]], "out": None})
        pairs, bad, atoms = e2e_pairs(_ef_run(m))
        r = solvers.solve(symf.residual_smt(pairs), timeout=60)
        ob.queries += 1
        ob.vacuity = r.status == "sat"
        if r.status == "sat" and "custom:vanishing" in bad:
            ob.set(HOLDS, f"differs on {bad}", solver=r.solver, solver_s=r.time_s)
        else:
            ob.set(INCONCLUSIVE, f"twin not seen: solver {r.status}, differing {bad}")
    except Exception as ex:
        ob.set(INCONCLUSIVE, f"{ex!r}"[:300])


def ef_replay(payload, quiet=False):
    m = payload["member"]
    rd = symf.sx("real", shape=m["shape"], k=m["k"], np=1, nbc=0, lens=m["lens"])
    honest = all(x == "Ok(())" for x in rd.get("mock_prover", []))
    if quiet:
        return 1 if (all(x == "Ok(())" for x in rd.get("mock_prover", [])) and rd.get("accepted") is False
                     and "create_proof_error" not in rd and not rd.get("panicked")) else 0
    print(f"expression tree E = {payload.get('tree')}  wrap {payload.get('wrap')}")
    print(f"real stack (Fq, KZG unsafe_setup, Blake2b): MockProver on the witness: {rd.get('mock_prover')}; create_proof: "
          f"{rd.get('create_proof_error', 'ok')}; verifier verdict: {rd.get('verdict')}")
    rej = honest and rd.get("accepted") is False and "create_proof_error" not in rd and not rd.get("panicked")
    if rej:
        print("=> the real verifier rejects the real prover's honest proof")
    return 1 if rej else 0


def ef_summary(run):
    st = EF_STATS
    secs = "; ".join(f"{n}: {v['enumerated']}->{v['canonical']}->{v['classes']} in {v['groups']} circuits" for n, v in st["sections"].items())
    run.bounds.append(
        f"C01/S exprfam ({core.tier()}, seed {core.seed()}): {st['trees']} expression classes in {st['groups']} one-gate circuits (k=3/4, selector kinds "
        f"mul/cmul/add(trash), 5 wraps, blinded and unblinded inputs). Sections enumerated->canonical->post-keygen classes: {secs}. "
        f"Two-sided depth-2 universe: {st.get('two_sided_universe')} canonical trees ({'2400 sampled by seed' if core.tier() == 'quick' else 'all'}).")
    run.translator_validation.append(
        f"S/C01 exprfam: Calculation variants in the GraphEvaluators the real keygen_pk built for the family (read off ProvingKey's Debug "
        f"rendering): {dict(sorted(st['variants'].items()))}; {st['folded']} of {st['trees']} classes have fewer calculations than operator "
        f"nodes (folded / reused); reachability twin C01/S/exprfam/twin; per-arm witnesses and their observed graphs: notes/symfield.md")
    run.outside.append("C01 exprfam: lookup input/table expressions (the lookup prover sorts values; permuted columns and z leave opaque atoms), "
                       "expressions under a permutation argument, depth > 3, constants other than 0, 1, 2, 3, -1, -2, more than one gate per circuit")
