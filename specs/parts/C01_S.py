"""C01-a (engine S) — Fiat–Shamir schedule agreement between the REAL prover and the REAL verifier.

For lookup-free circuit shapes and every configuration
    num_proofs in {1,2,3} x committed instance columns in {0,1,2} x plain instance columns in {0,1,2}  (k = 4)
the real `keygen_vk`, `keygen_pk`, `create_proof` (symbolic honest witness, symbolic public inputs,
`random()` = fresh variable) and then the real `prepare` on the bytes the prover produced are
executed at F = SymF, CS = SymCS, T = CircuitTranscript<SymHash>. Both transcripts log every absorbed
item; `squeeze` returns chi(<history>).

Obligation (per configuration and shape template): every challenge the verifier derives is the same
term as the prover's. Encoding: the absorbed histories are terms of an algebraic datatype
St = Init | Abs(St, Item), Item = F(Int) | C(Int) | SQ, chi : St -> Int is uninterpreted with a left
inverse on the states that occur (instantiated injectivity), absorbed field terms are Int variables
(one per term id; the verifier reads the very terms the prover wrote). Query: exists values such that
chi(st_P_j) != chi(st_V_j) for some j, or the two sides squeeze a different number of challenges.
unsat <=> same items in the same order before every challenge. A sat model names the first diverging
challenge; replay = the same shape over Fq + KZG(unsafe_setup) + Blake2b with the real create_proof /
prepare / guard.verify: the verifier must reject its own honest proof (MockProver accepts the witness).

C01-c  "the honest proof verifies, modulo the commitment scheme" (permutation-free, lookup-free shapes):
on the same runs, every query the real verifier hands to the commitment scheme — (commitment, point, claimed
evaluation), including the chopped quotient query whose evaluation is expected_h_eval computed from the proof's
evaluations — is compared with the vector the real prover committed under that handle: the claimed evaluation
must equal the value at the point of the committed polynomial (Lagrange / monomial basis by definition; quotient
= sum_i h_i(x) x^((n-1)i)). This is a polynomial identity in the witness, the blinding scalars, the public inputs
and x, decided by normalisation + ground residual (vf/symf.py). It contains numerator == h*(X^n-1) at x, i.e.
prover-side evaluate_h / quotient splitting / FFTs against verifier-side evaluate_identities. Twin: the same
shape with a constraint the free witness does not satisfy must give a differing quotient query.
Shapes with a permutation argument are outside (z is built with inverses of witness-dependent terms).
"""
import json, time
from concurrent.futures import ThreadPoolExecutor

from vf import core, solvers, symf
from vf.core import HOLDS, VIOLATION, INCONCLUSIVE
from vf.symf import P

ENGINE = "S"


def _wr(run, ob, payload):
    """replay file of this part (the aggregator dispatches on engine_part)"""
    return run.write_replay(ob, dict(payload, engine_part="S"))
FUNCS = ["proofs/src/plonk/prover.rs::create_proof", "proofs/src/plonk/prover.rs::compute_trace",
         "proofs/src/plonk/prover.rs::compute_instances", "proofs/src/plonk/prover.rs::parse_advices",
         "proofs/src/plonk/prover.rs::finalise_proof", "proofs/src/plonk/verifier.rs::parse_trace",
         "proofs/src/plonk/verifier.rs::verify_algebraic_constraints", "proofs/src/plonk/keygen.rs::keygen_pk",
         "proofs/src/plonk/permutation/prover.rs::commit", "proofs/src/plonk/trash/prover.rs::commit",
         "proofs/src/plonk/vanishing/prover.rs::construct", "proofs/src/transcript/mod.rs::CircuitTranscript"]


REAL_XVAL = []


def _a(c, r=0):
    return ["a", c, r]


def template(tname, nbc, plain):
    """lookup-free shape with nbc + plain instance columns (committed first); honest witness by construction"""
    ninst = nbc + plain
    # every queried instance row is supplied (MockProver insists on assigned instance cells): gate blocks use rows 0..5
    lens = [(6 if c % 2 == 0 else 7) for c in range(ninst)]
    eq_inst = [["i", c] for c in range(ninst) if c >= nbc]      # plain columns take part in the permutation
    if tname == "t1":
        prods = [[_a(0), _a(1)], [["f", 0, 0]]]
        if ninst:
            prods.append([["i", ninst - 1, 0]])                 # last instance column queried by the gate
        if nbc:
            # a committed column queried at rotation 0 and 1 (the cur-query is registered first: a first
            # verifier query at a rotated point makes the real KZG verifier panic, see finding
            # kzg-multi_prepare:chopped-point-index, which is not what this part is about)
            prods.append([["i", 0, 0], ["i", 0, 1], _a(0, 1)])
        shape = {"adv": [0, 0, 0], "nfix": 1, "ninst": ninst, "chal": [],
                 "gates": [{"sel": "mul", "cons": [{"prods": prods, "out": _a(2, 1)}]}],
                 "eq": [["a", 0], ["a", 2]] + eq_inst, "const_col": True,
                 "copies": [["eq", 0, 2], ["const", 0, 7]] + ([["inst", 2, ninst - 1, 0]] if plain else [])}
    else:
        # two phases, a challenge, a trash argument with two constraints, an unblinded column
        g2 = [[["c", 0], _a(0)]]
        if ninst:
            g2.append([["i", 0, 0], ["i", 0, -1]])
        shape = {"adv": [0, 0, 1, 1], "unbl": [1], "nfix": 1, "ninst": ninst, "chal": [0],
                 "gates": [{"sel": "add", "cons": [{"prods": [[_a(0), _a(1)]], "out": _a(0, 1)},
                                                   {"prods": [[_a(1), _a(1)], [["f", 0, 0]]], "out": _a(1, 1)}]},
                           {"sel": "cmul", "cons": [{"prods": g2, "out": _a(2)}]}],
                 "eq": [["a", 2], ["a", 3]] + eq_inst, "const_col": True,
                 "copies": [["eq", 2, 3], ["const", 3, 5]] + ([["inst", 3, ninst - 1, 0]] if plain else [])}
    return shape, lens


def configs():
    out = []
    for np_ in (1, 2, 3):
        for nbc in (0, 1, 2):
            for plain in (0, 1, 2):
                tns = ("t1", "t2") if (core.tier() != "quick" or (np_ + nbc + plain) % 2 == 0 or (nbc and plain)) else ("t1",)
                for tn in tns:
                    out.append((tn, np_, nbc, plain))
    return out


def histories(d):
    """per side: list of absorbed-history prefixes at each squeeze, as lists of items"""
    out = {}
    for side in ("P", "V"):
        hist, sq = [], []
        for e in d["world"]["log"]:
            if e["side"] != side:
                continue
            if e["op"] == "absorb":
                hist.append(tuple(e["item"]))
            elif e["op"] == "squeeze":
                sq.append(list(hist))
                hist.append(("sq",))
        out[side] = (sq, hist)
    return out


def smt_schedule(d, hP, hV, drop_last_of_V=False):
    leaves = d["arena"]["leaves"]
    lines = ["(set-logic ALL)",
             "(declare-datatypes ((Item 0)) (((F (fv Int)) (C (cv Int)) (SQ))))",
             "(declare-datatypes ((St 0)) (((Init) (Abs (prev St) (it Item)))))",
             "(declare-fun chi (St) Int)", "(declare-fun chi_inv (Int) St)"]
    declared = set()

    def item(it):
        if it[0] == "sq":
            return "SQ"
        if it[0] == "c":
            return f"(C {it[1]})"
        lf = leaves.get(str(it[1]))
        if lf and lf[0] == "c":
            return f"(F {int(lf[1], 16)})"
        nm = f"t{it[1]}"
        if nm not in declared:
            declared.add(nm)
            lines.append(f"(declare-const {nm} Int)")
            lines.append(f"(assert (and (<= 0 {nm}) (< {nm} {P})))")
        return f"(F {nm})"

    def states(side, hs):
        names = []
        prev_items, prev_name = [], "Init"
        for j, h in enumerate(hs):
            # h extends the previous history
            cur = prev_name
            ext = h[len(prev_items):]
            for it in ext:
                cur = f"(Abs {cur} {item(it)})"
            nm = f"s{side}{j}"
            lines.append(f"(define-fun {nm} () St {cur})")
            lines.append(f"(assert (= (chi_inv (chi {nm})) {nm}))")   # injectivity of chi, instantiated
            names.append(nm)
            prev_items, prev_name = h, nm
        return names

    if drop_last_of_V:
        hV = [list(h) for h in hV]
        hV[-1] = hV[-1][:-1]
    sP, sV = states("P", hP), states("V", hV)
    flags = []
    for j, (a, b) in enumerate(zip(sP, sV)):
        lines.append(f"(define-fun d{j} () Bool (distinct (chi {a}) (chi {b})))")
        flags.append(f"d{j}")
    cnt = "true" if len(sP) != len(sV) else "false"
    lines.append(f"(assert (or {cnt} {' '.join(flags) if flags else 'false'}))")
    return "\n".join(lines), flags


def first_divergence(hP, hV):
    for j, (a, b) in enumerate(zip(hP, hV)):
        if a != b:
            for pos, (x, y) in enumerate(zip(a, b)):
                if x != y:
                    return j, pos, x, y
            return j, min(len(a), len(b)), None, None
    return None


def check_config(run, tn, np_, nbc, plain):
    shape, lens = template(tn, nbc, plain)
    name = f"{tn}/np{np_}-c{nbc}-p{plain}"
    ob = core.Ob(f"C01/S/{name}/challenges-agree", ENGINE,
                 "every challenge derived by the real verifier is the same term as the real prover's",
                 functions=FUNCS,
                 bound=f"template {tn}, k=4, num_proofs={np_}, committed instance columns={nbc}, plain={plain}, "
                       f"lengths {lens}; symbolic witness, instances and blinding",
                 key="schedule-agreement")
    run.add(ob)
    try:
        d = symf.sx("prover", shape=shape, k=4, np=np_, nbc=nbc, lens=lens or [0])
    except Exception as ex:
        ob.set(INCONCLUSIVE, f"sx failed: {str(ex)[-300:]}")
        return
    if "create_proof_error" in d:
        ob.set(INCONCLUSIVE, f"create_proof failed on SymF: {d['create_proof_error']}")
        return
    h = histories(d)
    (hP, _), (hV, _) = h["P"], h["V"]
    smt, flags = smt_schedule(d, hP, hV)
    r = solvers.solve(smt, timeout=60, get_values=flags)
    tw_smt, _ = smt_schedule(d, hP, hV, drop_last_of_V=True)
    tw = solvers.solve(tw_smt, timeout=60)
    ob.queries += 2
    ob.vacuity = tw.status == "sat"
    member = dict(shape=shape, k=4, np=np_, nbc=nbc, lens=lens)
    struct_ok = ("prepare_error" not in d and d.get("verifier_trailing_ok")
                 and d.get("verifier_consumed_records") == d.get("proof_records"))
    if r.status == "unsat" and struct_ok and ob.vacuity:
        # cross-validation (not evidence): the same configuration on the real stack
        try:
            rd = symf.sx("real", shape=shape, k=4, np=np_, nbc=nbc, lens=lens or [0])
            REAL_XVAL.append((name, rd.get("verdict"), all(x == "Ok(())" for x in rd.get("mock_prover", []))))
        except Exception as ex:
            REAL_XVAL.append((name, f"error {ex!r}"[:80], False))
        ob.set(HOLDS, f"{len(hP)} challenges, {len(hP[-1]) if hP else 0} absorbed items; proof of "
               f"{d['proof_records']} records fully consumed; {d['arena']['n_nodes']} term nodes, "
               f"{d['arena']['n_path']} path conditions", solver=r.solver, solver_s=r.time_s + tw.time_s)
    elif r.status == "sat" or (r.status == "unsat" and not struct_ok):
        div = first_divergence(hP, hV)
        if nbc >= 1 and plain >= 1 and np_ >= 2:
            ob.key = "multi-proof:committed+plain-instance-order"
        elif not struct_ok:
            ob.key = "proof-not-consumed"
        else:
            ob.key = "schedule-divergence"
        payload = {"kind": "honest-rejected", "member": member, "first_divergence": div,
                   "differing_challenges": [f for f in flags if r.model.get(f)]}
        detail = (f"challenge #{div[0]} differs: absorbed item {div[1]} is {div[2]} for the prover and {div[3]} for the verifier"
                  if div else f"structure: prepare_error={d.get('prepare_error')} consumed={d.get('verifier_consumed_records')}/{d.get('proof_records')}")
        if replay(payload):
            ob.set(VIOLATION, detail + "; replay: real create_proof/prepare over Fq+KZG+Blake2b rejects the honest proof",
                   solver=r.solver, solver_s=r.time_s, replay=_wr(run, ob, payload))
        else:
            ob.set(INCONCLUSIVE, detail + "; the real stack accepted the honest proof (counterexample does not replay)")
    else:
        ob.set(INCONCLUSIVE, f"solver {r.status}; twin {tw.status}")
    run.log(f"{name}: {ob.status}")


E2E_SHAPES = {
    # k=3: one multiplicative gate, rows 0..1
    "gate-k3": dict(k=3, np=1, nbc=0, lens=[0], shape={"adv": [0, 0, 0], "nfix": 1, "ninst": 0, "chal": [],
                    "gates": [{"sel": "mul", "cons": [{"prods": [[_a(0), _a(1)], [["f", 0, 0]]], "out": _a(2, -1)}]}], "eq": [], "copies": []}),
    # trash argument (additive selector) with two constraints
    "trash-k4": dict(k=4, np=1, nbc=0, lens=[0], shape={"adv": [0, 0, 0], "nfix": 1, "ninst": 0, "chal": [],
                     "gates": [{"sel": "add", "cons": [{"prods": [[_a(0), _a(1)], [["f", 0, 0]]], "out": _a(2, -1)},
                                                       {"prods": [[_a(1, 1), _a(1)]], "out": _a(0, 1)}]}], "eq": [], "copies": []}),
    # two proofs, a committed instance column queried at rotations 0 and 1, a plain instance column
    "2proofs-instances-k4": dict(k=4, np=2, nbc=1, lens=[3, 3], shape={"adv": [0, 0, 0], "nfix": 1, "ninst": 2, "chal": [],
                                 "gates": [{"sel": "mul", "cons": [{"prods": [[_a(0), _a(1)], [["i", 0, 0], ["i", 0, 1]], [["i", 1, 0], ["f", 0, 0]]],
                                                                    "out": _a(2, -1)}]}], "eq": [], "copies": []}),
    # two phases, a challenge, an unblinded column, a degree-4 gate with rotations
    "2phase-challenge-k4": dict(k=4, np=1, nbc=0, lens=[3], shape={"adv": [0, 0, 1, 1], "unbl": [1], "nfix": 1, "ninst": 1, "chal": [0],
                                "gates": [{"sel": "cmul", "cons": [{"prods": [[["c", 0], _a(0), _a(1, -1)], [["i", 0, 1]]], "out": _a(2)},
                                                                   {"prods": [[_a(2), _a(0, 1)]], "out": _a(3, 1)}]}], "eq": [], "copies": []}),
}


def e2e_pairs(d):
    pr = symf.ProverRun(d)
    pairs, bad = [], []
    for q in d["guard"]:
        real, spec = pr.nf(q["eval"]), pr.spec_eval(q)
        if real != spec:
            bad.append(q["label"])
        for m in set(real) | set(spec):
            pairs.append((real.get(m, 0), spec.get(m, 0)))
    return pairs, bad, len(pr.ring.atoms)


def check_e2e(run, name, m):
    ob = core.Ob(f"C01/S/e2e/{name}/openings-consistent", ENGINE,
                 "every evaluation the real verifier claims (incl. the quotient's expected_h_eval) equals the value of the polynomial "
                 "the real prover committed, at the query point", functions=FUNCS + [
                     "proofs/src/plonk/evaluation.rs::Evaluator::evaluate_h", "proofs/src/plonk/mod.rs::evaluate_identities",
                     "proofs/src/plonk/vanishing/prover.rs::construct", "proofs/src/poly/domain.rs::coeff_to_extended",
                     "proofs/src/poly/domain.rs::extended_to_coeff", "proofs/src/poly/domain.rs::divide_by_vanishing_poly"],
                 bound=f"shape {name} k={m['k']} num_proofs={m['np']} committed={m['nbc']} lens={m['lens']}; all witnesses satisfying by construction, "
                       "all blinding scalars, public inputs, x", key="honest-proof-openings")
    run.add(ob)
    try:
        d = symf.sx("prover", shape=m["shape"], k=m["k"], np=m["np"], nbc=m["nbc"], lens=m["lens"], nodes=1, coms=1, guard=1)
        if "guard" not in d:
            raise RuntimeError(d.get("prepare_error") or d.get("create_proof_error"))
        pairs, bad, atoms = e2e_pairs(d)
        # twin: break the first constraint (drop its output cell): the free witness no longer satisfies it
        tw_shape = json.loads(json.dumps(m["shape"]))
        tw_shape["gates"][0]["cons"][0]["out"] = None
        td = symf.sx("prover", shape=tw_shape, k=m["k"], np=m["np"], nbc=m["nbc"], lens=m["lens"], nodes=1, coms=1, guard=1)
        tpairs, tbad, _ = e2e_pairs(td)
    except Exception as ex:
        ob.set(INCONCLUSIVE, f"{ex!r}"[:300])
        return
    if atoms:
        ob.set(INCONCLUSIVE, f"{atoms} opaque inverse atoms (shape outside the fragment)")
        return
    r = solvers.solve(symf.residual_smt(pairs), timeout=120)
    tw = solvers.solve(symf.residual_smt(tpairs), timeout=120)
    ob.queries += 2
    ob.vacuity = tw.status == "sat" and "custom:vanishing" in tbad
    member = dict(m)
    if r.status == "unsat" and not bad and ob.vacuity:
        ob.set(HOLDS, f"{len(d['guard'])} queries, {len(pairs)} monomials; twin (unsatisfied constraint) differs on {tbad}",
               solver=r.solver, solver_s=r.time_s + tw.time_s)
    elif r.status == "sat" or bad:
        payload = {"kind": "e2e", "member": member, "queries": bad}
        if replay(payload):
            ob.set(VIOLATION, f"claimed evaluation differs from the committed polynomial for {bad}", solver=r.solver,
                   solver_s=r.time_s, replay=_wr(run, ob, payload))
        else:
            ob.set(INCONCLUSIVE, f"mismatch on {bad} did not reproduce")
    else:
        ob.set(INCONCLUSIVE, f"solver {r.status}; twin {tw.status} {tbad}")
    run.log(f"e2e/{name}: {ob.status}")


def check(run):
    symf.build(run)
    cfgs = configs()
    if getattr(run, "only", None):
        cfgs = [c for c in cfgs if run.only in f"{c[0]}/np{c[1]}-c{c[2]}-p{c[3]}"] or cfgs
    run.bounds.append(f"C01/S: {len(cfgs)} (template, num_proofs, committed, plain) configurations, k=4, lookup-free shapes")
    run.assumptions += ["S: chi (the transcript hash) is injective on absorbed histories",
                        "S: SymCS commitments are interned handles of the committed vectors (equal vectors = equal commitments)"]
    run.outside += ["C01: lookups (value sorting concretises); shapes with a permutation argument in the e2e obligations (z is built with "
                    "inverses of witness-dependent terms: opaque atoms); MSM/pairing correctness and the KZG opening itself (C12/C14); "
                    "k > 4; C01-b as a separate hook-based comparison is subsumed by the e2e obligations on their fragment"]
    run.translator_validation.append(
        "S/C01: vacuity twin per configuration (one absorbed item removed on the verifier side must make the query sat); "
        "the F1 counterexample replays on the real stack and the configurations that HOLD are accepted there "
        "(spot-checked by `sx real` in notes/symfield.md)")
    e2e = E2E_SHAPES if not getattr(run, "only", None) else {k: v for k, v in E2E_SHAPES.items() if run.only in "e2e/" + k}
    run.bounds.append(f"C01/S e2e: {len(E2E_SHAPES)} permutation-free, lookup-free shapes (k=3,4; gates, trash, 2 phases + challenge, "
                      "2 proofs with committed+plain instances)")
    with ThreadPoolExecutor(max_workers=4) as ex:
        futs = [ex.submit(check_config, run, *c) for c in cfgs] + [ex.submit(check_e2e, run, n, m) for n, m in e2e.items()]
        for f in futs:
            try:
                f.result()
            except Exception as e:
                import traceback
                traceback.print_exc()
                ob = core.Ob("C01/S/engine", ENGINE, "engine S infrastructure")
                run.add(ob)
                ob.set(INCONCLUSIVE, f"crashed: {e!r}")
    bad = [x for x in REAL_XVAL if x[1] != "accepted" or not x[2]]
    run.translator_validation.append(
        f"S/C01: every configuration that HOLDS was also run on the real stack (Fq, KZG, Blake2b, MockProver on the "
        f"witness): {len(REAL_XVAL) - len(bad)}/{len(REAL_XVAL)} honest and accepted" + (f"; NOT accepted: {bad[:5]}" if bad else ""))
    if bad:
        run.log(f"cross-validation: HOLDS but not accepted on the real stack: {bad[:5]}")


def replay(payload):
    """The same shape on the real stack (Fq, KZG unsafe_setup, Blake2b). Reproduces iff the verifier
    rejects the honest proof (MockProver must accept the witness)."""
    if payload.get("engine_part") not in (None, "S") or payload.get("kind") not in ['honest-rejected', 'e2e']:
        return None
    symf.build()
    m = payload["member"]
    if payload["kind"] == "e2e":
        # concrete mode: witness, blinding, public inputs and challenges are constants; the same real prover and
        # verifier run; compare each claimed evaluation with the committed vector evaluated by definition
        d = symf.sx("prover", shape=m["shape"], k=m["k"], np=m["np"], nbc=m["nbc"], lens=m["lens"], nodes=1, coms=1, guard=1, vals={})
        pr = symf.ProverRun(d)
        bad = [q["label"] for q in d["guard"] if pr.dag.const(q["eval"]) != pr.spec_eval_concrete(q)]
        rd = symf.sx("real", shape=m["shape"], k=m["k"], np=m["np"], nbc=m["nbc"], lens=m["lens"])
        print(f"concrete run: claimed evaluation != committed polynomial at the point for {bad}; real stack verdict: {rd.get('verdict')}")
        return 1 if bad else 0
    d = symf.sx("real", shape=m["shape"], k=m["k"], np=m["np"], nbc=m["nbc"], lens=m["lens"] or [0])
    honest = all(x == "Ok(())" for x in d.get("mock_prover", []))
    print(f"real stack: mock_prover={d.get('mock_prover')} verdict={d.get('verdict')} create_proof_error={d.get('create_proof_error')}")
    if d.get("panicked"):
        print("the real verifier PANICKED (different finding); not counted as a reproduction of a schedule divergence")
        return 0
    return 1 if (honest and d.get("accepted") is False and "create_proof_error" not in d) else 0
