"""C11 (curve types), engine K part: decoder contracts of BLS12-381 G1/G2 (blst as a recording oracle
environment), the Jacobian coordinate helpers against the representation they wrap (finding F2), and the
sign / canonicity logic of the Jubjub affine decoder. Harnesses: /verif/engines/kani/curves/src/c11.rs."""
from vf import core, kani

CRATE = "engines/kani/curves"
H = kani.H
G1, G2, JJ = "curves/src/bls12_381/g1.rs", "curves/src/bls12_381/g2.rs", "curves/src/jubjub/curve.rs"
ORA = "all input bytes, all oracle answers"

SPECS = [
    # ------------------------------------------------------------------ G1
    H("c11::g1a_from_compressed_checked", "C11.K.g1a.from_compressed",
      "G1Affine::from_bytes/from_compressed is Some iff blst_p1_uncompress succeeded on these bytes AND the on-curve AND the subgroup oracle said yes for that very point; the value is that point",
      [f"{G1}::G1Affine::from_compressed", f"{G1}::<G1Affine as GroupEncoding>::from_bytes"], ORA, "G1Affine::from_compressed:contract", est=5, timeout={"quick": 600, "thorough": 1800}),
    H("c11::g1a_from_compressed_unchecked", "C11.K.g1a.from_compressed_unchecked",
      "G1Affine::from_bytes_unchecked is Some iff uncompress succeeded and consults neither the on-curve nor the subgroup oracle",
      [f"{G1}::G1Affine::from_compressed_unchecked", f"{G1}::<G1Affine as GroupEncoding>::from_bytes_unchecked"], ORA,
      "G1Affine::from_compressed_unchecked:contract", est=5),
    H("c11::g1a_from_uncompressed_on_curve", "C11.K.g1a.from_uncompressed.on_curve",
      "G1Affine::from_uncompressed is Some only if blst_p1_deserialize succeeded AND the on-curve oracle said yes for that point (and None only if a test failed)",
      [f"{G1}::G1Affine::from_uncompressed", f"{G1}::<G1Affine as UncompressedEncoding>::from_uncompressed"], ORA,
      "G1Affine::from_uncompressed:on-curve", est=8),
    H("c11::g1a_from_uncompressed_subgroup", "C11.K.g1a.from_uncompressed.subgroup",
      "G1Affine::from_uncompressed (checked) returns only points whose subgroup membership was established (is_torsion_free invariant of the type)",
      [f"{G1}::G1Affine::from_uncompressed"], ORA, "G1Affine::from_uncompressed:no-subgroup-check", est=8),
    H("c11::g1a_from_raw_bytes_subgroup", "C11.K.g1a.from_raw_bytes.subgroup",
      "G1Affine SerdeObject::from_raw_bytes (checked) returns only points whose subgroup membership was established",
      [f"{G1}::<G1Affine as SerdeObject>::from_raw_bytes"], ORA, "G1Affine::from_raw_bytes:no-subgroup-check", est=8),
    H("c11::g1a_read_raw_subgroup", "C11.K.g1a.read_raw.subgroup",
      "G1Affine SerdeObject::read_raw (checked; its error text names the subgroup) returns only points whose subgroup membership was established",
      [f"{G1}::<G1Affine as SerdeObject>::read_raw"], ORA, "G1Affine::read_raw:no-subgroup-check", est=10),
    H("c11::g1a_serde_object_contract", "C11.K.g1a.serde_object",
      "G1Affine from_raw_bytes / read_raw accept only (deserialize ok AND on-curve yes) and return that point; from_uncompressed_unchecked is Some iff deserialize ok, no oracle consulted",
      [f"{G1}::<G1Affine as SerdeObject>::from_raw_bytes", f"{G1}::<G1Affine as SerdeObject>::read_raw", f"{G1}::G1Affine::from_uncompressed_unchecked"],
      ORA, "G1Affine::SerdeObject:contract", est=15, timeout={"quick": 600, "thorough": 1800}),
    H("c11::g1p_from_compressed_contract", "C11.K.g1p.from_compressed",
      "G1Projective::from_bytes = affine checked decoder then blst_p1_from_affine of that very point; from_bytes_unchecked skips exactly the on-curve/subgroup oracles",
      [f"{G1}::G1Projective::from_compressed", f"{G1}::G1Projective::from_compressed_unchecked"], ORA, "G1Projective::from_compressed:contract", est=8, timeout={"quick": 600, "thorough": 1800}, oracle_fallback=["decode-offsubgroup", "g1p"], scenario_bin="replay_real"),
    H("c11::g1a_from_xy_contract", "C11.K.g1a.from_xy", "G1Affine::from_xy(x,y) is Some iff the on-curve oracle said yes for exactly (x,y)",
      [f"{G1}::<G1Affine as CurveAffine>::from_xy"], "all coordinate limbs, all oracle answers", "G1Affine::from_xy:contract", est=5),
    H("c11::g1p_jacobian_coordinates_is_representation", "C11.K.g1p.jacobian_coordinates",
      "G1Projective::jacobian_coordinates returns Z unchanged, hence must return the Jacobian X, Y that blst stores unchanged (blst_p1 is Jacobian)",
      [f"{G1}::<G1Projective as CurveExt>::jacobian_coordinates"], "all canonical non-zero x,y,z with z != 1 (field ops uninterpreted under Kani, real blst in the native replay)",
      "G1Projective::jacobian_coordinates:homogeneous-vs-jacobian", est=5),
    H("c11::g1p_new_jacobian_is_representation", "C11.K.g1p.new_jacobian",
      "G1Projective::new_jacobian stores Z unchanged, hence must store the given Jacobian X, Y unchanged",
      [f"{G1}::<G1Projective as CurveExt>::new_jacobian"], "all canonical non-zero x,y,z with z != 1, all oracle answers",
      "G1Projective::new_jacobian:homogeneous-vs-jacobian", est=8, timeout={"quick": 600, "thorough": 1800}),
    # ------------------------------------------------------------------ G2
    H("c11::g2a_from_compressed_contract", "C11.K.g2a.from_compressed",
      "G2Affine::from_bytes is Some iff uncompress ok AND on-curve AND subgroup oracle yes for that point; from_bytes_unchecked iff uncompress ok, no oracle consulted",
      [f"{G2}::G2Affine::from_compressed", f"{G2}::G2Affine::from_compressed_unchecked"], ORA, "G2Affine::from_compressed:contract", est=10, timeout={"quick": 600, "thorough": 1800}),
    H("c11::g2a_from_uncompressed_contract", "C11.K.g2a.from_uncompressed",
      "G2Affine from_uncompressed / from_raw_bytes / read_raw are Some iff deserialize ok AND on-curve AND subgroup oracle yes for that point; unchecked iff deserialize ok",
      [f"{G2}::G2Affine::from_uncompressed", f"{G2}::<G2Affine as SerdeObject>::from_raw_bytes", f"{G2}::<G2Affine as SerdeObject>::read_raw",
       f"{G2}::G2Affine::from_uncompressed_unchecked"], ORA, "G2Affine::from_uncompressed:contract", est=40, timeout={"quick": 600, "thorough": 1800}),
    H("c11::g2p_from_compressed_contract", "C11.K.g2p.from_compressed",
      "G2Projective::from_bytes = affine checked decoder then blst_p2_from_affine of that very point; unchecked skips exactly the oracles",
      [f"{G2}::G2Projective::from_compressed", f"{G2}::G2Projective::from_compressed_unchecked"], ORA, "G2Projective::from_compressed:contract", est=12, timeout={"quick": 600, "thorough": 1800}, oracle_fallback=["decode-offsubgroup", "g2p"], scenario_bin="replay_real"),
    H("c11::g2p_jacobian_coordinates_is_representation", "C11.K.g2p.jacobian_coordinates",
      "G2Projective::jacobian_coordinates returns Z unchanged, hence must return the stored Jacobian X, Y unchanged",
      [f"{G2}::<G2Projective as CurveExt>::jacobian_coordinates"], "all canonical x,y,z with non-zero real parts, z != 1",
      "G2Projective::jacobian_coordinates:homogeneous-vs-jacobian", est=8, timeout={"quick": 600, "thorough": 1800}),
    # ------------------------------------------------------------------ Jubjub
    H("c11::jubjub_affine_from_bytes_zip216", "C11.K.jubjub.affine.from_bytes",
      "JubjubAffine::from_bytes: accepted iff (sign-masked bytes canonical per blst) AND (square root exists) AND NOT (u = 0 with sign bit set); v from the masked bytes; u's sign fixed by lsb(to_bytes(u)) xor sign bit",
      [f"{JJ}::JubjubAffine::from_bytes", f"{JJ}::JubjubAffine::from_bytes_inner"], "all 32-byte inputs, every blst_fr_* answer and the square-root answer nondeterministic",
      "JubjubAffine::from_bytes:sign-canonicity", est=20, timeout={"quick": 600, "thorough": 1800}, replay=False, stubs=["ff::helpers::sqrt_tonelli_shanks"]),
    H("c11::jubjub_affine_from_bytes_pre_zip216", "C11.K.jubjub.affine.from_bytes_pre_zip216",
      "JubjubAffine::from_bytes_pre_zip216_compatibility: same without the u = 0 rule",
      [f"{JJ}::JubjubAffine::from_bytes_pre_zip216_compatibility", f"{JJ}::JubjubAffine::from_bytes_inner"], "all 32-byte inputs, every blst_fr_* answer and the square-root answer nondeterministic",
      "JubjubAffine::from_bytes_pre_zip216:sign-canonicity", est=20, timeout={"quick": 600, "thorough": 1800}, replay=False, stubs=["ff::helpers::sqrt_tonelli_shanks"]),
    H("c11::jubjub_affine_to_bytes_contract", "C11.K.jubjub.affine.to_bytes",
      "JubjubAffine::to_bytes = little-endian bytes of v with bit 255 := lsb of u's bytes",
      [f"{JJ}::JubjubAffine::to_bytes"], "all coordinate limbs, all oracle answers", "JubjubAffine::to_bytes:contract", est=8),
    # ------------------------------------------------------------------ Jubjub subgroup predicates (hook H9, scalar multiplication as an oracle)
    H("c11::jj_is_identity_definition", "C11.K.jubjub.is_identity",
      "JubjubExtended::is_identity is u = 0 AND v = z, JubjubAffine::is_identity is u = 0 AND v = 1, on arbitrary limbs; the identity constants are the identity",
      [f"{JJ}::JubjubExtended::is_identity", f"{JJ}::JubjubAffine::is_identity", f"{JJ}::JubjubExtended::identity"], "all 20-limb coordinate vectors",
      "Jubjub::is_identity:definition", est=5, flags=["--no-assertion-reach-checks"]),
    H("c11::jj_torsion_predicates_contract", "C11.K.jubjub.torsion_predicates",
      "is_torsion_free (inherent, CofactorGroup, affine), is_prime_order (extended, affine) and CofactorGroup::into_subgroup ask the scalar-multiplication oracle about exactly this "
      "point and the scalar r, and hold iff the answer is the identity as a projective point (u = 0 AND v = z); into_subgroup returns the point unchanged",
      [f"{JJ}::JubjubExtended::is_torsion_free", f"{JJ}::JubjubExtended::is_prime_order", f"{JJ}::<JubjubExtended as CofactorGroup>::into_subgroup",
       f"{JJ}::<JubjubExtended as CofactorGroup>::is_torsion_free", f"{JJ}::JubjubAffine::is_torsion_free", f"{JJ}::JubjubAffine::is_prime_order"],
      "all extended points (20 free limbs), all oracle answers (20 free limbs)", "Jubjub::is_torsion_free:identity-test", est=15, flags=["--no-assertion-reach-checks"], replay=False,
      stubs=["midnight_curves::JubjubExtended::multiply"]),
    H("c11::jj_torsion_free_point_of_order_2r", "C11.K.jubjub.torsion_free.order_2r",
      "is_torsion_free(G + (0,-1)) equals ([r]P is the identity): oracle contract under Kani, the real 252-step multiplication in the native replay (real [r]P = (0,-1))",
      [f"{JJ}::JubjubExtended::is_torsion_free", f"{JJ}::JubjubExtended::multiply"], "one concrete point of order 2r; all oracle answers",
      "Jubjub::is_torsion_free:order-2r-point", est=8, flags=["--no-assertion-reach-checks"], stubs=["midnight_curves::JubjubExtended::multiply"]),
    H("c11::jj_torsion_free_subgroup_point", "C11.K.jubjub.torsion_free.subgroup_point",
      "is_torsion_free(G) equals ([r]G is the identity) for a point G of the prime-order subgroup: oracle contract under Kani, real multiplication natively",
      [f"{JJ}::JubjubExtended::is_torsion_free", f"{JJ}::JubjubExtended::multiply"], "one concrete subgroup point; all oracle answers",
      "Jubjub::is_torsion_free:subgroup-point", est=8, flags=["--no-assertion-reach-checks"], stubs=["midnight_curves::JubjubExtended::multiply"]),
    H("c11::jj_is_small_order_contract", "C11.K.jubjub.is_small_order",
      "is_small_order (extended and affine) is: the u-coordinate of double(double(P)) is zero (double as an oracle)",
      [f"{JJ}::JubjubExtended::is_small_order", f"{JJ}::JubjubAffine::is_small_order"], "all points, all oracle answers", "Jubjub::is_small_order:contract",
      est=8, flags=["--no-assertion-reach-checks"], replay=False, stubs=["midnight_curves::JubjubExtended::double"]),
    H("c11::jj_subgroup_from_bytes_contract", "C11.K.jubjub.subgroup.from_bytes",
      "JubjubSubgroup::from_bytes is Some iff the affine decoder accepted AND the multiplication oracle answered the identity for the decoded point and r; "
      "from_bytes_unchecked is Some iff the affine decoder accepted and never consults it; the value is the decoded point",
      [f"{JJ}::<JubjubSubgroup as GroupEncoding>::from_bytes", f"{JJ}::<JubjubSubgroup as GroupEncoding>::from_bytes_unchecked",
       f"{JJ}::<JubjubExtended as GroupEncoding>::from_bytes"], "all 32-byte inputs, all oracle answers", "JubjubSubgroup::from_bytes:contract", est=60, flags=["--no-assertion-reach-checks"],
      timeout={"quick": 600, "thorough": 1800}, replay=False,
      stubs=["midnight_curves::JubjubExtended::multiply", "ff::helpers::sqrt_tonelli_shanks"]),
]
# harnesses whose assertion does not read the oracle logs are replayed against the REAL blst
REAL = {"c11::g1p_jacobian_coordinates_is_representation", "c11::g2p_jacobian_coordinates_is_representation",
        "c11::jj_torsion_free_point_of_order_2r", "c11::jj_torsion_free_subgroup_point"}
for s in SPECS:
    if s["harness"] in REAL:
        s["replay_bin"] = "replay_real"


def check(run):
    run.bounds.append("K/C11: every harness quantifies over ALL input bytes / coordinate limbs and ALL answers of the stubbed blst functions")
    run.outside += [
        "K/C11: group law, scalar multiplication, to_affine, batch_normalize, hash_to_curve (blst bodies); curve equation and subgroup membership themselves (oracles)",
        "K/C11: Jubjub extended-coordinate formulas (double, add, the 252-step `multiply`): oracles. The subgroup predicates are decided as contracts over the multiplication oracle "
        "(Rust-level stub: those harnesses are replay=False); the two concrete-point harnesses carry the native replay with the real multiplication",
        "K/C11: secp256k1 (k256), Curve25519 (dalek), BN254 (dev-only) curve types",
    ]
    obs = kani.run_harnesses(run, CRATE, SPECS)
    # corroboration with the REAL blst for the oracle-level subgroup finding (hand-built point (4, sqrt(68)) on E(Fp) \ G1)
    hit = [o for o in obs if o.status == core.VIOLATION and o.key.endswith(":no-subgroup-check")]
    if hit:
        rc, out = kani.native_tool(CRATE, "replay_real", ["--witness", "g1-uncompressed-subgroup"])
        note = ("real blst confirms: " if rc == 1 else f"real-blst witness did not confirm (rc={rc}): ") + " | ".join(out.strip().splitlines()[-2:])
        for o in hit:
            o.detail = (o.detail + " || " + note)[:900]
        run.translator_validation.append("K/C11 oracle-level finding cross-checked against the real blst library: " + note)


def replay(payload):
    return kani.replay(payload)
