"""C10 (field types), engine K part: Kani harnesses of /verif/engines/kani/curves/src/c10.rs.

Pure-Rust fields (Jubjub Fr, Curve25519 Fp): decoder canonicity over ALL byte strings and the carry-chain
operations against plain multi-limb integer arithmetic for ALL canonical operands. blst-backed fields
(BLS12-381 Fq, Fp): wrapper contracts with blst as a recording nondeterministic oracle, and the canonicity tests that
are written in Rust. Multiplication / squaring / inversion / Montgomery reduction as VALUES are engine M's."""
from vf import core, kani

CRATE = "engines/kani/curves"
H = kani.H
QX, CX = "curves/src/ff_ext/quadratic.rs", "curves/src/ff_ext/cubic.rs"


def _pure(prefix, ty, src, mod):
    f = lambda *names: [f"{src}::{ty}::{n}" for n in names]
    return [
        H(f"c10::{prefix}_ct_eq", f"C10.K.{prefix}.ct_eq", f"{ty}: ct_eq and == hold exactly when all four limbs are equal",
          f("ct_eq", "eq"), "all 2^512 limb pairs", f"{ty}::ct_eq", est=3),
        H(f"c10::{prefix}_cond_select", f"C10.K.{prefix}.conditional_select", f"{ty}: conditional_select(a,b,c) = a if c=0 else b, limb-wise",
          f("conditional_select"), "all limb pairs, both choices", f"{ty}::conditional_select", est=3),
        H(f"c10::{prefix}_is_zero", f"C10.K.{prefix}.is_zero", f"{ty}: is_zero <=> all limbs zero; ZERO is all-zero",
          f("is_zero", "ZERO"), "all 2^256 limb values", f"{ty}::is_zero", est=3),
        H(f"c10::{prefix}_add", f"C10.K.{prefix}.add", f"{ty}: a+b equals (a+b) mod {mod} as integers and is canonical",
          f("add"), "all canonical a,b (limbs < modulus)", f"{ty}::add", est=8),
        H(f"c10::{prefix}_sub", f"C10.K.{prefix}.sub", f"{ty}: a-b equals (a-b) mod {mod} as integers and is canonical",
          f("sub"), "all canonical a,b", f"{ty}::sub", est=8),
        H(f"c10::{prefix}_neg", f"C10.K.{prefix}.neg", f"{ty}: -a equals ({mod}-a) mod {mod}; -0 = 0; canonical",
          f("neg"), "all canonical a", f"{ty}::neg", est=4),
        H(f"c10::{prefix}_double", f"C10.K.{prefix}.double", f"{ty}: double(a) = a+a = 2a mod {mod}",
          f("double", "add"), "all canonical a", f"{ty}::double", est=6),
        H(f"c10::{prefix}_cancel", f"C10.K.{prefix}.neg_identities", f"{ty}: -(-a) = a, a+(-a) = 0",
          f("add", "neg"), "all canonical a", f"{ty}::neg-identities", est=10),
        H(f"c10::{prefix}_cancel2", f"C10.K.{prefix}.add_sub_identities", f"{ty}: (a-b)+b = a, (a+b)-b = a",
          f("add", "sub"), "all canonical a,b", f"{ty}::add-sub-identities", tiers=("thorough",), est=600, timeout=1800),
    ]


SPECS = (
    _pure("jfr", "Fr", "curves/src/jubjub/fr.rs", "r_jubjub") + _pure("cfp", "Fp", "curves/src/curve25519/fp.rs", "2^255-19") + [
    # ---- Jubjub Fr decoders
    H("c10::jfr_from_repr_canonical", "C10.K.jfr.from_repr.canonical",
      "Jubjub Fr::from_repr / from_bytes is Some exactly for byte strings below the modulus",
      ["curves/src/jubjub/fr.rs::Fr::from_bytes", "curves/src/jubjub/fr.rs::Fr::from_repr"], "all 2^256 byte strings",
      "jubjub::Fr::from_repr:canonicity", est=40, timeout={"quick": 600, "thorough": 1800}),
    # ---- Curve25519 Fp decoders
    H("c10::cfp_from_repr_canonical", "C10.K.cfp.from_repr.canonical",
      "Curve25519 Fp::from_repr is Some exactly for byte strings below 2^255-19",
      ["curves/src/curve25519/fp.rs::Fp::from_repr", "curves/src/curve25519/fp.rs::Fp::is_less_than_modulus"], "all 2^256 byte strings",
      "curve25519::Fp::from_repr:canonicity", est=80, timeout={"quick": 600, "thorough": 1800}),
    H("c10::cfp_from_bytes_canonical", "C10.K.cfp.from_bytes.canonical",
      "Curve25519 Fp::from_bytes (inherent) is Some exactly for byte strings below 2^255-19",
      ["curves/src/curve25519/fp.rs::Fp::from_bytes", "curves/src/curve25519/fp.rs::Fp::is_less_than_modulus"], "all 2^256 byte strings",
      "curve25519::Fp::from_bytes:canonicity", est=80, timeout={"quick": 600, "thorough": 1800}),
    H("c10::cfp_from_raw_bytes_canonical", "C10.K.cfp.from_raw_bytes.canonical",
      "Curve25519 Fp SerdeObject::from_raw_bytes is Some exactly for Montgomery limbs below p and returns those limbs; unchecked returns the limbs",
      ["curves/src/curve25519/fp.rs::Fp::from_raw_bytes", "curves/src/curve25519/fp.rs::Fp::from_raw_bytes_unchecked"],
      "all 2^256 byte strings", "curve25519::Fp::from_raw_bytes:canonicity", est=10),
    H("c10::cfp_from_raw_bytes_len", "C10.K.cfp.from_raw_bytes.len", "Curve25519 Fp::from_raw_bytes rejects every length other than 32",
      ["curves/src/curve25519/fp.rs::Fp::from_raw_bytes"], "slice lengths 0..=40, all contents", "curve25519::Fp::from_raw_bytes:length", est=5),
    H("c10::cfp_read_raw_canonical", "C10.K.cfp.read_raw.canonical", "Curve25519 Fp SerdeObject::read_raw is Ok exactly for limbs below p",
      ["curves/src/curve25519/fp.rs::Fp::read_raw"], "all 32-byte inputs", "curve25519::Fp::read_raw:canonicity", est=15),
    H("c10::cfp_raw_roundtrip", "C10.K.cfp.raw_roundtrip", "Curve25519 Fp: to_raw_bytes(from_raw_bytes_unchecked(b)) = b",
      ["curves/src/curve25519/fp.rs::Fp::to_raw_bytes", "curves/src/curve25519/fp.rs::Fp::from_raw_bytes_unchecked"],
      "all 32-byte inputs", "curve25519::Fp::raw-roundtrip", est=10),
    # ---- BLS12-381 Fq (blst_fr)
    H("c10::bfq_from_bytes_le_contract", "C10.K.bfq.from_bytes_le", "BLS Fq::from_bytes_le / from_repr is Some iff blst_scalar_fr_check accepted exactly these bytes; value = blst_fr_from_uint64 of their LE limbs",
      ["curves/src/bls12_381/fq.rs::Fq::from_bytes_le", "curves/src/bls12_381/fq.rs::Fq::from_repr"], "all 32-byte inputs, all oracle answers",
      "bls12_381::Fq::from_bytes_le:contract", est=5),
    H("c10::bfq_from_bytes_be_contract", "C10.K.bfq.from_bytes_be", "BLS Fq::from_bytes_be = from_bytes_le on the reversed bytes",
      ["curves/src/bls12_381/fq.rs::Fq::from_bytes_be"], "all 32-byte inputs, all oracle answers", "bls12_381::Fq::from_bytes_be:contract", est=5),
    H("c10::bfq_from_repr_vartime_canonical", "C10.K.bfq.from_repr_vartime.canonical",
      "BLS Fq::from_repr_vartime (canonicity test in Rust: is_valid) is Some exactly for byte strings below q",
      ["curves/src/bls12_381/fq.rs::Fq::from_repr_vartime", "curves/src/bls12_381/fq.rs::is_valid"], "all 2^256 byte strings",
      "bls12_381::Fq::from_repr_vartime:canonicity", est=10),
    H("c10::bfq_from_u64s_le_contract", "C10.K.bfq.from_u64s_le", "BLS Fq::from_u64s_le is Some iff the check oracle accepted the scalar built from these limbs",
      ["curves/src/bls12_381/fq.rs::Fq::from_u64s_le"], "all limb values, all oracle answers", "bls12_381::Fq::from_u64s_le:contract", est=5),
    H("c10::bfq_try_from_scalar_contract", "C10.K.bfq.try_from_scalar", "TryInto<Fq> for blst_scalar is Ok iff the check oracle accepted that scalar",
      ["curves/src/bls12_381/fq.rs::<blst_scalar as TryInto<Fq>>::try_into"], "all scalars, all oracle answers", "bls12_381::Fq::try_from_scalar:contract", est=5),
    H("c10::bfq_to_bytes_contract", "C10.K.bfq.to_bytes", "BLS Fq::to_bytes_le / to_repr / to_bytes_be are the LE (resp. reversed) bytes of blst_uint64_from_fr's answer",
      ["curves/src/bls12_381/fq.rs::Fq::to_bytes_le", "curves/src/bls12_381/fq.rs::Fq::to_bytes_be", "curves/src/bls12_381/fq.rs::Fq::to_repr"],
      "all limb values, all oracle answers", "bls12_381::Fq::to_bytes:contract", est=5),
    H("c10::bfq_ord_contract", "C10.K.bfq.ord", "BLS Fq Ord = integer order of the two to_bytes_be answers",
      ["curves/src/bls12_381/fq.rs::Fq::cmp"], "all limb values, all oracle answers", "bls12_381::Fq::cmp", est=8, timeout={"quick": 600, "thorough": 1800}),
    H("c10::bfq_eq_select", "C10.K.bfq.eq_select", "BLS Fq ct_eq/==/is_zero/conditional_select act limb-wise",
      ["curves/src/bls12_381/fq.rs::Fq::ct_eq", "curves/src/bls12_381/fq.rs::Fq::conditional_select", "curves/src/bls12_381/fq.rs::Fq::is_zero"],
      "all limb pairs", "bls12_381::Fq::eq-select", est=4),
    H("c10::bfq_from_uniform_bytes_contract", "C10.K.bfq.from_uniform_bytes", "BLS Fq::from_uniform_bytes = add(mul(lo,2^512 mod q), mul(hi,2^768 mod q)) with blst mul/add uninterpreted",
      ["curves/src/bls12_381/fq.rs::Fq::from_uniform_bytes"], "all 64-byte inputs", "bls12_381::Fq::from_uniform_bytes:contract", est=10, timeout={"quick": 600, "thorough": 1800}),
    H("c10::bfq_from_raw_bytes_rejects_noncanonical", "C10.K.bfq.from_raw_bytes.canonical",
      "BLS Fq SerdeObject::from_raw_bytes (the checked decoder) rejects Montgomery limbs >= q",
      ["curves/src/bls12_381/fq.rs::Fq::from_raw_bytes"], "all 2^256 byte strings", "bls12_381::Fq::from_raw_bytes:accepts-noncanonical", est=5),
    H("c10::bfq_read_raw_rejects_noncanonical", "C10.K.bfq.read_raw.canonical",
      "BLS Fq SerdeObject::read_raw (checked) rejects Montgomery limbs >= q",
      ["curves/src/bls12_381/fq.rs::Fq::read_raw"], "all 32-byte inputs", "bls12_381::Fq::read_raw:accepts-noncanonical", est=8),
    H("c10::bfq_raw_plumbing", "C10.K.bfq.raw_plumbing", "BLS Fq raw (de)serialisation: wrong lengths rejected, limbs are the LE words, to_raw_bytes inverts",
      ["curves/src/bls12_381/fq.rs::Fq::from_raw_bytes", "curves/src/bls12_381/fq.rs::Fq::from_raw_bytes_unchecked", "curves/src/bls12_381/fq.rs::Fq::to_raw_bytes"],
      "slice lengths 0..=40, all contents", "bls12_381::Fq::raw-plumbing", est=15),
    # ---- BLS12-381 Fp (blst_fp)
    H("c10::bfp_from_bytes_le_canonical", "C10.K.bfp.from_bytes_le.canonical",
      "BLS Fp::from_bytes_le / from_repr (canonicity test in Rust) is Some exactly for byte strings below p; value = blst_fp_from_lendian of these bytes",
      ["curves/src/bls12_381/fp.rs::Fp::from_bytes_le", "curves/src/bls12_381/fp.rs::is_valid", "curves/src/bls12_381/fp.rs::Fp::from_repr"],
      "all 2^384 byte strings", "bls12_381::Fp::from_bytes_le:canonicity", est=15, timeout={"quick": 600, "thorough": 1800}),
    H("c10::bfp_from_bytes_be_canonical", "C10.K.bfp.from_bytes_be.canonical", "BLS Fp::from_bytes_be is Some exactly for big-endian integers below p",
      ["curves/src/bls12_381/fp.rs::Fp::from_bytes_be"], "all 2^384 byte strings", "bls12_381::Fp::from_bytes_be:canonicity", est=15, timeout={"quick": 600, "thorough": 1800}),
    H("c10::bfp_from_u64s_le_canonical", "C10.K.bfp.from_u64s_le.canonical", "BLS Fp::from_u64s_le (Rust is_valid_u64) is Some exactly for limbs below p",
      ["curves/src/bls12_381/fp.rs::Fp::from_u64s_le", "curves/src/bls12_381/fp.rs::is_valid_u64"], "all 2^384 limb values",
      "bls12_381::Fp::from_u64s_le:canonicity", est=5),
    H("c10::bfp_to_bytes_contract", "C10.K.bfp.to_bytes", "BLS Fp::to_bytes_le / to_repr / to_bytes_be plumbing over blst_lendian_from_fp",
      ["curves/src/bls12_381/fp.rs::Fp::to_bytes_le", "curves/src/bls12_381/fp.rs::Fp::to_bytes_be", "curves/src/bls12_381/fp.rs::Fp::to_repr"],
      "all limb values, all oracle answers", "bls12_381::Fp::to_bytes:contract", est=8),
    H("c10::bfp_ord_contract", "C10.K.bfp.ord", "BLS Fp Ord = integer order of the two to_bytes_be answers",
      ["curves/src/bls12_381/fp.rs::Fp::cmp"], "all limb values, all oracle answers", "bls12_381::Fp::cmp", est=10, timeout={"quick": 600, "thorough": 1800}),
    H("c10::bfp_eq_select", "C10.K.bfp.eq_select", "BLS Fp ct_eq/==/is_zero/conditional_select act limb-wise",
      ["curves/src/bls12_381/fp.rs::Fp::ct_eq", "curves/src/bls12_381/fp.rs::Fp::conditional_select", "curves/src/bls12_381/fp.rs::Fp::is_zero"],
      "all limb pairs", "bls12_381::Fp::eq-select", est=4),
    H("c10::bfp_from_raw_bytes_rejects_noncanonical", "C10.K.bfp.from_raw_bytes.canonical",
      "BLS Fp SerdeObject::from_raw_bytes (the checked decoder) rejects Montgomery limbs >= p",
      ["curves/src/bls12_381/fp.rs::Fp::from_raw_bytes"], "all 2^384 byte strings", "bls12_381::Fp::from_raw_bytes:accepts-noncanonical", est=5),
    H("c10::bfp_read_raw_rejects_noncanonical", "C10.K.bfp.read_raw.canonical", "BLS Fp SerdeObject::read_raw (checked) rejects Montgomery limbs >= p",
      ["curves/src/bls12_381/fp.rs::Fp::read_raw"], "all 48-byte inputs", "bls12_381::Fp::read_raw:accepts-noncanonical", est=8),
    H("c10::bfp_raw_plumbing", "C10.K.bfp.raw_plumbing", "BLS Fp raw (de)serialisation: wrong lengths rejected, limbs are the LE words, to_raw_bytes inverts",
      ["curves/src/bls12_381/fp.rs::Fp::from_raw_bytes", "curves/src/bls12_381/fp.rs::Fp::from_raw_bytes_unchecked", "curves/src/bls12_381/fp.rs::Fp::to_raw_bytes"],
      "slice lengths 0..=56, all contents", "bls12_381::Fp::raw-plumbing", est=20),
    H("c10::bfp2_from_repr_total", "C10.K.bfp2.from_repr.total",
      "BLS Fp2::from_repr is total: Some exactly when both halves are below p, never a panic",
      ["curves/src/bls12_381/g2.rs::<Fp2 as PrimeField>::from_repr"], "all 2^768 byte strings", "bls12_381::Fp2::from_repr:panics-on-noncanonical", est=15, timeout={"quick": 600, "thorough": 1800}),
] + [
    # ---- generic extension towers at toy base fields (hook H8)
    H(f"c10::quad_arith_q{q}", f"C10.K.quadext.arith.q{q}",
      "QuadExtField<F>: add, sub, neg, double, mul, square, conjugate, norm, invert, is_zero, frobenius_map equal the schoolbook definitions in F[u]/(u^2+1)",
      [f"{QX}::QuadExtFieldArith::mul_assign", f"{QX}::QuadExtFieldArith::square_assign", f"{QX}::QuadExtField::norm", f"{QX}::QuadExtField::invert",
       f"{QX}::QuadExtField::conjugate", f"{QX}::QuadExtField::is_zero"],
      f"all pairs of elements of F_{q}^2 (toy base field F_{q})", f"QuadExtField:arith:q{q}", tiers=t, est=20, timeout={"quick": 300, "thorough": 1200},
      flags=["--no-assertion-reach-checks"])
    for q, t in ((7, ("quick", "thorough")), (11, ("thorough",)), (19, ("thorough",)))
] + [
    H(f"c10::quad_sqrt_q{q}", f"C10.K.quadext.sqrt.q{q}",
      "QuadExtField<F>::sqrt (sqrt_algo9) is Some exactly for the squares of F_{q^2} (exhaustive reference) and then root^2 = e",
      [f"{QX}::sqrt_algo9", f"{QX}::QuadExtField::sqrt"], f"all {q * q} elements of F_{q}^2 (toy base field F_{q})", f"QuadExtField:sqrt_algo9:q{q}",
      tiers=t, est=40, timeout={"quick": 300, "thorough": 1200}, flags=["--no-assertion-reach-checks"])
    for q, t in ((7, ("quick", "thorough")), (11, ("thorough",)), (19, ("thorough",)))
] + [
    H("c10::cubic_arith_c7", "C10.K.cubicext.arith.q7",
      "CubicExtField<F>: add, sub, neg, double, mul, square, invert equal the schoolbook definitions in F[v]/(v^3-3)",
      [f"{CX}::CubicExtFieldArith::mul_assign", f"{CX}::CubicExtFieldArith::square_assign", f"{CX}::CubicExtField::invert"],
      "all pairs of elements of F_7^3 (toy base field F_7)", "CubicExtField:arith:q7", est=30, timeout={"quick": 300, "thorough": 1200},
      flags=["--no-assertion-reach-checks"]),
    H("c10::cubic_is_zero_c7", "C10.K.cubicext.is_zero.q7", "CubicExtField<F>::is_zero holds exactly for the zero element",
      [f"{CX}::CubicExtField::is_zero"], "all 343 elements of F_7^3", "CubicExtField::is_zero:ignores-c2", est=5, flags=["--no-assertion-reach-checks"]),
])


def check(run):
    run.bounds.append("K/C10: every harness quantifies over ALL values of its symbolic inputs (byte strings / limb arrays / oracle answers); loops unwound to their code-derived bound with unwinding assertions on")
    run.outside += [
        "K/C10: mul, square, invert, sqrt, pow, from_u512/from_bytes_wide, Montgomery reduction as values (engine M); Fp2/Fp6/Fp12, BN254, secp256k1 (k256 crate), curve25519 Scalar (dalek)",
        "K/C10: Ord/PartialOrd and to_repr(from_repr(b)) = b of Jubjub Fr and Curve25519 Fp: both need the Montgomery reduction as a value "
        "(harnesses c10::jfr_ord, c10::cfp_ord, c10::*_repr_roundtrip exist but CBMC does not finish in 240 s: left to engine M)",
        "K/C10: QuadExtField / sqrt_algo9 / CubicExtField are decided at TOY base fields (F_7, F_11, F_19 with u^2 = -1; F_7 with v^3 = 3): the code is generic in the base field "
        "and only uses its field operations, so genericity is what transfers the statement to the bn256 tower; the toy field is the bound. Not covered: sqrt_algo10, the sparse "
        "multiplications (mul_by_014/034/01/1), Fq12-level code, the per-type specialisations (bn256 Fq2::square_assign, mul_by_nonresidue, frobenius coefficients), "
        "ff_ext/inverse.rs (BYInverter) and ff_ext/jacobi.rs (62-bit limb kernels, not generic in a field)",
        "K/C10: the C/assembly bodies of blst (every blst_* function is a nondeterministic oracle: only the Rust wrapper logic is claimed)",
    ]
    kani.run_harnesses(run, CRATE, SPECS)


def replay(payload):
    return kani.replay(payload)
