"""C18 (engine C, big-integer operands) — ZKIR operations on BigUint(n) values.

Programs `load; publish inputs; op; publish outputs` exactly as specs/parts/C18_C.py builds them. The REAL
off-circuit evaluator computes the instance the REAL compiled circuit must accept (honest run); the
soundness obligation `Sys => published_out = sem(op)(published_in)` is decided for all assignments.

Public-input encoding of BigUint(n) (zkir/src/instructions/operations/publish.rs ->
`AssignedBigUint::as_public_input(v, n)`): ceil(n / LOG2_BASE) limbs, little endian, base 2^LOG2_BASE.
The types of the published values (hence the number of cells of a result) are read from the run
(`extra.published`), the limb size from the extractor's `biguint` family (i.e. from the real encoder).
Specifications are integer arithmetic on val(limbs) = sum base^i limb_i (vf/cbig.py); failing off-circuit
evaluations (underflow, assertion, value too wide for into_bytes, zero modulus) are the Dom conjuncts."""
import importlib.util, os, random, re
from vf import core, cengine, csmt, cbig
from vf.cspec import *

P = csmt.P_BLS


def _load_part(name):
    spec = importlib.util.spec_from_file_location("part_" + name, os.path.join(core.VERIF, "specs", "parts", name + ".py"))
    m = importlib.util.module_from_spec(spec)
    spec.loader.exec_module(m)
    return m


C = _load_part("C18_C")
_LB = [None]


def lb():
    """limb size of the BigUint gadget, recovered from the real off-circuit encoder by the extractor"""
    if _LB[0] is None:
        s = cengine.extract("biguint", "assign", {"bx": 8}, [1], 10)
        _LB[0] = int(s.d["extra"]["log2_base"])
        cbig.LB_DEFAULT = _LB[0]
    return _LB[0]


def BU(n):
    return ("biguint", n)


def cells_of(t):
    """number of instance cells of a published value of the IrType printed as `t`"""
    if t in ("Bool", "Native"):
        return 1
    m_ = re.match(r"(Bytes|BigUint)\((\d+)\)$", t)
    if not m_:
        raise NotImplementedError(f"published type {t}")
    n = int(m_.group(2))
    return n if m_.group(1) == "Bytes" else max(1, -(-n // lb()))     # BigUint(0): one limb


def published(e, I, O, n_in):
    """[(kind, cells, n)] of the published inputs and outputs, following the types the run recorded"""
    ts = [p.rsplit(":", 1)[1] for p in e.extra["published"]]
    ins, outs = [], []
    pi = po = 0
    for k, t in enumerate(ts):
        c = cells_of(t)
        m_ = re.match(r"(Bytes|BigUint)\((\d+)\)$", t)
        kind = (m_.group(1), int(m_.group(2))) if m_ else (t, None)
        if k < n_in:
            ins.append((kind[0], list(I[pi:pi + c]), kind[1]))
            pi += c
        else:
            outs.append((kind[0], list(O[po:po + c]), kind[1]))
            po += c
    assert pi == len(I) and po == len(O), (pi, len(I), po, len(O), ts)
    return ins, outs


def V(e, big):
    return cbig.val(e, big[1], lb())


def W(e, big):
    assert big[0] == "BigUint", big[0]
    return cbig.within(e, big[1], big[2], lb()) if big[2] else AND(*[eq(l, 0) for l in big[1]])


def S_arith(kind):
    def spec(e, I, O):
        (x, y), (z,) = published(e, I, O, 2)
        dom = AND(W(e, x), W(e, y), W(e, z))
        if kind == "add":
            return AND(dom, eq(V(e, z), f"(+ {V(e, x)} {V(e, y)})"))
        if kind == "sub":
            return AND(dom, le(V(e, y), V(e, x)), eq(V(e, z), f"(- {V(e, x)} {V(e, y)})"))
        return AND(dom, eq(V(e, z), cbig.prodsum(e, x[1], y[1], lb())))
    return spec


def S_inner(n):
    def spec(e, I, O):
        ins, (z,) = published(e, I, O, 2 * n)
        terms = [cbig.prodsum(e, ins[i][1], ins[n + i][1], lb()) for i in range(n)]
        return AND(*[W(e, b) for b in ins], W(e, z), eq(V(e, z), "(+ 0 " + " ".join(terms) + ")"))
    return spec


def S_is_equal(e, I, O):
    (x, y), (b,) = published(e, I, O, 2)
    return AND(W(e, x), W(e, y), isbit(b[1][0]), eq(b[1][0], b2i(eq(V(e, x), V(e, y)))))


def S_assert(neg):
    def spec(e, I, O):
        (x, y), _ = published(e, I, O, 2)
        c = eq(V(e, x), V(e, y))
        return AND(W(e, x), W(e, y), NOT(c) if neg else c)
    return spec


def S_into_bytes(k):
    def spec(e, I, O):
        (x,), (b,) = published(e, I, O, 1)
        assert b[0] == "Bytes" and len(b[1]) == k
        # a value that does not fit k bytes makes the evaluation fail: the circuit must be unsatisfiable
        return AND(W(e, x), *[lt(o, 256) for o in b[1]], eq(V(e, x), e.named_sum([(256 ** i, o) for i, o in enumerate(b[1])])))
    return spec


def S_from_bytes(k):
    def spec(e, I, O):
        (b,), (z,) = published(e, I, O, 1)
        return AND(*[lt(x, 256) for x in b[1]], W(e, z), eq(V(e, z), e.named_sum([(256 ** i, x) for i, x in enumerate(b[1])])))
    return spec


def _modexp_operands(e, I, O):
    (x, m), (z,) = published(e, I, O, 2)
    return x[1], x[2], m[1], m[2], z[1], z[2]


def V_zero_modulus(e, I, O):
    (x, m), _ = published(e, I, O, 2)
    return eq(V(e, m), 0)


def V_exp1_unreduced(e, I, O):
    (x, m), (z,) = published(e, I, O, 2)
    return AND(lt(0, V(e, m)), le(V(e, m), V(e, x)), eq(V(e, z), V(e, x)))


def V_exp0_modulus_one(e, I, O):
    (x, m), (z,) = published(e, I, O, 2)
    return AND(eq(V(e, m), 1), eq(V(e, z), 1))


MODEXP_VARIANTS = [("zero-modulus-accepted", V_zero_modulus), ("exponent-one-result-not-reduced", V_exp1_unreduced),
                   ("exponent-zero-modulus-one", V_exp0_modulus_one)]


def ncell(t):
    return max(1, -(-t[1] // lb())) if t[0] == "biguint" else t[1]     # BigUint(0) is one limb (the constant 0)


def bent(name, op, in_types, values, spec, alt=(), nout=1, variants=(), **shape):
    """`name` is the role (it becomes the finding key zkir/<name>); the shape goes into the parameters (the
    zkir arm of the extractor only reads prog / nin), hence into the obligation id"""
    nin = sum(ncell(t) for t in in_types)
    en = C.ent(name, op, in_types, values, spec, nin, alt=alt, nout=nout)
    en["params"].update({k_: v for k_, v in shape.items()})
    en["monomial"] = True
    en["variants"] = list(variants)
    return en


def family(tier, seed):
    rnd = random.Random(18500 + seed)
    R = lambda b: rnd.randrange(1 << b)
    E = []
    widths = [8, 64, 120, 128, 200]
    pairs = [(8, 8), (64, 64), (120, 128), (200, 200)] if tier == "quick" else \
        [(a, b) for a in widths for b in widths if a <= b] + [(200, 8), (128, 64)]
    for a, b in pairs:
        ma, mb = (1 << a) - 1, (1 << b) - 1
        tag = "[biguint]"
        E.append(bent("add" + tag, "add", [BU(a), BU(b)], [R(a), R(b)], S_arith("add"), alt=[[0, 0], [ma, mb], [ma, 0]], a=a, b=b))
        x, y = R(a), R(b)
        if x < y:
            x, y = (y, x) if y <= ma else (ma, y & ma)
        E.append(bent("sub" + tag, "sub", [BU(a), BU(b)], [x, y], S_arith("sub"), alt=[[0, 0], [ma, min(ma, mb)], [min(ma, mb), min(ma, mb)]], a=a, b=b))
        E.append(bent("mul" + tag, "mul", [BU(a), BU(b)], [R(a), R(b)], S_arith("mul"), alt=[[0, 0], [ma, mb], [1, mb]], a=a, b=b))
        x = R(min(a, b))
        E.append(bent("is_equal" + tag, "is_equal", [BU(a), BU(b)], [x, x], S_is_equal, alt=[[x, x ^ 1], [0, 0], [ma, mb], [0, mb]], a=a, b=b))
        E.append(bent("assert_equal" + tag, "assert_equal", [BU(a), BU(b)], [x, x], S_assert(False), nout=0, alt=[[0, 0]], a=a, b=b))
        E.append(bent("assert_not_equal" + tag, "assert_not_equal", [BU(a), BU(b)], [x, x ^ 1], S_assert(True), nout=0, alt=[[0, mb], [ma, 0]], a=a, b=b))
    # BigUint(0) ("an integer in [0, 2^0)"): the only value is 0
    E.append(bent("is_equal[biguint]", "is_equal", [BU(0), BU(0)], [0, 0], S_is_equal, a=0, b=0))
    E[-1]["maypanic"] = True
    E[-1]["params"]["k"] = 10      # explicit k: MidnightCircuit::min_k unwraps a synthesis error (dev tool), a clean refusal must stay visible
    for n, (a, b) in ([(1, (64, 128)), (2, (64, 64)), (2, (120, 200))] if tier == "quick" else
                      [(1, (64, 128)), (2, (8, 8)), (2, (64, 64)), (2, (120, 200)), (3, (128, 128)), (2, (200, 200))]):
        vals = [R(a) for _ in range(n)] + [R(b) for _ in range(n)]
        E.append(bent("inner_product[biguint]", "inner_product", [BU(a)] * n + [BU(b)] * n, vals, S_inner(n),
                      alt=[[0] * (2 * n), [(1 << a) - 1] * n + [(1 << b) - 1] * n], n=n, a=a, b=b))
    # into_bytes(k): k <= bytes of the limbs (larger k is a known panic being fixed elsewhere)
    for a, k in ([(8, 1), (64, 8), (64, 12), (120, 12), (128, 16), (200, 24), (200, 25)] if tier == "quick" else
                 [(8, 1), (8, 2), (8, 12), (64, 8), (64, 7), (64, 12), (120, 15), (120, 12), (128, 16), (128, 24), (200, 24), (200, 25), (200, 36)]):
        vmax = min(1 << a, 1 << (8 * k)) - 1
        E.append(bent("into_bytes[biguint]", {"into_bytes": k}, [BU(a)], [rnd.randrange(vmax + 1)], S_into_bytes(k), alt=[[0], [vmax]], a=a, bytes=k))
    # declared widths that are NOT a multiple of 8: the partial top byte (bits 8*floor(w/8) .. w-1) lies beyond
    # the k requested bytes when k = floor(w/8) or k = 1 and must be forced to zero like every other dropped byte
    seen = {(64, 8)}
    for w in [9, 12, 21, 64]:
        for k in [w // 8, -(-w // 8), 1]:
            if (w, k) in seen or k == 0:
                continue
            seen.add((w, k))
            vmax = min(1 << w, 1 << (8 * k)) - 1
            E.append(bent("into_bytes[biguint]", {"into_bytes": k}, [BU(w)], [rnd.randrange(vmax + 1)], S_into_bytes(k), alt=[[0], [vmax], [1 << (min(w, 8 * k) - 1)]], a=w, bytes=k))
    for n, k in ([(8, 1), (64, 8), (128, 13), (200, 25)] if tier == "quick" else
                 [(8, 1), (16, 1), (64, 8), (120, 12), (120, 15), (128, 13), (128, 16), (200, 24), (200, 25)]):
        bs = [rnd.randrange(256) for _ in range(k)]
        E.append(bent("from_bytes[biguint]", {"from_bytes": {"BigUint": n}}, [("bytes", k)], [bs], S_from_bytes(k), alt=[[[0] * k], [[255] * k]], a=n, bytes=k))
    for ex in [0, 1, 2, 3]:
        for a, b in ([(8, 8), (64, 64)] if tier == "quick" else [(8, 8), (64, 64), (120, 64), (128, 128), (200, 200)]):
            if ex >= 3 and a > 192:
                continue        # three-limb operands with two modular multiplications: 600 s timeout measured (run.outside)
            m = R(b) | (1 << (b - 1)) | 1
            x = R(a)
            if ex == 1:
                x %= m          # the honest run must satisfy the specification (x^1 mod m = x only when x < m)
            for claim in ["value", "dom"]:
                E.append(bent("mod_exp[biguint]", {"mod_exp": ex}, [BU(a), BU(b)], [x, m], cbig.S_mod_exp(ex, _modexp_operands, claim),
                              variants=MODEXP_VARIANTS, alt=[[0, m], [1, m], [m - 1 if a >= b else 1, m]], a=a, b=b, e=ex, claim=claim))
    return E


def check(run):
    t = core.tier()
    only = getattr(run, "only", None)
    cengine.build(run)
    lb()
    ents = family(t, core.seed())
    for en in ents:
        en["k"] = 0          # zkir circuits choose their own k (MidnightCircuit::min_k)
    run.assumptions += ["C18/B: BigUint(n) values are identified with their published limbs (ceil(n/LOG2_BASE) cells, base 2^LOG2_BASE little endian), the encoding `AssignedBigUint::as_public_input` documents; the limb size is recovered from the real encoder"]
    run.outside += ["C18/B: into_bytes(k) on BigUint with k beyond the bytes of its limbs and on Native with k = 2^32 (known panics, being fixed separately); BigUint(0); mod_exp exponents above 3 and exponent 3 on three-limb (200-bit) operands (600 s timeout measured); operands above 200 bits"]
    run.bounds.append(f"C18/B tier={t}: {len(ents)} one-operation programs over BigUint(n), n in {{8, 64, 120, 128, 200}}, limb size {lb()}")
    ents = cbig.split_panicking(run, "zkir", ents)
    cengine.run_family(run, "zkir", ents, timeout=60 if t == "quick" else 600, only=only, workers=6)
    offcircuit_failures(run)


def offcircuit_failures(run):
    """Concrete companion of the Dom conjuncts (not a solver obligation): on inputs outside the domain the REAL
    off-circuit evaluator must FAIL (return an error), which is what `evaluation fails <=> circuit
    unsatisfiable` needs on the off-circuit side; the in-circuit side is the Dom conjunct decided above."""
    import json, subprocess
    only = getattr(run, "only", None)
    ob = core.Ob("zkir/offcircuit-failure[biguint]", "C", "the real off-circuit evaluation returns an error on inputs outside the operation's domain",
                 functions=["zkir::parser::offcircuit", "ZkirRelation::public_inputs"], bound="sub underflow, violated assertions, into_bytes of a too wide value; BigUint(n), n in {8, 9, 12, 21, 64, 128, 200}",
                 key="zkir/offcircuit-failure[biguint]")
    run.add(ob)
    if only and only not in ob.id:
        ob.set(core.HOLDS, "skipped by --only")
        ob.nontrivial = False
        return
    cases = []
    for n in [8, 64, 128, 200]:
        mx = (1 << n) - 1
        cases += [("sub", "sub", [BU(n), BU(n)], [0, 1], 1), ("sub", "sub", [BU(n), BU(n)], [mx - 1, mx], 1),
                  ("assert_equal", "assert_equal", [BU(n), BU(n)], [mx, mx - 1], 0), ("assert_not_equal", "assert_not_equal", [BU(n), BU(n)], [mx, mx], 0)]
        if n > 8:
            cases += [("into_bytes", {"into_bytes": 1}, [BU(n)], [256], 1), ("into_bytes", {"into_bytes": n // 8 - 1}, [BU(n)], [1 << (n - 8)], 1)]
    # values reaching into the partial top byte of a width that is not a multiple of 8
    for w in [9, 12, 21]:
        for k_ in sorted({w // 8, 1}):
            cases += [("into_bytes", {"into_bytes": k_}, [BU(w)], [(1 << w) - 1], 1), ("into_bytes", {"into_bytes": k_}, [BU(w)], [1 << (8 * k_)], 1)]
    cases.append(("into_bytes", {"into_bytes": 1}, [BU(12)], [0xABC], 1))
    bad = []
    try:
        for name, op, types, vals, nout in cases:
            path = C.write_prog(C.program(op, types, vals, nout))
            p = subprocess.run([cengine.CX, "zkir", "op=" + name, f"p.prog={path}", "p.nin=0"], capture_output=True, text=True)
            ob.queries += 1
            if p.returncode != 0:
                bad.append((name, [hex(v) for v in vals], "panic: " + p.stderr[p.stderr.find("panicked"):][:160]))
                continue
            d = json.loads(p.stdout)
            if d["extra"].get("offcircuit_ok") is not False:
                bad.append((name, [hex(v) for v in vals], "evaluation succeeded: " + str(d["extra"].get("published"))[:160]))
        ob.nontrivial = False
        if bad:
            ob.set(core.VIOLATION, f"off-circuit evaluation does not fail on out-of-domain inputs: {bad[:3]}",
                   replay=run.write_replay(ob, dict(kind="offcircuit-failure", cases=bad[:8], engine_part="B")))
        else:
            ob.set(core.HOLDS, f"{len(cases)} concrete out-of-domain programs")
    except Exception as ex:  # noqa
        ob.set(core.INCONCLUSIVE, repr(ex))


def replay(payload):
    if payload.get("kind") != "offcircuit-failure":
        return None
    return 1 if payload.get("cases") else 0
