"""C14 (KZG multi-opening), engine K part: construct_intermediate_sets. NOT DECIDED by engine K.

Measured on this tree with Kani 0.68 / CBMC 6.11: every function that drops or walks a BTreeMap / HashMap
keyed by symbolic values, or that builds `Vec`s of symbolic length inside `collect::<Result<..>>`, either does
not terminate in symbolic execution or exceeds 12 GB (see notes/K2.md: HashMap probing with symbolic hashes,
io::Error bit-packed drops, recursive drop glue). `construct_intermediate_sets` (proofs/src/poly/kzg/utils.rs,
crate-private) is exactly such a function (BTreeSet of points, HashMap commitment -> point set, nested Vecs).
The obligation is therefore left to engine S (C14_S: executed on symbolic field terms) and listed as outside
the K claim; no obligation is registered here."""
from vf import core


def check(run):
    run.outside.append("K/C14: construct_intermediate_sets regrouping / DuplicatedQuery: not decided by engine K (HashMap/BTreeMap over symbolic keys is out of CBMC's reach here; see specs/parts/C14_K.py docstring); decided, as far as it is, by engine S")
