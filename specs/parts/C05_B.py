"""C05 (big-integer side, engine C) — BigUintGadget and bit/byte conversions of emulated field elements.

(1) `BigUintGadget<F, NativeGadget>` (circuits/src/biguint): one extracted circuit per operation and
    per operand shape (bit widths spanning 1..4 limbs of the gadget's base 2^LOG2_BASE). Operands come
    in through the real `assign_biguint(v, nb_bits)` and their limbs are put on the instance column by the
    gadget's own `constrain_as_public_input`; results likewise, with the bound the gadget derives for
    them (`nb_bits()`, read from the run, `extra.big`). Specifications are integer arithmetic on
        val(limbs) = sum_i base^i * limb_i,
    never derived from the gadget: `Sys => Dom(in) and out = f(in) and out within its recorded bound`
    for every assignment of every cell. Limb products are exact integers (range-checked limbs) and are the
    same atoms in the gates and in the specification (e.fmul), so the queries stay linear.
(2) bit / byte conversions of EMULATED field elements (FieldChip): the bits / bytes are THE canonical
    representation of the residue for every well-formed limb representation of the input (foreign-field
    chain entries, `ff=True`).
"""
import importlib.util, os, random
from vf import core, cengine, csmt, cbig
from vf.cbig import LB
from vf.cspec import *

P = csmt.P_BLS


def _load(name):
    spec = importlib.util.spec_from_file_location("spec_" + name, os.path.join(core.VERIF, "specs", name + ".py"))
    m = importlib.util.module_from_spec(spec)
    spec.loader.exec_module(m)
    return m


# ------------------------------------------------------------------------------------------------
# BigUintGadget
# ------------------------------------------------------------------------------------------------

def layout(e, I, O, lead_in=0, lead_out=0):
    """split the instance cells into big integers following the run's own record (extra.big):
    returns (ins, outs), each a list of (limbs, nb_bits). `lead_in` native cells (bits/bytes) precede the
    big inputs."""
    ins, outs = [], []
    pi, po = lead_in, lead_out
    for b in e.extra["big"]:
        n = int(b["cells"])
        if b["dir"] == "in":
            ins.append((list(I[pi:pi + n]), int(b["nb_bits"])))
            pi += n
        else:
            outs.append((list(O[po:po + n]), int(b["nb_bits"])))
            po += n
    return ins, outs


def val(e, limbs):
    return cbig.val(e, limbs)


def within(e, big):
    return cbig.within(e, big[0], big[1])


def prodsum(e, xs, ys):
    return cbig.prodsum(e, xs, ys)


def S_assign(e, I, O):
    (x,), _ = layout(e, I, O)
    return within(e, x)


def S_fixed(c):
    def spec(e, I, O):
        _, (z,) = layout(e, I, O)
        return AND(within(e, z), eq(val(e, z[0]), c))
    return spec


def S_arith(kind):
    def spec(e, I, O):
        (x, y), (z,) = layout(e, I, O)
        vx, vy, vz = val(e, x[0]), val(e, y[0]), val(e, z[0])
        dom = AND(within(e, x), within(e, y))
        if kind == "add":
            body = eq(vz, f"(+ {vx} {vy})")
        elif kind == "sub":
            # underflow must be unsatisfiable
            body = AND(le(vy, vx), eq(vz, f"(- {vx} {vy})"))
        else:
            body = eq(vz, prodsum(e, x[0], y[0]))
        return AND(dom, body, within(e, z))
    return spec


def S_is_equal(neg=False):
    def spec(e, I, O):
        (x, y), _ = layout(e, I, O)
        c = eq(val(e, x[0]), val(e, y[0]))
        return AND(within(e, x), within(e, y), isbit(O[0]), eq(O[0], b2i(NOT(c) if neg else c)))
    return spec


def S_is_fixed(c, neg=False):
    def spec(e, I, O):
        (x,), _ = layout(e, I, O)
        cond = eq(val(e, x[0]), c)
        return AND(within(e, x), isbit(O[0]), eq(O[0], b2i(NOT(cond) if neg else cond)))
    return spec


def S_assert(kind, c=None):
    def spec(e, I, O):
        ins, _ = layout(e, I, O)
        x = ins[0]
        if kind in ("assert_equal", "assert_not_equal"):
            y = ins[1]
            cond = eq(val(e, x[0]), val(e, y[0]))
            return AND(within(e, x), within(e, y), cond if kind == "assert_equal" else NOT(cond))
        cond = eq(val(e, x[0]), c)
        return AND(within(e, x), cond if kind in ("assert_equal_to_fixed", "assert_zero") else NOT(cond))
    return spec


def S_lower_than(e, I, O):
    (x, y), _ = layout(e, I, O)
    return AND(within(e, x), within(e, y), isbit(O[0]), eq(O[0], b2i(lt(val(e, x[0]), val(e, y[0])))))


def S_select(e, I, O):
    (x, y), (z,) = layout(e, I, O, lead_in=1)
    vz = val(e, z[0])
    return AND(isbit(I[0]), within(e, x), within(e, y), within(e, z),
               eq(vz, ITE(eq(I[0], 1), val(e, x[0]), val(e, y[0]))))


def S_div_rem(e, I, O):
    (x, y), (q, r) = layout(e, I, O)
    # x = q*y + r with 0 <= r < y (which makes a zero divisor unsatisfiable); q*y expanded over the limb products
    return AND(within(e, x), within(e, y), within(e, q), within(e, r),
               eq(val(e, x[0]), f"(+ {prodsum(e, q[0], y[0])} {val(e, r[0])})"),
               lt(val(e, r[0]), val(e, y[0])))


def S_to_bits(e, I, O):
    (x,), _ = layout(e, I, O)
    lb = LB(e)
    assert len(O) == lb * len(x[0]), (len(O), len(x[0]))
    return AND(within(e, x), *[isbit(o) for o in O],
               eq(val(e, x[0]), e.named_sum([(1 << j, o) for j, o in enumerate(O)])))


def S_to_bytes(e, I, O):
    (x,), _ = layout(e, I, O)
    lb = LB(e)
    assert len(O) == lb // 8 * len(x[0]), (len(O), len(x[0]))
    return AND(within(e, x), *[lt(o, 256) for o in O],
               eq(val(e, x[0]), e.named_sum([(256 ** j, o) for j, o in enumerate(O)])))


def S_from(n, base):
    def spec(e, I, O):
        _, (z,) = layout(e, I, O, lead_in=n)
        return AND(*[lt(x, base) for x in I[:n]], within(e, z),
                   eq(val(e, z[0]), e.named_sum([(base ** j, x) for j, x in enumerate(I[:n])])))
    return spec


def _modexp_operands(e, I, O):
    (x, m), (z,) = layout(e, I, O)
    return x[0], x[1], m[0], m[1], z[0], z[1]


def S_mod_exp(n, claim="value"):
    """out = x^n mod m for m > 0 (closed form with the integer `mod`; hints for the hidden quotients:
    vf/cbig.py); claim "dom": a zero modulus is unsatisfiable"""
    return cbig.S_mod_exp(n, _modexp_operands, claim)


def V_zero_modulus(e, I, O):
    (x, m), _ = layout(e, I, O)
    return eq(val(e, m[0]), 0)


def V_exp1_unreduced(e, I, O):
    (x, m), (z,) = layout(e, I, O)
    return AND(lt(0, val(e, m[0])), le(val(e, m[0]), val(e, x[0])), eq(val(e, z[0]), val(e, x[0])))


def V_exp0_modulus_one(e, I, O):
    (x, m), (z,) = layout(e, I, O)
    return AND(eq(val(e, m[0]), 1), eq(val(e, z[0]), 1))


MODEXP_VARIANTS = [("zero-modulus-accepted", V_zero_modulus), ("exponent-one-result-not-reduced", V_exp1_unreduced),
                   ("exponent-zero-modulus-one", V_exp0_modulus_one)]


def bent(op, spec, ins, params=None, alt=(), k=11, what="", monomial=True, variants=()):
    return dict(op=op, spec=spec, ins=list(ins), params=dict(params or {}), alt=[list(a) for a in alt], k=k, what=what,
                monomial=monomial, functions=[f"BigUintGadget::{op}"], variants=list(variants))


def big_family(tier, seed):
    rnd = random.Random(5500 + seed)
    E = []
    R = lambda b: rnd.randrange(1 << b)
    widths = [8, 100, 192, 384] if tier == "quick" else [1, 8, 95, 96, 97, 100, 191, 192, 200, 288, 300, 384]
    for b in widths:
        E.append(bent("assign", S_assign, [R(b)], {"bx": b}, alt=[[0], [(1 << b) - 1]]))
    # BigUint of 0 bits ("an integer in [0, 2^0)"): the only value is 0
    E.append(bent("assign", S_assign, [0], {"bx": 0}))
    E[-1]["maypanic"] = True
    for c in ([0, 1 << 96, R(200)] if tier == "quick" else [0, 1, (1 << 96) - 1, 1 << 96, R(200), R(384)]):
        E.append(bent("assign_fixed", S_fixed(c), [], {"c": c}))
    pairs = [(8, 8), (96, 96), (100, 128), (192, 96), (288, 200), (384, 300)] if tier == "quick" else \
        [(1, 1), (8, 8), (96, 96), (97, 96), (100, 128), (192, 96), (192, 192), (288, 200), (384, 384), (8, 384)]
    for bx, by in pairs:
        mx, my = (1 << bx) - 1, (1 << by) - 1
        E.append(bent("add", S_arith("add"), [R(bx), R(by)], {"bx": bx, "by": by}, alt=[[0, 0], [mx, my], [mx, 0], [1, my]]))
        x, y = R(bx), R(by)
        if x < y:
            x, y = (y, x) if y <= mx else (mx, y & mx)
        E.append(bent("sub", S_arith("sub"), [x, y], {"bx": bx, "by": by}, alt=[[0, 0], [mx, min(mx, my)], [mx, 0], [min(mx, my), min(mx, my)]]))
        E.append(bent("mul", S_arith("mul"), [R(bx), R(by)], {"bx": bx, "by": by}, alt=[[0, 0], [mx, my], [mx, 0], [1, my]], k=12, monomial=True))
    cmp_pairs = [(8, 8), (96, 96), (100, 192), (288, 200), (384, 384)] if tier == "quick" else \
        [(1, 1), (8, 8), (96, 96), (97, 96), (100, 192), (192, 192), (288, 200), (384, 384), (8, 384)]
    for bx, by in cmp_pairs:
        mx, my = (1 << bx) - 1, (1 << by) - 1
        mn = min(mx, my)
        x = R(min(bx, by))
        edge = [[x, x], [0, 0], [mn, mn], [0, my], [mx, 0], [x, (x + 1) & my], [(x + 1) & mx, x]]
        if min(bx, by) > 96:
            edge += [[x, x ^ (1 << 96)], [x ^ 1, x], [(1 << 96) - 1, 1 << 96], [1 << 96, (1 << 96) - 1]]
        E.append(bent("lower_than", S_lower_than, [R(bx), R(by)], {"bx": bx, "by": by}, alt=edge))
        E.append(bent("is_equal", S_is_equal(), [x, x], {"bx": bx, "by": by}, alt=edge))
        if tier == "quick" and (bx, by) in [(8, 8), (384, 384)]:
            continue        # the remaining operations of this group are limb-wise: three shapes suffice at the quick tier
        E.append(bent("is_not_equal", S_is_equal(neg=True), [x, x], {"bx": bx, "by": by}, alt=edge[:4]))
        E.append(bent("assert_equal", S_assert("assert_equal"), [x, x], {"bx": bx, "by": by}, alt=[[0, 0], [mn, mn]]))
        E.append(bent("assert_not_equal", S_assert("assert_not_equal"), [x, (x + 1) & my], {"bx": bx, "by": by}, alt=[[0, my], [mx, 0]] + ([[x, x ^ (1 << 96)]] if min(bx, by) > 96 else [])))
        E.append(bent("select", S_select, [1, R(bx), R(by)], {"bx": bx, "by": by}, alt=[[0, R(bx), R(by)], [1, mx, my], [0, mx, my]]))
    for b in ([8, 200] if tier == "quick" else [1, 8, 96, 97, 200, 288, 384]):
        mx = (1 << b) - 1
        c = R(b)
        consts = [0, c] + ([1 << 96] if b > 96 else [])
        for cc in consts:
            E.append(bent("is_equal_to_fixed", S_is_fixed(cc), [cc], {"bx": b, "c": cc}, alt=[[(cc + 1) & mx], [mx]]))
            E.append(bent("is_not_equal_to_fixed", S_is_fixed(cc, neg=True), [cc], {"bx": b, "c": cc}, alt=[[(cc + 1) & mx]]))
            E.append(bent("assert_equal_to_fixed", S_assert("assert_equal_to_fixed", cc), [cc], {"bx": b, "c": cc}))
            E.append(bent("assert_not_equal_to_fixed", S_assert("assert_not_equal_to_fixed", cc), [cc ^ 1], {"bx": b, "c": cc}, alt=[[mx if cc != mx else 0]]))
        # a constant that does not fit the operand: the answer is the constant `false`
        big = 1 << (96 * (-(-b // 96)))
        E.append(bent("is_equal_to_fixed", S_is_fixed(big), [c], {"bx": b, "c": big}))
        E.append(bent("is_zero", S_is_fixed(0), [0], {"bx": b}, alt=[[1], [mx], [c]]))
        E.append(bent("assert_zero", S_assert("assert_zero", 0), [0], {"bx": b}))
        E.append(bent("assert_non_zero", S_assert("assert_non_zero", 0), [c | 1], {"bx": b}, alt=[[mx], [1 << (b - 1)]]))
    for bx, by in ([(8, 8), (96, 96), (192, 96), (200, 100)] if tier == "quick" else
                   [(1, 1), (8, 8), (96, 96), (192, 96), (96, 192), (200, 100), (288, 192), (384, 200), (384, 384)]):
        mx, my = (1 << bx) - 1, (1 << by) - 1
        E.append(bent("div_rem", S_div_rem, [R(bx), R(by) | 1], {"bx": bx, "by": by},
                      alt=[[0, 1], [mx, my], [mx, 1], [my & mx, my], [(my - 1) & mx, my], [0, my]], k=12, monomial=True))
    for n in [0, 1, 2, 3, 4]:
        # one squaring (n = 2), squaring + multiplication (n = 3), two squarings (n = 4); two-limb operands are
        # decided at the thorough tier only (measured 35-55 s for n = 2, see notes/biguint.md)
        shapes = [(8, 8), (96, 96)] if tier == "quick" else [(8, 8), (96, 96), (100, 96), (192, 192), (200, 100)]
        if tier != "quick" and n >= 3:
            shapes = [(8, 8), (96, 96), (100, 96)]
        for bx, by in shapes:
            m = R(by) | (1 << (by - 1)) | 1
            x = R(bx)
            if n == 1:
                x %= m      # the honest run must satisfy the specification (x^1 mod m = x only for x < m)
            for claim in ["value", "dom"]:
                E.append(bent("mod_exp", S_mod_exp(n, claim), [x, m], {"bx": bx, "by": by, "n": n, "claim": claim}, k=12, variants=MODEXP_VARIANTS))
    for b in ([8, 200, 384] if tier == "quick" else [1, 8, 96, 100, 200, 288, 384]):
        mx = (1 << b) - 1
        E.append(bent("to_le_bits", S_to_bits, [R(b)], {"bx": b}, alt=[[0], [mx]], k=12))
        E.append(bent("to_le_bytes", S_to_bytes, [R(b)], {"bx": b}, alt=[[0], [mx]]))
    for n in ([1, 96, 100, 300] if tier == "quick" else [1, 8, 95, 96, 97, 100, 192, 200, 300, 384]):
        bits = [rnd.randrange(2) for _ in range(n)]
        E.append(bent("from_le_bits", S_from(n, 2), bits, {"n": n}, alt=[[1] * n, [0] * n], k=12))
    for n in ([1, 12, 13, 40] if tier == "quick" else [1, 2, 11, 12, 13, 24, 25, 30, 40, 48]):
        bs = [rnd.randrange(256) for _ in range(n)]
        E.append(bent("from_le_bytes", S_from(n, 256), bs, {"n": n}, alt=[[255] * n, [0] * n]))
    heavy = lambda en: 0 if en["op"] in ("mod_exp", "div_rem", "lower_than") else 1
    E.sort(key=heavy)           # stable: the slow obligations start first and overlap with the many light ones
    return E


# ------------------------------------------------------------------------------------------------
# bit / byte conversions of emulated field elements (FieldChip), through the foreign-field chain
# ------------------------------------------------------------------------------------------------

C05 = _load("C05")


def ff_numbits(e):
    return C05.M(e).bit_length()


def below_modulus(e, bits):
    """the integer represented by the little-endian bits is < m, as an unsigned bit-vector comparison
    (same mathematical meaning as sum 2^j b_j < m; lets the solver bit-blast a several-hundred-bit test)"""
    m, n = C05.M(e), len(bits)
    if m >= (1 << n):
        return "true"
    return f"(bvult {bv_of_bits(bits)} {bvlit(m, n)})"


def S_ff_to_bits(nb, canon):
    """bits are bits; the integer they represent is congruent to the element; when canonicity is demanded
    (or forced by the width) it is < m, i.e. the bits are THE canonical representation of the residue, the
    same for every limb representation of the input"""
    def spec(e, I, O):
        x = C05.split(e, I)[0]
        n = ff_numbits(e) if nb is None else nb
        assert len(O) == n, (len(O), n)
        r = e.residue([(1 << j, o) for j, o in enumerate(O) if not isinstance(o, int)],
                      sum((1 << j) * o for j, o in enumerate(O) if isinstance(o, int)), C05.M(e))
        parts = [isbit(o) for o in O] + [eq(r, C05.res(e, x))]
        if canon:
            parts.append(below_modulus(e, list(O)))
        return AND(*parts)
    return spec


def S_ff_to_bytes(nb):
    def spec(e, I, O):
        x = C05.split(e, I)[0]
        n = -(-ff_numbits(e) // 8) if nb is None else nb
        assert len(O) == n, (len(O), n)
        m = C05.M(e)
        r = e.residue([(256 ** j, o) for j, o in enumerate(O)], 0, m)
        parts = [lt(o, 256) for o in O] + [eq(r, C05.res(e, x))]
        if (1 << (8 * n)) > m:
            # canonical: the integer is < m. Stated on the (definitional) bits of the bytes as a bit-vector test
            bits = []
            for o in O:
                bits += bits_of(e, o, 8, lt(o, 256))
            parts.append(below_modulus(e, bits))
        return AND(*parts)
    return spec


def S_ff_from_bits(n):
    def spec(e, I, O):
        z = O[:int(e.extra["nb_limbs"])]
        r = e.residue([(1 << j, b) for j, b in enumerate(I[:n])], 0, C05.M(e))
        return AND(*[isbit(b) for b in I[:n]], eq(C05.res(e, z), r), C05.wellformed(e, z))
    return spec


def S_ff_from_bytes(n):
    def spec(e, I, O):
        z = O[:int(e.extra["nb_limbs"])]
        r = e.residue([(256 ** j, b) for j, b in enumerate(I[:n])], 0, C05.M(e))
        return AND(*[lt(b, 256) for b in I[:n]], eq(C05.res(e, z), r), C05.wellformed(e, z))
    return spec


def S_ff_sgn0(e, I, O):
    """RFC 9380 sgn0 of a prime-field element: the parity of its canonical representative"""
    x = C05.split(e, I)[0]
    return AND(isbit(O[0]), eq(O[0], f"(mod {C05.res(e, x)} 2)"))


def ff_family(tier, seed):
    rnd = random.Random(5600 + seed)
    E = []
    fields = ["k256fp", "k256fq", "blsfp"]
    for f in fields:
        m = C05.FIELDS[f]["m"]
        nbits = m.bit_length()
        r = lambda: rnd.randrange(m)
        ent = lambda op, spec, ins, params, alt=(): C05.entry(f, op, spec, ins, params, alt=alt, k=12)
        E.append(ent("to_le_bits", S_ff_to_bits(None, True), [r()], {"nb": None, "canon": True}, [[0], [1], [m - 1]]))
        E.append(ent("to_le_bits", S_ff_to_bits(None, False), [r()], {"nb": None, "canon": False}, [[0], [m - 1]]))
        E.append(ent("to_le_bits", S_ff_to_bits(64, True), [rnd.randrange(1 << 64)], {"nb": 64, "canon": True}, [[0], [(1 << 64) - 1]]))
        E.append(ent("to_le_bytes", S_ff_to_bytes(None), [r()], {"nb": None}, [[0], [m - 1]]))
        E[-1]["maypanic"] = nbits % 8 != 0      # 8 * ceil(bits / 8) exceeds the bits the limbs provide
        E.append(ent("to_le_bytes", S_ff_to_bytes(8), [rnd.randrange(1 << 64)], {"nb": 8}, [[0], [(1 << 64) - 1]]))
        lbf = int(C05.FIELDS[f]["log2_base"] or 64)
        # sgn0 (default trait method: bit 0 of the canonical bits) stated on the integers: needs the whole
        # bit-serial canonicity chain as integer facts; finishes for 256-bit fields (measured 10-13 s), not
        # for the 381-bit one within 60 s. Bit 0 of to_le_bits[canon] above is the same cell.
        if nbits <= 256 or tier != "quick":
            E.append(ent("sgn0", S_ff_sgn0, [r()], {}, [[0], [1], [m - 1], [m - 2]]))
        for n in ([1, lbf // 8] if tier == "quick" else [1, 2, lbf // 8]):
            E.append(ent("from_le_bytes", S_ff_from_bytes(n), [rnd.randrange(256) for _ in range(n)], {"n": n}, [[255] * n, [0] * n]))
        # from_le_bits / from_le_bytes beyond one limb go through several constant multiplications and a
        # normalisation: decided for two limbs of the 4-limb fields at the thorough tier, not for the 7-limb
        # field (600 s timeout measured), see run.outside
        widths = [1, 8, lbf]
        if tier != "quick" and f in ("k256fp", "k256fq"):
            widths += [lbf + 1, 2 * lbf]
        for n in widths:
            bits = [rnd.randrange(2) for _ in range(n)]
            E.append(ent("from_le_bits", S_ff_from_bits(n), bits, {"n": n}, [[1] * n, [0] * n]))
    E.sort(key=lambda en: 0 if en["op"] == "sgn0" else 1)
    return E


def check(run):
    t = core.tier()
    only = getattr(run, "only", None)
    ents = big_family(t, core.seed())
    run.assumptions += [
        "C05/B: a big integer is identified with the limbs the gadget's own constrain_as_public_input exposes (base 2^LOG2_BASE little endian, LOG2_BASE recovered from the real off-circuit encoder); every AssignedBigUint the public API returns is normalised, so no un-normalised operand can be handed to an operation from outside the crate",
        "C05/B: limb products are exact integers because both factors are range-checked by the system itself (bounds inferred from its lookups); they are shared atoms between gates and specification",
        "C05/B: mod_exp hints mention hidden quotient/remainder cells located heuristically; every hint is an instance of a lemma proved valid by the solvers first, premises kept in the formula (vf/cbig.py)",
    ]
    run.outside += [
        "C05/B: BigUint operands above 4 limbs (384 bits); mod_exp exponents above 4, and exponents 3/4 beyond one-limb operands (two-limb n = 2 at the thorough tier only: 35-90 s)",
        "C05/B: un-normalised AssignedBigUint operands (not constructible through the public API); constrain_as_public_input's internal normalisation branch is therefore only reached through add/mul",
        "C05/B: from_le_bits / from_le_bytes of emulated elements beyond one limb for the 7-limb BLS12-381 base field (600 s timeout measured) and beyond two limbs for the 4-limb fields; sgn0 of the 381-bit field at the quick tier (562 s measured; thorough tier only); Curve25519 parameter sets; completeness beyond the concrete honest runs",
    ]
    run.translator_validation.append("C05/B: the honest assignment of every extracted BigUint circuit satisfies the encoded system and the specification (vacuity twin); scratch-worktree mutations (carry range check dropped in normalize, geq skipping the least significant limb, canonicity check of FieldChip::assigned_to_le_bits dropped) flip add/sub/mul, lower_than and to_le_bits/to_le_bytes to VIOLATION with replayed forged assignments (notes/biguint.md)")
    run.bounds.append(f"C05/B tier={t}: {len(ents)} BigUintGadget (operation, operand widths) shapes, widths 8..384 bits = 1..4 limbs; limb size read from the run")
    cengine.build(run)
    ents = cbig.split_panicking(run, "biguint", ents)
    cengine.run_family(run, "biguint", ents, timeout=60 if t == "quick" else 600, only=only, workers=6)
    offcircuit_encoder(run)
    check_ff(run)


def offcircuit_encoder(run):
    """Concrete companion (as in C08): `AssignedBigUint::as_public_input(v, nb_bits)` is the instance vector
    of the honest run that assigns v with that bound and exposes it with the gadget's own
    constrain_as_public_input."""
    only = getattr(run, "only", None)
    ob = core.Ob("biguint/offcircuit-encoder", "C", "AssignedBigUint::as_public_input(v, nb_bits) equals the instance vector of the honest run exposing v",
                 functions=["AssignedBigUint::as_public_input (off-circuit)", "BigUintGadget::constrain_as_public_input"],
                 bound="nb_bits in {1, 8, 96, 97, 192, 200, 384}; values 0, 1, 2^nb_bits - 1, seeded random", key="biguint/offcircuit-encoder")
    run.add(ob)
    if only and only not in ob.id:
        ob.set(core.HOLDS, "skipped by --only")
        ob.nontrivial = False
        return
    rnd = random.Random(5700 + core.seed())
    bad, n = [], 0
    try:
        for nb in [1, 8, 96, 97, 192, 200, 384]:
            for v in [0, 1, (1 << nb) - 1, rnd.randrange(1 << nb)]:
                sy = cengine.extract("biguint", "assign", {"bx": nb}, [v], 11)
                n += 1
                inst = [x["value"] for x in sy.d["io"] if x["dir"] == "in"]
                if sy.d["extra"]["offcircuit_pi"] != inst or not sy.d["honest_verify"]:
                    bad.append((nb, hex(v)))
        ob.queries = n
        ob.nontrivial = False
        if bad:
            ob.set(core.VIOLATION, f"off-circuit encoding differs from the instance the circuit binds: {bad[:4]}",
                   replay=run.write_replay(ob, dict(kind="biguint-offcircuit-encoder", cases=bad[:8], engine_part="B")))
        else:
            ob.set(core.HOLDS, f"{n} concrete values")
    except Exception as ex:  # noqa
        ob.set(core.INCONCLUSIVE, repr(ex))


def replay(payload):
    if payload.get("kind") != "biguint-offcircuit-encoder":
        return None
    bad = 0
    for nb, v in payload["cases"]:
        sy = cengine.extract("biguint", "assign", {"bx": nb}, [int(v, 16)], 11)
        inst = [x["value"] for x in sy.d["io"] if x["dir"] == "in"]
        bad += sy.d["extra"]["offcircuit_pi"] != inst
    return 1 if bad else 0


def check_ff(run):
    t = core.tier()
    only = getattr(run, "only", None)
    ents = ff_family(t, core.seed())
    run.bounds.append(f"C05/B tier={t}: {len(ents)} (emulated field, bit/byte conversion) shapes")
    cengine.build(run)
    ents = cbig.split_panicking(run, "foreign", ents)
    cengine.run_family(run, "foreign", ents, timeout=60 if t == "quick" else 600, only=only, workers=6)
