"""C02 (engine S) — the verifier enforces every constraint class.

For every member of a circuit-shape family the REAL `keygen_vk` and the REAL `prepare`
(= `parse_trace` + `verify_algebraic_constraints`, /repo/proofs/src/plonk/verifier.rs) are executed
at F = SymF, CS = SymCS, T = CircuitTranscript<SymHash> on a symbolic proof (every element read from
the proof is a fresh variable, every challenge the variable chi(<absorbed history>)). The guard that
SymCS returns contains the `vanishing` query whose claimed evaluation is the term `expected_h_eval`.

Oracle: engines/symfield/src/spec.rs builds, from `vk.cs()` data only, the identities the halo2 /
PLONK definitions require (gates; permutation first / last / chaining / product rule with delta
cosets; the five lookup rules; trash compression), with Lagrange values written from their
definition l_i(x) = (w^i/n)(x^n-1)/(x-w^i), and the set of opening queries.

Obligations per member (all values of all evaluation variables, challenges and public inputs):
  h-identity   expected_h_eval * (x^n - 1)  ==  sum_j y^j * id_pi(j)   with pi DERIVED by matching the
               y-coefficients of the left side against the specification identities (bijection)
  structure    number of identities equals the specification's count; every specification identity
               carries a non-zero power of y (so perturbing any single identity changes the sum)
  queries      the guard's opening queries are exactly the specification's (commitment, point, eval)
  evals-used   every field element read from the proof occurs in some identity (or is the blinding
               evaluation `random_eval`, opened only), every commitment read occurs in a query, every
               public input of a queried plain instance column occurs in some identity
  path         the recorded path conditions of the symbolic run are satisfiable (run is not vacuous)
  table-binding (members `st-*` only: static tables = TableColumn + assign_table) the table term of the lookup
               identities is the evaluation opened against the vk's commitment of the declared table column, whose
               committed vector is the declared table padded with its first row on the usable rows
"""
import json, random, re, time
from concurrent.futures import ThreadPoolExecutor

from vf import core, solvers, symf
from vf.core import HOLDS, VIOLATION, INCONCLUSIVE
from vf.symf import P
from vf.solvers import I

ENGINE = "S"


def _wr(run, ob, payload):
    """replay file of this part (the aggregator dispatches on engine_part)"""
    return run.write_replay(ob, dict(payload, engine_part="S"))
FUNCS = ["proofs/src/plonk/verifier.rs::parse_trace", "proofs/src/plonk/verifier.rs::verify_algebraic_constraints",
         "proofs/src/plonk/verifier.rs::prepare", "proofs/src/plonk/mod.rs::evaluate_identities",
         "proofs/src/plonk/permutation.rs::expressions", "proofs/src/plonk/lookup.rs::Evaluated::expressions",
         "proofs/src/plonk/trash.rs::Evaluated::expressions", "proofs/src/plonk/vanishing/verifier.rs::PartiallyEvaluated::verify",
         "proofs/src/plonk/keygen.rs::keygen_vk_with_k", "proofs/src/poly/domain.rs::l_i_range",
         "proofs/src/poly/domain.rs::rotate_omega", "proofs/src/transcript/mod.rs::CircuitTranscript"]


def family():
    members = dict(symf.BOUNDARY_SHAPES)
    rnd = random.Random(1000 + core.seed())
    extra = 2 if core.tier() == "quick" else 34
    for i in range(extra):
        members[f"seeded{i}"] = symf.random_shape(rnd)
    members.update(symf.static_members())     # static lookup tables (own seed stream; the members above are unchanged)
    return members


def class_of(cls):
    return re.sub(r"\[[^\]]*\]", "", cls)


def point_for(dag, names, seed):
    rnd = random.Random(seed)
    return {n: rnd.randrange(1, P) for n in names}


def all_var_names(dag):
    return [n[1] for n in dag.nodes if n[0] == "v"]


def check_member(run, name, m):
    bound = (f"member {name}: np={m['np']} committed={m['nbc']} lens={m['lens']} shape={json.dumps(m['shape'])[:300]}; "
             "all values of evaluation variables, challenges, public inputs")
    obs = {}
    for role, what, nontriv in [
        ("h-identity", "expected_h_eval*(x^n-1) == sum_j y^j id_pi(j) (pi derived by matching)", True),
        ("structure", "identity count equals specification; every identity weighted by a non-zero power of y", True),
        ("queries", "guard opening queries == specification queries (commitment, point, evaluation)", True),
        ("evals-used", "every proof element / public input occurs in an identity or a query", True),
        ("path", "path conditions of the symbolic run are satisfiable", True),
    ]:
        ob = core.Ob(f"C02/S/{name}/{role}", ENGINE, what, functions=FUNCS, bound=bound, key=f"{role}")
        ob.nontrivial = nontriv
        run.add(ob)
        obs[role] = ob
    try:
        d = symf.run_verifier(m)
    except Exception as ex:
        for ob in obs.values():
            ob.set(INCONCLUSIVE, f"sx failed: {str(ex)[-400:]}")
        return
    mm = dict(m, k=d["_k"])
    if "spec" not in d:
        # the real verifier and the specification disagree on the proof layout / challenge count
        err = d.get("prepare_error") or d.get("spec_error")
        payload = {"kind": "layout", "member": mm, "error": err}
        ok = replay(payload)
        ob = obs["h-identity"]
        ob.key = "layout-mismatch"
        if ok:
            ob.set(VIOLATION, f"verifier vs specification layout: {err}", replay=_wr(run, ob, payload))
        else:
            ob.set(INCONCLUSIVE, f"layout mismatch did not reproduce: {err}")
        for r, o in obs.items():
            if r != "h-identity":
                o.set(INCONCLUSIVE, "no specification output (layout mismatch)")
        return
    vr = symf.VerifierRun(d)
    ring, dag = vr.ring, vr.dag
    info = vr.info
    # ---------------- h-identity
    ob = obs["h-identity"]
    t0 = time.time()
    if vr.hq is None:
        ob.set(INCONCLUSIVE, "guard has no unique `vanishing` query")
        return
    T = vr.T()
    byy = vr.by_y(T)
    keymap = {}
    for i, (cls, t, nf) in enumerate(vr.ids):
        keymap.setdefault(symf.poly_key(nf), []).append(i)
    pi, unmatched_pows = {}, []
    used = set()
    for e in sorted(byy):
        cands = [i for i in keymap.get(symf.poly_key(byy[e]), []) if i not in used]
        if cands:
            pi[e] = cands[0]
            used.add(cands[0])
        else:
            unmatched_pows.append(e)
    missing = [i for i in range(len(vr.ids)) if i not in used]
    # the residual that goes to the solver: T against the y-combination under the derived pi
    # (identities that found no partner are placed by the halo2 convention so that the residual shows them)
    m_spec = len(vr.ids)
    y = ring.var(vr.yname)
    rhs = {}
    ypow = {0: ring.const(1)}
    def yp(e):
        while max(ypow) < e:
            k = max(ypow)
            ypow[k + 1] = ring.mul(ypow[k], y)
        return ypow[e]
    exps = {}
    for e, i in pi.items():
        exps[i] = e
    for i in missing:
        exps[i] = m_spec - 1 - i
    for i, (cls, t, nf) in enumerate(vr.ids):
        rhs = ring.add(rhs, ring.mul(yp(exps[i]), nf))
    st, solver, secs, diff, npairs, twin = symf.decide_equal(ring, T, rhs)
    ob.queries += 2
    ob.vacuity = twin
    # translator validation of the normaliser on this member
    names = all_var_names(dag)
    env = point_for(dag, names, 7 + core.seed())
    ev = {}
    lhs_num = dag.evaluate(vr.hq["eval"], env, ev) * dag.evaluate(info["xn_minus_1"], env, ev) % P
    val = {ring.vars[nm]: env[nm] for nm in names if nm in ring.vars}
    if ring.W is not None:
        xv = env[vr.xname]
        val[ring.W] = pow((pow(xv, vr.n, P) - 1) % P, P - 2, P)
    tv_ok = ring.evaluate(T, val) == lhs_num
    rhs_num = 0
    for i, (cls, t, nf) in enumerate(vr.ids):
        rhs_num = (rhs_num + pow(env[vr.yname], exps[i], P) * dag.evaluate(t, env, ev)) % P
    tv_ok = tv_ok and (ring.evaluate(rhs, val) == rhs_num)
    if not tv_ok:
        ob.set(INCONCLUSIVE, "translator validation failed: normal form and DAG disagree at a sample point")
        return
    order = ("halo2 Horner order (first identity of the list carries the highest power of y)"
             if all(exps[i] == m_spec - 1 - i for i in range(m_spec)) else f"exponents {exps}")
    if st == "unsat" and not diff and not missing and not unmatched_pows:
        if not twin:
            ob.set(INCONCLUSIVE, "vacuity twin was not sat")
        else:
            ob.set(HOLDS, f"{npairs} monomials, {m_spec} identities, {order}; classes: "
                   + ",".join(sorted({class_of(c) for c, _, _ in vr.ids})), solver=solver, solver_s=secs)
    elif st == "sat" or diff or missing or unmatched_pows:
        # counterexample: evaluation values on which the two sides differ; replay on the real code in
        # concrete mode (all variables replaced by these constants, same real functions)
        what = ", ".join(vr.ids[i][0] for i in missing[:4]) or f"y-powers {unmatched_pows[:4]}"
        ob.key = "identity-mismatch:" + (class_of(vr.ids[missing[0]][0]) if missing else "extra-term")
        found = None
        for s in range(20):
            env2 = point_for(dag, names, 100 + s + core.seed())
            ev2 = {}
            l2 = dag.evaluate(vr.hq["eval"], env2, ev2) * dag.evaluate(info["xn_minus_1"], env2, ev2) % P
            r2 = 0
            for i, (cls, t, nf) in enumerate(vr.ids):
                r2 = (r2 * env2[vr.yname] + dag.evaluate(t, env2, ev2)) % P
            if l2 != r2:
                found = env2
                break
        if found is None:
            ob.set(INCONCLUSIVE, f"residual is a non-zero polynomial ({len(diff)} monomials differ; {what}) but no differing point found")
        else:
            payload = {"kind": "h-mismatch", "member": mm, "vals": {k: hex(v) for k, v in found.items()},
                       "unmatched_spec_identities": [vr.ids[i][0] for i in missing],
                       "unmatched_y_powers": unmatched_pows}
            if replay(payload):
                ob.set(VIOLATION, f"verifier's expected_h*(x^n-1) differs from the specification's y-combination; "
                       f"specification identities without a partner: {what}; real count {len(byy)} vs spec {m_spec}",
                       solver=solver, solver_s=secs, replay=_wr(run, ob, payload))
            else:
                ob.set(INCONCLUSIVE, "counterexample did not reproduce in concrete mode")
    else:
        ob.set(INCONCLUSIVE, f"solver: {st}")
    run.log(f"{name}: h-identity {ob.status} ({time.time() - t0:.1f}s, {len(T)} monomials)")

    # ---------------- structure (2)+(3)
    ob = obs["structure"]
    m_real = (max(byy) + 1) if byy else 0
    # ground facts + the perturbation statement: d/dt [sum_j y^j (id_j + t)] restricted to identity i is y^e_i,
    # a monomial with coefficient 1: non-zero mod p
    smt = ["(set-logic ALL)", f"(define-fun p () Int {P})",
           f"(assert (or (not (= {m_real} {m_spec})) (not (= {len(pi)} {m_spec})) (= (mod 1 p) 0)))"]
    r = solvers.solve("\n".join(smt), timeout=30)
    ob.queries += 1
    tw = solvers.solve("\n".join(smt[:2] + [f"(assert (or (not (= {m_real} {m_spec + 1})) (= (mod 1 p) 0)))"]), timeout=30)
    ob.vacuity = tw.status == "sat"
    if r.status == "unsat" and not missing and ob.vacuity:
        ob.set(HOLDS, f"{m_spec} identities, bijection onto y^0..y^{m_spec - 1}", solver=r.solver, solver_s=r.time_s)
    elif r.status == "sat" or missing:
        ob.key = "identity-count"
        payload = {"kind": "count", "member": mm, "real": m_real, "spec": m_spec}
        if replay(payload):
            ob.set(VIOLATION, f"verifier combines {m_real} identities, specification requires {m_spec}; missing: "
                   + ", ".join(vr.ids[i][0] for i in missing[:5]), replay=_wr(run, ob, payload))
        else:
            ob.set(INCONCLUSIVE, "count mismatch did not reproduce")
    else:
        ob.set(INCONCLUSIVE, f"solver: {r.status}")

    # ---------------- queries
    ob = obs["queries"]
    problems, pairs, nq = query_problems(vr, d)
    r = solvers.solve(symf.residual_smt(pairs), timeout=60)
    tw = solvers.solve(symf.residual_smt([(1, 2)] + pairs[:20]), timeout=30)
    ob.queries += 2
    ob.vacuity = tw.status == "sat"
    if r.status == "unsat" and not problems and ob.vacuity:
        ob.set(HOLDS, f"{nq} queries", solver=r.solver, solver_s=r.time_s)
    elif problems or r.status == "sat":
        ob.key = "query-set"
        payload = {"kind": "queries", "member": mm}
        if replay(payload):
            ob.set(VIOLATION, "; ".join(problems[:4]) or "evaluation terms differ", replay=_wr(run, ob, payload))
        else:
            ob.set(INCONCLUSIVE, "query mismatch did not reproduce")
    else:
        ob.set(INCONCLUSIVE, f"solver: {r.status}")

    # ---------------- evals-used
    ob = obs["evals-used"]
    unused, n_items = unused_elements(vr, d, T)
    smt = ["(set-logic ALL)", f"(assert (not (= {len(unused)} 0)))"]
    r = solvers.solve("\n".join(smt), timeout=30)
    tw = solvers.solve("(set-logic ALL)\n(assert (not (= 1 0)))", timeout=30)
    ob.queries += 1
    ob.vacuity = tw.status == "sat"
    if r.status == "unsat":
        ob.set(HOLDS, f"{n_items} proof elements + public inputs, all used", solver=r.solver, solver_s=r.time_s)
    elif r.status == "sat":
        ob.key = "unused-proof-element"
        payload = {"kind": "unused", "member": mm}
        if replay(payload):
            ob.set(VIOLATION, "; ".join(unused[:4]), replay=_wr(run, ob, payload))
        else:
            ob.set(INCONCLUSIVE, "did not reproduce")
    else:
        ob.set(INCONCLUSIVE, f"solver: {r.status}")

    # ---------------- path feasibility
    ob = obs["path"]
    zero_conds = []
    wit = []
    for pc in dag.path:
        if pc[0] == "ne":
            dif = ring.add(vr.nf(pc[1]), ring.neg(vr.nf(pc[2])))
        else:
            dif = vr.nf(pc[1])
        if not dif:
            zero_conds.append(pc)
        else:
            wit.append(next(iter(dif.values())))
    smt = ["(set-logic ALL)", f"(define-fun p () Int {P})"]
    smt.append("(assert (or false " + " ".join(f"(= (mod {I(c)} p) 0)" for c in wit) + (" true" if zero_conds else "") + "))")
    r = solvers.solve("\n".join(smt), timeout=30)
    ob.queries += 1
    ob.vacuity = True
    if r.status == "unsat":
        ob.set(HOLDS, f"{len(dag.path)} path conditions, each a non-zero polynomial (jointly satisfiable over F_p); "
               f"value-order comparisons on non-constants: {dag.ord_symbolic}", solver=r.solver, solver_s=r.time_s)
    else:
        ob.set(INCONCLUSIVE, f"a path condition is identically false: {zero_conds[:3]}")
    if info["spec_blinding_factors"] != info["cs_blinding_factors"]:
        ob2 = core.Ob(f"C02/S/{name}/blinding-factors", ENGINE, "cs.blinding_factors() equals the book's count",
                      functions=["proofs/src/plonk/circuit.rs::blinding_factors"], bound=bound, key="blinding-factors")
        run.add(ob2)
        ob2.set(INCONCLUSIVE, f"spec {info['spec_blinding_factors']} vs cs {info['cs_blinding_factors']}")
    if m["shape"].get("slookups"):
        check_table_binding(run, name, mm, d, vr, bound)


def table_binding(d, vr, shape):
    """static lookups of one verifier run: (problems, coefficient pairs, per lookup the vk's table tuples on the usable
    rows, per lookup the declared rows).
    For every static lookup L and table column j: vk.cs()'s table expression is the plain query of the declared table
    column at rotation 0; the specification's opening query of that column is against vk.fixed_commitments()[column], the
    guard has the same query (commitment, point x, evaluation term), and that evaluation variable occurs in the
    lookup-product identity of L for every proof (so the table polynomial of the identity IS the committed column); the
    vector behind the commitment handle equals the declared table: its rows, then its first row up to the last usable
    row, 0 on the blinding rows (usable rows counted with the SPECIFICATION's blinding-factor count)."""
    dag, info = vr.dag, vr.info
    n = vr.n
    st = d["static_tables"]
    usable = n - (info["spec_blinding_factors"] + 1)
    problems, pairs, tv, tr = [], [], [], []
    if st["urows"] != usable:
        problems.append(f"usable rows: constraint system {st['urows']} vs specification {usable}")
    sq = {q["what"]: q for q in d["spec"]["queries"]}
    ids = {cls: t for cls, t in d["spec"]["ids"]}
    xkey = symf.poly_key(vr.nf(info["x"]))
    sup = {}
    for li, lk in enumerate(shape["slookups"]):
        L = len(shape.get("lookups", [])) + li
        rows = st["tables"][lk["table"]]
        ncols = len(rows[0])
        csl = d["cs_lookups"][L] if L < len(d["cs_lookups"]) else {"tables": []}
        cols_vec = []
        for j in range(ncols):
            col = symf.static_table_fixed_index(shape, lk["table"], j)
            if j >= len(csl["tables"]) or csl["tables"][j] != ["f", col, 0]:
                problems.append(f"lookup {L}: table expression {j} is {csl['tables'][j:j + 1]}, declared fixed column {col} at rotation 0")
            q = sq.get(f"fixed[col {col}]@0")
            if q is None or col >= len(d["vk"]["fixed_commitments"]):
                problems.append(f"lookup {L}: no opening query for table column {col}")
                continue
            h = d["vk"]["fixed_commitments"][col]
            if q["coms"] != [h]:
                problems.append(f"lookup {L}: query of table column {col} is not against vk.fixed_commitments()[{col}]")
            qe = symf.poly_key(vr.nf(q["eval"]))
            if not any(g["coms"] == [h] and g["n"] is None and symf.poly_key(vr.nf(g["point"])) == xkey
                       and symf.poly_key(vr.nf(g["eval"])) == qe for g in d["guard"]):
                problems.append(f"lookup {L}: the guard does not open vk.fixed_commitments()[{col}] at x with the evaluation the lookup identity uses")
            ev = dag.var_name(q["eval"])
            for i in range(d["np"]):
                t = ids.get(f"lookup-product[proof {i}][{L}]")
                if t is None or ev not in dag.support(t, sup):
                    problems.append(f"lookup {L} proof {i}: the evaluation of table column {col} does not occur in the lookup-product identity")
            com = d["world"]["coms"][h]
            vec = [dag.const(t) for t in com[2]] if com[0] == "commit" and com[1] == "lagrange" else []
            if len(vec) != n or None in vec:
                problems.append(f"lookup {L}: the vector behind vk.fixed_commitments()[{col}] is not {n} constants")
                vec = [v if v is not None else -1 for v in vec] + [-1] * (n - len(vec))
            pairs.append((len(vec), n))
            pairs += list(zip(vec, symf.static_expected_column(rows, j, n, usable)))
            cols_vec.append(vec)
        tv.append([tuple(c[i] for c in cols_vec) for i in range(usable)] if len(cols_vec) == ncols else [])
        tr.append([tuple(r) for r in rows])
    return problems, pairs, tv, tr


def check_table_binding(run, name, mm, d, vr, bound):
    ob = core.Ob(f"C02/S/{name}/table-binding", ENGINE,
                 "static lookup tables: the table term of the verifier's lookup identities is the evaluation opened against the vk's "
                 "commitment to the declared table column, and the committed vector is the declared table padded with its first row "
                 "on the usable rows (0 on the blinding rows)",
                 functions=FUNCS + ["proofs/src/plonk/keygen.rs::Assembly::fill_from_row", "proofs/src/plonk/keygen.rs::Assembly::assign_fixed",
                                    "proofs/src/circuit/floor_planner/single_pass.rs::assign_table",
                                    "proofs/src/circuit/table_layouter.rs::SimpleTableLayouter::assign_cell",
                                    "proofs/src/plonk/circuit.rs::ConstraintSystem::lookup"],
                 bound=bound, key="static-table:committed-column")
    run.add(ob)
    try:
        problems, pairs, tv, tr = table_binding(d, vr, mm["shape"])
    except Exception as ex:
        ob.set(INCONCLUSIVE, f"{ex!r}"[:300])
        return
    r = solvers.solve(symf.residual_smt(pairs), timeout=60)
    twp = list(pairs)
    twp[-1] = (twp[-1][0], (twp[-1][1] + 1) % P)
    tw = solvers.solve(symf.residual_smt(twp), timeout=60)
    ob.queries += 2
    ob.vacuity = tw.status == "sat"
    if r.status == "unsat" and not problems and ob.vacuity:
        ob.set(HOLDS, f"{len(tr)} static lookups, {sum(len(t[0]) for t in tr)} table columns x {vr.n} rows, tables of "
               f"{[len(t) for t in tr]} rows padded to {d['static_tables']['urows']} usable rows", solver=r.solver, solver_s=r.time_s)
    elif r.status == "sat" or problems:
        detail = "; ".join(problems[:3])
        for li, (a, b) in enumerate(zip(tv, tr)):
            if set(a) != set(b):
                ob.key = "static-table:committed-rows"
                detail += (f" static lookup {li}: rows of the committed table that are not declared {sorted(set(a) - set(b))[:3]}, "
                           f"declared rows that are not committed {sorted(set(b) - set(a))[:3]}")
        if not detail:
            detail = "the committed table column differs from the declared table (same set of rows)"
        payload = {"kind": "table-binding", "member": mm}
        ob.set(VIOLATION if replay(payload) else INCONCLUSIVE, detail.strip(), solver=r.solver, solver_s=r.time_s, replay=_wr(run, ob, payload))
    else:
        ob.set(INCONCLUSIVE, f"solver {r.status}, twin {tw.status}")


def query_problems(vr, d):
    """guard queries vs specification queries: (problems, coefficient pairs of the evaluation terms, count)"""
    info = vr.info
    gq = [q for q in d["guard"] if q is not vr.hq]
    sq = d["spec"]["queries"]
    problems, pairs = [], []
    pool = list(gq)
    for s in sq:
        sp_key = symf.poly_key(vr.nf(s["point"]))
        hit = None
        for g in pool:
            if g["coms"] == s["coms"] and g["n"] == s["n"] and symf.poly_key(vr.nf(g["point"])) == sp_key:
                hit = g
                break
        if hit is None:
            problems.append(f"specification query {s['what']} has no guard query with the same commitment and point")
            continue
        pool.remove(hit)
        A, B = vr.nf(hit["eval"]), vr.nf(s["eval"])
        if A != B:
            problems.append(f"query {s['what']}: claimed evaluation differs from the specification's")
        for mono in set(A) | set(B):
            pairs.append((A.get(mono, 0), B.get(mono, 0)))
    for g in pool:
        problems.append(f"guard query {g['label']} coms={g['coms']} is not required by the specification")
    hq_ok = (vr.hq["coms"] == info["h_query"]["coms"] and vr.hq["n"] == info["h_query"]["n"]
             and symf.poly_key(vr.nf(vr.hq["point"])) == symf.poly_key(vr.nf(info["h_query"]["point"])))
    if not hq_ok:
        problems.append("quotient query: pieces / piece size / point differ from the specification")
    return problems, pairs, len(sq) + 1


def unused_elements(vr, d, T):
    ring, dag = vr.ring, vr.dag
    tvars = set()
    for mono in T:
        for v, _ in mono:
            tvars.add(ring.names[v])
    roles = {r["pos"]: r for r in d["spec"]["roles"]}
    stream = [e["item"] for e in d["world"]["log"] if e["side"] == "V" and e["op"] == "read"]
    unused = []
    qcoms = set()
    for q in d["guard"]:
        qcoms.update(q["coms"])
    qevals = set()
    sup = {}
    for q in d["guard"]:
        qevals |= dag.support(q["eval"], sup)
    for pos, it in enumerate(stream):
        role = roles.get(pos, {}).get("role", f"stream[{pos}]")
        if it[0] == "c":
            mcol = re.match(r"advice_commitment\[proof \d+\]\[col (\d+)\]", role)
            if mcol and int(mcol.group(1)) not in {c for c, _ in vr.info["advice_queries"]}:
                continue   # a column that no gate, lookup or copy constraint refers to has no evaluation to open
            if it[1] not in qcoms:
                unused.append(f"commitment {role} is opened by no query")
        else:
            nm = dag.var_name(it[1])
            if role == "vanishing_random_eval":
                if nm not in qevals:
                    unused.append("random_eval is not opened")
            elif nm not in tvars:
                unused.append(f"{role} occurs in no identity")
    if d["spec"]["consumed"] != d["consumed_records"] or d["spec"]["consumed"] != len(stream):
        unused.append(f"verifier consumed {d['consumed_records']} records, specification layout has {d['spec']['consumed']}")
    nbc = d["nbc"]
    queried = {c for c, _ in vr.info["instance_queries"]}
    n_pi = 0
    for pi_, cols in enumerate(d["instances"]):
        for c, vals in enumerate(cols):
            if c < nbc or c not in queried:
                continue
            for j, t in enumerate(vals):
                n_pi += 1
                if dag.var_name(t) not in tvars:
                    unused.append(f"public input proof {pi_} column {c} entry {j} occurs in no identity")
    for pi_, row in enumerate(d["cinst"]):
        for c, h in enumerate(row):
            if c in queried and h not in qcoms:
                unused.append(f"committed instance proof {pi_} column {c} is opened by no query")
    return unused, len(stream) + n_pi


def check(run):
    symf.build(run)
    members = family()
    if getattr(run, "only", None):
        members = {k: v for k, v in members.items() if run.only in k} or members
    run.bounds.append(f"C02/S: {len(members)} circuit shapes (7 boundary members + seeded), k in {{4,5}}, num_proofs <= 2, "
                      "committed instance columns <= 2, plain <= 2, <= 3 phases, gates of degree <= 5, <= 2 lookups, <= 2 trash arguments")
    run.assumptions += ["S: SymCS models commitments as opaque handles (binding of the commitment scheme is not examined)",
                        "S: chi is a fresh variable per absorbed history (Fiat-Shamir hash modelled as injective)"]
    run.outside += ["C02: agreement with MockProver::verify is decided only through the shared constraint-system data "
                    "(the mock checker branches on field values and is not executed symbolically)",
                    "C02: soundness of KZG / Fiat-Shamir; the prover; fault injection on concrete proofs",
                    "C02: a full forged-proof replay (real prover + verifier accepting a violating witness) is not built; "
                    "counterexamples are replayed as the polynomial disagreement on the real verifier code at concrete values"]
    run.bounds.append(f"C02/S static tables: {len([n for n in members if n.startswith('st-')])} shapes with `meta.lookup` into "
                      "TableColumn tables filled by assign_table (1-2 columns, lengths 1..usable-1, with/without the zero tuple, with/without a "
                      "complex selector, advice cell / linear expression as input), k = 4")
    run.translator_validation.append(
        "S/C02: for every member the canonical forms of expected_h*(x^n-1) and of the specification sum are evaluated at a "
        "pseudo-random point and compared with a direct numeric evaluation of the term DAG (W := 1/(x^n-1))")
    with ThreadPoolExecutor(max_workers=4) as ex:
        futs = {name: ex.submit(check_member, run, name, m) for name, m in members.items()}
        for name, f in futs.items():
            try:
                f.result()
            except Exception as e:
                import traceback
                traceback.print_exc()
                ob = core.Ob(f"C02/S/{name}/engine", ENGINE, "engine S infrastructure")
                run.add(ob)
                ob.set(INCONCLUSIVE, f"crashed: {e!r}")


def replay(payload):
    """Re-execute a counterexample against the real code. Returns 1 if it reproduces."""
    if payload.get("engine_part") not in (None, "S") or payload.get("kind") not in ['h-mismatch', 'layout', 'count', 'queries', 'unused', 'table-binding']:
        return None
    symf.build()
    m = payload["member"]
    kind = payload["kind"]
    if kind == "table-binding":
        # re-run; a row in exactly one of (committed table, declared table) is looked up on the real stack: reproduced iff
        # MockProver and the real verifier (Fq, KZG, Blake2b) give different verdicts on that witness
        d = symf.run_verifier(m)
        if "spec" not in d:
            return 0
        problems, pairs, tv, tr = table_binding(d, symf.VerifierRun(d), m["shape"])
        bad = [(a, b) for a, b in pairs if a != b]
        print(f"re-run: {len(bad)} cells of the committed table columns differ from the declared table; {problems[:2]}")
        r = symf.static_tuple_replay(m, tv, tr, "the declaration")
        if r is not None:
            print("reproduced: MockProver and the real verifier disagree on that witness" if r else "the verdicts agree on every tuple tried")
            return r
        if not bad and not problems:
            for li, rows in enumerate(tr):
                tup = symf.static_cheat_tuple([list(t) for t in rows])
                print(f"committed table == declared table on this tree; witness looking {tuple(tup)} up in static lookup {li}: {symf.static_real(m, li, tup)[2]}")
        return 1 if (bad or problems) else 0
    if kind == "h-mismatch":
        d = symf.run_verifier(m, vals=payload["vals"])
        if "spec" not in d:
            return 0
        dag = symf.Dag(d["arena"])
        hq = [q for q in d["guard"] if q["label"] == "custom:vanishing"][0]
        h = dag.const(hq["eval"])
        xn1 = dag.const(d["spec"]["info"]["xn_minus_1"])
        y = dag.const(d["spec"]["y"])
        if None in (h, xn1, y):
            return 0
        lhs = h * xn1 % P
        rhs = 0
        for cls, t in d["spec"]["ids"]:
            rhs = (rhs * y + dag.const(t)) % P
        print(f"concrete replay on the real verifier code: expected_h*(x^n-1) = {hex(lhs)[:20]}..., "
              f"specification sum = {hex(rhs)[:20]}...  -> {'DIFFER' if lhs != rhs else 'equal'}")
        return 1 if lhs != rhs else 0
    d = symf.run_verifier(m)
    if kind == "layout":
        return 1 if "spec" not in d else 0
    if "spec" not in d:
        return 0
    vr = symf.VerifierRun(d)
    if kind == "count":
        byy = vr.by_y(vr.T())
        real = (max(byy) + 1) if byy else 0
        print(f"real identity count {real}, specification {len(vr.ids)}")
        return 1 if real != len(vr.ids) else 0
    if kind == "queries":
        problems, _, _ = query_problems(vr, d)
        print("\n".join(problems[:10]))
        return 1 if problems else 0
    if kind == "unused":
        unused, _ = unused_elements(vr, d, vr.T())
        print("\n".join(unused[:10]))
        return 1 if unused else 0
    return 0
