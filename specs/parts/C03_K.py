"""C03 (proof bound to statement and bytes), engine K part: the structural guards around the proof system.
Harness crate /verif/engines/kani/kmain (src/h_transcript.rs, src/h_batch.rs)."""
from vf import core, kani

CRATE = "engines/kani/kmain"
H = kani.H

SPECS = [
    H("h_transcript::assert_empty_iff_consumed", "C03.K.assert_empty",
      "CircuitTranscript::assert_empty is Ok iff the cursor position equals the proof length",
      ["proofs/src/transcript/mod.rs::CircuitTranscript::assert_empty", "proofs/src/transcript/mod.rs::CircuitTranscript::init_from_bytes"],
      "all buffers of length 0..=8, all positions 0..=9", "assert_empty:iff-consumed", est=8, min_covers=3),
    H("h_batch::verify_pins_public_input_count", "C03.K.verify.nb_public_inputs",
      "midnight_zk_stdlib::verify accepts at most one public-input length per key and answers InvalidInstances for any other, whatever the proof-system call behind the guard answers",
      ["zk_stdlib/src/lib.rs::verify", "zk_stdlib/src/utils/plonk_api.rs::BlstPLONK::verify"],
      "an opaque key with symbolic bytes (so nb_public_inputs is any number), two lengths la != lb in 0..=3", "verify:nb_public_inputs-pinned", est=25, min_covers=2,
      stubs=["midnight_proofs::plonk::prepare (any answer)", "DualMSM::check (any answer)", "blst::blst_p1_from_affine"]),
    H("h_transcript::hashable_read_fq_canonical", "C03.K.hashable.read.fq",
      "<Fq as Hashable<blake2b>>::read returns Ok only on 32 bytes that blst's canonicity check accepted (the very bytes read), Err otherwise; never panics",
      ["proofs/src/transcript/implementors.rs::<Fq as Hashable<State>>::read", "curves/src/bls12_381/fq.rs::Fq::from_bytes_le"],
      "all buffers of length 0..=32, all oracle answers", "hashable-read:fq-canonical", est=10, min_covers=2,
      stubs=["blst::blst_scalar_fr_check (recording oracle)", "blst::blst_fr_from_uint64", "zeroize::optimization_barrier"]),
    H("h_transcript::hashable_read_g1_checked", "C03.K.hashable.read.g1",
      "<G1Projective as Hashable<blake2b>>::read returns Ok only if uncompress succeeded AND the on-curve AND the subgroup oracle said yes; never panics",
      ["proofs/src/transcript/implementors.rs::<G1Projective as Hashable<State>>::read", "curves/src/bls12_381/g1.rs::G1Projective::from_compressed"],
      "all buffers of length 0..=48, all oracle answers", "hashable-read:g1-checked", est=10, min_covers=2,
      oracle_scenario=["g1-decode-offsubgroup", "hashable"]),
    # the Poseidon-based transcript of midnight-circuits has its own readers of proof elements
    H("h_transcript::hashable_poseidon_read_g1_checked", "C03.K.hashable.poseidon.read.g1",
      "<G1Projective as Hashable<PoseidonState<Fq>>>::read returns Ok only on a FULL 48-byte encoding for which uncompress succeeded AND the on-curve AND the subgroup oracle said yes; never panics",
      ["circuits/src/hash/poseidon/poseidon_cpu.rs::<G1Projective as Hashable<PoseidonState<Fq>>>::read"],
      "all buffers of length 0..=48, all oracle answers", "hashable-read:poseidon-g1-checked", est=12, min_covers=2,
      oracle_scenario=["poseidon-g1-truncated"]),
    H("h_transcript::hashable_poseidon_read_fq_canonical", "C03.K.hashable.poseidon.read.fq",
      "<Fq as Hashable<PoseidonState<Fq>>>::read returns Ok only on a FULL 32-byte encoding that the canonicity check accepted; never panics",
      ["circuits/src/hash/poseidon/poseidon_cpu.rs::<Fq as Hashable<PoseidonState<Fq>>>::read"],
      "all buffers of length 0..=32, all oracle answers", "hashable-read:poseidon-fq-canonical", est=12, min_covers=2,
      stubs=["blst::blst_scalar_fr_check (recording oracle)", "blst::blst_fr_from_uint64", "zeroize::optimization_barrier"]),
]


def check(run):
    run.bounds.append("K/C03: proof buffers <= 8 bytes, element buffers <= 32 / 48 bytes, public-input lengths <= 3")
    run.outside.append("K/C03: everything cryptographic; byte-level binding of the proof (engine S: absorbed-sequence injectivity)")
    kani.run_harnesses(run, CRATE, SPECS, jobs=6)


def replay(payload):
    return kani.replay(payload)
