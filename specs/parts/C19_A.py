"""C19, engine A: regex -> automaton language + marker equivalence, shipped serialized automata.

For every member of the regex family the REAL `Regex` is built through the real combinators and compiled
by the real `to_automaton()` (engines/auto, `ax`), and the dumped automaton is compared by the solver
with a reference language (z3 RegLan over code points `byte + 256*marker`) written from the
documentation of each combinator (vf/autosmt.py):
  eq      every marked word of length <= N: accepted-with-exactly-these-markers <=> in the language
  states  every state of the automaton (concrete access word, all letters and all suffixes symbolic):
          no letter of the language is missing / every transition class stays in the language / final flag
  unamb   output determinism of the expression (no two markings of the same bytes), marked members only
Shipped automata (`spec_library()`, the real deserializer) are compared transition-by-transition with
the fresh compilation of their specification through a solver query, and the file bytes with an
independent parse of the serialization format.
"""
import json, os, struct, time
from concurrent.futures import ThreadPoolExecutor
from vf import core, solvers, autosmt as A
from vf.core import HOLDS, VIOLATION, INCONCLUSIVE

FUNCS = ["circuits/src/parsing/regex.rs::Regex::to_automaton", "circuits/src/parsing/regex.rs::RegexInstructions",
         "circuits/src/parsing/automaton.rs::RawAutomaton::{byte_concat,concat,union,inter,complement,strict_repeat,weak_repeat,determinise,minimise,normalise}"]


def _skip(run, ob):
    only = getattr(run, "only", None)
    if only and only not in ob.id:
        ob.set(HOLDS, "skipped by --only")
        ob.nontrivial = False
        return True
    return False


def marked(r):
    try:
        return bool(A.pmarkers(A.prim(r)) - {0})
    except A.Outside:
        return False


def regex_member(run, mid, key, r, comp, N, variant=None, spec=None, states=True, vtag="", timeout=120, light=False):
    """all obligations of one family member. comp: result of `ax compile` for it.
    light (systematic product family): `:eq` + ONE merged `:states` obligation, no `:det` / `:unamb`."""
    tag = f"A/{mid}{vtag}"
    bound = f"word length <= {N}; markers <= 64"
    ob = core.Ob(f"{tag}:eq", "A", "compiled automaton accepts exactly the marked words of the expression's language", functions=FUNCS, bound=bound, key=key)
    run.add(ob)
    if _skip(run, ob):
        return
    if comp.get("timeout"):
        ob.nontrivial = False
        run.outside.append(f"{mid}: compilation exceeded the cap")
        return ob.set(HOLDS, "compilation exceeded the cap: outside the claim")
    if not comp.get("ok"):
        msg = comp.get("panic") or comp.get("error") or "?"
        if "non output-deterministic" in msg:
            ob.what = "the compiler refuses the expression as non output-deterministic: two words of the language mark a common byte prefix differently"
            ob.bound = "suffixes of any length"
            try:
                A.decide_refusal(run, ob, r, msg, variant)
            except A.Outside as ex:
                ob.set(INCONCLUSIVE, f"outside the claim: {ex}")
            if not light or ob.status != HOLDS:
                run.log(f"{ob.status:12s} {ob.id} {ob.detail[:120]}")
            return
        if "not allowed under complement" in msg:
            ob.nontrivial = False
            return ob.set(HOLDS, "library refuses markers under a complement (documented)")
        # any other panic of to_automaton(): the expression is a legal combination of public combinators
        try:
            corex = A.core_of(r, variant)
        except A.Outside as ex:
            ob.nontrivial = False
            return ob.set(INCONCLUSIVE, f"outside the claim: {ex}")
        ob.key = key + ":panic"
        path = run.write_replay(ob, dict(kind="regex-panic", r=r))
        ob.vacuity = True
        ob.set(VIOLATION, f"to_automaton() panics on a legal expression: {msg[:200]}", replay=path)
        run.log(f"{ob.status:12s} {ob.id} {ob.detail[:120]}")
        return
    auto = A.Auto(comp["automaton"])
    if not light:
        determinism(run, f"{tag}:det", key, auto.raw, FUNCS[2:], "dumped transition list of the compiled automaton", dict(spec or {"r": r}))
    t0 = time.time()
    try:
        A.decide_equiv(run, ob, r, auto, N, variant, spec, timeout=timeout, cross=0 if light else 2)
    except Exception as ex:  # noqa
        import traceback
        ob.set(INCONCLUSIVE, f"engine error {ex!r} {traceback.format_exc()[-300:]}")
    if not light or ob.status != HOLDS:
        run.log(f"{ob.status:12s} {ob.id} n<={N} {ob.solver_s:.1f}s/{time.time() - t0:.1f}s q={ob.queries} {ob.detail[:140]}")
    if states:
        obs = [core.Ob(f"{tag}:states-{k}", "A", w, functions=FUNCS, bound="every state of the compiled automaton; all letters; suffixes of any length", key=key)
               for k, w in (("missing", "no letter that continues a word of the language is missing at any state"),
                            ("present", "every transition class (with its marker) continues to an accepted word of the language"),
                            ("final", "a state is final exactly when its access word is in the language"))]
        merged = None
        if light:
            merged = core.Ob(f"{tag}:states", "A", "at every state of the compiled automaton: no letter of the language is missing, every transition class continues to an accepted word, final flag = membership of the access word",
                             functions=FUNCS, bound="every state of the compiled automaton; all letters; suffixes of any length", key=key)
            run.add(merged)
        else:
            for o in obs:
                run.add(o)
        t0 = time.time()
        try:
            A.decide_states(run, obs, r, auto, variant, spec, timeout=max(timeout, 120))
        except Exception as ex:  # noqa
            import traceback
            for o in obs:
                if o.status is None:
                    o.set(INCONCLUSIVE, f"engine error {ex!r} {traceback.format_exc()[-300:]}")
        if merged is not None:
            merged.queries = sum(o.queries for o in obs)
            merged.solver_s = sum(o.solver_s for o in obs)
            merged.vacuity = all(o.vacuity for o in obs)
            worst = [o for o in obs if o.status == VIOLATION] or [o for o in obs if o.status != HOLDS]
            if worst:
                merged.set(worst[0].status, worst[0].detail, solver="z3-new", replay=worst[0].replay)
            else:
                merged.set(HOLDS, "; ".join(o.detail for o in obs if o.detail), solver="z3-new")
        if not light or any(o.status != HOLDS for o in obs):
            run.log(f"{'/'.join(o.status[:4] for o in obs)} {tag}:states {sum(o.solver_s for o in obs):.1f}s/{time.time() - t0:.1f}s {' | '.join(o.detail[:100] for o in obs if o.detail)}")
    if marked(r) and ob.status == HOLDS and not light:
        ob2 = core.Ob(f"{tag}:unamb", "A", "no word of the expression's language has two marker sequences", functions=FUNCS[:2], bound=f"word length <= {N}", key=key)
        run.add(ob2)
        try:
            res = A.decide_unambiguous(run, ob2, r, N, variant)
            if ob2.status is not None:
                pass
            elif res is None:
                ob2.vacuity = ob.vacuity
                ob2.set(HOLDS, solver="z3-new")
            elif isinstance(res, tuple):
                _, b, mx, my = res
                # compiler accepted an ambiguous expression: the automaton emits one of the two, so `eq`
                # would already have failed; report as inconclusive contradiction
                ob2.set(INCONCLUSIVE, f"ambiguous word {bytes(b)!r} {mx} {my} although equivalence holds")
        except Exception as ex:  # noqa
            ob2.set(INCONCLUSIVE, f"engine error {ex!r}")


def determinism(run, oid, key, rows, functions, what, origin):
    """uniqueness of the marker sequence of an accepted word = one image per (state, byte) in the LIST of
    transitions (for a shipped file: the list as serialized, before it is collected into a map)."""
    ob = core.Ob(oid, "A", f"{what}: one (target, marker) per (state, byte), hence one marker sequence per accepted word", functions=functions,
                 bound=f"{len(rows)} transitions", key=key + ":determinism")
    run.add(ob)
    if _skip(run, ob):
        return
    qs = A.determinism_queries(rows)
    if not qs:
        ob.nontrivial = False
        ob.vacuity = True
        return ob.set(HOLDS, "fewer than two transitions")
    for q in qs:
        r = solvers.solve(q, timeout=60, get_values=["i"])
        ob.queries += 1
        ob.solver_s += r.time_s
        if r.status == "sat":
            srt = sorted(rows)
            i = r.model.get("i", 0)
            # replay = the two entries themselves
            path = run.write_replay(ob, dict(kind="duplicate-key", what=what, origin=origin, entries=srt[max(0, i - 1):i + 3]))
            return ob.set(VIOLATION, f"{what}: entries {srt[max(0, i - 1):i + 3]} share a (state, byte) key", solver=r.solver, replay=path)
        if r.status != "unsat":
            return ob.set(INCONCLUSIVE, f"solver {r.status} {r.raw[:160]}")
    # twin: the list is non-empty and the key function is exercised (some adjacent pair IS increasing)
    rv = solvers.solve(qs[0].replace("(>= (K i) (K (+ i 1)))", "(< (K i) (K (+ i 1)))"), timeout=60)
    ob.queries += 1
    ob.vacuity = rv.status == "sat"
    ob.set(HOLDS, solver=r.solver)


# ------------------------------------------------------------------------------------------------
# shipped automata
# ------------------------------------------------------------------------------------------------

def parse_serialized(buf):
    """Independent reader of the serialization format (doc of serialization.rs: little endian u64 for
    usize; Vec = length then items; struct = fields in order; maps/sets as sorted vectors)."""
    pos = 0

    def u64():
        nonlocal pos
        v = struct.unpack_from("<Q", buf, pos)[0]
        pos += 8
        return v

    def u8():
        nonlocal pos
        v = buf[pos]
        pos += 1
        return v

    nb = u64()
    init = u64()
    fin = [u64() for _ in range(u64())]
    tr = []
    for _ in range(u64()):
        s = u64()
        b = u8()
        t = u64()
        m = u64()
        tr.append([s, b, t, m])
    return dict(nb_states=nb, initial_state=init, final_states=fin, transitions=tr), pos


def serialize(d):
    out = struct.pack("<QQ", d["nb_states"], d["initial_state"])
    fin = sorted(d["final_states"])
    out += struct.pack("<Q", len(fin)) + b"".join(struct.pack("<Q", f) for f in fin)
    tr = sorted(d["transitions"])
    out += struct.pack("<Q", len(tr))
    for s, b, t, m in tr:
        out += struct.pack("<QBQQ", s, b, t, m)
    return out


def shipped_member(run, ent, timeout=120):
    name = ent["shipped_name"]
    fresh, ship = A.Auto(ent["fresh"]), A.Auto(ent["shipped"])
    fn = ["circuits/src/parsing/specs.rs::spec_library", "circuits/src/parsing/serialization.rs::Automaton::deserialize",
          f"circuits/src/parsing/specs.rs::{ent['name']}", f"circuits/src/parsing/automaton_cache/{name}"]
    ob = core.Ob(f"A/shipped[{name}]:delta", "A", "shipped automaton equals the fresh compilation of its specification, transition by transition (modulo the state renaming found by parallel traversal)",
                 functions=fn, bound=f"every state < {fresh.nb}, every byte", key=f"shipped:{name}")
    run.add(ob)
    if not _skip(run, ob):
        # candidate renaming pi: fresh -> shipped, by parallel BFS (untrusted; checked by the query)
        pi = {fresh.init: ship.init}
        todo = [fresh.init]
        while todo:
            s = todo.pop()
            for b in range(256):
                if (s, b) in fresh.tr and (pi[s], b) in ship.tr:
                    t, t2 = fresh.tr[(s, b)][0], ship.tr[(pi[s], b)][0]
                    if t not in pi:
                        pi[t] = t2
                        todo.append(t)
        def pichain(dom):
            chain = "(- 1)"
            for s in sorted(dom, reverse=True):
                if s in pi:
                    chain = f"(ite (= s {s}) {pi[s]} {chain})"
            return f"(define-fun pi ((s Int)) Int {chain})"

        # (a) pi is injective and total on the states of the fresh automaton
        q = "\n".join(["(set-logic ALL)", pichain(range(fresh.nb)), "(declare-const s Int)(declare-const s2 Int)",
                       f"(assert (and (<= 0 s) (< s {fresh.nb}) (<= 0 s2) (< s2 {fresh.nb})))",
                       "(assert (or (< (pi s) 0) (and (not (= s s2)) (= (pi s) (pi s2)))))"])
        r = solvers.solve(q, timeout=timeout, get_values=["s", "s2"])
        ob.queries += 1
        ob.solver_s += r.time_s
        # (b) chunk by chunk: images, markers and final flags agree through pi
        CH = 24
        L = []
        if r.status == "unsat":
            for lo in range(0, fresh.nb, CH):
                dom = set(range(lo, min(lo + CH, fresh.nb)))
                targets = {fresh.tr[k][0] for k in fresh.tr if k[0] in dom}
                L = ["(set-logic ALL)"] + fresh.smt_defs("fr", only=dom) + ship.smt_defs("sh", only={pi[s] for s in dom if s in pi}) + [pichain(dom | targets)]
                L.append("(declare-const s Int)(declare-const b Int)")
                L.append(f"(assert (and (<= {lo} s) (< s {min(lo + CH, fresh.nb)}) (<= 0 b) (<= b 255)))")
                bad = ["(not (= (ite (< (fr_t s b) 0) (- 1) (pi (fr_t s b))) (sh_t (pi s) b)))",
                       "(not (= (fr_m s b) (sh_m (pi s) b)))",
                       "(not (= (fr_f s) (sh_f (pi s))))"]
                r = solvers.solve("\n".join(L + ["(assert (or " + " ".join(bad) + "))"]), timeout=timeout, get_values=["s", "b"])
                ob.queries += 1
                ob.solver_s += r.time_s
                if r.status != "unsat":
                    break
        ground_ok = fresh.nb == ship.nb and pi.get(fresh.init) == ship.init and len(ship.tr) == len(fresh.tr) and len(ship.final) == len(fresh.final)
        if r.status == "unsat" and ground_ok:
            rv = solvers.solve("\n".join(L + ["(assert (and (>= (fr_t s b) 0) (= (pi (fr_t s b)) (sh_t (pi s) b))))"]), timeout=timeout)
            ob.queries += 1
            ob.vacuity = rv.status == "sat"
            ob.set(HOLDS, solver=r.solver, detail="renaming is the identity" if all(k == v for k, v in pi.items()) else "renaming is not the identity")
        elif r.status == "sat" or (r.status == "unsat" and not ground_ok):
            # replay: a word on which the two REAL automata differ (shortest, by product traversal)
            w = differing_word(fresh, ship)
            if w is None:
                ob.set(INCONCLUSIVE, f"transition tables differ at (s={r.model.get('s')}, b={r.model.get('b')}) but the automata agree on every word (renaming?)")
            else:
                r1 = A.ax_run({"lib": ent["name"]}, [w])
                r2 = A.ax_run({"shipped": name}, [w])
                a1, a2 = r1["runs"][0], r2["runs"][0]
                if (a1["accepted"], a1["markers"] if a1["accepted"] else None) != (a2["accepted"], a2["markers"] if a2["accepted"] else None):
                    path = run.write_replay(ob, dict(kind="shipped-differs", lib=ent["name"], shipped=name, word=w, fresh_run=a1, shipped_run=a2))
                    ob.set(VIOLATION, f"shipped automaton {name} and the fresh compilation of {ent['name']} differ on {bytes(w)[:60]!r}: fresh accepted={a1['accepted']} shipped accepted={a2['accepted']}", solver=r.solver, replay=path)
                else:
                    ob.set(INCONCLUSIVE, "difference did not replay on the real automata")
        else:
            ob.set(INCONCLUSIVE, f"solver {r.status} {r.raw[:200]}")
        run.log(f"{ob.status:12s} {ob.id} {ob.solver_s:.1f}s {ob.detail[:160]}")
    # serialized bytes: independent parse == real deserializer's result; canonical re-serialisation == file
    ob2 = core.Ob(f"A/shipped[{name}]:bytes", "A", "file bytes parse (independent reader of the documented format) to exactly the automaton the real deserializer returns, and its canonical re-serialisation is the file",
                  functions=fn[:2] + [fn[3]], bound="whole file", key=f"shipped:{name}:bytes")
    ob2.nontrivial = False
    run.add(ob2)
    if not _skip(run, ob2):
        path = os.path.join(core.REPO, "circuits/src/parsing/automaton_cache", name)
        buf = open(path, "rb").read()
        try:
            d, used = parse_serialized(buf)
            determinism(run, f"A/shipped[{name}]:det", f"shipped:{name}", d["transitions"], fn[:2] + [fn[3]], f"transition list serialized in automaton_cache/{name} (before it is collected into a map)", {"file": name})
            same = (d["nb_states"] == ship.nb and d["initial_state"] == ship.init and sorted(d["final_states"]) == sorted(ship.final)
                    and sorted(d["transitions"]) == sorted(ship.raw))
            rt = serialize(ent["shipped"]) == buf
            ob2.vacuity = True
            if same and used == len(buf) and rt:
                ob2.set(HOLDS, f"{len(buf)} bytes, {len(d['transitions'])} transitions")
            else:
                p = run.write_replay(ob2, dict(kind="shipped-bytes", shipped=name, same=same, used=used, size=len(buf), roundtrip=rt))
                ob2.set(VIOLATION, f"serialized file {name}: independent parse equals real deserialization: {same}; bytes consumed {used}/{len(buf)}; canonical re-serialisation equals file: {rt}", replay=p)
        except Exception as ex:  # noqa
            ob2.set(INCONCLUSIVE, f"could not parse {path}: {ex!r}")


def differing_word(a1, a2):
    """shortest byte word on which two automata differ (acceptance or markers of an accepted word)."""
    import collections
    start = (a1.init, a2.init)
    seen = {start: []}
    dq = collections.deque([start])
    while dq:
        s1, s2 = dq.popleft()
        w = seen[(s1, s2)]
        if (s1 in a1.final) != (s2 in a2.final):
            return w
        for b in range(256):
            t1, t2 = a1.tr.get((s1, b)), a2.tr.get((s2, b))
            if t1 is None and t2 is None:
                continue
            if t1 is None or t2 is None or t1[1] != t2[1]:
                # complete with an accepting continuation of whichever side is alive
                live, st = (a1, t1[0]) if t1 is not None else (a2, t2[0])
                comp = A.completion_words(live)
                if st in comp:
                    return w + [b] + [c & 255 for c in comp[st]]
                continue
            k = (t1[0], t2[0])
            if k not in seen:
                seen[k] = w + [b]
                dq.append(k)
    return None


# ------------------------------------------------------------------------------------------------

def translator_validation(run, members, comps, per=6):
    """RegLan emitter vs the Python derivative matcher on ground words (accepted runs of the real
    automaton, their one-letter mutations, and short words), decided by z3 as ground membership."""
    import random
    rnd = random.Random(core.seed() + 17)
    checked = disagreements = 0
    batch = []
    for mid, key, r, variant in members:
        comp = comps.get(mid)
        try:
            corex = A.core_of(r, variant)
        except A.Outside:
            continue
        words = [[]]
        if comp and comp.get("ok"):
            auto = A.Auto(comp["automaton"])
            compw = A.completion_words(auto)
            acc, _ = A.access_words(auto)
            for s in list(acc)[:: max(1, len(acc) // 3)][:3]:
                if s in compw:
                    w = acc[s] + compw[s]
                    if len(w) <= 400:
                        words.append(w)
                        if w:
                            w2 = list(w)
                            i = rnd.randrange(len(w2))
                            w2[i] = (w2[i] & 255 ^ rnd.randrange(1, 256)) + 256 * (w2[i] >> 8)
                            words.append(w2)
                            w3 = list(w)
                            w3[i] = (w3[i] & 255) + 256 * ((w3[i] >> 8) + 1)
                            words.append(w3)
        for _ in range(2):
            words.append([rnd.choice([97, 98, 99, 48, 32, 44, 34, 92, 200]) for _ in range(rnd.randrange(1, 5))])
        batch.append((mid, corex, words[:per]))
    # one z3 query per member: every ground membership must evaluate to the matcher's verdict
    def one(item):
        mid, corex, words = item
        em = A.RegLanEmitter()
        top = em.term(corex)
        exp = [A.ref_match(corex, w) for w in words]
        L = ["(set-logic ALL)"] + em.defs
        L.append("(assert (or false " + " ".join(f"(not (= (str.in_re {A.smt_str(w)} {top}) {'true' if e else 'false'}))" for w, e in zip(words, exp)) + "))")
        r = solvers.solve("\n".join(L), timeout=60, solvers=("z3-new",))
        return mid, len(words), r.status
    with ThreadPoolExecutor(8) as ex:
        for mid, n, st in ex.map(one, batch):
            checked += n
            if st != "unsat":
                disagreements += 1
                run.log(f"translator validation: z3 membership and derivative matcher disagree or undecided on {mid}: {st}")
    run.translator_validation.append(
        f"engine A RegLan emitter: {checked} ground words over {len(batch)} expressions (accepted runs of the real automaton, one-letter and one-marker mutations, short words) "
        f"evaluated by an independent Brzozowski-derivative matcher and by z3 membership in the emitted RegLan: {disagreements} disagreements")
    return disagreements


def check(run):
    tier = core.tier()
    N = 8 if tier == "quick" else 16
    depth, count = (3, 16) if tier == "quick" else (5, 60)
    A.build(run)
    run.bounds.append(f"engine A: word length N <= {N}; random ASTs depth {depth} x {count} (seed {core.seed()}); per-state obligations: all states, unbounded suffixes")
    run.assumptions += [
        "engine A: the reference language of each combinator is written from its documentation in regex.rs (RFC 8259 for json_string, Unicode table 3-7 for utf8_cps); markers are folded into the alphabet as byte + 256*marker",
        "engine A: decided by z3-new only (sequence/regex theory); cvc5 is run as a second opinion on lengths <= 2 in a str.from_code formulation; a definite disagreement is INCONCLUSIVE",
        "engine A: replays walk the public `transitions`/`final_states` fields of the real Automaton exactly like the test-only `Automaton::run`",
    ]
    run.outside += ["intersection of two marked operands (unification rule)", "regular expressions with markers above 64"]
    lib = A.ax_lib(timeout=60 if tier == "quick" else 600)
    members = [(i, k, r, None) for i, k, r in A.fixed_family() + A.DEFECT_PROBES + A.random_family(core.seed(), count, depth)]
    comps = A.ax_compile([(i, r) for i, k, r, _ in members], timeout=20 if tier == "quick" else 120)
    jobs = []
    for mid, key, r, variant in members:
        jobs.append(lambda mid=mid, key=key, r=r, variant=variant: regex_member(run, mid, key, r, comps[mid], N, variant))
    # the library's own specifications
    for ent in lib:
        name = ent["name"]
        if ent.get("fresh_timeout") or "fresh" not in ent:
            run.outside.append(f"library specification {name}: compilation exceeded the cap")
            continue
        comp = {"ok": True, "automaton": ent["fresh"]}
        comps["lib:" + name] = comp
        if ent["via_r"].get("automaton") != ent["fresh"]:
            ob = core.Ob(f"A/lib[{name}]:mirror", "A", "R tree recorded from the library's specification rebuilds the same automaton")
            run.add(ob)
            ob.set(INCONCLUSIVE, "recorded R tree of the specification does not rebuild the automaton of the specification")
            continue
        big = ent["fresh"]["nb_states"] > 100
        n_lib = N if not big else min(N, 8)
        uses_json = "json_string" in json.dumps(ent["r"])
        jobs.append(lambda name=name, ent=ent, comp=comp, n_lib=n_lib: regex_member(run, f"lib[{name}]", f"lib:{name}", ent["r"], comp, n_lib, None, {"lib": name}, timeout=120))
        members.append(("lib:" + name, f"lib:{name}", ent["r"], None))
        if uses_json:
            # second reading that looks past finding regex:json_string (non-ASCII string content)
            jobs.append(lambda name=name, ent=ent, comp=comp, n_lib=n_lib: regex_member(run, f"lib[{name}]", f"lib:{name}:ascii-strings", ent["r"], comp, n_lib, {"json_ascii": 1}, {"lib": name}, vtag="[json strings restricted to ASCII]", timeout=120))
        if ent.get("shipped") is not None:
            jobs.append(lambda ent=ent: shipped_member(run, ent))
    # systematic product family (every combinator x every leaf in every operand position), deduplicated
    NP = 2 if tier == "quick" else 4
    t0 = time.time()
    pm, pcomps, stats = A.product_family(tier, compile_timeout=20 if tier == "quick" else 120)
    run.log(f"product family: {stats} in {time.time() - t0:.1f}s")
    run.bounds.append(f"engine A product family: {stats['candidates']} expressions (unary combinators x {len(A.rich_leaves())} leaves, binary / separated / delimited combinators x all ordered pairs of "
                      f"{len(A.REDUCED) if tier == 'quick' else len(A.REDUCED) + 4} leaves, concatenations and unions of three"
                      + ("" if tier == "quick" else ", depth-2 shapes op1(op2(iterated word), X) in both operand positions")
                      + f"), {stats['outside']} outside the claim, {stats['distinct']} distinct after deduplication on (normal form of the reference language, compiled automaton up to renaming); "
                      f":eq word length <= {NP}, :states every state with unbounded suffixes")
    for mid, key, r in pm:
        jobs.append(lambda mid=mid, key=key, r=r: regex_member(run, mid, key, r, pcomps[mid], NP, light=True))
    with ThreadPoolExecutor(8) as ex:
        list(ex.map(lambda f: f(), jobs))
    rnd_tv = __import__("random").Random(core.seed() + 5)
    translator_validation(run, members + [(i, k, r, None) for i, k, r in rnd_tv.sample(pm, min(len(pm), 150))], dict(comps, **pcomps))


KINDS = ("regex-word", "regex-panic", "shipped-differs", "shipped-bytes", "duplicate-key")


def replay(payload):
    """re-execute a counterexample against the real code; 1 if it reproduces."""
    kind = payload.get("kind")
    A.build()
    if kind == "regex-word":
        real, raw = A.real_verdict(payload["spec"], payload["word"], payload["markers"])
        corex = A.core_of(payload["r"], payload.get("variant"))
        in_ref = A.ref_match(corex, [b + 256 * m for b, m in zip(payload["word"], payload["markers"])])
        print(f"real automaton accepts {bytes(payload['word'])!r} with markers {payload['markers']}: {real} (run {raw}); in reference language: {in_ref}")
        return 1 if real is not None and real != in_ref else 0
    if kind == "regex-panic":
        res = A.ax_compile([("x", payload["r"])])["x"]
        print("to_automaton():", {k: v for k, v in res.items() if k != "automaton"})
        return 1 if (not res.get("ok") and res.get("panic")) else 0
    if kind == "shipped-differs":
        a1 = A.ax_run({"lib": payload["lib"]}, [payload["word"]])["runs"][0]
        a2 = A.ax_run({"shipped": payload["shipped"]}, [payload["word"]])["runs"][0]
        print("fresh:", a1, "shipped:", a2)
        return 1 if (a1["accepted"], a1["markers"] if a1["accepted"] else None) != (a2["accepted"], a2["markers"] if a2["accepted"] else None) else 0
    if kind == "shipped-bytes":
        path = os.path.join(core.REPO, "circuits/src/parsing/automaton_cache", payload["shipped"])
        buf = open(path, "rb").read()
        ent = [e for e in A.ax_lib() if e.get("shipped_name") == payload["shipped"]][0]
        d, used = parse_serialized(buf)
        ok = sorted(d["transitions"]) == sorted(ent["shipped"]["transitions"]) and used == len(buf) and serialize(ent["shipped"]) == buf
        print("bytes consistent:", ok)
        return 0 if ok else 1
    if kind == "duplicate-key":
        o = payload["origin"]
        if "file" in o:
            rows = parse_serialized(open(os.path.join(core.REPO, "circuits/src/parsing/automaton_cache", o["file"]), "rb").read())[0]["transitions"]
        elif "lib" in o:
            rows = [e for e in A.ax_lib() if e["name"] == o["lib"]][0]["fresh"]["transitions"]
        else:
            rows = A.ax_compile([("x", o["r"])])["x"]["automaton"]["transitions"]
        keys = [(s, b) for s, b, _, _ in rows]
        dup = len(keys) != len(set(keys))
        print("duplicate (state, byte) keys in the transition list:", dup)
        return 1 if dup else 0
    print("unknown replay kind", kind)
    return 2
