"""C14 (engine S) — KZG multi-opening: the REAL `KZGCommitmentScheme::multi_prepare` (with the real
`construct_intermediate_sets`, `lagrange_interpolate`, `CommitmentReference::as_terms`, `msm_inner_product`,
`evals_inner_product`) executed on the symbolic pairing engine SymE (G1/G2/Gt = discrete logarithms over
SymF, pairing = product of exponents).

Per query-list pattern: polynomials with symbolic coefficients, commitments = their value at the symbolic
toxic waste s, true evaluations claimed, one commitment optionally "chopped" into two pieces (the `vanishing`
query of the PLONK verifier). The opening proof (f_com, q(x3) per point set, pi) is produced by a
SPECIFICATION prover written from the halo2 book in engines/symfield/src/c14.rs with the same Fiat-Shamir
schedule; points and x3 are concrete generic constants (only constants are inverted), s, x1, x2, x4 and all
coefficients are symbolic.

Obligations (families of patterns; exhaustive over assignment patterns of <= 3 points to <= 3 (quick) / 4
(thorough) commitments, three positions of the chopped query):
  completeness   multi_prepare returns a guard and its pairing equation  left*s - right == 0  holds as a
                 polynomial identity (normalised, ground residual to the solver portfolio); split by whether the
                 chopped query's point is the first point of the query list (the PLONK verifier's `vanishing`
                 query is last in its list, so this is the case "some earlier query is at a rotated point")
  two-chopped    the same completeness / eval-binding obligations on query lists with TWO chopped commitments, each opened
                 at its own single point (all 9 point pairs, equal and different; a one-piece commitment at every point
                 subset; three query orders) - the PLONK verifier only ever issues one chopped query (seeded C14-d)
  duplicate      a repeated (commitment, point) pair yields Err(DuplicatedQuery)
  eval-binding   with every claimed evaluation perturbed by a fresh variable t_i the guard polynomial is
                 sum_i c_i t_i with every c_i a non-zero polynomial (a wrong claim changes the pairing equation)
"""
import itertools, json, os, tempfile, time

from vf import core, solvers, symf
from vf.core import HOLDS, VIOLATION, INCONCLUSIVE
from vf.symf import P

ENGINE = "S"


def _wr(run, ob, payload):
    """replay file of this part (the aggregator dispatches on engine_part)"""
    return run.write_replay(ob, dict(payload, engine_part="S"))
FUNCS = ["proofs/src/poly/kzg/mod.rs::KZGCommitmentScheme::multi_prepare", "proofs/src/poly/kzg/utils.rs::construct_intermediate_sets",
         "proofs/src/poly/query.rs::CommitmentReference::as_terms", "proofs/src/utils/arithmetic.rs::lagrange_interpolate",
         "proofs/src/utils/arithmetic.rs::msm_inner_product", "proofs/src/utils/arithmetic.rs::evals_inner_product",
         "proofs/src/poly/kzg/msm.rs::DualMSM::split"]

# the shape whose PLONK-level query list starts at a rotated point (first registered advice query is a0(next)):
F6_REAL_SHAPE = {"adv": [0, 0, 0], "nfix": 1, "ninst": 0, "chal": [],
                 "gates": [{"sel": "mul", "cons": [{"prods": [[["a", 0, 1], ["a", 1, 0]], [["f", 0, 0]]], "out": ["a", 2, 0]}]}],
                 "eq": [], "const_col": False, "copies": []}


def patterns(n_plain, with_chopped=True):
    subsets = [s for r in (1, 2, 3) for s in itertools.combinations(range(3), r)]
    out = []
    for combo in itertools.product(subsets, repeat=n_plain):
        base = [[c + 1, p] for c, s in enumerate(combo) for p in s]
        if not with_chopped:
            out.append(base)
            continue
        for cp in range(3):
            out.append([[0, cp]] + base)
            out.append(base + [[0, cp]])
            out.append(base[:1] + [[0, cp]] + base[1:])
    return out


def patterns_two_chopped():
    """commitments 0 and 1 are both chopped (each opened at its own single point), commitment 2 is in one piece;
    every pair of points for the chopped ones (equal and different), every non-empty point subset for the plain one,
    three orders of the queries"""
    subsets = [s for r in (1, 2, 3) for s in itertools.combinations(range(3), r)]
    out = []
    for c0, c1 in itertools.product(range(3), repeat=2):
        out.append([[0, c0], [1, c1]])
        out.append([[1, c1], [0, c0]])
        for sub in subsets:
            base = [[2, p] for p in sub]
            out.append([[0, c0], [1, c1]] + base)
            out.append(base + [[1, c1], [0, c0]])
            out.append([[0, c0]] + base + [[1, c1]])
    return out


def run_kzg(pats, ncom, d=3, pert=0, vals=None, chop2=None):
    f = tempfile.NamedTemporaryFile("w", suffix=".json", delete=False)
    json.dump(pats, f)
    f.close()
    try:
        kw = dict(patterns=f.name, d=d, ncom=ncom, chop=0, pert=pert)
        if vals is not None:
            kw["vals"] = vals
        if chop2 is not None:
            kw["chop2"] = chop2
        return symf.sx("kzg", **kw)
    finally:
        os.unlink(f.name)


def residual_pairs(d, results):
    dag = symf.Dag(d["arena"])
    ring = symf.Ring()
    memo = {}
    pairs, nonzero = [], []
    for r in results:
        nf = dag.normal(ring, r["residual"], memo)
        if nf:
            nonzero.append(r["pattern"])
        for m, c in nf.items():
            pairs.append((c, 0))
        pairs.append((0, 0))
    return pairs, nonzero, len(ring.atoms)


def decide(run, ob, pairs, bad_patterns, payload, detail):
    r = solvers.solve(symf.residual_smt(pairs), timeout=60)
    tw = solvers.solve(symf.residual_smt(pairs[:30] + [(1, 0)]), timeout=60)
    ob.queries += 2
    ob.vacuity = tw.status == "sat"
    if r.status == "unsat" and not bad_patterns and ob.vacuity:
        ob.set(HOLDS, detail, solver=r.solver, solver_s=r.time_s + tw.time_s)
    elif r.status == "sat" or bad_patterns:
        payload = dict(payload, patterns=bad_patterns[:5])
        if replay(payload):
            ob.set(VIOLATION, f"{len(bad_patterns)} patterns fail, e.g. {bad_patterns[:2]}; {detail}", solver=r.solver,
                   solver_s=r.time_s, replay=_wr(run, ob, payload))
        else:
            ob.set(INCONCLUSIVE, f"{len(bad_patterns)} failing patterns did not replay; {detail}")
    else:
        ob.set(INCONCLUSIVE, f"solver {r.status}")


def check(run):
    symf.build(run)
    n_plain = 2 if core.tier() == "quick" else 3
    d = 3
    bound = (f"1 chopped (2 pieces) + {n_plain} one-piece commitments, every non-empty subset of 3 points per commitment, "
             f"3 positions of the chopped query, {d} coefficients per polynomial/piece; symbolic coefficients, s, x1, x2, x4; "
             "concrete generic points and x3")
    run.bounds.append("C14/S: " + bound)
    run.bounds.append("C14/S two-chopped: 2 chopped commitments (2 pieces each) at every pair of 3 points + 0/1 one-piece commitment at "
                      "every non-empty point subset, 3 query orders (%d patterns)" % len(patterns_two_chopped()))
    run.assumptions += ["S: group elements are modelled by their discrete logarithms (generic-group view); MSM evaluation = sum scalar*base",
                        "S: the opening proof comes from a specification prover (halo2 book), not from the repository's multi_open"]
    run.outside += ["C14: soundness under q-SDH/AGM; truncated challenges; the repository's multi_open (its commit uses windowed MSM "
                    "on scalar bytes: concretisation); perturbation of points / commitments (only claimed evaluations are perturbed)"]
    pats = patterns(n_plain)
    ncom = n_plain + 1
    obs = {}
    for role, what, key in [
        ("completeness/chopped-point-first", "guard returned and left*s - right == 0 (chopped query's point is the first point of the list)", "kzg-completeness"),
        ("completeness/chopped-point-not-first", "guard returned and left*s - right == 0 (an earlier query is at another point)", "kzg-multi_prepare:chopped-point-index"),
        ("completeness/no-chopped", "guard returned and left*s - right == 0 (one-piece commitments only)", "kzg-completeness"),
        ("completeness/two-chopped", "guard returned and left*s - right == 0 (two chopped commitments, each at its own point, equal or different)", "kzg-two-chopped"),
        ("eval-binding/two-chopped", "every claimed evaluation has a non-zero coefficient in the guard polynomial (two chopped commitments)", "kzg-eval-binding"),
        ("duplicate", "a repeated (commitment, point) pair is refused with Err(DuplicatedQuery)", "kzg-duplicate-query"),
        ("eval-binding", "every claimed evaluation has a non-zero coefficient in the guard polynomial", "kzg-eval-binding"),
    ]:
        ob = core.Ob(f"C14/S/kzg/{role}", ENGINE, what, functions=FUNCS, bound=bound, key=key)
        run.add(ob)
        obs[role] = ob
    t0 = time.time()
    try:
        dres = run_kzg(pats, ncom, d)
        dnc = run_kzg(patterns(n_plain, with_chopped=False), ncom, d)
        dup_pats = [p + [p[-1]] for p in pats[::7]] + [[p[0]] + p for p in pats[3::11]]
        ddup = run_kzg(dup_pats, ncom, d)
        pert_pats = pats[::3]      # chopped first (the branch that returns a guard on the pinned tree)
        dpert = run_kzg(pert_pats, ncom, d, pert=1)
        pats2 = patterns_two_chopped()
        d2 = run_kzg(pats2, 3, d, chop2=1)
        d2pert = run_kzg(pats2, 3, d, pert=1, chop2=1)
    except Exception as ex:
        for ob in obs.values():
            ob.set(INCONCLUSIVE, f"sx failed: {str(ex)[-300:]}")
        return
    run.log(f"sx kzg runs done in {time.time() - t0:.1f}s")

    # completeness, split by the position of the chopped query's point
    for role, flag, dd in [("completeness/chopped-point-first", True, dres), ("completeness/chopped-point-not-first", False, dres),
                           ("completeness/no-chopped", None, dnc), ("completeness/two-chopped", "two", d2)]:
        res = [r for r in dd["results"] if flag == "two" or r["first_point_is_chopped_point"] == flag]
        ok = [r for r in res if r["status"] == "ok"]
        bad = [dict(pattern=r["pattern"], status=r["status"], msg=r.get("msg", "")) for r in res if r["status"] != "ok" or not r.get("consumed_all", True)]
        pairs, nonzero, atoms = residual_pairs(dd, ok)
        bad += [dict(pattern=p, status="residual-nonzero") for p in nonzero]
        detail = f"{len(ok)}/{len(res)} patterns return a guard; " + (f"first failure: {bad[0]['status']} {bad[0].get('msg', '')[:160]}" if bad else "all residuals are the zero polynomial")
        if atoms:
            obs[role].set(INCONCLUSIVE, f"{atoms} opaque inverse atoms")
            continue
        decide(run, obs[role], pairs, bad, {"kind": "completeness", "flag": flag, "n_plain": n_plain, "d": d}, detail)

    # duplicates
    res = ddup["results"]
    bad = [dict(pattern=r["pattern"], status=r["status"], msg=r.get("msg", "")) for r in res
           if not (r["duplicate"] and r["status"] == "err" and "DuplicatedQuery" in r.get("msg", ""))
           and not (r["status"] == "panic" and not r["first_point_is_chopped_point"] and False)]
    # patterns that hit the chopped-index panic before the duplicate check cannot happen: the duplicate check is in
    # construct_intermediate_sets, which runs first
    decide(run, obs["duplicate"], [(0, 0)], bad, {"kind": "duplicate", "n_plain": n_plain, "d": d},
           f"{len(res) - len(bad)}/{len(res)} duplicated query lists refused")

    # evaluation binding
    for brole, dpert in [("eval-binding", dpert), ("eval-binding/two-chopped", d2pert)]:
        _binding(run, obs[brole], dpert, n_plain, d, two=brole.endswith("two-chopped"))


def _binding(run, ob, dpert, n_plain, d, two=False):
    dag = symf.Dag(dpert["arena"])
    ring = symf.Ring()
    memo = {}
    bad, pairs, n_q = [], [], 0
    for r in dpert["results"]:
        if r["status"] != "ok":
            bad.append(dict(pattern=r["pattern"], status=r["status"], msg=r.get("msg", "")))
            continue
        nf = dag.normal(ring, r["residual"], memo)
        tidx = {ring.vars.get(f"t{i}"): i for i in range(len(r["pattern"]))}
        seen, const_part = set(), 0
        for m, c in nf.items():
            ts = [v for v, e in m if v in tidx]
            if not ts:
                const_part += 1
            for v in ts:
                seen.add(tidx[v])
        n_q += len(r["pattern"])
        missing = [i for i in range(len(r["pattern"])) if i not in seen]
        if missing or const_part:
            bad.append(dict(pattern=r["pattern"], status=f"evaluations {missing} do not occur in the guard polynomial; t-free part {const_part}"))
        # the solver gets, per query, one non-zero coefficient of t_i as the witness (c != 0 mod p)
        for i in range(len(r["pattern"])):
            w = next((c for m, c in nf.items() if any(v == ring.vars.get(f"t{i}") for v, e in m)), 0)
            pairs.append((1 if w % P else 0, 1))
    decide(run, ob, pairs, bad, {"kind": "binding", "n_plain": n_plain, "d": d, "two": two},
           f"{n_q} claimed evaluations over {len(dpert['results'])} patterns")


def replay(payload):
    """completeness failures: (a) re-run the symbolic pattern (deterministic) and (b) show the failure on the real
    stack: the PLONK circuit whose first query is at a rotated point, real create_proof + prepare over Fq/KZG/Blake2b."""
    if payload.get("engine_part") not in (None, "S") or payload.get("kind") not in ['completeness', 'duplicate', 'binding']:
        return None
    symf.build()
    kind = payload["kind"]
    if kind == "completeness":
        pats = [p["pattern"] for p in payload.get("patterns", [])]
        if not pats:
            return 0
        # concrete mode: every variable (coefficients, s, challenges) is replaced by a constant and the same real
        # code runs; a pattern reproduces if multi_prepare does not return a guard or left*s - right != 0 in F_p
        two = payload.get("flag") == "two"
        d = run_kzg(pats, 3 if two else payload["n_plain"] + 1, payload["d"], vals={}, chop2=1 if two else None)
        dag = symf.Dag(d["arena"])
        still = [r for r in d["results"] if r["status"] != "ok" or dag.const(r["residual"]) != 0]
        print(f"concrete re-run on the real multi_prepare: {len(still)}/{len(pats)} patterns fail: "
              f"{[(r.get('msg') or ('left*s-right = ' + hex(dag.const(r['residual']))[:18]))[:120] for r in still[:2]]}")
        if payload.get("flag") is False:
            real = symf.sx("real", shape=F6_REAL_SHAPE, k=4, np=1, nbc=0, lens=[0])
            print(f"real stack (Fq, KZG, Blake2b; first query at omega*x): mock_prover={real.get('mock_prover')} verdict={real.get('verdict')}")
            return 1 if (still and real.get("accepted") is False and all(x == "Ok(())" for x in real.get("mock_prover", []))) else 0
        return 1 if still else 0
    if kind in ("duplicate", "binding"):
        return 1 if payload.get("patterns") else 0
    return 0
