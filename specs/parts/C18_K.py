"""C18 (ZKIR off-circuit vs in-circuit), engine K part: index/slice arithmetic of the byte conversions,
reached through the add-only re-export `midnight_zkir::verif_hooks` (feature verif-hooks).
Harness crate /verif/engines/kani/kmain (src/h_zkir.rs)."""
from vf import core, kani

CRATE = "engines/kani/kmain"
H = kani.H
IB = "zkir/src/instructions/operations/into_bytes.rs"

SPECS = [
    H("h_zkir::into_bytes_incircuit_biguint", "C18.K.into_bytes.incircuit.biguint",
      "into_bytes_incircuit on a BigUint does not panic for any n >= (number of bytes the BigUint gadget returns): the documentation of Operation::IntoBytes says 'BigUint for any n'",
      [f"{IB}::into_bytes_incircuit (BigUint branch, up to the first field operation after the slice)"],
      "gadget byte count L in 0..=3, n in L..=5, both symbolic; native replay: the program `load BigUint(64); into_bytes(64 + (n - L)); publish` compiled by the real circuit synthesis",
      "zkir-into_bytes:biguint-slice", est=15, min_covers=1,
      stubs=["BigUintGadget::to_le_bytes (returns L opaque bytes)", "blst_scalar_fr_check / RefCell::borrow(_mut) as path cuts", "std::fmt::format"]),
    H("h_zkir::into_bytes_offcircuit_native", "C18.K.into_bytes.offcircuit.native",
      "IrValue::Native(x).into_bytes(n) returns an error value or exactly n bytes for EVERY n: usize, never a panic",
      [f"{IB}::IrValue::into_bytes (Native branch)"], "all n: usize (64 bits), all limb values of x (blst_uint64_from_fr stubbed to any 4 limbs)",
      "zkir-into_bytes:native-n-truncation", est=10, min_covers=2, stubs=["blst::blst_uint64_from_fr", "std::fmt::format"]),
]


def check(run):
    run.bounds.append("K/C18: n: usize fully symbolic off-circuit; in-circuit byte counts <= 3 and n <= 5")
    run.assumptions.append("K/C18: in-circuit harness: the ZkStdLib is opaque all-zero memory, BigUintGadget::to_le_bytes is a stand-in returning L opaque bytes, paths are cut at the first blst call / RefCell borrow after the slice arithmetic, and n >= L (for n < L the function calls trait methods Kani 0.68 cannot stub)")
    run.outside += [
        "K/C18: from_bytes_incircuit / mod_exp_incircuit (no index arithmetic of their own: they forward to gadgets), off-circuit from_bytes/big_to_fe (num-bigint parsing of the modulus string), type/arity totality of process_instruction (h_zkir::arity_*: > 300 s / > 12 GB per operation)",
        "K/C18: observed natively with the scenario tool (replay --scenario zkir-mod-exp 3 2 0): mod_exp_offcircuit with a zero modulus panics inside num-bigint ('attempt to calculate with zero modulus!') instead of returning an Error; not decided by a K check",
    ]
    kani.run_harnesses(run, CRATE, SPECS, jobs=6)


def replay(payload):
    return kani.replay(payload)
