"""C07 (engine C part) — Poseidon only: in-circuit permutation (gate level and end to end), fixed-length hash
and sponge framing, variable-length gadget, and the REAL off-circuit Poseidon run on a symbolic field.

Method (vf/poseidon.py): every cell of the extracted constraint system and every word of the textbook
permutation is an exact linear form over hash-consed atoms pow5(<linear form>) (and pow3 for the chip's cube
hints); cells are derived only as UNIQUE solutions of extracted rows, so `Sys => out = form` holds for every
assignment; equality with the textbook form is a coefficient-wise ground query for the solver portfolio with a
perturbed twin. SHA-2/RIPEMD/Keccak/BLAKE2b are not covered (run.outside)."""
import random
from vf import core, poseidon as ps

P = ps.P


def rnd_inputs(rnd, n):
    return [rnd.randrange(P) for _ in range(n)]


def check(run):
    t = core.tier()
    seed = core.seed()
    rnd = random.Random(7000 + seed)
    only = getattr(run, "only", None)
    n_before = len(run.obs)

    def want(oid):
        return not only or only in oid

    run.assumptions += [
        "Poseidon instance = the one documented in circuits/src/hash/poseidon (x^5, WIDTH/RATE/R_F/R_P and the MDS matrix and round constants exported at run time by the extractor through the crate's public PoseidonField constants); the single partial-round S-box sits on the LAST state word as documented in hash/poseidon/mod.rs (reference implementations of the Poseidon authors use the first word: digests are specific to this instance); state <- MDS x state (column vector)",
        "that the constants are the Grain-LFSR output for (255, 3, 8, 60) is not checked (no generator in the image); the claim is relative to the constants in the tree",
        "constraint structure extracted at one admissible witness per operation (C09 assumed)",
        "fixed-length hash of n words: capacity word = n, no padding, one permutation per RATE-block; n = 0 gives the constant 0 without any permutation (same in circuit and off circuit; recorded as an observation, the sponge definition with zero blocks yields the initial rate word)",
    ]
    run.outside += [
        "SHA-256, SHA-512, RIPEMD-160 (circuits/src/hash/{sha256,sha512,ripemd160}): whole compressions (64/80 rounds of 32/64-bit spread-table arithmetic) are beyond one solver query and their sub-gadgets are private to the chips; not covered here",
        "Keccak-256 / SHA3-256 / BLAKE2b circuits (external crates keccak_sha3 / blake2b wired in zk_stdlib): not this repository's gadget code; whole permutations/compressions beyond solver reach; not covered",
        "Poseidon: inputs longer than 2*RATE+1 words, variable-length gadget beyond MAX_LEN = 4, bn256 constants (dev-curves), the Hashable/Sampleable encodings of curve points fed to the transcript (C08/C03), cryptographic strength of the instance",
    ]
    run.notes.append("Engine C / Poseidon: cells and textbook state words are exact linear forms over hash-consed pow5 atoms; derivation only by unique solution of an extracted row (soundness direction); the solver compares coefficients (ground query + perturbed twin). The off-circuit code is the real generic permutation_cpu / SpongeCPU executed at a symbolic field type.")

    # ---------------- (A) in-circuit permutation
    ins = rnd_inputs(rnd, 3)
    base = "C07/C/chip/perm"
    if want(base):
        ctx = ps.chip_e2e(run, f"{base}/e2e", "real PoseidonChip permutation: the extracted constraints imply outputs = textbook Poseidon permutation of the inputs, for every assignment",
                          "perm", {}, ins, k=10, key="poseidon/perm")
        if ctx:
            ps.chip_rows(run, base, ctx)
            ps.chip_rows_lia(run, base, ctx)
            run.translator_validation.append(f"perm: honest chip run vs real permutation_cpu vs forms evaluated vs naive numeric textbook on seeded inputs: {ctx['tv']}")
            run.bounds.append(f"permutation: WIDTH={ctx['prm'].t} RATE={ctx['prm'].rate} R_F={ctx['prm'].rf} R_P={ctx['prm'].rp}; {len(ctx['system'].d['gates'])} extracted polynomial rows, {len(ctx['A'].tab)} atoms")
        # boundary inputs through the real chip (honest witness must verify; structure must not depend on the input)
        from vf import cengine
        ob = core.Ob(f"{base}/alt-inputs", "C", "honest witnesses of boundary inputs verify and emit the same structure (concrete runs; translator validation, C09 spot check)",
                     functions=["PoseidonChip::permutation"], bound="inputs (0,0,0), (p-1,p-1,p-1), (1,0,p-1)", key="poseidon/perm:alt")
        run.add(ob)
        ob.nontrivial = False
        try:
            h0 = cengine.structure_hash(cengine.extract("poseidon", "perm", {}, ins, 10))
            for alt in ([0, 0, 0], [P - 1, P - 1, P - 1], [1, 0, P - 1]):
                s2 = cengine.extract("poseidon", "perm", {}, alt, 10)
                if not s2.d["honest_verify"]:
                    ob.key += ":honest-rejected"
                    ob.set(core.VIOLATION, f"real MockProver rejects the honest permutation witness on {alt}",
                           replay=run.write_replay(ob, dict(kind="honest-rejected", cx=cengine.cx_args("poseidon", "perm", {}, alt, 10))))
                    break
                if cengine.structure_hash(s2) != h0:
                    ob.set(core.INCONCLUSIVE, f"emitted structure depends on the input {alt}")
                    break
                if s2.d["extra"]["cpu_out"] != [x["value"] for x in s2.io if x["dir"] == "out"]:
                    ob.set(core.INCONCLUSIVE, f"chip honest run and permutation_cpu disagree on {alt} (the symbolic obligations decide which one is wrong)")
                    break
            else:
                ob.vacuity = True
                ob.set(core.HOLDS)
        except Exception as ex:  # noqa
            ob.set(core.INCONCLUSIVE, f"{ex!r}")

    # ---------------- (C) sponge / hash framing on the chip, end to end through the same atoms
    lens = list(range(0, 6))
    for n in lens:
        oid = f"C07/C/chip/hash[n={n}]"
        if want(oid):
            ctx = ps.chip_e2e(run, oid, f"real HashInstructions::hash of {n} words: constraints imply digest = sponge(textbook permutation) of the inputs, for every assignment",
                              "hash", {"n": n}, rnd_inputs(rnd, n), k=10, key="poseidon/hash", funcs=ps.FUNCS_CHIP + ps.FUNCS_SPONGE)
            if ctx:
                run.translator_validation.append(f"hash n={n}: {ctx['tv']}")
    scripts = ["s1", "a1.s1", "a2.s1", "a3.s2", "a2.s3", "a1.s1.a1.s1", "a0.s1", "a2.a1.s1"]
    if t == "thorough":
        scripts += ["a4.s1", "a5.s2", "a1.s2.a2.s2", "s2.a1.s1"]
    for sc in scripts:
        oid = f"C07/C/chip/sponge[{sc}]"
        if want(oid):
            n = sum(k for a, k in ps.parse_script(sc) if a)
            ctx = ps.chip_e2e(run, oid, f"real SpongeInstructions (init(None), script {sc}): constraints imply every squeezed word = sponge(textbook permutation), for every assignment",
                              "sponge", {"script": sc}, rnd_inputs(rnd, n), k=10, key="poseidon/sponge", funcs=ps.FUNCS_CHIP + ps.FUNCS_SPONGE)
            if ctx:
                run.translator_validation.append(f"sponge {sc}: {ctx['tv']}")

    # ---------------- (C') variable-length gadget: case split over len, control cells decided by the solver
    for M in ([2, 4] if t == "quick" else [2, 4, 6]):
        if want(f"C07/C/chip/varhash[M={M}]"):
            ps.varhash_family(run, M, k=10, rnd=random.Random(7100 + seed + M))

    # ---------------- the verifying key of every harness circuit agrees with the checker's view (as for every engine-C family)
    from vf import cengine
    shapes = [("perm", {}, 3)] + [("hash", {"n": n}, n) for n in lens] + [("sponge", {"script": sc}, sum(k for a, k in ps.parse_script(sc) if a)) for sc in scripts] \
        + [("varhash", {"max": M, "len": M - 1}, M - 1) for M in ([2, 4] if t == "quick" else [2, 4, 6])]
    for op, params, n in shapes:
        oid = f"C07/C/chip/{op}[{ps.pstr(params)}]:keygen"
        if not want(oid):
            continue
        ob = core.Ob(oid, "C", "the verifying key generated by the real keygen_vk commits to the same copy constraints and fixed columns as the development-time checker sees",
                     functions=["midnight_proofs::plonk::keygen_vk", "permutation::keygen::Assembly::copy", "dev::MockProver::copy"], bound="k=10", key=f"poseidon/{op}:keygen-vs-checker-structure")
        run.add(ob)
        try:
            insk = list(range(1, n + 1))
            sysk = cengine.extract("poseidon", op, params, insk, 10, keygen=True)
            cengine.keygen_structure(run, ob, sysk, "poseidon", op, params, insk, 10, timeout=60)
        except Exception as ex:  # noqa
            ob.set(core.INCONCLUSIVE, f"keygen structure comparison failed: {ex!r}")

    run.bounds.append(f"tier={t}: fixed-length hash n=0..{lens[-1]} (0..2*RATE+1), sponge scripts {scripts}, variable-length gadget MAX_LEN in {[2, 4] if t == 'quick' else [2, 4, 6]} with every len 0..MAX_LEN, k=10; off-circuit code: same operations on symbolic inputs")

    # ---------------- (B) off-circuit Poseidon: the real generic code on the symbolic field
    if want("C07/C/cpu/perm"):
        ps.cpu_sym(run, "C07/C/cpu/perm", "real permutation_cpu (round-skip optimised) on symbolic inputs == textbook Poseidon permutation, as linear forms over pow5 atoms",
                   "cpu_perm", {}, 3, key="poseidon/cpu_perm")
    for n in lens:
        oid = f"C07/C/cpu/hash[n={n}]"
        if want(oid):
            ps.cpu_sym(run, oid, f"real HashCPU::hash of {n} symbolic words == sponge(textbook permutation)", "cpu_hash", {"n": n}, n, key="poseidon/cpu_hash")
    for sc in scripts:
        oid = f"C07/C/cpu/sponge[{sc}]"
        if want(oid):
            n = sum(k for a, k in ps.parse_script(sc) if a)
            ps.cpu_sym(run, oid, f"real SpongeCPU / TranscriptHash (init(None), script {sc}) on symbolic words == sponge(textbook permutation)",
                       "cpu_sponge", {"script": sc}, n, key="poseidon/cpu_sponge")
    for ob in run.obs[n_before:]:
        run.log(f"{ob.status or 'UNDECIDED':12s} {ob.id} {ob.solver or ''} {ob.solver_s:.2f}s {ob.detail[:200]}")
    run.translator_validation.append("symbolic field symp::PF: constants are Fq's PoseidonField constants lifted at compile time; a product of two different non-constant forms panics (reported as untranslatable); forms imported into the python atom table by re-hash-consing each atom's base form")


def replay(payload):
    """re-execute a recorded counterexample against the real code; 1 = reproduces"""
    import json, subprocess, tempfile
    kind = payload.get("kind")
    if kind == "cpu-differs":
        rc, info = ps.replay_cpu(payload)
        print("real off-circuit code:", info["real"])
        print("naive textbook evaluation:", info["textbook"])
        return rc
    if kind in ("forged-assignment", "honest-rejected", "honest-panics") and payload.get("cx", [None])[0] == "poseidon":
        from vf import cengine
        cengine.build()
        args = [cengine.CX] + payload["cx"]
        if payload.get("overrides"):
            with tempfile.NamedTemporaryFile("w", suffix=".json", delete=False) as f:
                json.dump(payload["overrides"], f)
            args.append(f"replay={f.name}")
        p = subprocess.run(args, capture_output=True, text=True)
        if kind == "honest-panics":
            print("exit code:", p.returncode, p.stderr[-300:])
            return 1 if p.returncode != 0 else 0
        out = json.loads(p.stdout) if p.returncode == 0 else {"error": p.stderr[-500:]}
        if kind == "honest-rejected":
            print("honest_verify:", out.get("honest_verify"))
            return 1 if out.get("honest_verify") is False else 0
        print("real MockProver verdict on the forged assignment:", out)
        if payload.get("op_spec", {}).get("op") == "varhash":
            # the same defect through the honest API: a vector assigned with a non-zero filler
            sp = payload["op_spec"]["params"]
            d = ps.cx_json([a for a in payload["cx"]] + ["p.filler=7"])
            dig = [x["value"] for x in d["io"] if x["dir"] == "out"]
            print(f"honest API (assign_with_filler(payload, Some(7)) then varhash): MockProver ok = {d['honest_verify']}; in-circuit digest {dig}; off-circuit hash of the payload {d['extra']['cpu_out']}")
            lo, hi = ps.payload_range(int(sp["max"]), int(sp["len"]), 2)
            d0 = ps.cx_json(["poseidon", "op=cpu_perm", "p.concrete=1", "in=1:2:3"])
            prm = ps.Params(d0["constants"])
            vals = [int(x, 16) for x in payload["inputs"]]
            exp = ps.sponge_hash_spec(ps.NumDom(prm), vals[lo:hi])
            print("specified digest of the payload (naive textbook evaluation):", ps.hexes(exp))
            print("digest on the accepted instance column:                     ", payload["outputs_accepted"])
            return 1 if out.get("accepted") and ps.hexes(exp) != payload["outputs_accepted"] else 0
        if payload.get("op_spec"):
            # the accepted outputs are not the specified ones: recompute the specification numerically
            sp = payload["op_spec"]
            d = ps.cx_json(["poseidon", "op=cpu_perm", "p.concrete=1", "in=1:2:3"])
            prm = ps.Params(d["constants"])
            exp = ps.spec_outputs(ps.NumDom(prm), sp["op"], sp["params"], [int(x, 16) for x in payload["inputs"]])
            print("specified outputs (naive textbook evaluation):", ps.hexes(exp))
            print("outputs on the accepted instance column:     ", payload["outputs_accepted"])
            return 1 if out.get("accepted") and ps.hexes(exp) != payload["outputs_accepted"] else 0
        return 1 if out.get("accepted") else 0
    return None
