"""C15 (batching), engine K part: totality of the batch entry points on the lengths of their arguments, and the fold of
batch_verify (weights of the members in the checked combination).
Harness crate /verif/engines/kani/kmain (src/h_batch.rs, src/h_transcript.rs, src/h_batch_fold.rs)."""
from vf import core, kani

CRATE = "engines/kani/kmain"
H = kani.H
ZL = "zk_stdlib/src/lib.rs"

SPECS = [
    H("h_batch::batch_verify_no_keys", "C15.K.batch_verify.no_keys",
      "batch_verify(params, vks = [], pis, proofs) returns a Result for pis.len(), proofs.len() in {0,1,2}: Err(InvalidInstances) on a length mismatch, never a panic (the empty batch included)",
      [f"{ZL}::batch_verify", "proofs/src/transcript/mod.rs::CircuitTranscript::{init, squeeze_challenge}"],
      "vks.len() = 0; pis.len(), proofs.len() symbolic in {0,1,2}; public-input vectors of length 0/1",
      "batch_verify:empty-batch", est=10, min_covers=2, flags=["-Z", "unstable-options", "--no-memory-safety-checks"],
      stubs=["midnight_proofs::plonk::prepare (any answer)", "DualMSM::{check, scale, add_msm}"]),
    H("h_transcript::guard_batch_verify_lengths", "C15.K.guard.batch_verify.lengths",
      "Guard::batch_verify(guards, params) (provided trait method) returns a Result for iterators of lengths in {0,1,2} x {0,1,2}, never a panic",
      ["proofs/src/poly/commitment.rs::Guard::batch_verify"], "guards.len(), params.len() symbolic in {0,1,2}; guard type: stub scheme under Kani, DualMSM<Bls12> in the native replay",
      "guard-batch_verify:length-mismatch", est=8, min_covers=2),
]

# --- the fold of batch_verify (h_batch_fold.rs, builder K3; notes/K3.md) -----------------------------------
FOLD_FLAGS = ["-Z", "unstable-options", "--no-assertion-reach-checks"]   # reach checks only refine SUCCESS into UNREACHABLE; each costs a JSON trace (measured 215 s -> 61 s at n = 3)
FOLD_STUBS = ["midnight_proofs::plonk::prepare (Ok(guard_i) carrying ghost weights e_i; marks the per-proof transcript with i)",
              "transcript hash FH (records absorbed member summaries; batching challenge = 4 symbolic limbs)",
              "DualMSM::scale (asserts s == the challenge bit for bit; weights *= X)", "DualMSM::add_msm (weights and consumption counts added; g moved in)",
              "DualMSM::check (FINAL STEP: asserts the weight statement; answers nondeterministically)"]
FOLD_FUNCS = [f"{ZL}::batch_verify", "proofs/src/transcript/mod.rs::CircuitTranscript::{init, init_from_bytes, squeeze_challenge, common, assert_empty}",
              "proofs/src/poly/kzg/msm.rs::<DualMSM as Guard>::verify"]
FOLD_SCENARIO = ["batch-fold-attack", "4"]


def _fold(n, tiers=("quick", "thorough"), est=30):
    return H(f"h_batch_fold::batch_fold_n{n}", f"C15.K.batch_verify.fold.n{n}",
             f"the REAL batch_verify loop on a batch of {n}: at the final check every member's weight is a monomial X^k (X = the one batching challenge, coefficient 1), "
             "the exponents are pairwise distinct, every guard was folded in exactly once; scale is only ever called with the value the batching transcript handed out; "
             "that challenge was squeezed after all member summaries were absorbed; the final check runs exactly once and batch_verify is Ok iff it says yes",
             FOLD_FUNCS, f"n = {n} members (constant of the harness); challenge = 4 symbolic u64 limbs; answer of the final check symbolic; keys opaque (nb_public_inputs = 0), proofs empty",
             "batch_verify:fold-weights", est=est, min_covers=2, flags=FOLD_FLAGS, stubs=FOLD_STUBS, tiers=tiers,
             timeout={"quick": 300, "thorough": 900}, oracle_scenario=FOLD_SCENARIO)


def _fold_err(at, tiers=("quick", "thorough")):
    return H(f"h_batch_fold::batch_fold_member_err_n3_at{at}", f"C15.K.batch_verify.fold.member_err.at{at}",
             f"the REAL batch_verify on a batch of 3 whose member {at} fails its preparation (prepare answers Err): the batch is rejected, whatever the other members and the final check say",
             FOLD_FUNCS, f"n = 3, failing member = {at} (constants of the harness: a symbolic position exhausts 12 GB, io::Error drop glue); challenge and final-check answer symbolic",
             "batch_verify:member-prepare-error", est=80, min_covers=1, flags=FOLD_FLAGS, stubs=FOLD_STUBS, tiers=tiers,
             timeout={"quick": 300, "thorough": 900}, oracle_scenario=FOLD_SCENARIO)


SPECS += [_fold(1, est=12), _fold(2, est=15), _fold(3, est=60), _fold(4, tiers=("thorough",), est=60),
          _fold_err(2), _fold_err(0, tiers=("thorough",))]


def check(run):
    run.bounds.append("K/C15: slice / iterator lengths in {0,1,2} (totality harnesses)")
    run.assumptions.append("K/C15: batch_verify harness: `prepare` answers Ok(empty guard)/Err nondeterministically, the pairing check answers nondeterministically, DualMSM::scale/add_msm are no-ops (rayon makes the Kani compiler panic), CBMC pointer checks off (Rust panics, bounds and overflow checks stay on)")
    run.bounds.append("K/C15 fold: batch sizes n = 1, 2, 3 (quick), 4 (thorough); weights are exact polynomials in the formal challenge X with 7 coefficient slots of 7 bits (overflow is an assertion failure)")
    run.assumptions += [
        "K/C15 fold: the member guards are opaque (prepare is a stand-in answering Ok(guard_i) / Err for a fixed member); DualMSM::scale/add_msm are replaced by exact weight bookkeeping "
        "(their real bodies, linear maps on the scalar vectors, are engine S's obligation C15.S.*); the final pairing check answers nondeterministically",
        "K/C15 fold: distinct powers of ONE challenge that binds every member suffice for soundness of the random linear combination (Schwartz-Zippel over the 255-bit scalar field; not decided here); "
        "the particular order X^(n-1), .., X, 1 is NOT demanded (the repository does not document one)",
        "K/C15 fold: a FAILED fold harness is concretised by the native scenario `batch-fold-attack` (real proofs, real batch_verify: all-honest batches of size 1..4 accepted, every batch with one shifted proof "
        "or with a +D/-D pair rejected); a deviation that is harmless for soundness (e.g. other distinct powers with a non-monomial bookkeeping) does not reproduce there and is reported INCONCLUSIVE, not VIOLATION",
    ]
    run.outside += [
        "K/C15: length totality with one or two keys AND nondeterministic prepare answers (h_batch::batch_verify_one_key / two_keys; measured: symex 220 s then the SAT back end exceeds 12 GB); "
        "with prepare answering Ok for every member (fold harnesses) or Err for one fixed member the function is decided for n = 1..4",
        "K/C15 fold: which (vk_i, pi_i, proof_i) triple reaches prepare for member i is identified by the KEY pointer only (public inputs and proofs are empty vectors in the harness: a zip that pairs key i with proof j is not seen); "
        "public-input-count guard inside the batch: keys are all-zero so only nb_public_inputs = 0 = pi.len() is exercised (the mismatch branch is decided by C03.K.verify.nb_public_inputs for `verify`, not for the batch closure)",
        "K/C15 fold: batch sizes above 4; symbolic position of a failing member; committed instances (batch_verify does not support them)",
        "K/C15 accumulators (circuits/src/verifier/accumulator.rs + msm.rs; used by aggregator/src/light_aggregator.rs, zk_stdlib/examples/ivc.rs and the in-circuit verifier gadget): NOT covered by engine K. "
        "Accumulator::accumulate: r = HashCPU::hash (Poseidon, a trait method) of every member's public-input encoding, weights r^i by ff::Field::pow (blst FFI), fold `accs.iter().zip(rs).skip(1)` of Msm::accumulate_with_r "
        "(scalars * r^i, BTreeMap-keyed fixed-base scalars added per key); it is generic over S: SelfEmulation (a full instance is needed: engine, sponge chip, curve chips) and the challenge and its powers come out of trait methods, "
        "which Kani 0.68 cannot stub, so the weight bookkeeping of the fold harnesses does not reach it cheaply (a stand-in would replace exactly the arithmetic that matters). "
        "Accumulator::collapse / Msm::collapse (MSM evaluation), Accumulator::check (two pairings), Accumulator::from_dual_msm (label-driven split: Fixed/Permutation/`-G` terms go to a BTreeMap with `insert`, "
        "so it is correct only for a guard in which every such label occurs once, i.e. the output of ONE prepare, which is how all three callers use it; read, not decided), "
        "AssignedAccumulator::{accumulate, collapse, scale_by_bit} (in-circuit) are likewise outside K; see C15_S / C20 for what engine S executes generically",
        "K/C15: accept-iff-all-valid at the cryptographic level (pairing, KZG soundness)",
    ]
    kani.run_harnesses(run, CRATE, SPECS, jobs=6)


def replay(payload):
    return kani.replay(payload)
