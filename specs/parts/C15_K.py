"""C15 (batching), engine K part: totality of the batch entry points on the lengths of their arguments.
Harness crate /verif/engines/kani/kmain (src/h_batch.rs, src/h_transcript.rs)."""
from vf import core, kani

CRATE = "engines/kani/kmain"
H = kani.H
ZL = "zk_stdlib/src/lib.rs"

SPECS = [
    H("h_batch::batch_verify_no_keys", "C15.K.batch_verify.no_keys",
      "batch_verify(params, vks = [], pis, proofs) returns a Result for pis.len(), proofs.len() in {0,1,2}: Err(InvalidInstances) on a length mismatch, never a panic (the empty batch included)",
      [f"{ZL}::batch_verify", "proofs/src/transcript/mod.rs::CircuitTranscript::{init, squeeze_challenge}"],
      "vks.len() = 0; pis.len(), proofs.len() symbolic in {0,1,2}; public-input vectors of length 0/1",
      "batch_verify:empty-batch", est=10, min_covers=2, flags=["-Z", "unstable-options", "--no-memory-safety-checks"],
      stubs=["midnight_proofs::plonk::prepare (any answer)", "DualMSM::{check, scale, add_msm}"]),
    H("h_transcript::guard_batch_verify_lengths", "C15.K.guard.batch_verify.lengths",
      "Guard::batch_verify(guards, params) (provided trait method) returns a Result for iterators of lengths in {0,1,2} x {0,1,2}, never a panic",
      ["proofs/src/poly/commitment.rs::Guard::batch_verify"], "guards.len(), params.len() symbolic in {0,1,2}; guard type: stub scheme under Kani, DualMSM<Bls12> in the native replay",
      "guard-batch_verify:length-mismatch", est=8, min_covers=2),
]


def check(run):
    run.bounds.append("K/C15: slice / iterator lengths in {0,1,2}")
    run.assumptions.append("K/C15: batch_verify harness: `prepare` answers Ok(empty guard)/Err nondeterministically, the pairing check answers nondeterministically, DualMSM::scale/add_msm are no-ops (rayon makes the Kani compiler panic), CBMC pointer checks off (Rust panics, bounds and overflow checks stay on)")
    run.outside += [
        "K/C15: batch_verify with one or two keys (h_batch::batch_verify_one_key / two_keys are in the crate; measured: symex 220 s then the SAT back end exceeds 12 GB): the claim is decided for vks.len() = 0 only; the length guard for non-empty batches is 3 lines above the panic site and was read, not decided",
        "K/C15: accept-iff-all-valid (cryptographic / engine S), accumulators",
    ]
    kani.run_harnesses(run, CRATE, SPECS, jobs=6)


def replay(payload):
    return kani.replay(payload)
