"""C15 (engine S) — batching: linearity of the accumulator operations.

`zk_stdlib::batch_verify` folds the members' guards with `acc.scale(r); acc.add_msm(g_i)`. batch_verify
itself is monomorphic (Bls12, Fq) and cannot be instantiated at the symbolic engine, but everything the fold
does goes through the generic `DualMSM<E>::scale / add_msm` and `MSMKZG<E>::{append_term, add_msm, scale,
from_many, from_base}`. These REAL methods run at E = SymE (groups = discrete logs over SymF) on guards with
symbolic scalars and bases, applied in batch_verify's order for n members.

Obligation: the exponent value of the accumulator is  sum_i r^(n-1-i) * value(g_i)  on both channels
(left and right), as a polynomial identity in r and all scalars / bases; so the final pairing equation of the
batch is the r-weighted combination of the members' equations. Decided by normalisation + ground residual to
the solver portfolio (see vf/symf.py), twin with a perturbed coefficient.
Outside: the length handling / empty batch of batch_verify (engine K), that r is a transcript challenge over
every member's summary (batch_verify is not executed), the probabilistic soundness of the random combination.
"""
from vf import core, solvers, symf
from vf.core import HOLDS, VIOLATION, INCONCLUSIVE
from vf.symf import P

ENGINE = "S"


def _wr(run, ob, payload):
    """replay file of this part (the aggregator dispatches on engine_part)"""
    return run.write_replay(ob, dict(payload, engine_part="S"))
FUNCS = ["proofs/src/poly/kzg/msm.rs::DualMSM::scale", "proofs/src/poly/kzg/msm.rs::DualMSM::add_msm",
         "proofs/src/poly/kzg/msm.rs::MSMKZG::scale", "proofs/src/poly/kzg/msm.rs::MSMKZG::add_msm",
         "proofs/src/poly/kzg/msm.rs::MSMKZG::append_term", "proofs/src/poly/kzg/msm.rs::MSMKZG::from_many",
         "proofs/src/poly/kzg/msm.rs::MSMKZG::from_base", "proofs/src/poly/kzg/msm.rs::DualMSM::split"]


def fold_pairs(d):
    dag = symf.Dag(d["arena"])
    ring = symf.Ring()
    memo = {}
    n = d["n"]
    r = ring.var(dag.var_name(d["r"]))
    pairs = []
    for side in ("left", "right"):
        spec = {}
        for i, m in enumerate(d["members"]):
            spec = ring.add(ring.mul(spec, r), dag.normal(ring, m[side], memo))   # Horner: sum r^(n-1-i) g_i
        real = dag.normal(ring, d["acc"][side], memo)
        for mono in set(real) | set(spec):
            pairs.append((real.get(mono, 0), spec.get(mono, 0)))
        pairs.append((d["acc"][side + "_terms"], sum(m[side + "_terms"] for m in d["members"])))
    return pairs


def check(run):
    symf.build(run)
    run.bounds.append("C15/S: batches of n in {1,2,3,5} guards, 1..3 terms per channel, symbolic scalars, bases and r")
    run.outside += ["C15/S: batch_verify's own control flow (monomorphic; lengths / empty batch are engine K's), the derivation of r, "
                    "probabilistic soundness of the random linear combination, in-circuit accumulator (C20)"]
    for n, terms in [(1, 2), (2, 1), (3, 2), (5, 3)]:
        ob = core.Ob(f"C15/S/fold/n{n}-t{terms}", ENGINE,
                     "accumulator value == sum_i r^(n-1-i) value(g_i) on both channels (scale/add_msm are linear)",
                     functions=FUNCS, bound=f"n={n} guards, {terms} right terms each, symbolic scalars/bases/r", key="batch-fold-linearity")
        run.add(ob)
        try:
            d = symf.sx("batch", n=n, terms=terms)
            pairs = fold_pairs(d)
        except Exception as ex:
            ob.set(INCONCLUSIVE, str(ex)[-300:])
            continue
        r = solvers.solve(symf.residual_smt(pairs), timeout=60)
        tw_pairs = list(pairs)
        tw_pairs[0] = (tw_pairs[0][0], (tw_pairs[0][1] + 1) % P)
        tw = solvers.solve(symf.residual_smt(tw_pairs), timeout=60)
        ob.queries += 2
        ob.vacuity = tw.status == "sat"
        if r.status == "unsat" and ob.vacuity:
            ob.set(HOLDS, f"{len(pairs)} coefficient equalities", solver=r.solver, solver_s=r.time_s + tw.time_s)
        elif r.status == "sat":
            payload = {"kind": "fold", "n": n, "terms": terms}
            ob.set(VIOLATION if replay(payload) else INCONCLUSIVE, "accumulator differs from the r-weighted sum",
                   replay=_wr(run, ob, payload))
        else:
            ob.set(INCONCLUSIVE, f"solver {r.status} / twin {tw.status}")


def replay(payload):
    """concrete mode: all scalars, bases and r replaced by constants, the same real methods; compare numbers"""
    if payload.get("engine_part") not in (None, "S") or payload.get("kind") not in ['fold']:
        return None
    symf.build()
    d = symf.sx("batch", n=payload["n"], terms=payload["terms"], vals={})
    dag = symf.Dag(d["arena"])
    r = dag.const(d["r"])
    bad = 0
    for side in ("left", "right"):
        spec = 0
        for m in d["members"]:
            spec = (spec * r + dag.const(m[side])) % P
        real = dag.const(d["acc"][side])
        print(f"{side}: accumulator {hex(real)[:18]} vs r-weighted sum {hex(spec)[:18]}")
        bad += real != spec
    return 1 if bad else 0
