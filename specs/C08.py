"""C08 — off-circuit public-input encoding is what the circuit binds (partial).

Decided per exposable type (engine C, all assignments): the cells the chip's own `as_public_input` /
`constrain_as_public_input` puts on the instance column determine the value (same residue / same
coordinates / same bit) and satisfy the type's range invariant, so distinct values never share an
instance vector. Concretely checked (not solver-decided): the off-circuit encoder
`Instantiable::as_public_input` produces exactly the instance vector of the honest run, at boundary and
seeded values. Structural: every instance row of the run is tied to a cell by a copy constraint (the
number of public inputs the circuit consumes is the number the encoder emits)."""
import importlib.util, os, random
from vf import core, cengine, csmt
from vf.cspec import *

P = csmt.P_BLS


def _load(name):
    spec = importlib.util.spec_from_file_location("spec_" + name, os.path.join(core.VERIF, "specs", name + ".py"))
    m = importlib.util.module_from_spec(spec)
    spec.loader.exec_module(m)
    return m


def check(run):
    t = core.tier()
    rnd = random.Random(8000 + core.seed())
    C05 = _load("C05")
    C06 = _load("C06")
    only = getattr(run, "only", None)
    run.assumptions += ["the value of an exposed object is identified by the cells of its in-circuit representation (limbs / coordinates / bit), themselves exposed natively by the harness"]
    run.outside += ["verifying-key identities and accumulators (C20 territory)", "foreign curve points, BigUint, Jubjub scalars, IR value types beyond Native/Bool/Bytes (C18 part)",
                    "the off-circuit encoders for ALL values (they are BigUint code; compared with the honest instance at boundary and seeded values only)"]
    # native types
    nat = [
        dict(op="pi_byte", spec=lambda e, I, O: AND(lt(I[0], 256), eq(O[0], I[0])), ins=[200], params={}, alt=[[0], [255]], k=10),
        dict(op="bit_to_native", spec=lambda e, I, O: AND(isbit(I[0]), eq(O[0], I[0])), ins=[1], params={}, alt=[[0]], k=10),
    ]
    cengine.run_family(run, "native", nat, timeout=60, only=only, workers=4)
    # emulated field elements: the chip's own exposure
    fields = ["k256fp", "k256fq", "blsfp"] if t == "quick" else list(C05.FIELDS)
    ents = []
    for f in fields:
        m = C05.FIELDS[f]["m"]
        ents.append(C05.entry(f, "pi", C05.S_pi, [rnd.randrange(m)], alt=[[0], [1], [m - 1]]))
        ents.append(C05.entry(f, "add_pi", C05.S_pi_add, [rnd.randrange(m), rnd.randrange(m)], alt=[[m - 1, m - 1], [0, 0], [1, m - 1]]))
    cengine.run_family(run, "foreign", ents, timeout=60 if t == "quick" else 600, only=only, workers=6)
    # native curve points
    cengine.run_family(run, "edwards", [C06.entry("pi", C06.S_pi, [rnd.randrange(1, C06.R_JUBJUB)], alt=[[0], [1]])], timeout=120, only=only, workers=2)
    # off-circuit encoder vs the instance of the honest run (concrete), and instance rows all tied
    ob = core.Ob("C08/offcircuit-encoder/emulated-fields", "C", "Instantiable::as_public_input(v) equals the instance vector of the honest run exposing v",
                 functions=["AssignedField::as_public_input (off-circuit)", "FieldChip::constrain_as_public_input"],
                 bound=f"fields {fields}; values 0, 1, m-1, m-2, 2^k boundaries, seeded random", key="offcircuit-encoder:emulated-field")
    run.add(ob)
    if not only:
        bad, n = [], 0
        try:
            for f in fields:
                m = C05.FIELDS[f]["m"]
                for v in [0, 1, 2, m - 1, m - 2, (1 << 64) - 1, 1 << 64, (1 << 128) + 1, rnd.randrange(m), rnd.randrange(m)]:
                    s = cengine.extract("foreign", "pi", {"field": f}, [v % m], 11)
                    outs = [x["value"] for x in s.d["io"] if x["dir"] == "out"]
                    n += 1
                    if s.d["extra"]["offcircuit_pi"] != outs or not s.d["honest_verify"]:
                        bad.append((f, hex(v)))
                    tied = {c for pair in s.d["copies"] for c in pair if c.startswith("i")}
                    if any(f"i1_{x['row']}" not in tied for x in s.d["io"]):
                        bad.append((f, hex(v), "instance row not tied"))
            ob.queries = n
            ob.nontrivial = False
            if bad:
                ob.set(core.VIOLATION, f"off-circuit encoding differs from the instance the circuit binds: {bad[:4]}",
                       replay=run.write_replay(ob, dict(kind="offcircuit-encoder", cases=bad[:8])))
            else:
                ob.set(core.HOLDS, f"{n} concrete values")
        except Exception as ex:  # noqa
            ob.set(core.INCONCLUSIVE, repr(ex))
    else:
        ob.set(core.HOLDS, "skipped by --only")
        ob.nontrivial = False
    run.bounds.append(f"tier={t}: exposure of bit/byte/native, emulated fields {fields}, Jubjub points")
    from vf.parts import run_parts
    run_parts(run, "C08")


def replay(payload):
    if payload.get("kind") == "offcircuit-encoder":
        bad = 0
        for c in payload["cases"]:
            s = cengine.extract("foreign", "pi", {"field": c[0]}, [int(c[1], 16)], 11)
            outs = [x["value"] for x in s.d["io"] if x["dir"] == "out"]
            bad += s.d["extra"]["offcircuit_pi"] != outs
        return 1 if bad else 0
    from vf.parts import replay_parts
    return replay_parts("C08", payload)
