#!/usr/bin/env python3
"""Regenerates /verif/MANIFEST.json from the table below (keeps it schema-valid)."""
import json, subprocess

hooks = ["7997729", "8cbfa6e", "05e39c3", "39f18a6", "aa0c963", "ba35cc9", "396cc51"]
try:
    log = subprocess.run(["git", "-C", "/repo", "log", "--format=%h %s"], capture_output=True, text=True).stdout.splitlines()
    hooks = [l.split()[0] for l in log if "verif-hooks" in l][::-1]
except Exception:
    pass

C = {}


def claim(pid, engine, technique, text, note, ref):
    C[pid] = dict(
        property_id=pid, quick_cmd=f"./check {pid} --tier quick", thorough_cmd=f"./check {pid} --tier thorough",
        evidence_file=f"evidence/{pid}.json", replay_cmd_template=f"./check {pid} --replay {{path}}", engine=engine,
        level_claimed=dict(category="model_checking", text=text, design_ref=ref), level_note=note, technique=technique)


claim("C01", "S (symfield)", "symbolic execution of the real generic prover/verifier on a term-building field + recording transcript; EUF/datatype SMT queries (z3 || cvc5)",
      "Partial: Fiat-Shamir schedule agreement prover vs verifier and opening-claim agreement on lookup-free shapes, for all witnesses/instances within an enumerated shape family (num_proofs 1..3 x committed/plain instance columns 0..2, k=4). Not end-to-end completeness.",
      "Trusted: SymF/SymCS/SymTranscript models (term DAG, injective challenge function), solvers. Outside: lookups on the prover side, MSM/FFT/pairings (C12/C13), every other reason a proof could fail.", "DESIGN 3 C01, 8")
claim("C02", "S (symfield)", "symbolic execution of the real verifier and real keygen at a term-building field; polynomial identities normalised and decided by SMT; EUF partition queries for the permutation",
      "The verifier's algebraic check equals a from-definitions specification of every constraint class (gates, permutation, lookups, trash, instance queries) on an enumerated shape family incl. static (assign_table) and dynamic lookup tables, for all evaluation values; the vk's permutation and fixed columns equal the development-time checker's (MockProver) on the same circuits.",
      "Trusted: specification written from the halo2/PLONK definitions, SymF models, solvers. Outside: cryptographic soundness of KZG/Fiat-Shamir, the prover, floor planners other than SimpleFloorPlanner.", "DESIGN 3 C02, 8")
claim("C03", "S (symfield)", "SMT (datatype/EUF) queries over the recorded transcript logs of the real prover/verifier run on a symbolic field",
      "Structural binding conditions only: vk first, absorb-before-squeeze, every proof element bound, statement -> absorbed sequence injective (lengths 0..3, <= 2 columns). Kani part: assert_empty, the Blake2b and Poseidon transcript readers of proof points / scalars accept only full-length encodings that pass the curve / subgroup / canonicity oracles. Not cryptographic binding.",
      "Trusted: transcript model. Outside: everything cryptographic; bit-flip exhaustion; Kani part for trailing bytes / decoders pending.", "DESIGN 3 C03")
claim("C04", "C (csmt)", "SMT (z3 || cvc5) over constraint systems extracted from the real synthesis, every advice/instance cell symbolic over F_p (UF field products + sound lemmas); counterexamples replayed on the real MockProver",
      "Soundness of every native-field gadget operation (arithmetic, comparison, decomposition incl. the core decomposition chip called directly, bitwise, division, selection, chains through the gadget's bound cache, vector and map gadgets) per (operation, parameter tuple) of an enumerated family, for ALL assignments; the verifying key of the real keygen commits to the structure checked; completeness decided by the solver for the shapes whose constraint system is triangular (Skolem witnesses read off the system), at sampled admissible and solver-filtered boundary inputs (honest runs) for the rest.",
      "Trusted: MockProver's view of the circuit = keygen's (decided under C02 for its shapes), specs written from trait docs, field-lemma abstraction (sound), solvers. C09 assumed, spot-checked.", "DESIGN 2.C, 3 C04, 8")
claim("C05", "C (csmt + ffchain)", "SMT over extracted constraint systems; foreign-field gate groups decided by a chain of solver obligations (range, CRT reconstruction, magnitude bound, CRT lemma, lifting) feeding residue hypotheses to the main query",
      "Soundness of emulated-field operations (secp256k1 base/scalar, BLS12-381 base; Curve25519 fields at the thorough tier) for all limb representations within the chip's bounds, per (field, operation) shape.",
      "Trusted: as C04 plus the composition of the chain's links (standard CRT argument) performed by the checker. Outside: BigUint gadgets, bit/byte conversions of emulated elements, completeness.", "DESIGN 3 C05, 8")
claim("C06", "C (csmt)", "SMT over extracted constraint systems with monomial normalisation of field products",
      "Narrow, gate level: the native Edwards chip's add/double/negate/select/equality/exposure constraints and the scalar-multiplication ladder rows for short scalars (functional + determinism) imply the textbook denominator-cleared equations for all assignments. Not the group law, not scalar multiplication, not foreign curves.",
      "Trusted: as C04. Outside: listed in evidence (subgroup membership, mul/msm, hash-to-curve, foreign ECC gates).", "DESIGN 3 C06")
claim("C08", "C (csmt)", "SMT over the extracted exposure circuits (all assignments) + concrete comparison of the off-circuit encoder with the honest instance",
      "Partial: for bit/byte/native values, emulated field elements and Jubjub points, the cells the chip's own exposure puts on the instance column determine the value and satisfy the type's range invariant (all assignments); the off-circuit encoder equals the honest instance at boundary and seeded values (concrete).",
      "Outside: vk identities/accumulators, foreign points, Jubjub scalars; the off-circuit encoders for all values (compared at the honest runs only).", "DESIGN 3 C08")
claim("C10", "M (mir2smt) + K (Kani)", "nightly MIR of the field kernels translated to SMT (Int, mod 2^64 semantics) + ground constant obligations; Kani/CBMC harnesses over all byte strings with blst as recording oracles",
      "Pure-Rust Montgomery fields (Jubjub Fr, Curve25519 Fp, bn256, BLS const kernels): add/sub/neg/double/mul/square/reduce for all inputs; decoders canonical over all byte strings; every published constant satisfies its defining equation.",
      "Trusted: MIR translator (validated against native runs every run), Kani/CBMC, blst itself (oracle). Outside: blst arithmetic, pow loops, Bernstein-Yang inversion.", "DESIGN 3 C10, 8")
claim("C11", "K (Kani) + M (mir2smt)", "Kani/CBMC harnesses with blst FFI stubbed as recording nondeterministic oracles; coordinate algebra from MIR with field operations as uninterpreted functions + field axioms",
      "Narrow: checked decoders consult and respect the on-curve/subgroup/canonicity oracles for all byte strings; coordinate constructors/accessors and equality are consistent with blst's Jacobian representation. Not the group law.",
      "Trusted: blst (oracle), Kani/CBMC, MIR translator. Outside: add/double/mul correctness (blst), Jubjub formulas as group law.", "DESIGN 3 C11, 8")
claim("C12", "K (Kani) + S (symfield)", "Kani over all 32-byte scalars for the Booth encoding; real FFT/domain code executed on linear symbolic forms, coefficient identities decided by SMT; batch-affine adder on a toy curve decided by CBMC",
      "Booth digits/telescoping for all scalars and window sizes 1..16; the real generic msm_serial at toy groups with 1-, 2- and 3-byte scalar fields (all scalars, 1..4 bases); best_fft = DFT matrix for n = 2..64 under several thread pools; EvaluationDomain conversions/rotations/division/interpolation for all vector entries; batch-affine addition on a toy curve for all points.",
      "Trusted: LinF/SymF models, Kani. Outside: blst multi_exp, thread schedules beyond those run, sizes beyond the bounds.", "DESIGN 3 C12, 8")
claim("C14", "S (symfield)", "real KZG multi_prepare executed on a symbolic pairing engine (discrete-log model); guard polynomial identity decided after normalisation by SMT",
      "Completeness identity, DuplicatedQuery and eval-binding of the real multi_prepare for all assignment patterns of <= 3 points to 1 chopped + <= 3 one-piece commitments, and for 207 query lists with 2 chopped commitments at equal and different points, symbolic polynomials and toxic waste.",
      "Trusted: symbolic pairing model, specification prover written from the halo2 book. Outside: q-SDH/AGM soundness, multi_open's MSM.", "DESIGN 3 C14")
claim("C15", "S (symfield) + K (Kani)", "real DualMSM/MSMKZG fold executed on the symbolic pairing engine; linearity decided by SMT",
      "Narrow: the batching fold is the documented linear combination (scale/add linear, every member included).",
      "Plus (part C15_K, Kani): batch_verify / Guard::batch_verify answer empty and length-mismatched batches with a value for all lengths 0..2; the whole real batch_verify for n = 1..3 (thorough 4) with prepare / transcript / scale / add_msm / check as weight-tracking stand-ins: every member gets a distinct power of the one challenge, each guard is folded exactly once, the challenge is squeezed after all member summaries are absorbed, one failing prepare fails the batch. Outside: probabilistic soundness of random linear combination, the accumulator of the aggregator crate.", "DESIGN 3 C15")
claim("C18", "C (csmt) + K (Kani)", "SMT over the constraint system of the compiled one-operation ZKIR program; the real off-circuit evaluator produces the instance of the honest run",
      "Partial: per operation on Native/Bool/Bytes operands, the compiled circuit accepts exactly the published values the documented semantics prescribes (all assignments); the off-circuit evaluator agrees at the concrete inputs run.",
      "Also BigUint operands (add/sub/mul/is_equal/inner_product/into_bytes/from_bytes/mod_exp e <= 3; part C18_B) and totality of into_bytes on both sides for all n (Kani, part C18_K). Outside: Jubjub/hash operations, multi-instruction programs, codecs.", "DESIGN 3 C18")
claim("C19", "A (auto-smt) + C (csmt)", "z3 regular-language theory vs the dumped automaton of the real compiler unrolled over a symbolic word; SMT over the extracted parser / base64 circuits",
      "Language + marker equivalence for every word of length <= N (8 quick / 16 thorough) over a regex family incl. the library's own specs, per-state reachability/finality by emptiness queries, shipped automaton = fresh compilation; chips holding 2 and 3 automata (per-automaton acceptance, disjoint and closed state ranges in the merged table); in-circuit parse and base64 decode sound for stated lengths.",
      "Trusted: z3 RegLan (validated against a derivative matcher), as C04 for the circuits. Outside: both-marked intersections, ParserGadget, credential circuits.", "DESIGN 3 C19, 8")

claim("C07", "C (csmt, normal forms)", "constraint rows extracted from the real Poseidon chip propagated to exact linear forms over hash-consed x^5 atoms; equality with the textbook permutation decided as ground coefficient queries (z3 || cvc5, perturbed twin must be sat) + plain engine-C SMT queries for the full rounds and the variable-length control cells; the real generic off-circuit code run on a symbolic field",
      "Poseidon: in-circuit permutation / fixed-length hash (<= 5 inputs) / sponge scripts / variable-length hash (MAX_LEN <= 4 quick, 6 thorough) equal the textbook sponge over the exported constants for ALL inputs; every state cell determined (no free cell); off-circuit permutation_cpu / HashCPU / SpongeCPU equal the same textbook forms; keygen structure = checked structure. Plus (part C07_P): padding and block selection of the variable-length SHA-256 gadget (final_block_len, compute_padding, merge_chunks, insert_in_array through hook H13) equal FIPS 180-4 5.1.1 per concrete length (M in {64,128}; thorough: every length), every padding byte determined.",
      "Trusted: textbook Poseidon written from the paper's definition over the constants the real code exports (that the constants are the Grain-LFSR output is not checked). NOT covered: the compression functions of SHA-256/512, RIPEMD-160, Keccak/SHA3, BLAKE2b (whole compressions beyond one query), hence no digest-level claim for them; the update_state scheduling loop of the variable-length SHA-256 gadget.", "DESIGN 3 C07, 8")
claim("C16", "K (Kani)", "Kani/CBMC harnesses executing the real decoders on symbolic byte buffers (every byte, length and stubbed-oracle answer symbolic), unwinding assertions on; failing harnesses replayed natively against the real public API",
      "Narrow: VerifyingKey::read_from_cs framing (buffers <= 8 bytes, toy field + stub commitment scheme) never panics and yields an index-safe key; the reader calls EvaluationDomain::new only inside its precondition and the integer prefix of new does not panic there; ZkStdLibArch::read (<= 18 bytes) lets through only configurations ZkStdLib::configure accepts; G1 point decoding respects the curve/subgroup oracles.",
      "Trusted: Kani/CBMC, struct-assembling stand-ins listed in evidence. Outside: ParamsKZG readers, zkir program decoding, constraint systems with gates in the framing harness, allocation sizes (no resource model), proofs (covered structurally under C03).", "DESIGN 3 C16, 8")

claim("C20", "S (symfield)", "the real generic ipa_prove / ipa_verify (source file included byte-for-byte at build time) executed on a symbolic group in the discrete-log model with the recording transcript; check element normalised to a Laurent polynomial, residual ground coefficient queries decided by z3 || cvc5 (perturbed twin must be sat)",
      "VERY NARROW, last clause of C20 only: the inner-product argument of the aggregator crate for n = 1, 2, 4, 8 (thorough to 128): completeness for all scalars/bases/challenges, the verifier's check equals the textbook identity, both verdict branches, transcript order (every element absorbed before the challenge that depends on it), every proof element / claimed value / base enters the decided element linearly with a non-zero coefficient. NOT covered: the in-circuit verifier, accumulator agreement, aggregated proofs (10^5-10^6 rows over emulated curve arithmetic).",
      "Trusted: SymG/SymF models, msm_best replaced by its contract sum(bases[i]*coeffs[i]) (its control flow concretises every scalar; equality of real and shimmed compilations validated at concrete values every run). Outside: knowledge soundness, random-oracle step, light_fiat_shamir, light_self_emulation.", "DESIGN 3 C20, 8.8")

claim("C17", "S (symfield) + K (Kani)", "the real unsafe_setup / downsize / g_to_lagrange / best_fft executed on the symbolic pairing engine with a symbolic toxic waste, identities normalised and decided by z3 || cvc5; Kani/CBMC harnesses of the real VerifyingKey / ZkStdLibArch write and read on symbolic buffers (toy field, symmetric stub commitments), from_parts with Blake2b as a recording oracle",
      "NARROW: (a) parameters downsized to k' equal parameters set up for k' from the same secret (g, g_lagrange, s_g2) for k <= 4 (thorough 6), k' <= k, pools {1,4} (thorough {1,2,3,8,16}); (b) write(read(b)) reproduces the consumed prefix and read(write(key)) is accepted with the same k and commitments, for all buffers <= 11 bytes, formats Processed and RawBytes; architecture descriptor round trip over all 2^19 descriptors; bytes_length = bytes written; (c, thorough) the transcript identity hashes every byte write emits. NOT covered: determinism under parallelism (thread schedules), whole key-generation runs, proving keys, real curve-point encodings, 'produces and accepts the same proofs'.",
      "Trusted: SymE/SymF models, Kani/CBMC, the toy environment (F_97, 1 fixed + 1 permutation column, stub commitments). Outside: listed above and in evidence.", "DESIGN 3 C17, 4")

NA = {
    "C08": "placeholder",
    "C09": "not applicable to solver-based checking: a non-interference property of the whole synthesis path whose witness generation concretises at every step (DESIGN 3 C09); assumed and spot-checked by engine C",
    "C13": "not applicable: the pairing is entirely blst C/assembly behind FFI; no Rust arithmetic to encode (DESIGN 3 C13)",
}

import sys
claimed = [a for a in sys.argv[1:]] or sorted(C)
props = [json.loads(l)["id"] for l in open("/verif/properties.jsonl")]
m = {
    "version": 1,
    "setup_cmd": "./setup.sh",
    "hooks": {"guard": "cargo feature `verif-hooks` (crates midnight-proofs, midnight-curves, midnight-circuits, midnight-zkir)",
              "enable": "out-of-tree engine crates under /verif/engines depend on /repo crates by path with features=[\"verif-hooks\"]; nothing inside /repo enables the feature",
              "baseline_off_cmd": "cd /repo && (cargo nextest run --workspace --no-fail-fast --offline --test-threads 8 || cargo test --workspace --no-fail-fast --offline)",
              "source_commits": hooks, "add_only": True},
    "engines": [
        {"name": "C (csmt)", "path": "engines/extract + engines/pysmt/vf/{csmt,cengine,cspec,ffchain}.py", "serves_properties": ["C04", "C05", "C06", "C07", "C08", "C18", "C19"], "kind_free_text": "constraint systems emitted by the real chip synthesis, extracted from MockProver, all cells symbolic over F_p; z3-new || cvc5"},
        {"name": "S (symfield)", "path": "engines/symfield + engines/pysmt/vf/symf.py", "serves_properties": ["C01", "C02", "C03", "C12", "C14", "C15", "C17", "C20"], "kind_free_text": "generic proof-system code executed on a term-building field, recording transcript, symbolic commitment scheme / pairing engine"},
        {"name": "K (Kani)", "path": "engines/kani/* + engines/pysmt/vf/kani.py", "serves_properties": ["C10", "C11", "C12", "C16", "C15", "C18", "C03", "C14"], "kind_free_text": "Kani 0.68 / CBMC harness crates, blst FFI as recording nondeterministic oracles"},
        {"name": "M (mir2smt)", "path": "engines/pysmt/vf/mir*.py + engines/mirreplay", "serves_properties": ["C10", "C11"], "kind_free_text": "nightly MIR of loop-free integer kernels translated to SMT over Int with mod 2^64 semantics"},
        {"name": "A (auto-smt)", "path": "engines/auto + engines/pysmt/vf/autosmt.py", "serves_properties": ["C19"], "kind_free_text": "z3 RegLan vs the dumped automaton of the real regex compiler"},
    ],
    "checks": [C[p] for p in props if p in C and p in claimed],
    "notes": "Exit codes: 0 = every obligation HOLDS (or is a listed KNOWN-FINDING); 1 = a replayed VIOLATION; 2 = something INCONCLUSIVE (never reported as success). VERIF_REPO=<tree> runs a check against another checkout. See DESIGN.md.",
    "not_applicable": [{"property_id": p, "reason": NA.get(p, "built but not claimed yet: obligations not all decided on the unchanged tree")} for p in props if not (p in C and p in claimed)],
}
json.dump(m, open("/verif/MANIFEST.json", "w"), indent=1)
print("claimed:", [c["property_id"] for c in m["checks"]])
