#!/bin/sh
# confirm_mutation.sh <worktree> <seed-id> <demo-test-name> [-p crate]
# Confirms a seeded change: demo fails with the change, passes without; saves patch+demo under /verif/seeded/<id>/
WT=$1; ID=$2; DEMO=$3; CRATE=${4:-midnight-circuits}
export CARGO_NET_OFFLINE=true
mkdir -p /verif/seeded/$ID
cd $WT || exit 2
git diff -- . > /verif/seeded/$ID/patch.diff
DEMOFILE=$(git status --short | grep '^??' | grep -v MUTATION | awk '{print $2}')
echo "demo files: $DEMOFILE"
for f in $DEMOFILE; do if [ -d "$f" ]; then cp -r $f/* /verif/seeded/$ID/; else cp $f /verif/seeded/$ID/; fi; done
echo "--- with change"; cargo test -j 6 -p $CRATE --offline --test $DEMO 2>&1 | grep -E "^test |test result" | tee /verif/seeded/$ID/demo_with_change.txt
git apply -R /verif/seeded/$ID/patch.diff || exit 3
echo "--- without change"; cargo test -j 6 -p $CRATE --offline --test $DEMO 2>&1 | grep -E "^test |test result" | tee /verif/seeded/$ID/demo_without_change.txt
git apply /verif/seeded/$ID/patch.diff
