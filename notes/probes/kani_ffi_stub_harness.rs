#[cfg(kani)]
mod h {
    use blst::*;
    use midnight_curves::G1Affine;
    use group::GroupEncoding;

    static mut UNCOMP_OK: bool = false;
    static mut ON_CURVE: bool = false;
    static mut IN_G1: bool = false;

    unsafe fn stub_uncompress(out: *mut blst_p1_affine, _inp: *const u8) -> BLST_ERROR {
        let ok: bool = kani::any();
        UNCOMP_OK = ok;
        let limbs_x: [u64; 6] = kani::any();
        let limbs_y: [u64; 6] = kani::any();
        (*out).x = blst_fp { l: limbs_x };
        (*out).y = blst_fp { l: limbs_y };
        if ok { BLST_ERROR::BLST_SUCCESS } else { BLST_ERROR::BLST_BAD_ENCODING }
    }
    unsafe fn stub_on_curve(_p: *const blst_p1_affine) -> bool {
        let b: bool = kani::any();
        ON_CURVE = b;
        b
    }
    unsafe fn stub_in_g1(_p: *const blst_p1_affine) -> bool {
        let b: bool = kani::any();
        IN_G1 = b;
        b
    }

    #[kani::proof]
    #[kani::stub(blst::blst_p1_uncompress, stub_uncompress)]
    #[kani::stub(blst::blst_p1_affine_on_curve, stub_on_curve)]
    #[kani::stub(blst::blst_p1_affine_in_g1, stub_in_g1)]
    fn g1_from_bytes_checked() {
        let bytes: [u8; 48] = kani::any();
        let mut repr = <G1Affine as GroupEncoding>::Repr::default();
        repr.as_mut().copy_from_slice(&bytes);
        let r = G1Affine::from_bytes(&repr);
        let some: bool = r.is_some().into();
        unsafe {
            if some {
                assert!(UNCOMP_OK && ON_CURVE && IN_G1);
            }
        }
        kani::cover!(some);
    }
}
