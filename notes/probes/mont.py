import sys
P=[0xd0970e5ed6f72cb7,0xa6682093ccc81082,0x06673b0101343b00,0x0e7db4ea6533afa9]
INV=0x1ba3a358ef788ef9
p=sum(x<<(64*i) for i,x in enumerate(P))
W=1<<64
lines=[]
cnt=[0]
def fresh(prefix="t"):
    cnt[0]+=1; return f"{prefix}{cnt[0]}"
def define(expr,prefix="t"):
    n=fresh(prefix); lines.append(f"(define-fun {n} () Int {expr})"); return n
def declare(prefix="v"):
    n=fresh(prefix); lines.append(f"(declare-const {n} Int)"); lines.append(f"(assert (and (<= 0 {n}) (< {n} {W})))"); return n
MODE=sys.argv[1] if len(sys.argv)>1 else "divmod"
def split(t):
    # returns lo,hi of t (t < 2^128)
    if MODE=="divmod":
        lo=define(f"(mod {t} {W})"); hi=define(f"(div {t} {W})")
    else:
        lo=declare("lo"); hi=declare("hi")
        lines.append(f"(assert (= {t} (+ {lo} (* {W} {hi}))))")
    return lo,hi
def mac(a,b,c,carry):
    t=define(f"(+ {a} (* {b} {c}) {carry})")
    return split(t)
def adc(a,b,carry):
    t=define(f"(+ {a} {b} {carry})")
    return split(t)
def wmul(a,c):
    t=define(f"(* {a} {c})")
    if MODE=="divmod":
        return define(f"(mod {t} {W})")
    lo=declare("k"); q=fresh("q"); lines.append(f"(declare-const {q} Int)"); lines.append(f"(assert (and (<= 0 {q}) (< {q} {W})))")
    lines.append(f"(assert (= {t} (+ {lo} (* {W} {q}))))"); return lo
r=[declare("r") for _ in range(8)]
T=define("(+ "+" ".join(f"(* {1<<(64*i)} {r[i]})" for i in range(8))+")","T")
lines.append(f"(assert (< {T} {p<<256}))")
r0,r1,r2,r3,r4,r5,r6,r7=r
ks=[]
k=wmul(r0,INV); ks.append(k)
_,c=mac(r0,k,P[0],"0"); r1,c=mac(r1,k,P[1],c); r2,c=mac(r2,k,P[2],c); r3,c=mac(r3,k,P[3],c); r4,c2=adc(r4,"0",c)
k=wmul(r1,INV); ks.append(k)
_,c=mac(r1,k,P[0],"0"); r2,c=mac(r2,k,P[1],c); r3,c=mac(r3,k,P[2],c); r4,c=mac(r4,k,P[3],c); r5,c2=adc(r5,c2,c)
k=wmul(r2,INV); ks.append(k)
_,c=mac(r2,k,P[0],"0"); r3,c=mac(r3,k,P[1],c); r4,c=mac(r4,k,P[2],c); r5,c=mac(r5,k,P[3],c); r6,c2=adc(r6,c2,c)
k=wmul(r3,INV); ks.append(k)
_,c=mac(r3,k,P[0],"0"); r4,c=mac(r4,k,P[1],c); r5,c=mac(r5,k,P[2],c); r6,c=mac(r6,k,P[3],c); r7,_=adc(r7,c2,c)
V=define(f"(+ {r4} (* {W} {r5}) (* {W*W} {r6}) (* {W**3} {r7}))","V")
# sub(&MODULUS): out = V - p if V>=p else V (as computed by sbb chain + masked add) -- here modelled abstractly for the probe
out=define(f"(ite (>= {V} {p}) (- {V} {p}) {V})","out")
K=define("(+ "+" ".join(f"(* {1<<(64*i)} {ks[i]})" for i in range(4))+")","K")
cc=define(f"(ite (>= {V} {p}) 1 0)")
goal=f"(and (< {out} {p}) (= (* {1<<256} {out}) (- (+ {T} (* {p} {K})) (* {cc} {p<<256}))))"
lines.append(f"(assert (not {goal}))")
print("(set-logic ALL)")
print("\n".join(lines))
print("(check-sat)")
