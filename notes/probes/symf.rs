//! Throw-away probe: a term-building field type.
use std::collections::HashMap;
use std::sync::Mutex;
use core::ops::{Add, AddAssign, Mul, MulAssign, Neg, Sub, SubAssign};
use core::iter::{Product, Sum};
use ff::{Field, FromUniformBytes, PrimeField, WithSmallOrderMulGroup};
use midnight_curves::Fq;
use rand_core::RngCore;
use subtle::{Choice, ConditionallySelectable, ConstantTimeEq, CtOption};

#[derive(Clone, Debug, PartialEq, Eq, Hash)]
pub enum Node { Var(String), Add(u32, u32), Mul(u32, u32), Neg(u32), Inv(u32) }

pub struct Arena { pub nodes: Vec<Node>, pub intern: HashMap<Node, u32>, pub fresh: u32, pub path: Vec<String> }
lazy_static::lazy_static! { pub static ref ARENA: Mutex<Arena> = Mutex::new(Arena { nodes: vec![], intern: HashMap::new(), fresh: 0, path: vec![] }); }

fn mk(n: Node) -> SymF {
    let mut a = ARENA.lock().unwrap();
    if let Some(i) = a.intern.get(&n) { return SymF::T(*i); }
    let i = a.nodes.len() as u32; a.nodes.push(n.clone()); a.intern.insert(n, i); SymF::T(i)
}
pub fn var(name: &str) -> SymF { mk(Node::Var(name.to_string())) }
pub fn fresh(prefix: &str) -> SymF { let k = { let mut a = ARENA.lock().unwrap(); a.fresh += 1; a.fresh }; var(&format!("{prefix}{k}")) }

#[derive(Clone, Copy, Debug, PartialEq, Eq, Hash, PartialOrd, Ord)]
pub enum SymF { C(Fq), T(u32) }
impl Default for SymF { fn default() -> Self { SymF::C(Fq::ZERO) } }

// constants need an arena id when mixed with terms: represent as Var("#hex")
fn id(x: SymF) -> u32 { match x { SymF::T(i) => i, SymF::C(c) => match mk(Node::Var(format!("#{:?}", c))) { SymF::T(i) => i, _ => unreachable!() } } }

impl SymF {
    pub fn add_(self, o: SymF) -> SymF { match (self, o) {
        (SymF::C(a), SymF::C(b)) => SymF::C(a + b),
        (SymF::C(a), t) | (t, SymF::C(a)) if a == Fq::ZERO => t,
        (a, b) => { let (x, y) = (id(a), id(b)); mk(Node::Add(x.min(y), x.max(y))) } } }
    pub fn mul_(self, o: SymF) -> SymF { match (self, o) {
        (SymF::C(a), SymF::C(b)) => SymF::C(a * b),
        (SymF::C(a), _) | (_, SymF::C(a)) if a == Fq::ZERO => SymF::C(Fq::ZERO),
        (SymF::C(a), t) | (t, SymF::C(a)) if a == Fq::ONE => t,
        (a, b) => { let (x, y) = (id(a), id(b)); mk(Node::Mul(x.min(y), x.max(y))) } } }
    pub fn neg_(self) -> SymF { match self { SymF::C(a) => SymF::C(-a), t => mk(Node::Neg(id(t))) } }
}
impl ConstantTimeEq for SymF { fn ct_eq(&self, o: &Self) -> Choice {
    let eq = self == o;
    if !eq { if let (SymF::C(_), SymF::C(_)) = (self, o) {} else { ARENA.lock().unwrap().path.push(format!("{:?} != {:?}", self, o)); } }
    Choice::from(eq as u8) } }
impl ConditionallySelectable for SymF { fn conditional_select(a: &Self, b: &Self, c: Choice) -> Self { if bool::from(c) { *b } else { *a } } }
macro_rules! binop { ($tr:ident, $f:ident, $atr:ident, $af:ident, $e:expr) => {
    impl $tr for SymF { type Output = SymF; fn $f(self, o: SymF) -> SymF { let f: fn(SymF, SymF) -> SymF = $e; f(self, o) } }
    impl<'a> $tr<&'a SymF> for SymF { type Output = SymF; fn $f(self, o: &'a SymF) -> SymF { let f: fn(SymF, SymF) -> SymF = $e; f(self, *o) } }
    impl $atr for SymF { fn $af(&mut self, o: SymF) { let f: fn(SymF, SymF) -> SymF = $e; *self = f(*self, o) } }
    impl<'a> $atr<&'a SymF> for SymF { fn $af(&mut self, o: &'a SymF) { let f: fn(SymF, SymF) -> SymF = $e; *self = f(*self, *o) } }
} }
binop!(Add, add, AddAssign, add_assign, |a, b| a.add_(b));
binop!(Sub, sub, SubAssign, sub_assign, |a, b| a.add_(b.neg_()));
binop!(Mul, mul, MulAssign, mul_assign, |a, b| a.mul_(b));
impl Neg for SymF { type Output = SymF; fn neg(self) -> SymF { self.neg_() } }
impl Sum for SymF { fn sum<I: Iterator<Item = SymF>>(i: I) -> SymF { i.fold(SymF::ZERO, |a, b| a + b) } }
impl<'a> Sum<&'a SymF> for SymF { fn sum<I: Iterator<Item = &'a SymF>>(i: I) -> SymF { i.fold(SymF::ZERO, |a, b| a + *b) } }
impl Product for SymF { fn product<I: Iterator<Item = SymF>>(i: I) -> SymF { i.fold(SymF::ONE, |a, b| a * b) } }
impl<'a> Product<&'a SymF> for SymF { fn product<I: Iterator<Item = &'a SymF>>(i: I) -> SymF { i.fold(SymF::ONE, |a, b| a * *b) } }

impl Field for SymF {
    const ZERO: Self = SymF::C(Fq::ZERO);
    const ONE: Self = SymF::C(Fq::ONE);
    fn random(_: impl RngCore) -> Self { fresh("rnd") }
    fn square(&self) -> Self { *self * *self }
    fn double(&self) -> Self { *self + *self }
    fn invert(&self) -> CtOption<Self> { match self {
        SymF::C(c) => c.invert().map(SymF::C),
        t => { ARENA.lock().unwrap().path.push(format!("{:?} != 0", t)); CtOption::new(mk(Node::Inv(id(*t))), Choice::from(1)) } } }
    fn sqrt_ratio(_: &Self, _: &Self) -> (Choice, Self) { unimplemented!("sqrt_ratio on SymF") }
}
impl From<u64> for SymF { fn from(v: u64) -> Self { SymF::C(Fq::from(v)) } }
impl PrimeField for SymF {
    type Repr = <Fq as PrimeField>::Repr;
    fn from_repr(r: Self::Repr) -> CtOption<Self> { Fq::from_repr(r).map(SymF::C) }
    fn to_repr(&self) -> Self::Repr { match self { SymF::C(c) => c.to_repr(), t => panic!("concretisation: to_repr({:?})", t) } }
    fn is_odd(&self) -> Choice { match self { SymF::C(c) => c.is_odd(), t => panic!("concretisation: is_odd({:?})", t) } }
    const MODULUS: &'static str = <Fq as PrimeField>::MODULUS;
    const NUM_BITS: u32 = Fq::NUM_BITS;
    const CAPACITY: u32 = Fq::CAPACITY;
    const TWO_INV: Self = SymF::C(Fq::TWO_INV);
    const MULTIPLICATIVE_GENERATOR: Self = SymF::C(Fq::MULTIPLICATIVE_GENERATOR);
    const S: u32 = Fq::S;
    const ROOT_OF_UNITY: Self = SymF::C(Fq::ROOT_OF_UNITY);
    const ROOT_OF_UNITY_INV: Self = SymF::C(Fq::ROOT_OF_UNITY_INV);
    const DELTA: Self = SymF::C(Fq::DELTA);
}
impl WithSmallOrderMulGroup<3> for SymF { const ZETA: Self = SymF::C(<Fq as WithSmallOrderMulGroup<3>>::ZETA); }
impl FromUniformBytes<64> for SymF { fn from_uniform_bytes(b: &[u8; 64]) -> Self { SymF::C(Fq::from_uniform_bytes(b)) } }

pub fn show(x: SymF, depth: usize) -> String {
    match x { SymF::C(c) => { let s = format!("{:?}", c); if s.len() > 14 { format!("c..{}", &s[s.len()-6..]) } else { s } },
        SymF::T(i) => { let n = ARENA.lock().unwrap().nodes[i as usize].clone(); if depth == 0 { return format!("t{i}"); }
            match n { Node::Var(v) => if v.len() > 14 { format!("c..{}", &v[v.len()-6..]) } else { v },
                Node::Add(a, b) => format!("({} + {})", show(SymF::T(a), depth-1), show(SymF::T(b), depth-1)),
                Node::Mul(a, b) => format!("({} * {})", show(SymF::T(a), depth-1), show(SymF::T(b), depth-1)),
                Node::Neg(a) => format!("-{}", show(SymF::T(a), depth-1)),
                Node::Inv(a) => format!("inv({})", show(SymF::T(a), depth-1)) } } }
}
