mod symf; mod symcs;
use ff::Field;
use midnight_proofs::{circuit::{Layouter, SimpleFloorPlanner, Value}, plonk::{keygen_vk_with_k, keygen_pk, create_proof, prepare, Advice, Circuit, Column, ConstraintSystem, Constraints, Error, Fixed, Instance, Selector}, poly::Rotation};
use symf::*; use symcs::*;

#[derive(Clone, Default)] struct C(Option<SymF>);
#[derive(Clone, Debug)] struct Cfg { a: Column<Advice>, b: Column<Advice>, q: Column<Fixed>, s: Selector, i: Column<Instance> }
impl Circuit<SymF> for C {
    type Config = Cfg; type FloorPlanner = SimpleFloorPlanner; type Params = ();
    fn without_witnesses(&self) -> Self { C(None) }
    fn configure(meta: &mut ConstraintSystem<SymF>) -> Cfg {
        let a = meta.advice_column(); let b = meta.advice_column(); let q = meta.fixed_column(); let s = meta.selector();
        let _ci = meta.instance_column(); let i = meta.instance_column();
        meta.enable_equality(a); meta.enable_equality(b); meta.enable_equality(i);
        meta.create_gate("mulnext", |m| { let av = m.query_advice(a, Rotation::cur()); let bv = m.query_advice(b, Rotation::cur()); let an = m.query_advice(a, Rotation::next()); let qv = m.query_fixed(q, Rotation::cur());
            Constraints::with_selector(s, vec![av * bv + qv - an]) });
        Cfg { a, b, q, s, i }
    }
    fn synthesize(&self, c: Cfg, mut l: impl Layouter<SymF>) -> Result<(), Error> {
        let out = l.assign_region(|| "r", |mut r| {
            c.s.enable(&mut r, 0)?;
            let w = match self.0 { Some(w) => Value::known(w), None => Value::unknown() };
            let a0 = r.assign_advice(|| "a", c.a, 0, || w)?;
            let b0 = r.assign_advice(|| "b", c.b, 0, || w)?;
            r.assign_fixed(|| "q", c.q, 0, || Value::known(SymF::from(7u64)))?;
            let a1 = r.assign_advice(|| "a1", c.a, 1, || w.map(|w| w * w + SymF::from(7u64)))?;
            r.constrain_equal(a0.cell(), b0.cell())?;
            Ok(a1) })?;
        l.constrain_instance(out.cell(), c.i, 0)
    }
}
fn main() {
    let params = SymParams { k: 4 };
    let vk = keygen_vk_with_k::<SymF, SymCS, C>(&params, &C(None), 4).expect("keygen");
    println!("vk ok: n={} repr={}", vk.n(), show(vk.transcript_repr(), 1));
    symcs::LOG.lock().unwrap().clear();
    let inst = [var("pi0"), var("pi1")];
    let mut t = <SymTranscript as midnight_proofs::transcript::Transcript>::init();
    let cinst = [SymCom(9999)];
    let guard = prepare::<SymF, SymCS, SymTranscript>(&vk, &[&cinst], &[&[&inst[..]]], &mut t).expect("prepare");
    for l in symcs::LOG.lock().unwrap().iter() { println!("{l}"); }
    println!("--- guard queries {}", guard.queries.len());
    for q in &guard.queries { println!("{}", &q[..q.len().min(230)]); }
    // ---------------- prover side, two proofs
    println!("=========== PROVER");
    symcs::LOG.lock().unwrap().clear();
    let pk = keygen_pk::<SymF, SymCS, C>(vk.clone(), &C(None)).expect("keygen_pk");
    let (w0, w1) = (var("w0"), var("w1"));
    let circuits = [C(Some(w0)), C(Some(w1))];
    let ci0 = [var("cpi0")]; let ci1 = [var("cpi1")];
    let p0 = [w0 * w0 + SymF::from(7u64)]; let p1 = [w1 * w1 + SymF::from(7u64)];
    let mut tp = <SymTranscript as midnight_proofs::transcript::Transcript>::init();
    struct R; impl rand_core::RngCore for R { fn next_u32(&mut self) -> u32 { 4 } fn next_u64(&mut self) -> u64 { 4 } fn fill_bytes(&mut self, d: &mut [u8]) { for b in d { *b = 4; } } fn try_fill_bytes(&mut self, d: &mut [u8]) -> Result<(), rand_core::Error> { self.fill_bytes(d); Ok(()) } }
    impl rand_core::CryptoRng for R {}
    let r = create_proof::<SymF, SymCS, SymTranscript, C>(&params, &pk, &circuits, 1, &[&[&ci0[..], &p0[..]], &[&ci1[..], &p1[..]]], R, &mut tp);
    println!("create_proof -> {:?}", r.is_ok());
    for l in symcs::LOG.lock().unwrap().iter().take(40) { println!("{l}"); }
    let a = ARENA.lock().unwrap(); println!("arena nodes {}  path conds {}", a.nodes.len(), a.path.len());
}
