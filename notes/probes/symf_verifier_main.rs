mod symf; mod symcs;
use ff::Field;
use midnight_proofs::{circuit::{Layouter, SimpleFloorPlanner, Value}, plonk::{keygen_vk_with_k, prepare, Advice, Circuit, Column, ConstraintSystem, Constraints, Error, Fixed, Instance, Selector}, poly::Rotation};
use symf::*; use symcs::*;

#[derive(Clone, Default)] struct C;
#[derive(Clone, Debug)] struct Cfg { a: Column<Advice>, b: Column<Advice>, q: Column<Fixed>, s: Selector, i: Column<Instance> }
impl Circuit<SymF> for C {
    type Config = Cfg; type FloorPlanner = SimpleFloorPlanner; type Params = ();
    fn without_witnesses(&self) -> Self { C }
    fn configure(meta: &mut ConstraintSystem<SymF>) -> Cfg {
        let a = meta.advice_column(); let b = meta.advice_column(); let q = meta.fixed_column(); let s = meta.selector();
        let _ci = meta.instance_column(); let i = meta.instance_column();
        meta.enable_equality(a); meta.enable_equality(b); meta.enable_equality(i);
        meta.create_gate("mulnext", |m| { let av = m.query_advice(a, Rotation::cur()); let bv = m.query_advice(b, Rotation::cur()); let an = m.query_advice(a, Rotation::next()); let qv = m.query_fixed(q, Rotation::cur());
            Constraints::with_selector(s, vec![av * bv + qv - an]) });
        Cfg { a, b, q, s, i }
    }
    fn synthesize(&self, c: Cfg, mut l: impl Layouter<SymF>) -> Result<(), Error> {
        let out = l.assign_region(|| "r", |mut r| {
            c.s.enable(&mut r, 0)?;
            let a0 = r.assign_advice(|| "a", c.a, 0, || Value::<SymF>::unknown())?;
            let b0 = r.assign_advice(|| "b", c.b, 0, || Value::<SymF>::unknown())?;
            r.assign_fixed(|| "q", c.q, 0, || Value::known(SymF::from(7u64)))?;
            let a1 = r.assign_advice(|| "a1", c.a, 1, || Value::<SymF>::unknown())?;
            r.constrain_equal(a0.cell(), b0.cell())?;
            Ok(a1) })?;
        l.constrain_instance(out.cell(), c.i, 0)
    }
}
fn main() {
    let params = SymParams { k: 4 };
    let vk = keygen_vk_with_k::<SymF, SymCS, C>(&params, &C, 4).expect("keygen");
    println!("vk ok: n={} repr={}", vk.n(), show(vk.transcript_repr(), 1));
    symcs::LOG.lock().unwrap().clear();
    let inst = [var("pi0"), var("pi1")];
    let mut t = <SymTranscript as midnight_proofs::transcript::Transcript>::init();
    let cinst = [SymCom(9999)];
    let guard = prepare::<SymF, SymCS, SymTranscript>(&vk, &[&cinst], &[&[&inst[..]]], &mut t).expect("prepare");
    for l in symcs::LOG.lock().unwrap().iter() { println!("{l}"); }
    println!("--- guard queries {}", guard.queries.len());
    for q in &guard.queries { println!("{}", &q[..q.len().min(230)]); }
    let a = ARENA.lock().unwrap(); println!("arena nodes {}  path conds {}", a.nodes.len(), a.path.len());
}
