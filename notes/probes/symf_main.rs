mod symf;
use ff::Field;
use midnight_proofs::poly::{EvaluationDomain, Rotation};
use symf::*;
fn main() {
    let dom = EvaluationDomain::<SymF>::new(3, 3);
    println!("domain k={} ext_k={}", dom.k(), dom.extended_k());
    let x = var("x");
    let xn = x.pow_vartime([8u64]);
    let ls = dom.l_i_range(x, xn, -2..=0);
    for l in &ls { println!("l = {}", show(*l, 6)); }
    println!("rot = {}", show(dom.rotate_omega(x, Rotation(-1)), 3));
    // symbolic FFT
    let mut coeffs = dom.empty_coeff();
    for (i, c) in coeffs.iter_mut().enumerate() { *c = var(&format!("a{i}")); }
    let lag = dom.coeff_to_lagrange(coeffs.clone());
    println!("lagrange[1] = {}", show(lag[1], 4));
    let back = dom.lagrange_to_coeff(lag);
    println!("back[1] = {}", show(back[1], 3));
    let ext = dom.coeff_to_extended(coeffs);
    println!("ext len {}", ext.len());
    let a = ARENA.lock().unwrap();
    println!("arena nodes {} path conds {}", a.nodes.len(), a.path.len());
    for p in a.path.iter().take(5) { println!("  path: {p}"); }
}
