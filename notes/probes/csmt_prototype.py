import json, re, sys, subprocess, time
P=0x73eda753299d7d483339d80809a1d80553bda402fffe5bfeffffffff00000001
def sym(c):
    c%=P
    return c-P if c>P//2 else c
def load(path):
    d=json.load(open(path))
    # parse permutation debug
    s=d['perm_debug']
    cols=re.findall(r'Column \{ index: (\d+), column_type: (\w+) \}', s.split('mapping:')[0])
    mp=s.split('mapping: ')[1].split(', aux:')[0]
    rows=re.findall(r'\[((?:\(\d+, \d+\)(?:, )?)+)\]', mp)
    mapping=[[tuple(map(int,t)) for t in re.findall(r'\((\d+), (\d+)\)', r)] for r in rows]
    pref={'Advice':'a','Fixed':'f','Instance':'i'}
    name=lambda ci,r: f"{pref[cols[ci][1]]}{cols[ci][0]}_{r}"
    parent={}
    def find(x):
        parent.setdefault(x,x)
        while parent[x]!=x:
            parent[x]=parent[parent[x]]; x=parent[x]
        return x
    def union(a,b):
        ra,rb=find(a),find(b)
        if ra!=rb: parent[ra]=rb
    for ci,col in enumerate(mapping):
        for r,(cj,r2) in enumerate(col):
            if (cj,r2)!=(ci,r): union(name(ci,r),name(cj,r2))
    return d,find,parent
class Enc:
    def __init__(self,d,find,parent):
        self.d=d; self.find=find; self.lines=[]; self.vars={}; self.prod={}; self.nq=0
        self.fixed={k:int(v,16) for k,v in d['fixed'].items()}
        # class -> constant if contains fixed cell
        self.const={}
        for cell in list(parent):
            if cell.startswith('f'):
                self.const[find(cell)]=self.fixed.get(cell,0)
    def v(self,cell):
        r=self.find(cell)
        if r in self.const: return self.const[r]
        if r not in self.vars:
            n="v_"+r; self.vars[r]=n
            self.lines.append(f"(declare-const {n} Int)"); self.lines.append(f"(assert (and (<= 0 {n}) (< {n} {P})))")
        return self.vars[r]
    def fresh(self,pfx,lo=None,hi=None):
        self.nq+=1; n=f"{pfx}{self.nq}"; self.lines.append(f"(declare-const {n} Int)")
        I=lambda x: str(x) if x>=0 else f"(- {-x})"
        if lo is not None: self.lines.append(f"(assert (and (<= {I(lo)} {n}) (<= {n} {I(hi)})))")
        return n
    def lin(self,terms,const):
        # terms: list of (coef, smtname) ; returns smt string
        parts=[str(const)] if const>=0 else [f"(- {-const})"]
        for c,n in terms:
            parts.append(f"(* {c} {n})" if c>=0 else f"(* (- {-c}) {n})")
        return "(+ "+" ".join(parts)+")" if len(parts)>1 else parts[0]
    def product(self,a,b):
        # a,b smt names (ints in [0,P)); returns name of product mod P
        key=tuple(sorted([a,b]))
        if key in self.prod: return self.prod[key]
        t=self.fresh("m",0,P-1)
        L=self.lines
        L.append(f"(assert (= (= {t} 0) (or (= {a} 0) (= {b} 0))))")
        L.append(f"(assert (=> (= {a} 1) (= {t} {b})))")
        L.append(f"(assert (=> (= {b} 1) (= {t} {a})))")
        # small exact
        B=1<<120
        import os
        if os.environ.get("OPAQUE"):
            L.append(f"(assert (=> (and (< {a} {1<<64}) (< {b} {1<<64})) (< {t} {1<<128})))")
        else:
            L.append(f"(assert (=> (and (< {a} {B}) (< {b} {B})) (= {t} (* {a} {b}))))")
        # cancellation with previous products sharing a factor
        for (k1,k2),t2 in self.prod.items():
            for (x,y),(x2,y2) in (((a,b),(k1,k2)),((a,b),(k2,k1)),((b,a),(k1,k2)),((b,a),(k2,k1))):
                if x==x2:
                    L.append(f"(assert (=> (and (not (= {x} 0)) (= {t} {t2})) (= {y} {y2})))")
                    break
        self.prod[key]=t
        return t
    def constraint(self,poly):
        # poly: list of [coefhex,[cells]]
        const=0; lin={}; quad=[]
        for ch,cells in poly:
            c=int(ch,16)
            ops=[self.v(x) for x in cells]
            k=c
            syms=[]
            for o in ops:
                if isinstance(o,int): k=k*o%P
                else: syms.append(o)
            if not syms: const=(const+k)%P
            elif len(syms)==1: lin[syms[0]]=(lin.get(syms[0],0)+k)%P
            elif len(syms)==2: quad.append((k,syms[0],syms[1]))
            else: raise Exception("deg>2")
        # factor quad terms by common variable, absorbing that variable's linear term
        terms=[]
        remaining=list(quad)
        import os
        if os.environ.get("NOFACTOR"):
            for k,a,b in remaining: terms.append((sym(k),self.product(a,b)))
            remaining=[]
        while remaining:
            cnt={}
            for k,a,b in remaining:
                cnt[a]=cnt.get(a,0)+1; 
                if b!=a: cnt[b]=cnt.get(b,0)+1
            x=max(cnt,key=lambda n:(cnt[n],n))
            grp=[(k,(b if a==x else a)) for k,a,b in remaining if a==x or b==x]
            remaining=[(k,a,b) for k,a,b in remaining if not (a==x or b==x)]
            cx=lin.pop(x,0)
            if len(grp)==1 and cx==0:
                k,b=grp[0]; t=self.product(x,b); terms.append((sym(k),t))
            else:
                Lv=self.fresh("L",0,P-1)
                self.modeq([(sym(k),b) for k,b in grp]+[(-1,Lv)],sym(cx))
                t=self.product(x,Lv); terms.append((1,t))
        terms+= [(sym(c),n) for n,c in lin.items() if c%P]
        self.modeq(terms,sym(const))
    def modeq(self,terms,const):
        # sum terms + const == 0 mod P  -> = P*q with q bounded
        lo=const+sum(min(0,c*(P-1)) for c,_ in terms); hi=const+sum(max(0,c*(P-1)) for c,_ in terms)
        qlo=-((-lo)//P)-1; qhi=hi//P+1
        if qlo==qhi==0 or (lo> -P and hi< P):
            self.lines.append(f"(assert (= {self.lin(terms,const)} 0))")
        else:
            q=self.fresh("q",qlo,qhi)
            self.lines.append(f"(assert (= {self.lin(terms,const)} (* {P} {q})))")
    def lookup(self,lk):
        table=[[int(x,16) for x in row] for row in lk['table']]
        for inp in lk['inputs']:
            # each expr poly must be linear with single var or const
            vals=[]
            for poly in inp['exprs']:
                const=0; lin={}
                for ch,cells in poly:
                    c=int(ch,16); ops=[self.v(x) for x in cells]; k=c; syms=[]
                    for o in ops:
                        if isinstance(o,int): k=k*o%P
                        else: syms.append(o)
                    if not syms: const=(const+k)%P
                    elif len(syms)==1: lin[syms[0]]=(lin.get(syms[0],0)+k)%P
                    else: raise Exception("nonlinear lookup input")
                vals.append((const,lin))
            rows=[r for r in table if all((not l and c==r[i]) or l for i,(c,l) in enumerate(vals))]
            symidx=[i for i,(c,l) in enumerate(vals) if l]
            if not symidx: 
                assert rows, "lookup const not in table"; continue
            if len(symidx)==1:
                i=symidx[0]; c,l=vals[i]
                assert c==0 and len(l)==1 and list(l.values())[0]==1, (c,l)
                n=list(l)[0]
                allowed=sorted(set(r[i] for r in rows))
                if allowed==list(range(len(allowed))):
                    self.lines.append(f"(assert (< {n} {len(allowed)}))")
                else:
                    self.lines.append("(assert (or "+" ".join(f"(= {n} {a})" for a in allowed)+"))")
            else: raise Exception("multi-sym lookup")
def run(smt,solvers=(("z3-new","-in"),("cvc5","--lang","smt2","--produce-models")),timeout=120):
    res={}
    for s in solvers:
        t=time.time()
        try:
            p=subprocess.run(list(s),input=smt,capture_output=True,text=True,timeout=timeout)
            out=p.stdout.strip()
        except subprocess.TimeoutExpired: out="timeout"
        res[s[0]]=(out[:3000],round(time.time()-t,2))
    return res
if __name__=="__main__":
    d,find,parent=load(sys.argv[1])
    e=Enc(d,find,parent)
    drop=[a.split('=')[1] for a in sys.argv if a.startswith('--drop=')]
    for gi,g in enumerate(d['gates']):
        if str(gi) in drop: print("DROPPING",g['gate'],g['row']); continue
        e.constraint(g['poly'])
    for l in d['lookups']: e.lookup(l)
    spec=sys.argv[2]
    # instance cells i1_r
    I=lambda r: e.v(f"i1_{r}")
    ns={'I':I,'P':P,'e':e}
    neg=eval(spec,ns)   # returns smt string of NEGATED property
    smt="(set-logic ALL)\n(set-option :produce-models true)\n"+"\n".join(e.lines)+f"\n(assert {neg})\n(check-sat)\n"
    if '--model' in sys.argv: smt+="(get-model)\n"
    open(sys.argv[1]+".smt2","w").write(smt)
    print(len(e.lines),"lines")
    import os
    for k,v in run(smt,timeout=int(os.environ.get("TMO","120"))).items(): print(k,v[1],"s:",v[0][:1500])
