use ff::Field;
use group::{Curve, Group};
use midnight_curves::{CurveExt, G1Projective, G2Projective, Fq};
fn main() {
    let p = G1Projective::generator() * Fq::from(5u64) + G1Projective::generator();
    let (jx, jy, jz) = p.jacobian_coordinates();
    let a = p.to_affine();
    let zi = jz.invert().unwrap();
    println!("G1 z==1? {}", jz == midnight_curves::Fp::ONE);
    println!("G1 jacobian consistent: x {} y {}", a.x() == jx * zi.square(), a.y() == jy * zi.square() * zi);
    // raw internal coords interpreted as jacobian
    println!("G1 raw-as-jacobian: x {} y {}", a.x() == p.x() * p.z().invert().unwrap().square(), a.y() == p.y() * p.z().invert().unwrap().square() * p.z().invert().unwrap());
    println!("G1 raw-as-homogeneous: x {} y {}", a.x() == p.x() * p.z().invert().unwrap(), a.y() == p.y() * p.z().invert().unwrap());
    let q = G1Projective::new_jacobian(jx, jy, jz);
    println!("G1 new_jacobian(jacobian_coordinates(p)) some={} eq={}", bool::from(q.is_some()), if bool::from(q.is_some()) { q.unwrap() == p } else { false });
    // textbook jacobian of p built from affine: (x*z^2, y*z^3, z) with z=2
    let z = midnight_curves::Fp::from(2u64);
    let q2 = G1Projective::new_jacobian(a.x() * z.square(), a.y() * z.square() * z, z);
    println!("G1 new_jacobian(textbook jacobian of p) some={} eq={}", bool::from(q2.is_some()), if bool::from(q2.is_some()) { q2.unwrap() == p } else { false });

    let p2 = G2Projective::generator() * Fq::from(5u64) + G2Projective::generator();
    let (jx, jy, jz) = p2.jacobian_coordinates();
    let a2 = p2.to_affine();
    let zi = jz.invert().unwrap();
    println!("G2 jacobian consistent: x {} y {}", a2.x() == jx * zi.square(), a2.y() == jy * zi.square() * zi);
}
