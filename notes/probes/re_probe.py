import z3, time
# regex: ((ab)*c | d+) & ~(.*dd.*)   i.e. (ab)*c | d   (after intersection with complement of "contains dd")
a=z3.Re("a");b=z3.Re("b");c=z3.Re("c");d=z3.Re("d")
any_=z3.Full(z3.ReSort(z3.StringSort()))
R=z3.Intersect(z3.Union(z3.Concat(z3.Star(z3.Concat(a,b)),c), z3.Plus(d)), z3.Complement(z3.Concat(any_, z3.Re("dd"), any_)))
# hand automaton for (ab)*c | d : states 0 init,1 after a,2 accept(after c),3 accept(after d), dead=-1
trans={(0,ord('a')):1,(1,ord('b')):4,(4,ord('a')):1,(4,ord('c')):2,(0,ord('c')):2,(0,ord('d')):3}
final={2,3}
def build(trans,final,buggy=False):
    def delta(s,ch):
        e=z3.IntVal(-1)
        for (st,by),nx in trans.items():
            e=z3.If(z3.And(s==st,ch==by),z3.IntVal(nx),e)
        return e
    return delta
def check(N,trans,final):
    tot=0
    for n in range(0,N+1):
        s=z3.Solver(); s.set("timeout",60000)
        w=z3.String('w'); s.add(z3.Length(w)==n)
        st=[z3.Int(f"s{i}") for i in range(n+1)]
        s.add(st[0]==0)
        delta=build(trans,final)
        for i in range(n):
            ch=z3.StrToCode(z3.SubString(w,i,1))
            s.add(st[i+1]==delta(st[i],ch))
        acc=z3.Or([st[n]==f for f in final])
        s.add(acc != z3.InRe(w,R))
        t=time.time(); r=s.check(); tot+=time.time()-t
        if r!=z3.unsat:
            print("n",n,r, s.model()[w] if r==z3.sat else ""); return
    print("HOLDS up to",N,"time",round(tot,2))
check(16,trans,final)
bad=dict(trans); bad[(3,ord('d'))]=3   # accepts d+ incl dd -> wrong
check(10,bad,final)
