//! Throw-away probe: symbolic transcript + dummy commitment scheme.
use std::io::{self, Read, Write};
use std::sync::Mutex;
use core::ops::{Add, Mul};
use group::GroupEncoding;
use subtle::CtOption;
use subtle::Choice;
use midnight_proofs::poly::{commitment::{Guard, Params, PolynomialCommitmentScheme}, Coeff, LagrangeCoeff, Polynomial, ProverQuery, VerifierQuery, Error};
use midnight_proofs::transcript::{Hashable, Sampleable, Transcript, TranscriptHash};
use midnight_proofs::utils::{helpers::ProcessedSerdeObject, SerdeFormat};
use crate::symf::*;

lazy_static::lazy_static! { pub static ref LOG: Mutex<Vec<String>> = Mutex::new(vec![]); }
fn log(s: String) { LOG.lock().unwrap().push(s); }

// ---------- hash
#[derive(Clone, Debug)]
pub struct SymHash { absorbed: Vec<String> }
impl TranscriptHash for SymHash {
    type Input = String;
    type Output = SymF;
    fn init() -> Self { SymHash { absorbed: vec![] } }
    fn absorb(&mut self, i: &String) { self.absorbed.push(i.clone()); log(format!("absorb {i}")); }
    fn squeeze(&mut self) -> SymF { let name = format!("chi[{}]", self.absorbed.join(",")); self.absorbed.push("|".into());
        let short = format!("ch{}", { let mut h = 0u64; for b in name.bytes() { h = h.wrapping_mul(1099511628211).wrapping_add(b as u64); } h % 100000 });
        log(format!("squeeze -> {short} (depends on {} items)", self.absorbed.len()-1)); var(&short) }
}
fn enc(x: &SymF) -> Vec<u8> { match x { SymF::C(c) => { let mut v = vec![0u8]; v.extend_from_slice(ff::PrimeField::to_repr(c).as_ref()); v }, SymF::T(i) => { let mut v = vec![1u8]; v.extend_from_slice(&i.to_le_bytes()); v.resize(33, 0); v } } }
impl Hashable<SymHash> for SymF {
    fn to_input(&self) -> String { show(*self, 2) }
    fn to_bytes(&self) -> Vec<u8> { enc(self) }
    fn read(buffer: &mut impl Read) -> io::Result<Self> { let mut b = [0u8; 33]; buffer.read_exact(&mut b)?; Ok(fresh("pf_s")) }
}
impl Sampleable<SymHash> for SymF { fn sample(o: SymF) -> Self { o } }

// ---------- commitments
#[derive(Clone, Copy, Debug, PartialEq, Eq, Default)]
pub struct SymCom(pub u32);
static COMCTR: Mutex<u32> = Mutex::new(0);
fn newcom(tag: &str) -> SymCom { let mut c = COMCTR.lock().unwrap(); *c += 1; log(format!("commitment C{} = {tag}", *c)); SymCom(*c) }
impl Add for SymCom { type Output = SymCom; fn add(self, _: SymCom) -> SymCom { unimplemented!("SymCom add") } }
impl Mul<SymF> for SymCom { type Output = SymCom; fn mul(self, _: SymF) -> SymCom { unimplemented!("SymCom mul") } }
#[derive(Clone, Copy, Default, Debug)] pub struct Repr4([u8; 4]);
impl AsRef<[u8]> for Repr4 { fn as_ref(&self) -> &[u8] { &self.0 } }
impl AsMut<[u8]> for Repr4 { fn as_mut(&mut self) -> &mut [u8] { &mut self.0 } }
impl GroupEncoding for SymCom { type Repr = Repr4;
    fn from_bytes(b: &Repr4) -> CtOption<Self> { CtOption::new(SymCom(u32::from_le_bytes(b.0)), Choice::from(1)) }
    fn from_bytes_unchecked(b: &Repr4) -> CtOption<Self> { Self::from_bytes(b) }
    fn to_bytes(&self) -> Repr4 { Repr4(self.0.to_le_bytes()) } }
impl ProcessedSerdeObject for SymCom {
    fn read<R: Read>(r: &mut R, _: SerdeFormat) -> io::Result<Self> { let mut b = [0u8; 4]; r.read_exact(&mut b)?; Ok(SymCom(u32::from_le_bytes(b))) }
    fn write<W: Write>(&self, w: &mut W, _: SerdeFormat) -> io::Result<()> { w.write_all(&self.0.to_le_bytes()) } }
impl Hashable<SymHash> for SymCom {
    fn to_input(&self) -> String { format!("C{}", self.0) }
    fn to_bytes(&self) -> Vec<u8> { self.0.to_le_bytes().to_vec() }
    fn read(buffer: &mut impl Read) -> io::Result<Self> { let mut b = [0u8; 4]; buffer.read_exact(&mut b)?; Ok(newcom("read from proof")) }
}

#[derive(Clone, Debug)] pub struct SymParams { pub k: u32 }
impl Params for SymParams { fn max_k(&self) -> u32 { self.k } fn downsize(&mut self, k: u32) { self.k = k } }
#[derive(Clone, Debug)] pub struct SymCS;
#[derive(Debug)] pub struct SymGuard { pub queries: Vec<String> }
impl Guard<SymF, SymCS> for SymGuard { fn verify(self, _: &()) -> Result<(), Error> { Ok(()) } }
impl PolynomialCommitmentScheme<SymF> for SymCS {
    type Parameters = SymParams; type VerifierParameters = (); type Commitment = SymCom; type VerificationGuard = SymGuard;
    fn gen_params(k: u32) -> SymParams { SymParams { k } }
    fn get_verifier_params(_: &SymParams) {}
    fn commit(_: &SymParams, p: &Polynomial<SymF, Coeff>) -> SymCom { newcom(&format!("commit(coeff, len {})", p.len())) }
    fn commit_lagrange(_: &SymParams, p: &Polynomial<SymF, LagrangeCoeff>) -> SymCom { newcom(&format!("commit(lagrange, len {})", p.len())) }
    fn multi_open<T: Transcript>(_: &SymParams, _: &[ProverQuery<SymF>], _: &mut T) -> Result<(), Error>
    where SymF: Sampleable<T::Hash> + std::hash::Hash + Ord + Hashable<T::Hash>, SymCom: Hashable<T::Hash> { Ok(()) }
    fn multi_prepare<'com, T: Transcript>(q: &[VerifierQuery<'com, SymF, Self>], _: &mut T) -> Result<SymGuard, Error>
    where SymF: Sampleable<T::Hash> + std::hash::Hash + Ord + Hashable<T::Hash>, SymCom: 'com + Hashable<T::Hash> {
        Ok(SymGuard { queries: q.iter().map(|q| format!("{:?}", q)).collect() })
    }
}

// ---------- transcript: the proof is an endless stream of fresh symbols
#[derive(Clone, Debug)] pub struct SymTranscript { state: SymHash }
struct Endless; impl Read for Endless { fn read(&mut self, b: &mut [u8]) -> io::Result<usize> { for x in b.iter_mut() { *x = 0; } Ok(b.len()) } }
impl Transcript for SymTranscript {
    type Hash = SymHash;
    fn init() -> Self { SymTranscript { state: SymHash::init() } }
    fn init_from_bytes(_: &[u8]) -> Self { Self::init() }
    fn squeeze_challenge<T: Sampleable<SymHash>>(&mut self) -> T { T::sample(self.state.squeeze()) }
    fn common<T: Hashable<SymHash>>(&mut self, i: &T) -> io::Result<()> { self.state.absorb(&i.to_input()); Ok(()) }
    fn read<T: Hashable<SymHash>>(&mut self) -> io::Result<T> { let v = T::read(&mut Endless)?; log(format!("read {}", v.to_input())); self.common(&v)?; Ok(v) }
    fn write<T: Hashable<SymHash>>(&mut self, i: &T) -> io::Result<()> { log(format!("write {}", i.to_input())); self.common(i) }
    fn finalize(self) -> Vec<u8> { vec![] }
    fn assert_empty(&mut self) -> io::Result<()> { Ok(()) }
}
