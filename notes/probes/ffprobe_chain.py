import sys, os, time
sys.path.insert(0,'/tmp/probe/csmt')
os.environ["OPAQUE"]="1"; os.environ["NOFACTOR"]="1"
import csmt
P=csmt.P
d,find,parent=csmt.load('ffm.json')
e=csmt.Enc(d,find,parent)
for g in d['gates']: e.constraint(g['poly'])
for l in d['lookups']: e.lookup(l)
# integer value of each foreign-mul poly with symmetric coefficients
def intexpr(poly):
    parts=[]
    for ch,cells in poly:
        c=csmt.sym(int(ch,16)); ops=[e.v(x) for x in cells]
        if len(ops)==0: parts.append(str(c) if c>=0 else f"(- {-c})")
        elif len(ops)==1: parts.append(f"(* {c if c>=0 else '(- %d)'%-c} {ops[0]})")
        else: parts.append(f"(* {c if c>=0 else '(- %d)'%-c} {e.product(ops[0],ops[1])})")
    return "(+ "+" ".join(parts)+")"
fm=[g for g in d['gates'] if g['gate'].startswith('Foreign')]
E0=intexpr(fm[0]['poly']); E1=intexpr(fm[1]['poly'])
base="(set-logic ALL)\n"+"\n".join(e.lines)
qs={
 "aux_exact_zero": f"(assert (not (= {E0} 0)))",
 "native_bound":   f"(assert (or (>= {E1} {P*2**128}) (<= {E1} (- {P*2**128}))))",
 "native_exact_zero": f"(assert (not (= {E1} 0)))",
}
which=sys.argv[1:] or list(qs)
for name in which:
    smt=base+"\n"+qs[name]+"\n(check-sat)\n"
    print(name, {k:(v[0][:40],v[1]) for k,v in csmt.run(smt,timeout=int(os.environ.get("TMO","200"))).items()})
