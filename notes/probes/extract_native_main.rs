use std::collections::BTreeMap;
use ff::{Field, PrimeField};
use midnight_circuits::{
    field::{
        decomposition::{chip::{P2RDecompositionChip, P2RDecompositionConfig}, pow2range::Pow2RangeChip},
        native::{NB_ARITH_COLS, NB_ARITH_FIXED_COLS}, NativeChip, NativeGadget,
    },
    instructions::*,
    types::{AssignedBit, AssignedNative, ComposableChip},
};
use midnight_curves::Fq as F;
use midnight_proofs::{
    circuit::{Layouter, SimpleFloorPlanner, Value},
    dev::{CellValue, MockProver},
    plonk::{Circuit, ConstraintSystem, Error, Expression},
};

type NG = NativeGadget<F, P2RDecompositionChip<F>, NativeChip<F>>;

#[derive(Clone)]
struct TestCircuit { op: String, x: F, y: F }

impl Circuit<F> for TestCircuit {
    type Config = P2RDecompositionConfig;
    type FloorPlanner = SimpleFloorPlanner;
    type Params = ();
    fn without_witnesses(&self) -> Self { unreachable!() }
    fn configure(meta: &mut ConstraintSystem<F>) -> Self::Config {
        let advice_columns: [_; NB_ARITH_COLS] = core::array::from_fn(|_| meta.advice_column());
        let fixed_columns: [_; NB_ARITH_FIXED_COLS] = core::array::from_fn(|_| meta.fixed_column());
        let ci = meta.instance_column();
        let i = meta.instance_column();
        let native_config = NativeChip::configure(meta, &(advice_columns, fixed_columns, [ci, i]));
        let pow2range_config = Pow2RangeChip::configure(meta, &advice_columns[1..=4]);
        P2RDecompositionConfig::new(&native_config, &pow2range_config)
    }
    fn synthesize(&self, config: Self::Config, mut layouter: impl Layouter<F>) -> Result<(), Error> {
        let max_bit_len = 8;
        let native_chip = NativeChip::new(config.native_config(), &());
        let core = P2RDecompositionChip::new(&config, &max_bit_len);
        let chip: NG = NativeGadget::new(core.clone(), native_chip.clone());
        // inputs are public inputs (so they are symbolic "instance" cells)
        let x: AssignedNative<F> = chip.assign_as_public_input(&mut layouter, Value::known(self.x))?;
        match self.op.as_str() {
            "is_zero" => {
                let r: AssignedBit<F> = chip.is_zero(&mut layouter, &x)?;
                chip.constrain_as_public_input(&mut layouter, &r)?;
            }
            "is_equal" => {
                let y: AssignedNative<F> = chip.assign_as_public_input(&mut layouter, Value::known(self.y))?;
                let r: AssignedBit<F> = chip.is_equal(&mut layouter, &x, &y)?;
                chip.constrain_as_public_input(&mut layouter, &r)?;
            }
            "lower_than" => {
                let y: AssignedNative<F> = chip.assign_as_public_input(&mut layouter, Value::known(self.y))?;
                let bx = chip.bounded_of_element(&mut layouter, 16, &x)?;
                let by = chip.bounded_of_element(&mut layouter, 16, &y)?;
                let r: AssignedBit<F> = chip.lower_than(&mut layouter, &bx, &by)?;
                chip.constrain_as_public_input(&mut layouter, &r)?;
            }
            "to_bits" => {
                let bits = chip.assigned_to_le_bits(&mut layouter, &x, Some(10), true)?;
                for b in bits.iter() { chip.constrain_as_public_input(&mut layouter, b)?; }
            }
            _ => panic!(),
        }
        native_chip.load(&mut layouter)?;
        core.load(&mut layouter)
    }
}

fn hex(f: &F) -> String {
    let r = f.to_repr();
    let mut s = String::from("0x");
    for b in r.as_ref().iter().rev() { s.push_str(&format!("{:02x}", b)); }
    s
}

// polynomial: monomial (sorted list of cell ids) -> coeff
type Mono = Vec<String>;
#[derive(Clone, Debug)]
struct Poly(BTreeMap<Mono, F>);
impl Poly {
    fn c(f: F) -> Self { let mut m = BTreeMap::new(); if f != F::ZERO { m.insert(vec![], f);} Poly(m) }
    fn var(s: String) -> Self { let mut m = BTreeMap::new(); m.insert(vec![s], F::ONE); Poly(m) }
    fn add(mut self, o: Poly) -> Self { for (k,v) in o.0 { let e = self.0.entry(k.clone()).or_insert(F::ZERO); *e += v; if *e == F::ZERO { self.0.remove(&k);} } self }
    fn scale(mut self, f: F) -> Self { if f == F::ZERO { return Poly(BTreeMap::new()); } for v in self.0.values_mut() { *v *= f; } self }
    fn mul(self, o: Poly) -> Self { let mut r = Poly(BTreeMap::new()); for (k1,v1) in &self.0 { for (k2,v2) in &o.0 { let mut k = k1.clone(); k.extend(k2.clone()); k.sort(); let e = r.0.entry(k.clone()).or_insert(F::ZERO); *e += *v1 * *v2; if *e == F::ZERO { r.0.remove(&k);} } } r }
    fn json(&self) -> String {
        let terms: Vec<String> = self.0.iter().map(|(k,v)| format!("[\"{}\",[{}]]", hex(v), k.iter().map(|s| format!("\"{}\"", s)).collect::<Vec<_>>().join(","))).collect();
        format!("[{}]", terms.join(","))
    }
}

fn main() {
    let args: Vec<String> = std::env::args().collect();
    let op = args[1].clone();
    let x = F::from(args[2].parse::<u64>().unwrap());
    let y = F::from(args[3].parse::<u64>().unwrap());
    let k = 10u32;
    let circuit = TestCircuit { op, x, y };
    // public inputs: we don't know outputs a priori; run once with a dummy to find how many are needed
    let pi: Vec<F> = args[4..].iter().map(|s| F::from(s.parse::<u64>().unwrap())).collect();
    let prover = MockProver::<F>::run(k, &circuit, vec![vec![], pi]).unwrap();
    eprintln!("verify: {:?}", prover.verify().is_ok());
    let cs = prover.cs();
    let n = 1usize << k;
    let usable = prover.usable_rows().clone();
    let fixed = prover.fixed();
    let advice = prover.advice();
    let fx = |col: usize, row: usize| -> F { match fixed[col][row] { CellValue::Assigned(v) => v, _ => F::ZERO } };
    let eval = |e: &Expression<F>, row: usize| -> Poly {
        e.evaluate(
            &|c| Poly::c(c),
            &|_| panic!("selector"),
            &|q| Poly::c(fx(q.column_index(), (row as i64 + q.rotation().0 as i64).rem_euclid(n as i64) as usize)),
            &|q| Poly::var(format!("a{}_{}", q.column_index(), (row as i64 + q.rotation().0 as i64).rem_euclid(n as i64))),
            &|q| Poly::var(format!("i{}_{}", q.column_index(), (row as i64 + q.rotation().0 as i64).rem_euclid(n as i64))),
            &|_| panic!("challenge"),
            &|a| a.scale(-F::ONE),
            &|a, b| a.add(b),
            &|a, b| a.mul(b),
            &|a, s| a.scale(s),
        )
    };
    let mut out = String::from("{\n");
    // gates
    let mut gates = vec![];
    for g in cs.gates() {
        for (pi, p) in g.polynomials().iter().enumerate() {
            for row in usable.clone() {
                let poly = eval(p, row);
                if !poly.0.is_empty() { gates.push(format!("{{\"gate\":\"{}:{}\",\"row\":{},\"poly\":{}}}", g.name(), pi, row, poly.json())); }
            }
        }
    }
    out.push_str(&format!("\"gates\":[{}],\n", gates.join(",\n")));
    // lookups
    let mut lks = vec![];
    for (li, l) in cs.lookups().iter().enumerate() {
        // table
        let mut table = std::collections::BTreeSet::new();
        for row in usable.clone() {
            let t: Vec<String> = l.table_expressions().iter().map(|e| { let p = eval(e, row); assert!(p.0.keys().all(|k| k.is_empty())); hex(p.0.get(&vec![]).unwrap_or(&F::ZERO)) }).collect();
            table.insert(t);
        }
        let mut inputs = vec![];
        for row in usable.clone() {
            let ps: Vec<Poly> = l.input_expressions().iter().map(|e| eval(e, row)).collect();
            if ps.iter().all(|p| p.0.is_empty()) { continue; }
            inputs.push(format!("{{\"row\":{},\"exprs\":[{}]}}", row, ps.iter().map(|p| p.json()).collect::<Vec<_>>().join(",")));
        }
        let tj: Vec<String> = table.iter().map(|t| format!("[{}]", t.iter().map(|s| format!("\"{}\"", s)).collect::<Vec<_>>().join(","))).collect();
        lks.push(format!("{{\"name\":\"{}#{}\",\"table\":[{}],\"inputs\":[{}]}}", l.name(), li, tj.join(","), inputs.join(",")));
    }
    out.push_str(&format!("\"lookups\":[{}],\n", lks.join(",\n")));
    // permutation via Debug
    out.push_str(&format!("\"perm_debug\":{:?},\n", format!("{:?}", prover.permutation())));
    // honest advice
    let mut adv = vec![];
    for (c, col) in advice.iter().enumerate() { for (r, v) in col.iter().enumerate() { if let CellValue::Assigned(v) = v { adv.push(format!("\"a{}_{}\":\"{}\"", c, r, hex(v))); } } }
    out.push_str(&format!("\"advice\":{{{}}},\n", adv.join(",")));
    let mut fxs = vec![];
    for (c, col) in fixed.iter().enumerate() { for (r, v) in col.iter().enumerate() { if let CellValue::Assigned(v) = v { if *v != F::ZERO { fxs.push(format!("\"f{}_{}\":\"{}\"", c, r, hex(v))); } } } }
    out.push_str(&format!("\"fixed\":{{{}}},\n", fxs.join(",")));
    out.push_str(&format!("\"n\":{},\"usable\":{}\n}}", n, usable.end));
    println!("{}", out);
}
