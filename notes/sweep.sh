#!/bin/sh
# sweep.sh <outfile> <seed-id>...   re-applies each seeded patch to the private worktree /tmp/lead-wt
# (at /repo HEAD), runs the property's quick check against it, records one line per seed, reverts.
OUT=$1; shift
WT=/tmp/lead-wt
[ -d $WT ] || git -C /repo worktree add --detach $WT HEAD >/dev/null 2>&1
for ID in "$@"; do
  P=${ID%%-*}
  git -C $WT checkout -q -- . ; git -C $WT clean -fdq -e target
  if ! git -C $WT apply /verif/seeded/$ID/patch.diff 2>/dev/null; then echo "$ID prop=$P patch-does-not-apply" >> $OUT; continue; fi
  T0=$(date +%s)
  VERIF_REPO=$WT VERIF_SEED=1 /verif/check $P > /tmp/sweep-$ID.log 2>&1; RC=$?
  T1=$(date +%s)
  NV=$(grep -c '^VIOLATION' /tmp/sweep-$ID.log)
  echo "$ID prop=$P exit=$RC wall=$((T1-T0))s violations=$NV $(grep -E '^\[C[0-9]+\] obligations' /tmp/sweep-$ID.log | tail -1)" >> $OUT
  git -C $WT checkout -q -- . ; git -C $WT clean -fdq -e target
done
