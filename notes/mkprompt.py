import json,sys
pid,wt=sys.argv[1],sys.argv[2]; focus=sys.argv[3] if len(sys.argv)>3 else ""
p=[json.loads(l) for l in open('/verif/properties.jsonl') if json.loads(l)['id']==pid][0]
t=open('/verif/notes/mutation_prompt.txt').read()
print(t.replace('{WT}',wt).replace('{ID}',pid).replace('{STATEMENT}',p['statement']).replace('{QUANT}',p['quantifier']['text']).replace('{FOCUS}',("\nFocus area for your change (to diversify from other testers): "+focus+"\n") if focus else ""))
