//! Regenerates, on every build, generic copies of the library's own regular-expression
//! specifications from the CURRENT source of the checked tree:
//!   * every `fn spec_*() -> Regex` of circuits/src/parsing/specs.rs (private there), together with the
//!     `(StdLibParser::X, &spec_x, include_bytes!(..))` pairing of `spec_library_data`;
//!   * the `#[cfg(test)]` automata `hard_coded_example*` of circuits/src/parsing/automaton_chip.rs.
//! The function bodies are copied verbatim; only the signature is made generic over a type parameter
//! that is *named* `Regex`, so the same text builds the real `Regex` and the recording mirror AST `R`.
//! The path of the tree is taken from this crate's Cargo.toml (so VERIF_REPO shadow copies follow).

use std::{env, fs, path::PathBuf};

/// index just after the `}` matching the `{` at `open` (skips strings, chars, comments).
fn match_brace(s: &[u8], open: usize) -> usize {
    let mut i = open;
    let mut depth = 0i32;
    while i < s.len() {
        let c = s[i];
        match c {
            b'/' if i + 1 < s.len() && s[i + 1] == b'/' => {
                while i < s.len() && s[i] != b'\n' {
                    i += 1;
                }
                continue;
            }
            b'/' if i + 1 < s.len() && s[i + 1] == b'*' => {
                i += 2;
                while i + 1 < s.len() && !(s[i] == b'*' && s[i + 1] == b'/') {
                    i += 1;
                }
                i += 2;
                continue;
            }
            b'r' if i + 1 < s.len() && (s[i + 1] == b'#' || s[i + 1] == b'"') && (i == 0 || !(s[i - 1].is_ascii_alphanumeric() || s[i - 1] == b'_')) => {
                // raw string r#"..."#
                let mut j = i + 1;
                let mut hashes = 0;
                while j < s.len() && s[j] == b'#' {
                    hashes += 1;
                    j += 1;
                }
                if j < s.len() && s[j] == b'"' {
                    j += 1;
                    'outer: while j < s.len() {
                        if s[j] == b'"' {
                            let mut k = 0;
                            while k < hashes && j + 1 + k < s.len() && s[j + 1 + k] == b'#' {
                                k += 1;
                            }
                            if k == hashes {
                                j += 1 + hashes;
                                break 'outer;
                            }
                        }
                        j += 1;
                    }
                    i = j;
                    continue;
                }
            }
            b'"' => {
                i += 1;
                while i < s.len() && s[i] != b'"' {
                    if s[i] == b'\\' {
                        i += 1;
                    }
                    i += 1;
                }
                i += 1;
                continue;
            }
            b'\'' => {
                if i + 1 < s.len() && s[i + 1] == b'\\' {
                    i += 2;
                    while i < s.len() && s[i] != b'\'' {
                        i += 1;
                    }
                    i += 1;
                    continue;
                } else if i + 2 < s.len() && s[i + 2] == b'\'' {
                    i += 3;
                    continue;
                }
            }
            b'{' => depth += 1,
            b'}' => {
                depth -= 1;
                if depth == 0 {
                    return i + 1;
                }
            }
            _ => {}
        }
        i += 1;
    }
    panic!("unbalanced braces");
}

/// all `fn <prefix><name>() -> <ret> {` items: (full name, body text including braces)
fn find_fns(src: &str, prefix: &str, ret: &str) -> Vec<(String, String)> {
    let mut out = vec![];
    let pat = format!("fn {prefix}");
    let mut from = 0;
    while let Some(p) = src[from..].find(&pat) {
        let start = from + p;
        let name_start = start + 3;
        let name_end = name_start + src[name_start..].find('(').unwrap();
        let name = src[name_start..name_end].trim().to_string();
        let sig_end = name_end + src[name_end..].find('{').unwrap();
        let sig = &src[name_end..sig_end];
        from = name_end;
        if !name.chars().all(|c| c.is_ascii_alphanumeric() || c == '_') {
            continue;
        }
        if sig.replace(' ', "") != format!("()->{ret}") {
            continue;
        }
        let end = match_brace(src.as_bytes(), sig_end);
        out.push((name, src[sig_end..end].to_string()));
        from = end;
    }
    out
}

fn main() {
    let manifest = PathBuf::from(env::var("CARGO_MANIFEST_DIR").unwrap()).join("Cargo.toml");
    println!("cargo:rerun-if-changed={}", manifest.display());
    let toml = fs::read_to_string(&manifest).unwrap();
    let key = "midnight-circuits = { path = \"";
    let p = toml.find(key).expect("midnight-circuits path dependency") + key.len();
    let circuits = PathBuf::from(&toml[p..p + toml[p..].find('"').unwrap()]);
    let specs_rs = circuits.join("src/parsing/specs.rs");
    let chip_rs = circuits.join("src/parsing/automaton_chip.rs");
    println!("cargo:rerun-if-changed={}", specs_rs.display());
    println!("cargo:rerun-if-changed={}", chip_rs.display());
    let specs = fs::read_to_string(&specs_rs).unwrap();
    let chip = fs::read_to_string(&chip_rs).unwrap();

    let mut out = String::new();
    out.push_str("// GENERATED by build.rs from the checked tree; do not edit.\n");
    let bound = "Regex: RXB";
    let mut entries = vec![];
    // (variant, fn) pairs of spec_library_data
    let mut pairs = vec![];
    let mut from = 0;
    while let Some(p) = specs[from..].find("StdLibParser::") {
        let s = from + p + "StdLibParser::".len();
        let e = s + specs[s..].find(|c: char| !(c.is_ascii_alphanumeric() || c == '_')).unwrap();
        let variant = specs[s..e].to_string();
        let rest = specs[e..].trim_start();
        from = e;
        if let Some(r) = rest.strip_prefix(',') {
            let r = r.trim_start();
            if let Some(r) = r.strip_prefix('&') {
                let fe = r.find(|c: char| !(c.is_ascii_alphanumeric() || c == '_')).unwrap();
                let f = r[..fe].to_string();
                if f.starts_with("spec_") {
                    pairs.push((variant, f));
                }
            }
        }
    }
    for (name, body) in find_fns(&specs, "spec_", "Regex") {
        if name == "spec_library" || name == "spec_library_data" {
            continue;
        }
        out.push_str(&format!("#[allow(clippy::all, unused)]\npub fn {name}<{bound}>() -> Regex {body}\n\n"));
        let shipped = pairs.iter().find(|(_, f)| *f == name).map(|(v, _)| v.clone());
        entries.push((name, shipped));
    }
    for (name, body) in find_fns(&chip, "hard_coded_example", "Self") {
        let tail = "regex.to_automaton()";
        let p = body.rfind(tail).unwrap_or_else(|| panic!("{name}: body does not end with `{tail}`"));
        assert!(body[p + tail.len()..].trim() == "}", "{name}: unexpected text after `{tail}`");
        let body = format!("{}regex\n}}", &body[..p]);
        out.push_str(&format!("#[allow(clippy::all, unused)]\npub fn {name}<{bound}>() -> Regex {body}\n\n"));
        entries.push((name, None));
    }
    assert!(!entries.is_empty(), "no library regex found in {}", specs_rs.display());
    out.push_str("pub fn lib_entries() -> Vec<LibEntry> {\n    vec![\n");
    for (name, shipped) in &entries {
        let sh = match shipped {
            Some(v) => format!("Some((\"{v}\", midnight_circuits::parsing::StdLibParser::{v}))"),
            None => "None".to_string(),
        };
        out.push_str(&format!(
            "        LibEntry {{ name: \"{name}\", real: {name}::<midnight_circuits::parsing::regex::Regex>, rec: {name}::<crate::rx::R>, shipped: {sh} }},\n"
        ));
    }
    out.push_str("    ]\n}\n");
    let dest = PathBuf::from(env::var("OUT_DIR").unwrap()).join("libspecs.rs");
    fs::write(dest, out).unwrap();
}
