//! ax — engine A (regex -> automaton dumps, replay) and the in-circuit extractor of C19 (engine C).
//!
//!   ax compile <in.json> [per-item timeout s]   {"items":[{"id":..,"r":R},..]} -> one JSON line per item
//!   ax run <in.json>                            {"r":R | "lib":name | "shipped":name, "words":[[b,..],..]} -> real runs
//!   ax lib [name] [timeout s]                   the library's own regexes: R tree, fresh automaton, shipped automaton
//!   ax circuit <family> op=.. k=.. in=.. p.x=.. [replay=file]   engine-C extraction (same JSON shape as cx)

#[macro_use]
mod rx;
mod circ;
#[path = "../../extract/src/dump.rs"]
mod dump;

use std::{
    panic,
    sync::mpsc,
    time::{Duration, Instant},
};

use midnight_circuits::parsing::regex::Regex;
use serde_json::{json, Value as J};

fn panic_msg(e: Box<dyn std::any::Any + Send>) -> String {
    if let Some(s) = e.downcast_ref::<String>() {
        s.clone()
    } else if let Some(s) = e.downcast_ref::<&str>() {
        s.to_string()
    } else {
        "panic (non-string payload)".to_string()
    }
}

/// Runs `f` on a fresh thread; Err(None) on timeout, Err(Some(msg)) on panic.
fn guarded<T: Send + 'static>(timeout: Duration, f: impl FnOnce() -> T + Send + 'static) -> Result<T, Option<String>> {
    let (tx, rx) = mpsc::channel();
    std::thread::Builder::new()
        .stack_size(256 << 20)
        .spawn(move || {
            let r = panic::catch_unwind(panic::AssertUnwindSafe(f)).map_err(panic_msg);
            let _ = tx.send(r);
        })
        .unwrap();
    match rx.recv_timeout(timeout) {
        Ok(Ok(v)) => Ok(v),
        Ok(Err(m)) => Err(Some(m)),
        Err(_) => Err(None),
    }
}

fn compile_json(r: J, timeout: Duration) -> J {
    let t0 = Instant::now();
    let res = guarded(timeout, move || {
        let regex: Regex = rx::build(&r);
        let a = regex.to_automaton();
        dump_automaton!(a)
    });
    let ms = t0.elapsed().as_millis() as u64;
    match res {
        Ok(a) => json!({"ok": true, "automaton": a, "ms": ms}),
        Err(Some(m)) => json!({"ok": false, "panic": m.chars().take(1200).collect::<String>(), "ms": ms}),
        Err(None) => json!({"ok": false, "timeout": true, "ms": ms}),
    }
}

fn main() {
    panic::set_hook(Box::new(|_| {}));
    let args: Vec<String> = std::env::args().collect();
    let cmd = args.get(1).map(|s| s.as_str()).unwrap_or("");
    match cmd {
        "compile" => {
            let inp: J = serde_json::from_str(&std::fs::read_to_string(&args[2]).unwrap()).unwrap();
            let timeout = Duration::from_secs_f64(args.get(3).map(|s| s.parse().unwrap()).unwrap_or(20.0));
            for it in inp["items"].as_array().unwrap() {
                let mut o = compile_json(it["r"].clone(), timeout);
                o["id"] = it["id"].clone();
                println!("{}", o);
            }
        }
        "run" => {
            let inp: J = serde_json::from_str(&std::fs::read_to_string(&args[2]).unwrap()).unwrap();
            let words: Vec<Vec<u8>> = inp["words"]
                .as_array()
                .unwrap()
                .iter()
                .map(|w| w.as_array().unwrap().iter().map(|b| b.as_u64().unwrap() as u8).collect())
                .collect();
            let inp2 = inp.clone();
            let res = guarded(Duration::from_secs(600), move || {
                let runs = |a: &dyn Fn(&[u8]) -> (bool, Vec<usize>, Option<usize>)| -> Vec<J> {
                    words
                        .iter()
                        .map(|w| {
                            let (acc, out, stuck) = a(w);
                            json!({"word": w, "accepted": acc, "markers": out, "stuck_at": stuck})
                        })
                        .collect()
                };
                if let Some(name) = inp2.get("shipped").and_then(|x| x.as_str()) {
                    let lib = midnight_circuits::parsing::spec_library();
                    let e = rx::lib::lib_entries().into_iter().find(|e| e.shipped.map(|s| s.0) == Some(name)).expect("shipped name");
                    let a = &lib[&e.shipped.unwrap().1];
                    runs(&|w| run_automaton!(a, w))
                } else {
                    let regex: Regex = if let Some(name) = inp2.get("lib").and_then(|x| x.as_str()) {
                        let e = rx::lib::lib_entries().into_iter().find(|e| e.name == name).expect("lib name");
                        (e.real)()
                    } else {
                        rx::build(&inp2["r"])
                    };
                    let a = regex.to_automaton();
                    runs(&|w| run_automaton!(a, w))
                }
            });
            match res {
                Ok(r) => println!("{}", json!({"ok": true, "runs": r})),
                Err(Some(m)) => println!("{}", json!({"ok": false, "panic": m.chars().take(1200).collect::<String>()})),
                Err(None) => println!("{}", json!({"ok": false, "timeout": true})),
            }
        }
        "lib" => {
            let filter = args.get(2).cloned().unwrap_or_default();
            let timeout = Duration::from_secs_f64(args.get(3).map(|s| s.parse().unwrap()).unwrap_or(120.0));
            let shipped_lib = midnight_circuits::parsing::spec_library();
            for e in rx::lib::lib_entries() {
                if !filter.is_empty() && filter != "all" && e.name != filter {
                    continue;
                }
                let r = (e.rec)().0;
                let mut o = json!({"name": e.name, "r": r});
                let real = e.real;
                let t0 = Instant::now();
                match guarded(timeout, move || {
                    let a = real().to_automaton();
                    dump_automaton!(a)
                }) {
                    Ok(a) => o["fresh"] = a,
                    Err(Some(m)) => o["fresh_panic"] = json!(m),
                    Err(None) => o["fresh_timeout"] = json!(true),
                }
                o["fresh_ms"] = json!(t0.elapsed().as_millis() as u64);
                // the same specification rebuilt from its recorded R tree through `build`
                let via = compile_json(o["r"].clone(), timeout);
                o["via_r"] = via;
                if let Some((vname, v)) = e.shipped {
                    let a = &shipped_lib[&v];
                    o["shipped_name"] = json!(vname);
                    o["shipped"] = dump_automaton!(a);
                    // raw bytes of the shipped file as the crate embeds them are not reachable; the
                    // Python side parses the file of the checked tree itself (serialization format).
                }
                println!("{}", o);
            }
        }
        "circuit" => circ::main(&args[2..]),
        // same calling convention as cx (`<family> op=.. k=.. in=.. p.x=..`), so that engine C's argument
        // builder can be reused as is
        "automaton" | "base64" => circ::main(&args[1..]),
        _ => {
            eprintln!("usage: ax compile|run|lib|circuit ...");
            std::process::exit(2);
        }
    }
    std::process::exit(0);
}
