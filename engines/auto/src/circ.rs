//! Engine-C harness circuits of C19: `AutomatonChip::parse` and the Base64 chip.
//!
//!   ax circuit automaton op=parse k=.. in=b0:b1:.. p.auto=<lib name> | p.r=<R json>   [replay=file]
//!   ax circuit automaton op=parse k=.. in=.. p.lib=<json array of R> p.call=i[:j..] [p.split=n0:n1..]
//!        MULTI-AUTOMATON chip: library index j = the real `to_automaton()` of the j-th R; `parse` is called
//!        once per entry of `call` (in that order, one region each), on consecutive slices of `in`
//!        (`split` = slice lengths; default: everything to the single call). Instance = all input bytes,
//!        then the markers of call 0, of call 1, ..
//!   ax circuit base64 op=decode_base64|decode_base64url k=.. in=.. p.padded=0|1         [replay=file]
//!   ax circuit base64 op=var_decode_base64|var_decode_base64url k=.. in=<payload bytes, 0/4/8 of them>
//!
//! Same conventions as engines/extract (native.rs): inputs come in through the real `assign` of bytes
//! (range-checked) and are exposed with `constrain_as_public_input`, outputs are exposed likewise, so the
//! plain instance column carries (inputs, outputs) in call order. Output JSON shape = dump.rs + io +
//! honest_verify + extra; `replay=` overwrites cells of the real MockProver (hook H2) and prints the
//! verdict of the real `MockProver::verify()`.

use std::{cell::RefCell, collections::BTreeMap, rc::Rc};

use ff::{Field, PrimeField};
use midnight_circuits::{
    field::{
        decomposition::{
            chip::{P2RDecompositionChip, P2RDecompositionConfig},
            pow2range::Pow2RangeChip,
        },
        native::{NB_ARITH_COLS, NB_ARITH_FIXED_COLS},
        NativeChip, NativeGadget,
    },
    instructions::*,
    parsing::{
        automaton_chip::{AutomatonChip, AutomatonConfig, NB_AUTOMATA_COLS},
        regex::Regex,
        Base64Chip, Base64Config, NB_BASE64_ADVICE_COLS,
    },
    types::{AssignedByte, AssignedNative, ComposableChip},
};
use midnight_curves::Fq as F;
use midnight_proofs::{
    circuit::{Layouter, SimpleFloorPlanner, Value},
    dev::MockProver,
    plonk::{Circuit, ConstraintSystem, Error},
};
use num_bigint::BigUint;
use rustc_hash::FxHashMap;
use serde_json::{json, Value as J};

use crate::{dump, dump_automaton, rx};

type NG = NativeGadget<F, P2RDecompositionChip<F>, NativeChip<F>>;

fn f_of(b: &BigUint) -> F {
    let m = BigUint::from_bytes_le(&(-F::ONE).to_repr().as_ref().to_vec()) + 1u8;
    let b = b % &m;
    let mut bytes = b.to_bytes_le();
    bytes.resize(32, 0);
    let mut repr = <F as PrimeField>::Repr::default();
    repr.as_mut().copy_from_slice(&bytes);
    F::from_repr(repr).unwrap()
}

fn parse_big(s: &str) -> BigUint {
    if let Some(h) = s.strip_prefix("0x") {
        BigUint::parse_bytes(h.as_bytes(), 16).expect("hex")
    } else {
        BigUint::parse_bytes(s.as_bytes(), 10).expect("dec")
    }
}

#[derive(Clone, Debug, Default)]
struct Spec {
    family: String,
    op: String,
    params: BTreeMap<String, String>,
    ins: Vec<u8>,
}

#[derive(Clone, Default)]
struct IoLog(Rc<RefCell<Vec<(bool, F)>>>);

impl IoLog {
    fn in_byte(&self, chip: &NG, l: &mut impl Layouter<F>, b: u8) -> Result<AssignedByte<F>, Error> {
        self.0.borrow_mut().push((true, F::from(b as u64)));
        let x: AssignedByte<F> = chip.assign(l, Value::known(b))?;
        chip.constrain_as_public_input(l, &x)?;
        Ok(x)
    }
    fn out_native(&self, chip: &NG, l: &mut impl Layouter<F>, x: &AssignedNative<F>) -> Result<(), Error> {
        x.value().map(|v| self.0.borrow_mut().push((false, *v)));
        chip.constrain_as_public_input(l, x)
    }
    fn out_byte(&self, chip: &NG, l: &mut impl Layouter<F>, x: &AssignedByte<F>) -> Result<(), Error> {
        let n: AssignedNative<F> = x.clone().into();
        n.value().map(|v| self.0.borrow_mut().push((false, *v)));
        chip.constrain_as_public_input(l, x)
    }
}

fn the_regex(spec: &Spec) -> Regex {
    if let Some(name) = spec.params.get("auto") {
        let e = rx::lib::lib_entries().into_iter().find(|e| e.name == name).unwrap_or_else(|| panic!("unknown library regex {name}"));
        (e.real)()
    } else {
        let r: J = serde_json::from_str(spec.params.get("r").expect("p.auto or p.r")).expect("R json");
        rx::build(&r)
    }
}

/// Multi-automaton shapes: the library (`p.lib`, JSON array of R trees), or None.
fn the_library(spec: &Spec) -> Option<Vec<J>> {
    spec.params.get("lib").map(|l| {
        let v: J = serde_json::from_str(l).expect("lib json");
        v.as_array().expect("lib must be an array of R").clone()
    })
}

fn usize_list(spec: &Spec, key: &str) -> Option<Vec<usize>> {
    spec.params.get(key).map(|v| v.split(':').filter(|x| !x.is_empty()).map(|x| parse_big(x).to_u32_digits().first().copied().unwrap_or(0) as usize).collect())
}

/// (library index, input slice) of every `parse` call of a multi-automaton shape, in call order.
fn the_calls(spec: &Spec) -> Vec<(usize, std::ops::Range<usize>)> {
    let calls = usize_list(spec, "call").expect("p.call");
    let split = usize_list(spec, "split").unwrap_or_else(|| vec![spec.ins.len()]);
    assert!(calls.len() == split.len() && split.iter().sum::<usize>() == spec.ins.len(), "call / split / in do not fit");
    let mut at = 0;
    calls
        .into_iter()
        .zip(split)
        .map(|(c, n)| {
            at += n;
            (c, at - n..at)
        })
        .collect()
}

#[derive(Clone)]
struct C19Circuit {
    spec: Spec,
    io: IoLog,
}

#[derive(Clone, Debug)]
struct C19Config {
    p2r: P2RDecompositionConfig,
    automaton: Option<AutomatonConfig<usize, F>>,
    base64: Option<Base64Config>,
}

impl Circuit<F> for C19Circuit {
    type Config = C19Config;
    type FloorPlanner = SimpleFloorPlanner;
    type Params = Spec;

    fn without_witnesses(&self) -> Self {
        unreachable!()
    }
    fn params(&self) -> Spec {
        self.spec.clone()
    }
    fn configure(_meta: &mut ConstraintSystem<F>) -> Self::Config {
        unreachable!()
    }
    fn configure_with_params(meta: &mut ConstraintSystem<F>, spec: Spec) -> Self::Config {
        let advice_columns: [_; NB_ARITH_COLS] = core::array::from_fn(|_| meta.advice_column());
        let fixed_columns: [_; NB_ARITH_FIXED_COLS] = core::array::from_fn(|_| meta.fixed_column());
        let ci = meta.instance_column();
        let i = meta.instance_column();
        let native_config = NativeChip::configure(meta, &(advice_columns, fixed_columns, [ci, i]));
        let pow2range_config = Pow2RangeChip::configure(meta, &advice_columns[1..=4]);
        let p2r = P2RDecompositionConfig::new(&native_config, &pow2range_config);
        let mut automaton = None;
        let mut base64 = None;
        match spec.family.as_str() {
            "automaton" => {
                // the REAL compilation of the regex; index 0 in the chip's library
                let automata = match the_library(&spec) {
                    // several automata in ONE chip (one shared lookup table): index j = j-th regex of the library
                    Some(lib) => FxHashMap::from_iter(lib.iter().enumerate().map(|(j, r)| (j, rx::build(r).to_automaton()))),
                    None => FxHashMap::from_iter([(0usize, the_regex(&spec).to_automaton())]),
                };
                let cols: [_; NB_AUTOMATA_COLS] = advice_columns[..NB_AUTOMATA_COLS].try_into().unwrap();
                automaton = Some(AutomatonChip::<usize, F>::configure(meta, &(cols, automata)));
            }
            "base64" => {
                let cols: [_; NB_BASE64_ADVICE_COLS] = advice_columns[..NB_BASE64_ADVICE_COLS].try_into().unwrap();
                base64 = Some(Base64Chip::<F>::configure(meta, &cols));
            }
            f => panic!("unknown family {f}"),
        }
        C19Config { p2r, automaton, base64 }
    }

    fn synthesize(&self, config: Self::Config, mut layouter: impl Layouter<F>) -> Result<(), Error> {
        let native_chip = NativeChip::new(config.p2r.native_config(), &());
        let core = P2RDecompositionChip::new(&config.p2r, &8usize);
        let ng: NG = NativeGadget::new(core.clone(), native_chip.clone());
        self.io.0.borrow_mut().clear();
        let l = &mut layouter;
        let s = &self.spec;
        match s.family.as_str() {
            "automaton" => {
                let chip = AutomatonChip::<usize, F>::new(config.automaton.as_ref().unwrap(), &ng);
                let input = s.ins.iter().map(|b| self.io.in_byte(&ng, l, *b)).collect::<Result<Vec<_>, _>>()?;
                if the_library(s).is_some() {
                    for (idx, range) in the_calls(s) {
                        let markers = chip.parse(l, &idx, &input[range])?;
                        for m in markers.iter() {
                            self.io.out_native(&ng, l, m)?;
                        }
                    }
                } else {
                    let markers = chip.parse(l, &0usize, &input)?;
                    for m in markers.iter() {
                        self.io.out_native(&ng, l, m)?;
                    }
                }
                chip.load(l)?;
            }
            "base64" => {
                let chip = Base64Chip::<F>::new(config.base64.as_ref().unwrap(), &ng);
                match s.op.as_str() {
                    "decode_base64" | "decode_base64url" => {
                        let padded = s.params.get("padded").map(|x| x == "1").unwrap_or(true);
                        let input = s.ins.iter().map(|b| self.io.in_byte(&ng, l, *b)).collect::<Result<Vec<_>, _>>()?;
                        let out = if s.op == "decode_base64" { chip.decode_base64(l, &input, padded)? } else { chip.decode_base64url(l, &input, padded)? };
                        for b in out.iter() {
                            self.io.out_byte(&ng, l, b)?;
                        }
                    }
                    "var_decode_base64" | "var_decode_base64url" => {
                        synth_var(s.op == "var_decode_base64url", &s.ins, &chip, &ng, &self.io, l)?;
                    }
                    o => panic!("unknown base64 op {o}"),
                }
                chip.load(l)?;
            }
            _ => unreachable!(),
        }
        native_chip.load(l)?;
        core.load(l)
    }
}

/// Variable-length decoding, M = 8, A = 4 (output M = 6, A = 3). The input vector is created by the real
/// `assign_var_base64`; its buffer bytes and its length cell (hook H7 accessors) are exposed as inputs,
/// the output vector's buffer and length as outputs: instance = (buf[0..8], len, out[0..6], out_len).
fn synth_var(url: bool, payload: &[u8], chip: &Base64Chip<F>, ng: &NG, io: &IoLog, l: &mut impl Layouter<F>) -> Result<(), Error> {
    use midnight_circuits::{
        instructions::base64::{Base64VarInstructions, Base64Vec},
        types::AssignedVector,
    };
    let v: Base64Vec<F, 8, 4> = chip.assign_var_base64(l, Value::known(payload.to_vec()))?;
    let av: AssignedVector<F, AssignedByte<F>, 8, 4> = v.clone().into();
    for b in av.verif_buffer().iter() {
        let n: AssignedNative<F> = b.clone().into();
        n.value().map(|x| io.0.borrow_mut().push((true, *x)));
        ng.constrain_as_public_input(l, b)?;
    }
    av.verif_len().value().map(|x| io.0.borrow_mut().push((true, *x)));
    ng.constrain_as_public_input(l, av.verif_len())?;
    let out: AssignedVector<F, AssignedByte<F>, 6, 3> = if url {
        <Base64Chip<F> as Base64VarInstructions<F, 8, 4>>::var_decode_base64url::<6, 3>(chip, l, &v)?
    } else {
        <Base64Chip<F> as Base64VarInstructions<F, 8, 4>>::var_decode_base64::<6, 3>(chip, l, &v)?
    };
    for b in out.verif_buffer().iter() {
        io.out_byte(ng, l, b)?;
    }
    io.out_native(ng, l, out.verif_len())
}

pub fn main(args: &[String]) {
    let mut spec = Spec { family: args.first().expect("family").clone(), ..Default::default() };
    let mut k = 10u32;
    let mut replay = None;
    for a in &args[1..] {
        let (key, val) = a.split_once('=').unwrap_or_else(|| panic!("bad arg {a}"));
        match key {
            "op" => spec.op = val.to_string(),
            "k" => k = val.parse().unwrap(),
            "in" => {
                spec.ins = val.split(':').filter(|x| !x.is_empty()).map(|x| parse_big(x).to_u32_digits().first().copied().unwrap_or(0) as u8).collect()
            }
            "replay" => replay = Some(val.to_string()),
            _ if key.starts_with("p.") => {
                spec.params.insert(key[2..].to_string(), val.to_string());
            }
            _ => panic!("unknown arg {a}"),
        }
    }
    let io = IoLog::default();
    let circuit = C19Circuit { spec: spec.clone(), io: io.clone() };
    let _ = MockProver::<F>::run(k, &circuit, vec![vec![], vec![]]).expect("synthesis (pass 1)");
    let rec: Vec<(bool, F)> = io.0.borrow().clone();
    let pi: Vec<F> = rec.iter().map(|x| x.1).collect();
    let prover = MockProver::<F>::run(k, &circuit, vec![vec![], pi]).expect("synthesis (pass 2)");
    let mut extra = json!({"family": spec.family, "op": spec.op, "params": spec.params});
    if spec.family == "automaton" {
        if let Some(lib) = the_library(&spec) {
            // every automaton of the library compiled ALONE (no offsets): the specification side
            let dumps: Vec<J> = lib.iter().map(|r| dump_automaton!(rx::build(r).to_automaton())).collect();
            let calls = the_calls(&spec);
            extra["automaton"] = dumps[calls[0].0].clone();
            extra["automata"] = J::Array(dumps);
            extra["calls"] = J::Array(calls.iter().map(|(c, r)| json!({"index": c, "from": r.start, "to": r.end})).collect());
        } else {
            let a = the_regex(&spec).to_automaton();
            extra["automaton"] = dump_automaton!(a);
        }
    }
    finish(prover, rec, replay, extra);
}

fn finish(prover: MockProver<F>, io: Vec<(bool, F)>, replay: Option<String>, extra: J) {
    #[allow(unused_mut)]
    let mut prover = prover;
    if let Some(path) = replay {
        let ov: BTreeMap<String, String> = serde_json::from_str(&std::fs::read_to_string(&path).unwrap()).unwrap();
        let mut applied = 0;
        for (cell, val) in ov.iter() {
            let v = f_of(&parse_big(val));
            let (kind, rest) = cell.split_at(1);
            let (c, r) = rest.split_once('_').unwrap();
            let (c, r): (usize, usize) = (c.parse().unwrap(), r.parse().unwrap());
            match kind {
                "a" => {
                    prover.advice_mut()[c][r] = midnight_proofs::dev::CellValue::Assigned(v);
                    applied += 1;
                }
                "i" => {
                    prover.instance_mut()[c][r] = midnight_proofs::dev::InstanceValue::Assigned(v);
                    applied += 1;
                }
                _ => panic!("cannot override cell {cell}"),
            }
        }
        let res = prover.verify();
        let ok = res.is_ok();
        let fails: Vec<String> = res.err().map(|v| v.iter().take(4).map(|f| format!("{:?}", f).chars().take(300).collect()).collect()).unwrap_or_default();
        println!("{}", json!({"replay": true, "applied": applied, "accepted": ok, "failures": fails}));
        return;
    }
    let verify_ok = prover.verify().is_ok();
    let d = dump::Dumper::new(&prover);
    let mut out = d.dump();
    let iorows: Vec<J> = io
        .iter()
        .enumerate()
        .map(|(r, (is_in, v))| json!({"row": r, "dir": if *is_in { "in" } else { "out" }, "value": dump::hex(v)}))
        .collect();
    out["io"] = J::Array(iorows);
    out["honest_verify"] = J::Bool(verify_ok);
    out["extra"] = extra;
    println!("{}", out);
}
