pub fn main(_args: &[String]) {
    unimplemented!()
}
