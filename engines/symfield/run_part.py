#!/usr/bin/env python3-vt
"""Stand-alone runner of one part module (development aid; the registered entry point is /verif/check).
usage: run_part.py C02 [--only SUBSTR] [--tier quick|thorough] [--replay PATH] [--part S2]"""
import sys, os, argparse, importlib.util, json
sys.path.insert(0, "/verif/engines/pysmt")
from vf import core


def load(pid, part="S"):
    path = os.path.join(core.VERIF, "specs", "parts", f"{pid}_{part}.py")
    spec = importlib.util.spec_from_file_location(f"part_{pid}_S", path)
    mod = importlib.util.module_from_spec(spec)
    spec.loader.exec_module(mod)
    return mod


ap = argparse.ArgumentParser()
ap.add_argument("pid")
ap.add_argument("--only", default=None)
ap.add_argument("--tier", default=None)
ap.add_argument("--replay", default=None)
ap.add_argument("--part", default="S")
a = ap.parse_args()
if a.tier:
    os.environ["VERIF_TIER"] = a.tier
mod = load(a.pid, a.part)
if a.replay:
    r = json.load(open(a.replay))
    sys.exit(0 if mod.replay(r) else 1)
# development runs must not overwrite the registered evidence
core.EVID = os.path.join(core.BUILD, "symfield-dev-evidence")
core.REPLAYS = os.path.join(core.EVID, "replays")
run = core.Run(a.pid)
run.only = a.only
mod.check(run)
rc = run.finish()
print("exit", rc)
sys.exit(rc)
