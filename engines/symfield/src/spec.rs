//! SPECIFICATION of what a PLONK(halo2-style) verifier must check, written from the halo2 book /
//! PLONK definitions against the *data* of a constraint system (`vk.cs()` accessors, `Expression`
//! trees) — not against verifier.rs. It produces, from the symbols the proof stream supplied and
//! the challenges:
//!   * the list of identities id_i (each tagged with its constraint class) that must vanish,
//!   * the set of opening queries (commitment, point, claimed evaluation) that must be checked,
//!   * the expected proof layout (which stream symbol plays which role).
//! Lagrange basis values are written from their definition
//!     l_i(x) = (omega^i / n) * (x^n - 1) / (x - omega^i)
//! with omega derived from the field constants (ROOT_OF_UNITY^(2^(S-k))), not from EvaluationDomain.
use ff::{Field, PrimeField};
use midnight_proofs::plonk::{Any, ConstraintSystem, Expression};
use midnight_proofs::poly::Rotation;
use serde_json::{json, Value};

use crate::symf::*;

#[derive(Clone, Debug)]
pub enum SItem {
    F(SymF),
    C(u32),
}

pub struct Stream {
    pub items: Vec<SItem>,
    pub pos: usize,
    pub roles: Vec<Value>,
}
impl Stream {
    fn f(&mut self, role: String) -> SymF {
        let it = self.items.get(self.pos).unwrap_or_else(|| panic!("spec: proof stream too short at {} ({role})", self.pos)).clone();
        self.roles.push(json!({"pos": self.pos, "role": role, "type": "f"}));
        self.pos += 1;
        match it {
            SItem::F(x) => x,
            SItem::C(_) => panic!("spec: stream item {} should be a field element ({role})", self.pos - 1),
        }
    }
    fn c(&mut self, role: String) -> u32 {
        let it = self.items.get(self.pos).unwrap_or_else(|| panic!("spec: proof stream too short at {} ({role})", self.pos)).clone();
        self.roles.push(json!({"pos": self.pos, "role": role, "type": "c"}));
        self.pos += 1;
        match it {
            SItem::C(h) => h,
            SItem::F(_) => panic!("spec: stream item {} should be a commitment ({role})", self.pos - 1),
        }
    }
}

pub struct SpecIn<'a> {
    pub cs: &'a ConstraintSystem<SymF>,
    pub k: u32,
    pub num_proofs: usize,
    pub nb_committed: usize,
    /// committed instance commitments per proof
    pub cinst: Vec<Vec<u32>>,
    /// plain instance vectors per proof (columns nb_committed..)
    pub inst: Vec<Vec<Vec<SymF>>>,
    pub fixed_coms: Vec<u32>,
    pub perm_coms: Vec<u32>,
    /// challenges in protocol order: phase challenges (by index), theta, beta, gamma, trash, y, x
    pub challenges: Vec<SymF>,
    pub stream: Vec<SItem>,
}

pub struct SpecOut {
    pub ids: Vec<(String, SymF)>,
    pub queries: Vec<Value>,
    pub roles: Vec<Value>,
    pub consumed: usize,
    pub info: Value,
}

fn omega_of(k: u32) -> SymF {
    SymF::ROOT_OF_UNITY.pow_vartime([1u64 << (SymF::S - k)])
}

struct Ctx<'a> {
    cs: &'a ConstraintSystem<SymF>,
    n: u64,
    omega: SymF,
    omega_inv: SymF,
    x: SymF,
    xn_minus_1: SymF,
    n_inv: SymF,
}
impl Ctx<'_> {
    fn omega_pow(&self, i: i64) -> SymF {
        if i >= 0 {
            self.omega.pow_vartime([i as u64])
        } else {
            self.omega_inv.pow_vartime([(-i) as u64])
        }
    }
    /// l_i(x), i taken modulo n
    fn l(&self, i: i64) -> SymF {
        let i = i.rem_euclid(self.n as i64);
        let w = self.omega_pow(i);
        (w * self.n_inv) * self.xn_minus_1 * (self.x - w).invert().unwrap()
    }
    fn rot(&self, r: i32) -> SymF {
        self.x * self.omega_pow(r as i64)
    }
}

fn pos<T: PartialEq>(v: &[T], t: &T, what: &str) -> usize {
    v.iter().position(|q| q == t).unwrap_or_else(|| panic!("spec: query not registered: {what}"))
}

struct Evals<'a> {
    cs: &'a ConstraintSystem<SymF>,
    adv: &'a [SymF],
    fix: &'a [SymF],
    inst: &'a [SymF],
    chal: &'a [SymF],
}
impl Evals<'_> {
    fn expr(&self, e: &Expression<SymF>) -> SymF {
        match e {
            Expression::Constant(c) => *c,
            Expression::Selector(_) => panic!("spec: selector left in a verifying key expression"),
            Expression::Fixed(q) => {
                let col = self.cs.fixed_queries().iter().position(|(c, r)| c.index() == q.column_index() && *r == q.rotation());
                self.fix[col.expect("spec: fixed query not registered")]
            }
            Expression::Advice(q) => {
                let col = self.cs.advice_queries().iter().position(|(c, r)| c.index() == q.column_index() && *r == q.rotation());
                self.adv[col.expect("spec: advice query not registered")]
            }
            Expression::Instance(q) => {
                let col = self.cs.instance_queries().iter().position(|(c, r)| c.index() == q.column_index() && *r == q.rotation());
                self.inst[col.expect("spec: instance query not registered")]
            }
            Expression::Challenge(c) => self.chal[c.index()],
            Expression::Negated(a) => -self.expr(a),
            Expression::Sum(a, b) => self.expr(a) + self.expr(b),
            Expression::Product(a, b) => self.expr(a) * self.expr(b),
            Expression::Scaled(a, s) => self.expr(a) * *s,
        }
    }
    /// theta^(m-1) e_0 + ... + theta e_(m-2) + e_(m-1)
    fn compress(&self, es: &[Expression<SymF>], theta: SymF) -> SymF {
        let m = es.len();
        let mut acc = SymF::ZERO;
        for (i, e) in es.iter().enumerate() {
            acc = acc + theta.pow_vartime([(m - 1 - i) as u64]) * self.expr(e);
        }
        acc
    }
    fn column_cur(&self, col: &midnight_proofs::plonk::Column<Any>) -> SymF {
        match col.column_type() {
            Any::Advice(_) => {
                let p = self.cs.advice_queries().iter().position(|(c, r)| c.index() == col.index() && *r == Rotation::cur());
                self.adv[p.expect("spec: permutation advice column has no cur query")]
            }
            Any::Fixed => {
                let p = self.cs.fixed_queries().iter().position(|(c, r)| c.index() == col.index() && *r == Rotation::cur());
                self.fix[p.expect("spec: permutation fixed column has no cur query")]
            }
            Any::Instance => {
                let p = self.cs.instance_queries().iter().position(|(c, r)| c.index() == col.index() && *r == Rotation::cur());
                self.inst[p.expect("spec: permutation instance column has no cur query")]
            }
        }
    }
}

pub fn spec_blinding_factors(cs: &ConstraintSystem<SymF>) -> usize {
    // every advice polynomial is opened at its number of distinct query points; permutation /
    // lookup polynomials at most 3; +1 per trash argument; +1 for the multiopen evaluation;
    // +1 safety margin (halo2 book, "blinding factors")
    let mut per_col = std::collections::HashMap::<usize, usize>::new();
    for (c, _) in cs.advice_queries() {
        *per_col.entry(c.index()).or_insert(0) += 1;
    }
    let m = per_col.values().copied().max().unwrap_or(1).max(3);
    m + cs.trashcans().len() + 2
}

pub fn build(inp: &SpecIn) -> SpecOut {
    let cs = inp.cs;
    let n = 1u64 << inp.k;
    let omega = omega_of(inp.k);
    let omega_inv = omega.invert().unwrap();
    let nchal = cs.num_challenges();
    let ch = &inp.challenges;
    assert_eq!(ch.len(), nchal + 6, "spec: expected phase challenges + theta,beta,gamma,trash,y,x");
    let (theta, beta, gamma, trash_ch, _y, x) = (ch[nchal], ch[nchal + 1], ch[nchal + 2], ch[nchal + 3], ch[nchal + 4], ch[nchal + 5]);
    let phase_ch = &ch[..nchal];
    let xn = x.pow_vartime([n]);
    let ctx = Ctx { cs, n, omega, omega_inv, x, xn_minus_1: xn - SymF::ONE, n_inv: SymF::from(n).invert().unwrap() };

    let np = inp.num_proofs;
    let nbc = inp.nb_committed;
    let degree = cs.degree();
    let chunk_len = degree - 2;
    let perm_cols = cs.permutation().get_columns();
    let n_sets = if perm_cols.is_empty() { 0 } else { perm_cols.len().div_ceil(chunk_len) };
    let n_lookups = cs.lookups().len();
    let n_trash = cs.trashcans().len();
    let bf = spec_blinding_factors(cs);
    let last_rot: i32 = -((bf + 1) as i32);

    let mut st = Stream { items: inp.stream.clone(), pos: 0, roles: vec![] };
    // ---- layout: commitments
    let nadv = cs.num_advice_columns();
    let phases: Vec<u8> = cs.advice_column_phase();
    let max_phase = phases.iter().copied().max().unwrap_or(0);
    let mut advcom = vec![vec![0u32; nadv]; np];
    for ph in 0..=max_phase {
        for i in 0..np {
            for c in 0..nadv {
                if phases[c] == ph {
                    advcom[i][c] = st.c(format!("advice_commitment[proof {i}][col {c}]"));
                }
            }
        }
    }
    let mut lk_perm = vec![vec![(0u32, 0u32); n_lookups]; np];
    for i in 0..np {
        for l in 0..n_lookups {
            let a = st.c(format!("lookup_permuted_input[proof {i}][{l}]"));
            let s = st.c(format!("lookup_permuted_table[proof {i}][{l}]"));
            lk_perm[i][l] = (a, s);
        }
    }
    let mut zcom = vec![vec![0u32; n_sets]; np];
    for i in 0..np {
        for j in 0..n_sets {
            zcom[i][j] = st.c(format!("permutation_product[proof {i}][set {j}]"));
        }
    }
    let mut lk_z = vec![vec![0u32; n_lookups]; np];
    for i in 0..np {
        for l in 0..n_lookups {
            lk_z[i][l] = st.c(format!("lookup_product[proof {i}][{l}]"));
        }
    }
    let mut trcom = vec![vec![0u32; n_trash]; np];
    for i in 0..np {
        for t in 0..n_trash {
            trcom[i][t] = st.c(format!("trash[proof {i}][{t}]"));
        }
    }
    let rcom = st.c("vanishing_random_poly".into());
    let n_h = degree - 1;
    let hcoms: Vec<u32> = (0..n_h).map(|j| st.c(format!("h_piece[{j}]"))).collect();
    // ---- layout: evaluations
    let iq = cs.instance_queries();
    let aq = cs.advice_queries();
    let fq = cs.fixed_queries();
    let mut inst_evals = vec![vec![SymF::ZERO; iq.len()]; np];
    for i in 0..np {
        for (qi, (col, rot)) in iq.iter().enumerate() {
            if col.index() < nbc {
                inst_evals[i][qi] = st.f(format!("committed_instance_eval[proof {i}][col {} rot {}]", col.index(), rot.0));
            } else {
                // I_c(omega^r x) = sum_j inst_j * l_(j-r)(x)
                let v = &inp.inst[i][col.index() - nbc];
                let mut acc = SymF::ZERO;
                for (j, val) in v.iter().enumerate() {
                    acc = acc + *val * ctx.l(j as i64 - rot.0 as i64);
                }
                inst_evals[i][qi] = acc;
            }
        }
    }
    let mut adv_evals = vec![vec![SymF::ZERO; aq.len()]; np];
    for i in 0..np {
        for (qi, (col, rot)) in aq.iter().enumerate() {
            adv_evals[i][qi] = st.f(format!("advice_eval[proof {i}][col {} rot {}]", col.index(), rot.0));
        }
    }
    let fix_evals: Vec<SymF> = fq.iter().map(|(col, rot)| st.f(format!("fixed_eval[col {} rot {}]", col.index(), rot.0))).collect();
    let random_eval = st.f("vanishing_random_eval".into());
    let sigma: Vec<SymF> = (0..perm_cols.len()).map(|c| st.f(format!("permutation_sigma_eval[{c}]"))).collect();
    let mut z = vec![vec![(SymF::ZERO, SymF::ZERO, None::<SymF>); n_sets]; np];
    for i in 0..np {
        for j in 0..n_sets {
            let a = st.f(format!("z_eval[proof {i}][set {j}](x)"));
            let b = st.f(format!("z_eval[proof {i}][set {j}](omega x)"));
            let c = if j + 1 < n_sets { Some(st.f(format!("z_eval[proof {i}][set {j}](omega^last x)"))) } else { None };
            z[i][j] = (a, b, c);
        }
    }
    let mut lk = vec![vec![[SymF::ZERO; 5]; n_lookups]; np];
    for i in 0..np {
        for l in 0..n_lookups {
            let zx = st.f(format!("lookup_Z[proof {i}][{l}](x)"));
            let zwx = st.f(format!("lookup_Z[proof {i}][{l}](omega x)"));
            let ax = st.f(format!("lookup_A'[proof {i}][{l}](x)"));
            let ainv = st.f(format!("lookup_A'[proof {i}][{l}](omega^-1 x)"));
            let sx = st.f(format!("lookup_S'[proof {i}][{l}](x)"));
            lk[i][l] = [zx, zwx, ax, ainv, sx];
        }
    }
    let mut tr = vec![vec![SymF::ZERO; n_trash]; np];
    for i in 0..np {
        for t in 0..n_trash {
            tr[i][t] = st.f(format!("trash_eval[proof {i}][{t}]"));
        }
    }

    // ---- identities
    let l_0 = ctx.l(0);
    let l_last = ctx.l(last_rot as i64);
    let mut l_blind = SymF::ZERO;
    for j in 1..=bf {
        l_blind = l_blind + ctx.l(-(j as i64));
    }
    let active = SymF::ONE - (l_last + l_blind);
    let mut ids: Vec<(String, SymF)> = vec![];
    for i in 0..np {
        let ev = Evals { cs, adv: &adv_evals[i], fix: &fix_evals, inst: &inst_evals[i], chal: phase_ch };
        for (gi, g) in cs.gates().iter().enumerate() {
            for (pi, p) in g.polynomials().iter().enumerate() {
                ids.push((format!("gate[proof {i}][gate {gi}][poly {pi}]"), ev.expr(p)));
            }
        }
        if n_sets > 0 {
            ids.push((format!("perm-first[proof {i}]"), l_0 * (SymF::ONE - z[i][0].0)));
            let zl = z[i][n_sets - 1].0;
            ids.push((format!("perm-last[proof {i}]"), l_last * (zl * zl - zl)));
            for j in 1..n_sets {
                ids.push((format!("perm-chain[proof {i}][set {j}]"), l_0 * (z[i][j].0 - z[i][j - 1].2.unwrap())));
            }
            for j in 0..n_sets {
                let cols = &perm_cols[j * chunk_len..((j + 1) * chunk_len).min(perm_cols.len())];
                let mut left = z[i][j].1;
                let mut right = z[i][j].0;
                for (m, col) in cols.iter().enumerate() {
                    let g = j * chunk_len + m; // global column index in the argument
                    let v = ev.column_cur(col);
                    left = left * (v + beta * sigma[g] + gamma);
                    right = right * (v + SymF::DELTA.pow_vartime([g as u64]) * beta * x + gamma);
                }
                ids.push((format!("perm-product[proof {i}][set {j}]"), active * (left - right)));
            }
        }
        for (li, arg) in cs.lookups().iter().enumerate() {
            let [zx, zwx, ax, ainv, sx] = lk[i][li];
            let a_c = ev.compress(arg.input_expressions(), theta);
            let s_c = ev.compress(arg.table_expressions(), theta);
            ids.push((format!("lookup-first[proof {i}][{li}]"), l_0 * (SymF::ONE - zx)));
            ids.push((format!("lookup-last[proof {i}][{li}]"), l_last * (zx * zx - zx)));
            ids.push((format!("lookup-product[proof {i}][{li}]"), active * (zwx * (ax + beta) * (sx + gamma) - zx * (a_c + beta) * (s_c + gamma))));
            ids.push((format!("lookup-first-row-equal[proof {i}][{li}]"), l_0 * (ax - sx)));
            ids.push((format!("lookup-sorted[proof {i}][{li}]"), active * (ax - sx) * (ax - ainv)));
        }
        for (ti, arg) in cs.trashcans().iter().enumerate() {
            let c = ev.compress(arg.constraint_expressions(), trash_ch);
            let q = ev.expr(arg.selector());
            ids.push((format!("trash[proof {i}][{ti}]"), c - (SymF::ONE - q) * tr[i][ti]));
        }
    }

    // ---- queries
    let mut queries: Vec<Value> = vec![];
    let mut q = |coms: Vec<u32>, n: Option<u64>, point: SymF, eval: SymF, what: String| {
        queries.push(json!({"coms": coms, "n": n, "point": id(point), "eval": id(eval), "what": what}));
    };
    for i in 0..np {
        for (qi, (col, rot)) in iq.iter().enumerate() {
            if col.index() < nbc {
                q(vec![inp.cinst[i][col.index()]], None, ctx.rot(rot.0), inst_evals[i][qi], format!("instance[proof {i}][col {}]@{}", col.index(), rot.0));
            }
        }
        for (qi, (col, rot)) in aq.iter().enumerate() {
            q(vec![advcom[i][col.index()]], None, ctx.rot(rot.0), adv_evals[i][qi], format!("advice[proof {i}][col {}]@{}", col.index(), rot.0));
        }
        for j in 0..n_sets {
            q(vec![zcom[i][j]], None, x, z[i][j].0, format!("z[proof {i}][set {j}]@0"));
            q(vec![zcom[i][j]], None, ctx.rot(1), z[i][j].1, format!("z[proof {i}][set {j}]@1"));
            if let Some(e) = z[i][j].2 {
                q(vec![zcom[i][j]], None, ctx.rot(last_rot), e, format!("z[proof {i}][set {j}]@last"));
            }
        }
        for l in 0..n_lookups {
            let [zx, zwx, ax, ainv, sx] = lk[i][l];
            q(vec![lk_z[i][l]], None, x, zx, format!("lookupZ[proof {i}][{l}]@0"));
            q(vec![lk_z[i][l]], None, ctx.rot(1), zwx, format!("lookupZ[proof {i}][{l}]@1"));
            q(vec![lk_perm[i][l].0], None, x, ax, format!("lookupA'[proof {i}][{l}]@0"));
            q(vec![lk_perm[i][l].0], None, ctx.rot(-1), ainv, format!("lookupA'[proof {i}][{l}]@-1"));
            q(vec![lk_perm[i][l].1], None, x, sx, format!("lookupS'[proof {i}][{l}]@0"));
        }
        for t in 0..n_trash {
            q(vec![trcom[i][t]], None, x, tr[i][t], format!("trash[proof {i}][{t}]@0"));
        }
    }
    for (qi, (col, rot)) in fq.iter().enumerate() {
        q(vec![inp.fixed_coms[col.index()]], None, ctx.rot(rot.0), fix_evals[qi], format!("fixed[col {}]@{}", col.index(), rot.0));
    }
    for c in 0..perm_cols.len() {
        q(vec![inp.perm_coms[c]], None, x, sigma[c], format!("sigma[{c}]@0"));
    }
    q(vec![rcom], None, x, random_eval, "random_poly@0".into());
    // the quotient query: its eval is obligation (1), reported separately
    let hq = json!({"coms": hcoms, "n": n, "point": id(x)});
    let _ = pos::<u32>;

    let info = json!({
        "n": n, "omega": id(omega), "degree": degree, "chunk_len": chunk_len, "n_sets": n_sets,
        "spec_blinding_factors": bf, "cs_blinding_factors": cs.blinding_factors(),
        "n_lookups": n_lookups, "n_trash": n_trash, "num_gate_polys": cs.gates().iter().map(|g| g.polynomials().len()).sum::<usize>(),
        "perm_columns": perm_cols.iter().map(|c| format!("{:?}", c.column_type()).chars().next().unwrap().to_string() + &c.index().to_string()).collect::<Vec<_>>(),
        "instance_queries": iq.iter().map(|(c, r)| json!([c.index(), r.0])).collect::<Vec<_>>(),
        "advice_queries": aq.iter().map(|(c, r)| json!([c.index(), r.0])).collect::<Vec<_>>(),
        "fixed_queries": fq.iter().map(|(c, r)| json!([c.index(), r.0])).collect::<Vec<_>>(),
        "x": id(x), "xn_minus_1": id(ctx.xn_minus_1), "h_query": hq,
        "l_0": id(l_0), "l_last": id(l_last), "l_blind": id(l_blind),
    });
    let consumed = st.pos;
    SpecOut { ids, queries, roles: st.roles, consumed, info }
}
