//! LinF: affine forms c_0 + sum_{i<K} c_i v_i over Fq, stored inline (Copy), K = 64.
//! `+`, `-`, scaling by a constant form are exact. A product of two non-constant forms, the inverse
//! of a non-constant form, `to_repr` or a value-order comparison of a non-constant form PANIC with a
//! message: a non-linear path is reported as untranslatable, never as a wrong answer.
//! Equality of two forms is coefficient-wise, which for affine forms IS equality as functions.
use core::iter::{Product, Sum};
use core::ops::{Add, AddAssign, Mul, MulAssign, Neg, Sub, SubAssign};
use std::cmp::Ordering;

use ff::{Field, FromUniformBytes, PrimeField, WithSmallOrderMulGroup};
use midnight_curves::Fq;
use rand_core::RngCore;
use subtle::{Choice, ConditionallySelectable, ConstantTimeEq, CtOption};

pub const K: usize = 64;

#[derive(Clone, Copy, Debug, PartialEq, Eq, Hash)]
pub struct LinF {
    pub c: [Fq; K + 1],
    /// highest index with a non-zero coefficient (0 = constant form)
    pub top: u8,
}

impl Default for LinF {
    fn default() -> Self {
        LinF::constant(Fq::ZERO)
    }
}

impl LinF {
    pub const fn constant(c0: Fq) -> LinF {
        let mut c = [Fq::ZERO; K + 1];
        c[0] = c0;
        LinF { c, top: 0 }
    }
    /// the unit form v_i (1 <= i <= K)
    pub fn unit(i: usize) -> LinF {
        assert!(i >= 1 && i <= K, "LinF supports at most {K} variables");
        let mut f = LinF::constant(Fq::ZERO);
        f.c[i] = Fq::ONE;
        f.top = i as u8;
        f
    }
    pub fn is_const(&self) -> bool {
        self.top == 0
    }
    fn fix_top(mut self) -> LinF {
        let mut t = self.top as usize;
        while t > 0 && self.c[t] == Fq::ZERO {
            t -= 1;
        }
        self.top = t as u8;
        self
    }
    fn add_(self, o: LinF) -> LinF {
        let top = self.top.max(o.top);
        let mut r = self;
        for i in 0..=(top as usize) {
            r.c[i] = self.c[i] + o.c[i];
        }
        r.top = top;
        r.fix_top()
    }
    fn neg_(self) -> LinF {
        let mut r = self;
        for i in 0..=(self.top as usize) {
            r.c[i] = -self.c[i];
        }
        r
    }
    fn scale(self, k: Fq) -> LinF {
        let mut r = self;
        for i in 0..=(self.top as usize) {
            r.c[i] = self.c[i] * k;
        }
        r.fix_top()
    }
    fn mul_(self, o: LinF) -> LinF {
        if o.is_const() {
            self.scale(o.c[0])
        } else if self.is_const() {
            o.scale(self.c[0])
        } else {
            panic!("non-linear: product of two non-constant LinF forms")
        }
    }
    pub fn hex(&self) -> Vec<String> {
        (0..=(self.top as usize)).map(|i| crate::symf::fq_hex(&self.c[i])).collect()
    }
}

impl PartialOrd for LinF {
    fn partial_cmp(&self, o: &Self) -> Option<Ordering> {
        Some(self.cmp(o))
    }
}
impl Ord for LinF {
    fn cmp(&self, o: &Self) -> Ordering {
        if self.is_const() && o.is_const() {
            self.c[0].cmp(&o.c[0])
        } else {
            panic!("concretisation: value order of a non-constant LinF form")
        }
    }
}
impl ConstantTimeEq for LinF {
    fn ct_eq(&self, o: &Self) -> Choice {
        Choice::from((self == o) as u8)
    }
}
impl ConditionallySelectable for LinF {
    fn conditional_select(a: &Self, b: &Self, c: Choice) -> Self {
        if bool::from(c) {
            *b
        } else {
            *a
        }
    }
}
macro_rules! binop {
    ($tr:ident, $f:ident, $atr:ident, $af:ident, $e:expr) => {
        impl $tr for LinF {
            type Output = LinF;
            fn $f(self, o: LinF) -> LinF {
                let f: fn(LinF, LinF) -> LinF = $e;
                f(self, o)
            }
        }
        impl<'a> $tr<&'a LinF> for LinF {
            type Output = LinF;
            fn $f(self, o: &'a LinF) -> LinF {
                let f: fn(LinF, LinF) -> LinF = $e;
                f(self, *o)
            }
        }
        impl $atr for LinF {
            fn $af(&mut self, o: LinF) {
                let f: fn(LinF, LinF) -> LinF = $e;
                *self = f(*self, o)
            }
        }
        impl<'a> $atr<&'a LinF> for LinF {
            fn $af(&mut self, o: &'a LinF) {
                let f: fn(LinF, LinF) -> LinF = $e;
                *self = f(*self, *o)
            }
        }
    };
}
binop!(Add, add, AddAssign, add_assign, |a, b| a.add_(b));
binop!(Sub, sub, SubAssign, sub_assign, |a, b| a.add_(b.neg_()));
binop!(Mul, mul, MulAssign, mul_assign, |a, b| a.mul_(b));
impl Neg for LinF {
    type Output = LinF;
    fn neg(self) -> LinF {
        self.neg_()
    }
}
// scalar multiplication by the real field (best_fft::<Fq, LinF>)
impl Mul<Fq> for LinF {
    type Output = LinF;
    fn mul(self, k: Fq) -> LinF {
        self.scale(k)
    }
}
impl<'a> Mul<&'a Fq> for LinF {
    type Output = LinF;
    fn mul(self, k: &'a Fq) -> LinF {
        self.scale(*k)
    }
}
impl MulAssign<Fq> for LinF {
    fn mul_assign(&mut self, k: Fq) {
        *self = self.scale(k)
    }
}
impl<'a> MulAssign<&'a Fq> for LinF {
    fn mul_assign(&mut self, k: &'a Fq) {
        *self = self.scale(*k)
    }
}
impl Sum for LinF {
    fn sum<I: Iterator<Item = LinF>>(i: I) -> LinF {
        i.fold(LinF::ZERO, |a, b| a + b)
    }
}
impl<'a> Sum<&'a LinF> for LinF {
    fn sum<I: Iterator<Item = &'a LinF>>(i: I) -> LinF {
        i.fold(LinF::ZERO, |a, b| a + *b)
    }
}
impl Product for LinF {
    fn product<I: Iterator<Item = LinF>>(i: I) -> LinF {
        i.fold(LinF::ONE, |a, b| a * b)
    }
}
impl<'a> Product<&'a LinF> for LinF {
    fn product<I: Iterator<Item = &'a LinF>>(i: I) -> LinF {
        i.fold(LinF::ONE, |a, b| a * *b)
    }
}
impl Field for LinF {
    const ZERO: Self = LinF::constant(Fq::ZERO);
    const ONE: Self = LinF::constant(Fq::ONE);
    fn random(_: impl RngCore) -> Self {
        panic!("LinF::random")
    }
    fn square(&self) -> Self {
        *self * *self
    }
    fn double(&self) -> Self {
        *self + *self
    }
    fn invert(&self) -> CtOption<Self> {
        if self.is_const() {
            self.c[0].invert().map(LinF::constant)
        } else {
            panic!("non-linear: inverse of a non-constant LinF form")
        }
    }
    fn sqrt_ratio(_: &Self, _: &Self) -> (Choice, Self) {
        unimplemented!("sqrt_ratio on LinF")
    }
}
impl From<u64> for LinF {
    fn from(v: u64) -> Self {
        LinF::constant(Fq::from(v))
    }
}
impl PrimeField for LinF {
    type Repr = <Fq as PrimeField>::Repr;
    fn from_repr(r: Self::Repr) -> CtOption<Self> {
        Fq::from_repr(r).map(LinF::constant)
    }
    fn to_repr(&self) -> Self::Repr {
        if self.is_const() {
            self.c[0].to_repr()
        } else {
            panic!("concretisation: to_repr of a non-constant LinF form")
        }
    }
    fn is_odd(&self) -> Choice {
        if self.is_const() {
            self.c[0].is_odd()
        } else {
            panic!("concretisation: is_odd of a non-constant LinF form")
        }
    }
    const MODULUS: &'static str = <Fq as PrimeField>::MODULUS;
    const NUM_BITS: u32 = Fq::NUM_BITS;
    const CAPACITY: u32 = Fq::CAPACITY;
    const TWO_INV: Self = LinF::constant(Fq::TWO_INV);
    const MULTIPLICATIVE_GENERATOR: Self = LinF::constant(Fq::MULTIPLICATIVE_GENERATOR);
    const S: u32 = Fq::S;
    const ROOT_OF_UNITY: Self = LinF::constant(Fq::ROOT_OF_UNITY);
    const ROOT_OF_UNITY_INV: Self = LinF::constant(Fq::ROOT_OF_UNITY_INV);
    const DELTA: Self = LinF::constant(Fq::DELTA);
}
impl WithSmallOrderMulGroup<3> for LinF {
    const ZETA: Self = LinF::constant(<Fq as WithSmallOrderMulGroup<3>>::ZETA);
}
impl FromUniformBytes<64> for LinF {
    fn from_uniform_bytes(b: &[u8; 64]) -> Self {
        LinF::constant(Fq::from_uniform_bytes(b))
    }
}
