//! C12 scenarios: the REAL best_fft / EvaluationDomain / kate_division / eval_polynomial /
//! lagrange_interpolate executed on LinF unit forms (linear routines: the output forms are the rows of
//! the routine's matrix, for ALL input vectors) or on SymF (z / x symbolic).
//! Symbolic: the vector entries (and z, x). Concrete per run: sizes, omega, thread pool.
use std::collections::HashMap;

use ff::{Field, PrimeField, WithSmallOrderMulGroup};
use midnight_curves::fft::best_fft;
use midnight_curves::Fq;
use midnight_proofs::poly::{EvaluationDomain, Rotation};
use midnight_proofs::utils::arithmetic::{eval_polynomial, kate_division, lagrange_interpolate};
use serde_json::{json, Value};

use crate::arg_usize;
use crate::linf::LinF;
use crate::symf::{self, fq_hex, SymF};

fn rows(v: &[LinF]) -> Value {
    Value::Array(v.iter().map(|f| json!(f.hex())).collect())
}
fn units(n: usize) -> Vec<LinF> {
    (1..=n).map(LinF::unit).collect()
}
fn consts() -> Value {
    json!({"root_of_unity": fq_hex(&Fq::ROOT_OF_UNITY), "S": Fq::S, "zeta": fq_hex(&<Fq as WithSmallOrderMulGroup<3>>::ZETA),
           "delta": fq_hex(&Fq::DELTA), "threads": rayon::current_num_threads()})
}

pub fn run(sc: &str, a: &HashMap<String, String>) -> Value {
    match sc {
        "fft" => {
            let log_n = arg_usize(a, "logn", 3) as u32;
            let n = 1usize << log_n;
            let omega = Fq::ROOT_OF_UNITY.pow_vartime([1u64 << (Fq::S - log_n)]);
            // (1) group = LinF, scalar = Fq (the form best_fft has for curve points)
            let mut v = units(n);
            best_fft::<Fq, LinF>(&mut v, omega, log_n);
            // (2) group = scalar = LinF (the form EvaluationDomain uses)
            let mut w = units(n);
            best_fft::<LinF, LinF>(&mut w, LinF::constant(omega), log_n);
            json!({"scenario": "fft", "logn": log_n, "omega": fq_hex(&omega), "out": rows(&v), "out_field": rows(&w), "consts": consts()})
        }
        "domain" => {
            let k = arg_usize(a, "k", 3) as u32;
            let j = arg_usize(a, "j", 3) as u32;
            let dom = EvaluationDomain::<LinF>::new(j, k);
            let n = 1usize << k;
            let en = dom.extended_len();
            let mut out = json!({"scenario": "domain", "k": k, "j": j, "n": n, "extended_k": dom.extended_k(), "extended_len": en,
                "omega": dom.get_omega().hex()[0], "omega_inv": dom.get_omega_inv().hex()[0], "extended_omega": dom.get_extended_omega().hex()[0],
                "quotient_poly_degree": dom.get_quotient_poly_degree(), "consts": consts()});
            let coeff_units = || dom.coeff_from_vec(units(n));
            let lag_units = || dom.lagrange_from_vec(units(n));
            out["c2l"] = rows(&dom.coeff_to_lagrange(coeff_units()));
            out["l2c"] = rows(&dom.lagrange_to_coeff(lag_units()));
            out["l2c_c2l"] = rows(&dom.lagrange_to_coeff(dom.coeff_to_lagrange(coeff_units())));
            out["c2e"] = rows(&dom.coeff_to_extended(coeff_units()));
            out["e2c_c2e"] = rows(&dom.extended_to_coeff(dom.coeff_to_extended(coeff_units())));
            if en <= crate::linf::K {
                let ext_units = || {
                    let mut e = dom.empty_extended();
                    for (i, x) in e.iter_mut().enumerate() {
                        *x = LinF::unit(i + 1);
                    }
                    e
                };
                out["e2c"] = rows(&dom.extended_to_coeff(ext_units()));
                out["div"] = rows(&dom.divide_by_vanishing_poly(ext_units()));
                out["e2l"] = rows(&dom.extended_to_lagrange(ext_units()));
            }
            let mut rots = serde_json::Map::new();
            for r in -3i32..=3 {
                if r.unsigned_abs() as usize > n {
                    continue; // slice::rotate_left/right panic for |r| > n (precondition of Polynomial::rotate; only used by tests in /repo)
                }
                rots.insert(r.to_string(), rows(&lag_units().rotate(Rotation(r))));
            }
            out["rot"] = Value::Object(rots);
            out
        }
        "interp" => {
            let m = arg_usize(a, "m", 3);
            let seed = arg_usize(a, "seed", 1) as u64;
            let pts: Vec<Fq> = (0..m).map(|i| Fq::from(seed * 1000 + 17 * i as u64 + 3) * Fq::ROOT_OF_UNITY.pow_vartime([i as u64 + 1])).collect();
            let pts_l: Vec<LinF> = pts.iter().map(|p| LinF::constant(*p)).collect();
            let co = lagrange_interpolate(&pts_l, &units(m));
            json!({"scenario": "interp", "m": m, "points": pts.iter().map(fq_hex).collect::<Vec<_>>(), "coeffs": rows(&co), "consts": consts()})
        }
        "lrange" => {
            let k = arg_usize(a, "k", 3) as u32;
            let lo = a.get("lo").map(|v| v.parse::<i32>().unwrap()).unwrap_or(-2);
            let hi = a.get("hi").map(|v| v.parse::<i32>().unwrap()).unwrap_or(2);
            let dom = EvaluationDomain::<SymF>::new(3, k);
            let x = symf::var("x");
            let xn = x.pow_vartime([1u64 << k]);
            let ls = dom.l_i_range(x, xn, lo..hi);
            let rots: Vec<Value> = (-3i32..=3).map(|r| json!([r, symf::id(dom.rotate_omega(x, Rotation(r)))])).collect();
            json!({"scenario": "lrange", "k": k, "lo": lo, "hi": hi, "omega": symf::id(dom.get_omega()),
                   "l": ls.iter().map(|t| symf::id(*t)).collect::<Vec<_>>(), "rotate_omega": rots,
                   "arena": symf::dump_arena(), "consts": consts()})
        }
        "kate" => {
            let d = arg_usize(a, "deg", 4);
            let p: Vec<SymF> = (0..=d).map(|i| symf::var(&format!("p{i}"))).collect();
            let z = symf::var("z");
            let q = kate_division(&p, z);
            let e = eval_polynomial(&p, z);
            json!({"scenario": "kate", "deg": d, "p": p.iter().map(|t| symf::id(*t)).collect::<Vec<_>>(), "z": symf::id(z),
                   "q": q.iter().map(|t| symf::id(*t)).collect::<Vec<_>>(), "eval": symf::id(e),
                   "arena": symf::dump_arena(), "consts": consts()})
        }
        _ => unreachable!(),
    }
}
