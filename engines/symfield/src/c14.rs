//! C14: the REAL `KZGCommitmentScheme::<SymE>::multi_prepare` on symbolic query lists.
//!
//! Per pattern (an ordered list of queries (commitment, point); one commitment may be "chopped" into
//! two pieces): polynomials have symbolic coefficients, commitments are their values at the symbolic
//! toxic waste `s` (exponent model), claimed evaluations are the true ones. The opening proof is
//! produced by a SPECIFICATION prover written from the halo2 book (multipoint opening), not by the
//! repository's multi_open (whose commit goes through windowed MSM on scalar bytes). Points and the
//! challenge x3 are concrete (so that only constants get inverted), everything else is symbolic.
//! Output per pattern: did multi_prepare return a guard (or panic / Err), and the term
//! `left*s - right` of the returned DualMSM (must be the zero polynomial: the pairing check passes).
use std::collections::HashMap;

use ff::{Field, PrimeField};
use midnight_curves::Fq;
use midnight_proofs::poly::commitment::PolynomialCommitmentScheme;
use midnight_proofs::poly::kzg::KZGCommitmentScheme;
use midnight_proofs::poly::{CommitmentLabel, VerifierQuery};
use midnight_proofs::transcript::{CircuitTranscript, Transcript};
use serde_json::{json, Value};

use crate::symcs::{SymHash, WORLD};
use crate::syme::{Exp, SymE};
use crate::symf::*;
use crate::arg_usize;

type Kzg = KZGCommitmentScheme<SymE>;
type Poly = Vec<SymF>;

fn p_eval(p: &Poly, x: SymF) -> SymF {
    p.iter().rev().fold(SymF::ZERO, |acc, c| acc * x + *c)
}
fn p_add(a: &Poly, b: &Poly) -> Poly {
    let n = a.len().max(b.len());
    (0..n).map(|i| a.get(i).copied().unwrap_or(SymF::ZERO) + b.get(i).copied().unwrap_or(SymF::ZERO)).collect()
}
fn p_scale(a: &Poly, k: SymF) -> Poly {
    a.iter().map(|c| *c * k).collect()
}
fn p_mul_lin(a: &Poly, root: SymF) -> Poly {
    // a(X) * (X - root)
    let mut out = vec![SymF::ZERO; a.len() + 1];
    for (i, c) in a.iter().enumerate() {
        out[i + 1] = out[i + 1] + *c;
        out[i] = out[i] - *c * root;
    }
    out
}
/// a(X) / (X - root), exact (remainder dropped; the caller guarantees a(root) = 0)
fn p_div_lin(a: &Poly, root: SymF) -> Poly {
    let mut q = vec![SymF::ZERO; a.len() - 1];
    let mut carry = SymF::ZERO;
    for i in (1..a.len()).rev() {
        carry = a[i] + carry * root;
        q[i - 1] = carry;
    }
    q
}
/// interpolation through (pts[i], vals[i]); points are constants
fn p_interp(pts: &[SymF], vals: &[SymF]) -> Poly {
    let mut acc: Poly = vec![SymF::ZERO];
    for i in 0..pts.len() {
        let mut num: Poly = vec![SymF::ONE];
        let mut den = SymF::ONE;
        for k in 0..pts.len() {
            if k != i {
                num = p_mul_lin(&num, pts[k]);
                den = den * (pts[i] - pts[k]);
            }
        }
        acc = p_add(&acc, &p_scale(&num, vals[i] * den.invert().unwrap()));
    }
    acc
}
fn commit(p: &Poly, s: SymF) -> Exp<1> {
    Exp(p_eval(p, s))
}

#[derive(Clone, Debug)]
struct Q {
    com: usize,
    pt: usize,
}

pub fn run(a: &HashMap<String, String>) -> Value {
    crate::set_concrete(a); // vals=<file>: replay at concrete values (all variables constants, same real code)
    let d = arg_usize(a, "d", 4); // coefficients per polynomial / per piece
    let pats: Value = serde_json::from_str(&std::fs::read_to_string(a.get("patterns").expect("patterns=<file>")).unwrap()).unwrap();
    let ncom = arg_usize(a, "ncom", 4); // commitment index ncom-1 ... ; index `chop` is the chopped one
    let chop = arg_usize(a, "chop", 0);
    // optional second chopped commitment (two chopped commitments, each opened at its own single point)
    let chop2 = a.get("chop2").map(|v| v.parse::<usize>().expect("chop2")).unwrap_or(usize::MAX);
    let is_chop = |c: usize| c == chop || c == chop2;
    let s = var("s");
    // concrete generic points x * omega^r, r in {0, 1, -1, 2}
    let x0 = Fq::from(arg_usize(a, "x", 7) as u64);
    let w = Fq::ROOT_OF_UNITY.pow_vartime([1u64 << (Fq::S - 4)]);
    let pts_fq = [x0, x0 * w, x0 * w.invert().unwrap(), x0 * w * w];
    let pts: Vec<SymF> = pts_fq.iter().map(|p| SymF::C(*p)).collect();
    let x3c = Fq::from(arg_usize(a, "x3", 11) as u64) * Fq::MULTIPLICATIVE_GENERATOR;
    WORLD.lock().unwrap().squeeze_override = vec![None, None, Some(x3c), None];
    // polynomials
    let polys: Vec<Poly> = (0..ncom)
        .map(|c| {
            let len = if is_chop(c) { 2 * d } else { d };
            (0..len).map(|i| var(&format!("a{c}_{i}"))).collect()
        })
        .collect();
    let n_piece = (d + 1) as u64; // pieces hold n-1 = d coefficients; H(X) = H0(X) + X^(n-1) H1(X)
    let mut coms: Vec<Vec<Exp<1>>> = vec![];
    for (c, p) in polys.iter().enumerate() {
        if is_chop(c) {
            coms.push(vec![commit(&p[..d].to_vec(), s), commit(&p[d..].to_vec(), s)]);
        } else {
            coms.push(vec![commit(p, s)]);
        }
    }
    let mut results = vec![];
    let hook = std::panic::take_hook();
    let msg = std::sync::Arc::new(std::sync::Mutex::new(String::new()));
    let m2 = msg.clone();
    std::panic::set_hook(Box::new(move |info| {
        *m2.lock().unwrap() = format!("{info}").replace('\n', " ").chars().take(240).collect();
    }));
    for pat in pats.as_array().unwrap() {
        let qs: Vec<Q> = pat.as_array().unwrap().iter().map(|q| Q { com: q[0].as_u64().unwrap() as usize, pt: q[1].as_u64().unwrap() as usize }).collect();
        // ---------- specification prover (halo2 book, multipoint opening)
        // commitments in order of first appearance, each with its ordered point list
        let mut order: Vec<usize> = vec![];
        let mut cpts: HashMap<usize, Vec<usize>> = HashMap::new();
        let mut dup = false;
        // global point order = order of first appearance over all queries
        let mut gpts: Vec<usize> = vec![];
        for q in &qs {
            if !gpts.contains(&q.pt) {
                gpts.push(q.pt);
            }
            if !order.contains(&q.com) {
                order.push(q.com);
            }
            let e = cpts.entry(q.com).or_default();
            if e.contains(&q.pt) {
                dup = true;
            }
            e.push(q.pt);
        }
        // point sets (as sets of global point positions, ascending), in order of first appearance
        let key = |c: usize| -> Vec<usize> {
            let mut k: Vec<usize> = cpts[&c].iter().map(|p| gpts.iter().position(|g| g == p).unwrap()).collect();
            k.sort();
            k.dedup();
            k
        };
        let mut sets: Vec<Vec<usize>> = vec![];
        for c in &order {
            let k = key(*c);
            if !sets.contains(&k) {
                sets.push(k);
            }
        }
        // the chopped commitment is opened as G(X) = H0(X) + pt^(n-1) H1(X) with pt its (single) query point
        let mut polys = polys.clone();
        for ch in [chop, chop2] {
            if let Some(q) = qs.iter().find(|q| q.com == ch) {
                let sf = pts[q.pt].pow_vartime([n_piece - 1]);
                let (h0, h1) = (polys[ch][..d].to_vec(), polys[ch][d..].to_vec());
                polys[ch] = p_add(&h0, &p_scale(&h1, sf));
            }
        }
        let mut tp = CircuitTranscript::<SymHash>::init();
        let x1: SymF = tp.squeeze_challenge();
        let x2: SymF = tp.squeeze_challenge();
        let mut qpolys: Vec<Poly> = vec![];
        for set in &sets {
            let mut acc: Poly = vec![SymF::ZERO];
            let mut pw = SymF::ONE;
            for c in &order {
                if &key(*c) == set {
                    acc = p_add(&acc, &p_scale(&polys[*c], pw));
                    pw = pw * x1;
                }
            }
            qpolys.push(acc);
        }
        let mut f: Poly = vec![SymF::ZERO];
        let mut pw2 = SymF::ONE;
        for (set, qp) in sets.iter().zip(qpolys.iter()) {
            let spts: Vec<SymF> = set.iter().map(|g| pts[gpts[*g]]).collect();
            let vals: Vec<SymF> = spts.iter().map(|p| p_eval(qp, *p)).collect();
            let r = p_interp(&spts, &vals);
            let mut num = p_add(qp, &p_scale(&r, -SymF::ONE));
            for p in &spts {
                num = p_div_lin(&num, *p);
            }
            f = p_add(&f, &p_scale(&num, pw2));
            pw2 = pw2 * x2;
        }
        let f_com = commit(&f, s);
        tp.write(&f_com).unwrap();
        let x3: SymF = tp.squeeze_challenge();
        for qp in &qpolys {
            tp.write(&p_eval(qp, x3)).unwrap();
        }
        let x4: SymF = tp.squeeze_challenge();
        let mut fin: Poly = vec![SymF::ZERO];
        let mut pw4 = SymF::ONE;
        for qp in qpolys.iter().chain(std::iter::once(&f)) {
            fin = p_add(&fin, &p_scale(qp, pw4));
            pw4 = pw4 * x4;
        }
        let v = p_eval(&fin, x3);
        let mut shifted = fin.clone();
        shifted[0] = shifted[0] - v;
        let pi = commit(&p_div_lin(&shifted, x3), s);
        tp.write(&pi).unwrap();
        let proof = tp.finalize();
        // ---------- the real verifier
        let pert = arg_usize(a, "pert", 0) == 1;
        let evals: Vec<SymF> = qs
            .iter()
            .enumerate()
            .map(|(i, q)| p_eval(&polys[q.com], pts[q.pt]) + if pert { var(&format!("t{i}")) } else { SymF::ZERO })
            .collect();
        let queries: Vec<VerifierQuery<SymF, Kzg>> = qs
            .iter()
            .zip(evals.iter())
            .map(|(q, e)| {
                if is_chop(q.com) {
                    let parts: Vec<&Exp<1>> = coms[q.com].iter().collect();
                    VerifierQuery::from_parts(pts[q.pt], CommitmentLabel::Custom("chopped".into()), &parts, *e, n_piece)
                } else {
                    VerifierQuery::new(pts[q.pt], CommitmentLabel::NoLabel, &coms[q.com][0], *e)
                }
            })
            .collect();
        let mut tv = CircuitTranscript::<SymHash>::init_from_bytes(&proof);
        let res = std::panic::catch_unwind(std::panic::AssertUnwindSafe(|| Kzg::multi_prepare(&queries, &mut tv)));
        let mut out = json!({"pattern": pat, "n_sets": sets.len(), "duplicate": dup,
            "first_point_is_chopped_point": qs.iter().find(|q| q.com == chop).map(|q| gpts[0] == q.pt)});
        match res {
            Err(_) => {
                out["status"] = json!("panic");
                out["msg"] = json!(msg.lock().unwrap().clone());
            }
            Ok(Err(e)) => {
                out["status"] = json!("err");
                out["msg"] = json!(format!("{e:?}"));
            }
            Ok(Ok(guard)) => {
                let (left, right) = guard.split();
                let l = left.iter().fold(SymF::ZERO, |acc, (_, sc, b)| acc + **sc * b.0);
                let r = right.iter().fold(SymF::ZERO, |acc, (_, sc, b)| acc + **sc * b.0);
                out["status"] = json!("ok");
                out["residual"] = json!(id(l * s - r));
                out["left_terms"] = json!(left.len());
                out["right_terms"] = json!(right.len());
                out["consumed_all"] = json!(tv.assert_empty().is_ok());
            }
        }
        results.push(out);
    }
    std::panic::set_hook(hook);
    json!({"scenario": "kzg", "d": d, "ncom": ncom, "chop": chop, "results": results, "arena": dump_arena(),
           "points": pts_fq.iter().map(fq_hex).collect::<Vec<_>>(), "x3": fq_hex(&x3c)})
}
