//! Replay on the REAL stack: the same shape circuit over Fq, KZG (ParamsKZG::unsafe_setup),
//! Blake2b transcript, real create_proof + prepare + guard.verify (style of proofs/tests/plonk_api.rs).
use std::collections::HashMap;

use blake2b_simd::State;
use ff::Field;
use midnight_curves::{Bls12, Fq};
use midnight_proofs::dev::MockProver;
use midnight_proofs::plonk::{commit_to_instances, create_proof, keygen_pk, keygen_vk_with_k, prepare};
use midnight_proofs::poly::commitment::Guard;
use midnight_proofs::poly::kzg::{params::ParamsKZG, KZGCommitmentScheme};
use midnight_proofs::transcript::{CircuitTranscript, Transcript};
use rand_core::{RngCore, SeedableRng};
use serde_json::{json, Value};

use crate::shape::ShapeCircuit;
use crate::{arg_usize, lens_of, load_shape};

type Scheme = KZGCommitmentScheme<Bls12>;

pub fn wit(p: usize, c: usize, r: usize) -> Fq {
    Fq::from((1000 + 97 * p + 13 * c + r) as u64)
}

pub fn run(a: &HashMap<String, String>) -> Value {
    let shape = load_shape(a);
    let k = arg_usize(a, "k", 4) as u32;
    let np = arg_usize(a, "np", 1);
    let nbc = arg_usize(a, "nbc", 0);
    let lens = lens_of(a, shape.ninst);
    let mut rng = rand_chacha_like(arg_usize(a, "seed", 1) as u64);
    let params = ParamsKZG::<Bls12>::unsafe_setup(k, &mut rng);
    let empty = ShapeCircuit::<Fq> { shape: shape.clone(), proof_idx: 0, gen: None, inst: vec![], cheat: None };
    let vk = keygen_vk_with_k::<Fq, Scheme, _>(&params, &empty, k).expect("keygen_vk");
    let pk = keygen_pk::<Fq, Scheme, _>(vk.clone(), &empty).expect("keygen_pk");
    // instance values: given (inst=hex:hex;...|...) or deterministic
    let inst: Vec<Vec<Vec<Fq>>> = (0..np)
        .map(|i| lens.iter().enumerate().map(|(c, l)| (0..*l).map(|j| Fq::from((5 + 31 * i + 7 * c + j) as u64)).collect()).collect())
        .collect();
    // cheat=<i>: the witness violates the tie of copy entry i (value off by one); everything else is honest
    let cheat: Option<usize> = a.get("cheat").map(|v| v.parse().unwrap());
    let circuits: Vec<ShapeCircuit<Fq>> =
        (0..np).map(|i| ShapeCircuit { shape: shape.clone(), proof_idx: i, gen: Some(wit), inst: inst[i].clone(), cheat }).collect();
    // the assignment is honest: the repository's own constraint checker accepts it
    let mock: Vec<String> = circuits
        .iter()
        .zip(inst.iter())
        .map(|(c, i)| match MockProver::run(k, c, i.clone()) {
            Ok(p) => match std::panic::catch_unwind(std::panic::AssertUnwindSafe(|| p.verify())) {
                Ok(Ok(())) => "Ok(())".to_string(),
                Ok(Err(e)) => format!("Err({}): {}", e.len(), e.iter().map(|f| format!("{f:?}").chars().take(160).collect::<String>()).collect::<Vec<_>>().join(" | ")),
                Err(_) => "Err(panic): MockProver::verify panicked while reporting a failure".to_string(),
            },
            Err(e) => format!("run error {e:?}"),
        })
        .collect();
    let all: Vec<Vec<&[Fq]>> = inst.iter().map(|cols| cols.iter().map(|v| &v[..]).collect()).collect();
    let all_refs: Vec<&[&[Fq]]> = all.iter().map(|v| &v[..]).collect();
    let mut tp = CircuitTranscript::<State>::init();
    let pres = create_proof::<Fq, Scheme, _, _>(&params, &pk, &circuits, nbc, &all_refs, &mut rng, &mut tp);
    let mut out = json!({"scenario": "real", "k": k, "np": np, "nbc": nbc, "lens": lens, "mock_prover": mock});
    if let Err(e) = pres {
        out["create_proof_error"] = json!(format!("{e:?}"));
        return out;
    }
    let proof = tp.finalize();
    out["proof_bytes"] = json!(proof.len());
    let cinst: Vec<Vec<_>> = inst
        .iter()
        .map(|cols| cols[..nbc].iter().map(|v| commit_to_instances::<Fq, Scheme>(&params, vk.get_domain(), v)).collect())
        .collect();
    let cinst_refs: Vec<&[_]> = cinst.iter().map(|v| &v[..]).collect();
    let plain: Vec<Vec<&[Fq]>> = inst.iter().map(|cols| cols[nbc..].iter().map(|v| &v[..]).collect()).collect();
    let plain_refs: Vec<&[&[Fq]]> = plain.iter().map(|v| &v[..]).collect();
    let mut tv = CircuitTranscript::<State>::init_from_bytes(&proof);
    let prev_hook = std::panic::take_hook();
    let panic_msg = std::sync::Arc::new(std::sync::Mutex::new(String::new()));
    let pm = panic_msg.clone();
    std::panic::set_hook(Box::new(move |info| {
        *pm.lock().unwrap() = format!("{info}").chars().take(300).collect();
    }));
    let res = std::panic::catch_unwind(std::panic::AssertUnwindSafe(|| {
        match prepare::<Fq, Scheme, _>(&vk, &cinst_refs, &plain_refs, &mut tv) {
            Err(e) => format!("prepare error {e:?}"),
            Ok(g) => match g.verify(&params.verifier_params()) {
                Ok(()) => "accepted".to_string(),
                Err(e) => format!("rejected {e:?}"),
            },
        }
    }));
    std::panic::set_hook(prev_hook);
    let verdict = match res {
        Ok(v) => v,
        Err(_) => format!("PANIC {}", panic_msg.lock().unwrap().replace('\n', " ")),
    };
    out["panicked"] = json!(verdict.starts_with("PANIC"));
    out["trailing_ok"] = json!(tv.assert_empty().is_ok());
    out["accepted"] = json!(verdict == "accepted");
    out["verdict"] = json!(verdict);
    let _ = Fq::ZERO;
    out
}

/// small deterministic RNG (xorshift) implementing RngCore + CryptoRng for the replay
pub struct XRng(u64);
fn rand_chacha_like(seed: u64) -> XRng {
    XRng(seed.wrapping_mul(0x9E3779B97F4A7C15) | 1)
}
impl RngCore for XRng {
    fn next_u32(&mut self) -> u32 {
        self.next_u64() as u32
    }
    fn next_u64(&mut self) -> u64 {
        let mut x = self.0;
        x ^= x << 13;
        x ^= x >> 7;
        x ^= x << 17;
        self.0 = x;
        x
    }
    fn fill_bytes(&mut self, d: &mut [u8]) {
        for c in d.chunks_mut(8) {
            let v = self.next_u64().to_le_bytes();
            c.copy_from_slice(&v[..c.len()]);
        }
    }
    fn try_fill_bytes(&mut self, d: &mut [u8]) -> Result<(), rand_core::Error> {
        self.fill_bytes(d);
        Ok(())
    }
}
impl rand_core::CryptoRng for XRng {}
#[allow(dead_code)]
fn _unused<R: SeedableRng>() {}
