//! Symbolic transcript hash + symbolic commitment scheme.
//!
//! * `SymHash: TranscriptHash` — absorbed items are term ids / commitment handles; `squeeze` returns
//!   the variable chi_k where k is the interned index of the whole absorbed history (items and
//!   squeeze markers). It is plugged into the REAL `CircuitTranscript<SymHash>`, so the real
//!   `read` / `write` / `common` / `squeeze_challenge` code runs; proof bytes are 40-byte records.
//! * `SymCS: PolynomialCommitmentScheme<SymF>` — a commitment is the interned handle of the
//!   committed vector; `multi_open` writes nothing (records the queries); `multi_prepare` returns
//!   the verifier's query list as its guard.
use core::ops::{Add, Mul};
use std::collections::HashMap;
use std::io::{self, Read, Write};
use std::sync::Mutex;

use group::GroupEncoding;
use midnight_proofs::poly::{
    commitment::{Guard, Params, PolynomialCommitmentScheme},
    verif as hook, Coeff, CommitmentLabel, Error, LagrangeCoeff, Polynomial, ProverQuery, VerifierQuery,
};
use midnight_proofs::transcript::{Hashable, Sampleable, Transcript, TranscriptHash};
use midnight_proofs::utils::{helpers::ProcessedSerdeObject, SerdeFormat};
use serde_json::{json, Value};
use subtle::{Choice, CtOption};

use crate::symf::*;

pub const REC: usize = 40; // bytes per proof record
pub const TAG_F: u8 = 0xF0;
pub const TAG_C: u8 = 0xC0;
pub const TAG_FRESH: u8 = 0x5A; // symbolic proof stream: "a fresh symbol of whatever type is read here"

#[derive(Clone, Debug, PartialEq, Eq, Hash)]
pub enum Item {
    F(u32),   // arena id of a field term
    Com(u32), // commitment handle
    Sq,       // squeeze marker (the hash state after a squeeze differs from the one before)
}
impl Item {
    pub fn json(&self) -> Value {
        match self {
            Item::F(i) => json!(["f", i]),
            Item::Com(h) => json!(["c", h]),
            Item::Sq => json!(["sq"]),
        }
    }
}

#[derive(Clone, Debug)]
pub enum ComDef {
    Default,
    Committed { basis: &'static str, vec: Vec<u32> },
    Fresh(String),
}

#[derive(Default)]
pub struct World {
    pub side: String,
    pub log: Vec<Value>,
    pub coms: Vec<ComDef>,
    pub com_intern: HashMap<(String, Vec<u32>), u32>,
    pub chi: Vec<Vec<Item>>,
    pub chi_intern: HashMap<Vec<Item>, u32>,
    pub fresh_com: u32,
    pub prover_queries: Vec<Value>,
    /// concretised challenges: the k-th squeeze of any transcript returns this constant instead of chi
    /// (used where a challenge gets inverted together with non-constants: KZG x3)
    pub squeeze_override: Vec<Option<midnight_curves::Fq>>,
}
lazy_static::lazy_static! {
    pub static ref WORLD: Mutex<World> = Mutex::new(World { coms: vec![ComDef::Default], ..Default::default() });
}
pub fn set_side(s: &str) {
    WORLD.lock().unwrap().side = s.to_string();
}
fn log(op: &str, item: Value) {
    let mut w = WORLD.lock().unwrap();
    let side = w.side.clone();
    w.log.push(json!({"side": side, "op": op, "item": item}));
}

// ---------------------------------------------------------------- hash
#[derive(Clone, Debug)]
pub struct SymHash {
    pub absorbed: Vec<Item>,
    pub nsq: usize,
}
impl TranscriptHash for SymHash {
    type Input = Item;
    type Output = SymF;
    fn init() -> Self {
        SymHash { absorbed: vec![], nsq: 0 }
    }
    fn absorb(&mut self, i: &Item) {
        self.absorbed.push(i.clone());
        log("absorb", i.json());
    }
    fn squeeze(&mut self) -> SymF {
        let k = {
            let mut w = WORLD.lock().unwrap();
            if let Some(k) = w.chi_intern.get(&self.absorbed) {
                *k
            } else {
                let k = w.chi.len() as u32;
                w.chi.push(self.absorbed.clone());
                w.chi_intern.insert(self.absorbed.clone(), k);
                k
            }
        };
        self.absorbed.push(Item::Sq);
        let ov = { WORLD.lock().unwrap().squeeze_override.get(self.nsq).copied().flatten() };
        self.nsq += 1;
        let v = match ov {
            Some(c) => SymF::C(c),
            None => var(&format!("chi{k}")),
        };
        log("squeeze", json!({"chi": k, "term": id(v), "len": self.absorbed.len() - 1}));
        v
    }
}

fn read_rec(buffer: &mut impl Read) -> io::Result<[u8; REC]> {
    let mut b = [0u8; REC];
    buffer.read_exact(&mut b)?;
    Ok(b)
}

impl Hashable<SymHash> for SymF {
    fn to_input(&self) -> Item {
        Item::F(id(*self))
    }
    fn to_bytes(&self) -> Vec<u8> {
        let mut v = vec![0u8; REC];
        v[0] = TAG_F;
        v[1..5].copy_from_slice(&id(*self).to_le_bytes());
        log("write", json!(["f", id(*self)]));
        v
    }
    fn read(buffer: &mut impl Read) -> io::Result<Self> {
        let b = read_rec(buffer)?;
        let v = match b[0] {
            TAG_FRESH => fresh("pf"),
            TAG_F => {
                let i = u32::from_le_bytes([b[1], b[2], b[3], b[4]]);
                let n = { ARENA.lock().unwrap().nodes[i as usize].clone() };
                match n {
                    Node::Const(c) => SymF::C(c),
                    _ => SymF::T(i),
                }
            }
            t => {
                log("read-error", json!({"expected": "f", "tag": t}));
                return Err(io::Error::new(io::ErrorKind::InvalidData, "proof record is not a field element"));
            }
        };
        log("read", json!(["f", id(v)]));
        Ok(v)
    }
}
impl Sampleable<SymHash> for SymF {
    fn sample(o: SymF) -> Self {
        o
    }
}

// ---------------------------------------------------------------- commitments
#[derive(Clone, Copy, Debug, PartialEq, Eq, Default, Hash)]
pub struct SymCom(pub u32);

pub fn commit_vec(basis: &'static str, v: &[SymF]) -> SymCom {
    let ids: Vec<u32> = v.iter().map(|x| id(*x)).collect();
    let mut w = WORLD.lock().unwrap();
    let key = (basis.to_string(), ids.clone());
    if let Some(h) = w.com_intern.get(&key) {
        return SymCom(*h);
    }
    let h = w.coms.len() as u32;
    w.coms.push(ComDef::Committed { basis, vec: ids });
    w.com_intern.insert(key, h);
    SymCom(h)
}
fn fresh_com() -> SymCom {
    let mut w = WORLD.lock().unwrap();
    w.fresh_com += 1;
    let name = format!("pc{}", w.fresh_com);
    let h = w.coms.len() as u32;
    w.coms.push(ComDef::Fresh(name));
    SymCom(h)
}

impl Add for SymCom {
    type Output = SymCom;
    fn add(self, _: SymCom) -> SymCom {
        unimplemented!("SymCom + SymCom: the plonk layer never adds commitments")
    }
}
impl Mul<SymF> for SymCom {
    type Output = SymCom;
    fn mul(self, _: SymF) -> SymCom {
        unimplemented!("SymCom * scalar: the plonk layer never scales commitments")
    }
}
#[derive(Clone, Copy, Default, Debug)]
pub struct Repr4([u8; 4]);
impl AsRef<[u8]> for Repr4 {
    fn as_ref(&self) -> &[u8] {
        &self.0
    }
}
impl AsMut<[u8]> for Repr4 {
    fn as_mut(&mut self) -> &mut [u8] {
        &mut self.0
    }
}
impl GroupEncoding for SymCom {
    type Repr = Repr4;
    fn from_bytes(b: &Repr4) -> CtOption<Self> {
        CtOption::new(SymCom(u32::from_le_bytes(b.0)), Choice::from(1))
    }
    fn from_bytes_unchecked(b: &Repr4) -> CtOption<Self> {
        Self::from_bytes(b)
    }
    fn to_bytes(&self) -> Repr4 {
        Repr4(self.0.to_le_bytes())
    }
}
impl ProcessedSerdeObject for SymCom {
    fn read<R: Read>(r: &mut R, _: SerdeFormat) -> io::Result<Self> {
        let mut b = [0u8; 4];
        r.read_exact(&mut b)?;
        Ok(SymCom(u32::from_le_bytes(b)))
    }
    fn write<W: Write>(&self, w: &mut W, _: SerdeFormat) -> io::Result<()> {
        w.write_all(&self.0.to_le_bytes())
    }
}
impl Hashable<SymHash> for SymCom {
    fn to_input(&self) -> Item {
        Item::Com(self.0)
    }
    fn to_bytes(&self) -> Vec<u8> {
        let mut v = vec![0u8; REC];
        v[0] = TAG_C;
        v[1..5].copy_from_slice(&self.0.to_le_bytes());
        log("write", json!(["c", self.0]));
        v
    }
    fn read(buffer: &mut impl Read) -> io::Result<Self> {
        let b = read_rec(buffer)?;
        let c = match b[0] {
            TAG_FRESH => fresh_com(),
            TAG_C => SymCom(u32::from_le_bytes([b[1], b[2], b[3], b[4]])),
            t => {
                log("read-error", json!({"expected": "c", "tag": t}));
                return Err(io::Error::new(io::ErrorKind::InvalidData, "proof record is not a commitment"));
            }
        };
        log("read", json!(["c", c.0]));
        Ok(c)
    }
}

#[derive(Clone, Debug)]
pub struct SymParams {
    pub k: u32,
}
impl Params for SymParams {
    fn max_k(&self) -> u32 {
        self.k
    }
    fn downsize(&mut self, k: u32) {
        self.k = k
    }
}
#[derive(Clone, Debug)]
pub struct SymCS;

#[derive(Debug, Clone)]
pub struct GuardQuery {
    pub point: SymF,
    pub label: String,
    pub coms: Vec<u32>,
    pub chopped_n: Option<u64>,
    pub eval: SymF,
}
#[derive(Debug)]
pub struct SymGuard {
    pub queries: Vec<GuardQuery>,
}
impl Guard<SymF, SymCS> for SymGuard {
    fn verify(self, _: &()) -> Result<(), Error> {
        Ok(())
    }
}
pub fn label_str(l: &CommitmentLabel) -> String {
    match l {
        CommitmentLabel::Advice(i) => format!("advice:{i}"),
        CommitmentLabel::Instance(i) => format!("instance:{i}"),
        CommitmentLabel::Fixed(i) => format!("fixed:{i}"),
        CommitmentLabel::Permutation(i) => format!("perm:{i}"),
        CommitmentLabel::Custom(s) => format!("custom:{s}"),
        CommitmentLabel::NoLabel => "-".to_string(),
    }
}
impl PolynomialCommitmentScheme<SymF> for SymCS {
    type Parameters = SymParams;
    type VerifierParameters = ();
    type Commitment = SymCom;
    type VerificationGuard = SymGuard;
    fn gen_params(k: u32) -> SymParams {
        SymParams { k }
    }
    fn get_verifier_params(_: &SymParams) {}
    fn commit(_: &SymParams, p: &Polynomial<SymF, Coeff>) -> SymCom {
        commit_vec("coeff", &p[..])
    }
    fn commit_lagrange(_: &SymParams, p: &Polynomial<SymF, LagrangeCoeff>) -> SymCom {
        commit_vec("lagrange", &p[..])
    }
    fn multi_open<T: Transcript>(_: &SymParams, q: &[ProverQuery<SymF>], _: &mut T) -> Result<(), Error>
    where
        SymF: Sampleable<T::Hash> + std::hash::Hash + Ord + Hashable<T::Hash>,
        SymCom: Hashable<T::Hash>,
    {
        let mut w = WORLD.lock().unwrap();
        for q in q {
            let p = hook::prover_query_poly(q);
            w.prover_queries.push(json!({"point": id(hook::prover_query_point(q)), "poly_len": p.len()}));
        }
        Ok(())
    }
    fn multi_prepare<'com, T: Transcript>(q: &[VerifierQuery<'com, SymF, Self>], _: &mut T) -> Result<SymGuard, Error>
    where
        SymF: Sampleable<T::Hash> + std::hash::Hash + Ord + Hashable<T::Hash>,
        SymCom: 'com + Hashable<T::Hash>,
    {
        Ok(SymGuard {
            queries: q
                .iter()
                .map(|q| {
                    let (coms, n) = hook::verifier_query_commitments(q);
                    GuardQuery {
                        point: hook::verifier_query_point(q),
                        label: label_str(&hook::verifier_query_label(q)),
                        coms: coms.iter().map(|c| c.0).collect(),
                        chopped_n: n,
                        eval: hook::verifier_query_eval(q),
                    }
                })
                .collect(),
        })
    }
}

pub fn guard_json(g: &SymGuard) -> Value {
    Value::Array(
        g.queries
            .iter()
            .map(|q| json!({"point": id(q.point), "label": q.label, "coms": q.coms, "n": q.chopped_n, "eval": id(q.eval)}))
            .collect(),
    )
}

pub fn dump_world() -> Value {
    let w = WORLD.lock().unwrap();
    let coms: Vec<Value> = w
        .coms
        .iter()
        .map(|c| match c {
            ComDef::Default => json!(["default"]),
            ComDef::Committed { basis, vec } => json!(["commit", basis, vec]),
            ComDef::Fresh(n) => json!(["fresh", n]),
        })
        .collect();
    let chi: Vec<Value> = w.chi.iter().map(|s| Value::Array(s.iter().map(|i| i.json()).collect())).collect();
    json!({"log": w.log, "coms": coms, "chi": chi, "prover_queries": w.prover_queries})
}

/// A symbolic proof: `n` records, each "a fresh symbol".
pub fn symbolic_proof(n_records: usize) -> Vec<u8> {
    vec![TAG_FRESH; n_records * REC]
}
