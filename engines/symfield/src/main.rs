//! sx <scenario> key=value ...   — engine S runner. Prints one JSON document on stdout.
//!
//! scenarios
//!   verifier  shape=<file> k=4 np=1 nbc=0 lens=2,1 [vals=<file>]   real keygen_vk + prepare on a symbolic proof, + specification
//!   prover    shape=<file> k=4 np=2 nbc=1 lens=1,2 [nodes=0]        real keygen_vk/pk + create_proof (symbolic witness) then prepare on that proof
//!   real      shape=<file> k=4 np=2 nbc=1 lens=1,2                  the same shape over Fq + KZG + Blake2b: does the verifier accept its honest proof?
//!   exprsig   shapes=<file>                                         keygen only: post-keygen polynomials + GraphEvaluators (exprfam.rs)
//!   fft / domain / kate / interp ...                                (C12, see c12.rs)
mod c12;
mod c14;
mod c15;
mod exprfam;
mod ipa;
mod c17;
mod kg;
mod linf;
mod real;
mod shape;
mod spec;
mod symcs;
mod syme;
mod symf;
mod symg;

use std::collections::HashMap;

use ff::Field;
use midnight_proofs::plonk::{commit_to_instances, create_proof, keygen_pk, keygen_vk_with_k, prepare, VerifyingKey};
use midnight_proofs::transcript::{CircuitTranscript, Transcript};
use serde_json::{json, Value};

use shape::{Shape, ShapeCircuit};
use symcs::*;
use symf::*;

pub fn args() -> HashMap<String, String> {
    std::env::args().skip(2).filter_map(|a| a.split_once('=').map(|(k, v)| (k.to_string(), v.to_string()))).collect()
}
pub fn arg_usize(a: &HashMap<String, String>, k: &str, d: usize) -> usize {
    a.get(k).map(|v| v.parse().expect(k)).unwrap_or(d)
}
pub fn load_shape(a: &HashMap<String, String>) -> Shape {
    let p = a.get("shape").expect("shape=<file>");
    let txt = if p.starts_with('{') { p.clone() } else { std::fs::read_to_string(p).expect("shape file") };
    let mut s = Shape::from_json(&serde_json::from_str(&txt).expect("shape json"));
    // static tables: table lengths / fully assigned input columns depend on the number of usable rows at this k
    s.resolve(arg_usize(a, "k", 4) as u32);
    s
}
/// vk.cs() lookup arguments as data (C02_S `table-binding`): every input / table expression, a table expression that is
/// a plain fixed query as ["f", column, rotation]
pub fn cs_lookups_json<F: ff::Field>(cs: &midnight_proofs::plonk::ConstraintSystem<F>) -> Value {
    use midnight_proofs::plonk::Expression;
    Value::Array(
        cs.lookups()
            .iter()
            .map(|l| {
                let t: Vec<Value> = l
                    .table_expressions()
                    .iter()
                    .map(|e| match e {
                        Expression::Fixed(q) => json!(["f", q.column_index(), q.rotation().0]),
                        o => json!(["other", format!("{o:?}").chars().take(200).collect::<String>()]),
                    })
                    .collect();
                json!({"name": l.name(), "n_inputs": l.input_expressions().len(), "tables": t})
            })
            .collect(),
    )
}
pub fn lens_of(a: &HashMap<String, String>, ninst: usize) -> Vec<usize> {
    lens_per_proof(a, ninst, 1).remove(0)
}
/// lens=2,1 (same for every proof) or lens=2,1;3,0 (per proof)
pub fn lens_per_proof(a: &HashMap<String, String>, ninst: usize, np: usize) -> Vec<Vec<usize>> {
    let parts: Vec<Vec<usize>> = a
        .get("lens")
        .map(|s| s.split(';').map(|p| p.split(',').filter(|x| !x.is_empty()).map(|x| x.parse().unwrap()).collect()).collect())
        .unwrap_or_else(|| vec![vec![]]);
    (0..np)
        .map(|i| {
            let l = parts.get(i).unwrap_or(&parts[0]);
            (0..ninst).map(|c| l.get(c).copied().unwrap_or(1)).collect()
        })
        .collect()
}

struct DummyRng;
impl rand_core::RngCore for DummyRng {
    fn next_u32(&mut self) -> u32 {
        4
    }
    fn next_u64(&mut self) -> u64 {
        4
    }
    fn fill_bytes(&mut self, d: &mut [u8]) {
        for b in d {
            *b = 4;
        }
    }
    fn try_fill_bytes(&mut self, d: &mut [u8]) -> Result<(), rand_core::Error> {
        self.fill_bytes(d);
        Ok(())
    }
}
impl rand_core::CryptoRng for DummyRng {}

fn sym_witness(p: usize, c: usize, r: usize) -> SymF {
    var(&format!("w{p}_{c}_{r}"))
}

/// instance values of proof i: all columns (committed first)
fn sym_instances(np: usize, lens: &[Vec<usize>], nbc: usize) -> Vec<Vec<Vec<SymF>>> {
    (0..np)
        .map(|i| {
            lens[i].iter()
                .enumerate()
                .map(|(c, l)| (0..*l).map(|j| var(&format!("{}{i}_{c}_{j}", if c < nbc { "cpi" } else { "pi" }))).collect())
                .collect()
        })
        .collect()
}

pub fn set_concrete(a: &HashMap<String, String>) {
    if let Some(p) = a.get("vals") {
        let j: Value = serde_json::from_str(&std::fs::read_to_string(p).expect("vals file")).expect("vals json");
        let m: HashMap<String, midnight_curves::Fq> =
            j.as_object().unwrap().iter().map(|(k, v)| (k.clone(), fq_from_hex(v.as_str().unwrap()))).collect();
        ARENA.lock().unwrap().concrete = Some(m);
    }
}

fn vk_json(vk: &VerifyingKey<SymF, SymCS>) -> Value {
    json!({
        "transcript_repr": id(vk.transcript_repr()),
        "fixed_commitments": vk.fixed_commitments().iter().map(|c| c.0).collect::<Vec<_>>(),
        "perm_commitments": vk.permutation().commitments().iter().map(|c| c.0).collect::<Vec<_>>(),
        "n": vk.n(),
    })
}

/// challenges in index order + theta,beta,gamma,trash,y,x from the list of squeezed terms
fn order_challenges(vk: &VerifyingKey<SymF, SymCS>, sq: &[SymF]) -> Option<Vec<SymF>> {
    let cp = vk.cs().challenge_phase();
    if sq.len() != cp.len() + 6 {
        return None;
    }
    let mut out = vec![SymF::ZERO; cp.len()];
    let mut k = 0;
    let maxp = vk.cs().advice_column_phase().iter().copied().max().unwrap_or(0);
    for ph in 0..=maxp {
        for (i, p) in cp.iter().enumerate() {
            if *p == ph {
                out[i] = sq[k];
                k += 1;
            }
        }
    }
    if k != cp.len() {
        return None;
    }
    out.extend_from_slice(&sq[k..]);
    Some(out)
}

fn side_log(side: &str) -> (Vec<spec::SItem>, Vec<SymF>) {
    let w = WORLD.lock().unwrap();
    let a = ARENA.lock().unwrap();
    let term = |i: u32| match &a.nodes[i as usize] {
        Node::Const(c) => SymF::C(*c),
        _ => SymF::T(i),
    };
    let mut stream = vec![];
    let mut sq = vec![];
    for e in w.log.iter() {
        if e["side"] != side {
            continue;
        }
        match e["op"].as_str().unwrap() {
            "read" => {
                let it = e["item"].as_array().unwrap();
                let i = it[1].as_u64().unwrap() as u32;
                stream.push(if it[0] == "f" { spec::SItem::F(term(i)) } else { spec::SItem::C(i) });
            }
            "squeeze" => sq.push(term(e["item"]["term"].as_u64().unwrap() as u32)),
            _ => {}
        }
    }
    (stream, sq)
}

fn run_verifier(a: &HashMap<String, String>) -> Value {
    set_concrete(a);
    let shape = load_shape(a);
    let k = arg_usize(a, "k", 4) as u32;
    let np = arg_usize(a, "np", 1);
    let nbc = arg_usize(a, "nbc", 0);
    let lens = lens_per_proof(a, shape.ninst, np);
    let params = SymParams { k };
    let empty = ShapeCircuit::<SymF> { shape: shape.clone(), proof_idx: 0, gen: None, inst: vec![], cheat: None };
    set_side("K");
    let vk = keygen_vk_with_k::<SymF, SymCS, _>(&params, &empty, k).expect("keygen_vk");
    let inst = sym_instances(np, &lens, nbc);
    let cinst: Vec<Vec<SymCom>> = inst
        .iter()
        .map(|cols| cols[..nbc].iter().map(|v| commit_to_instances::<SymF, SymCS>(&params, vk.get_domain(), v)).collect())
        .collect();
    let cinst_refs: Vec<&[SymCom]> = cinst.iter().map(|v| &v[..]).collect();
    let plain: Vec<Vec<&[SymF]>> = inst.iter().map(|cols| cols[nbc..].iter().map(|v| &v[..]).collect()).collect();
    let plain_refs: Vec<&[&[SymF]]> = plain.iter().map(|v| &v[..]).collect();
    set_side("V");
    let mut t = CircuitTranscript::<SymHash>::init_from_bytes(&symbolic_proof(4096));
    let res = prepare::<SymF, SymCS, _>(&vk, &cinst_refs, &plain_refs, &mut t);
    let consumed_bytes = t.buffer().position() as usize;
    set_side("S");
    let mut out = json!({"scenario": "verifier", "k": k, "np": np, "nbc": nbc, "lens": lens, "vk": vk_json(&vk),
        "consumed_records": consumed_bytes / REC});
    out["cs_lookups"] = cs_lookups_json(vk.cs());
    out["static_tables"] = json!({"urows": shape.urows, "num_fixed_columns": vk.cs().num_fixed_columns(),
        "tables": shape.tables.iter().map(|t| json!(t.rows)).collect::<Vec<_>>()});
    match res {
        Err(e) => {
            out["prepare_error"] = json!(format!("{e:?}"));
        }
        Ok(guard) => {
            out["guard"] = guard_json(&guard);
            let (stream, sq) = side_log("V");
            match order_challenges(&vk, &sq) {
                None => out["spec_error"] = json!(format!("number of squeezed challenges {} != expected {}", sq.len(), vk.cs().num_challenges() + 6)),
                Some(ch) => {
                    let y = ch[vk.cs().num_challenges() + 4];
                    let sp = std::panic::catch_unwind(std::panic::AssertUnwindSafe(|| {
                        spec::build(&spec::SpecIn {
                            cs: vk.cs(),
                            k,
                            num_proofs: np,
                            nb_committed: nbc,
                            cinst: cinst.iter().map(|v| v.iter().map(|c| c.0).collect()).collect(),
                            inst: inst.iter().map(|cols| cols[nbc..].to_vec()).collect(),
                            fixed_coms: vk.fixed_commitments().iter().map(|c| c.0).collect(),
                            perm_coms: vk.permutation().commitments().iter().map(|c| c.0).collect(),
                            challenges: ch.clone(),
                            stream,
                        })
                    }));
                    match sp {
                        Err(p) => {
                            let msg = p.downcast_ref::<String>().cloned().or_else(|| p.downcast_ref::<&str>().map(|s| s.to_string())).unwrap_or_default();
                            out["spec_error"] = json!(msg);
                        }
                        Ok(sp) => {
                            out["spec"] = json!({
                                "ids": sp.ids.iter().map(|(c, t)| json!([c, id(*t)])).collect::<Vec<_>>(),
                                "queries": sp.queries, "roles": sp.roles, "consumed": sp.consumed, "info": sp.info,
                                "y": id(y),
                                "challenges": ch.iter().map(|c| id(*c)).collect::<Vec<_>>(),
                            });
                        }
                    }
                }
            }
        }
    }
    out["instances"] = json!(inst.iter().map(|cols| cols.iter().map(|v| v.iter().map(|x| id(*x)).collect::<Vec<_>>()).collect::<Vec<_>>()).collect::<Vec<_>>());
    out["cinst"] = json!(cinst.iter().map(|v| v.iter().map(|c| c.0).collect::<Vec<_>>()).collect::<Vec<_>>());
    out["world"] = dump_world();
    out["arena"] = dump_arena();
    out
}

fn run_prover(a: &HashMap<String, String>) -> Value {
    set_concrete(a);
    let shape = load_shape(a);
    let k = arg_usize(a, "k", 4) as u32;
    let np = arg_usize(a, "np", 1);
    let nbc = arg_usize(a, "nbc", 0);
    let lens = lens_per_proof(a, shape.ninst, np);
    let params = SymParams { k };
    let empty = ShapeCircuit::<SymF> { shape: shape.clone(), proof_idx: 0, gen: None, inst: vec![], cheat: None };
    set_side("K");
    let vk = keygen_vk_with_k::<SymF, SymCS, _>(&params, &empty, k).expect("keygen_vk");
    let pk = keygen_pk::<SymF, SymCS, _>(vk.clone(), &empty).expect("keygen_pk");
    let inst = sym_instances(np, &lens, nbc);
    let circuits: Vec<ShapeCircuit<SymF>> =
        (0..np).map(|i| ShapeCircuit { shape: shape.clone(), proof_idx: i, gen: Some(sym_witness), inst: inst[i].clone(), cheat: None }).collect();
    let all: Vec<Vec<&[SymF]>> = inst.iter().map(|cols| cols.iter().map(|v| &v[..]).collect()).collect();
    let all_refs: Vec<&[&[SymF]]> = all.iter().map(|v| &v[..]).collect();
    set_side("P");
    let mut tp = CircuitTranscript::<SymHash>::init();
    let pres = create_proof::<SymF, SymCS, _, _>(&params, &pk, &circuits, nbc, &all_refs, DummyRng, &mut tp);
    let mut out = json!({"scenario": "prover", "k": k, "np": np, "nbc": nbc, "lens": lens, "vk": vk_json(&vk)});
    if arg_usize(a, "ev", 0) == 1 {
        // expression family: the GraphEvaluators the real keygen_pk built and the polynomials they were built from
        out["ev"] = exprfam::ev_json(&format!("{pk:?}"));
        out["polys"] = exprfam::polys_json(vk.cs());
    }
    if let Err(e) = &pres {
        out["create_proof_error"] = json!(format!("{e:?}"));
    } else {
        let proof = tp.finalize();
        out["proof_records"] = json!(proof.len() / REC);
        // the verifier gets the committed instances as commitments (real commit_to_instances)
        set_side("I");
        let cinst: Vec<Vec<SymCom>> = inst
            .iter()
            .map(|cols| cols[..nbc].iter().map(|v| commit_to_instances::<SymF, SymCS>(&params, vk.get_domain(), v)).collect())
            .collect();
        let cinst_refs: Vec<&[SymCom]> = cinst.iter().map(|v| &v[..]).collect();
        let plain: Vec<Vec<&[SymF]>> = inst.iter().map(|cols| cols[nbc..].iter().map(|v| &v[..]).collect()).collect();
        let plain_refs: Vec<&[&[SymF]]> = plain.iter().map(|v| &v[..]).collect();
        set_side("V");
        let mut tv = CircuitTranscript::<SymHash>::init_from_bytes(&proof);
        let vres = prepare::<SymF, SymCS, _>(&vk, &cinst_refs, &plain_refs, &mut tv);
        out["verifier_consumed_records"] = json!(tv.buffer().position() as usize / REC);
        out["verifier_trailing_ok"] = json!(tv.assert_empty().is_ok());
        match vres {
            Err(e) => out["prepare_error"] = json!(format!("{e:?}")),
            Ok(g) => {
                out["guard_len"] = json!(g.queries.len());
                if arg_usize(a, "guard", 0) == 1 {
                    out["guard"] = guard_json(&g);
                }
            }
        }
        out["cinst"] = json!(cinst.iter().map(|v| v.iter().map(|c| c.0).collect::<Vec<_>>()).collect::<Vec<_>>());
    }
    out["instances"] = json!(inst.iter().map(|cols| cols.iter().map(|v| v.iter().map(|x| id(*x)).collect::<Vec<_>>()).collect::<Vec<_>>()).collect::<Vec<_>>());
    let mut w = dump_world();
    if arg_usize(a, "coms", 0) == 0 {
        // commitment definitions are long vectors; only their count matters for the schedule check
        let n = w["coms"].as_array().map(|v| v.len()).unwrap_or(0);
        w["coms"] = json!(n);
    }
    out["world"] = w;
    if arg_usize(a, "nodes", 0) == 1 {
        out["arena"] = dump_arena();
    } else {
        let ar = ARENA.lock().unwrap();
        // names of the variables that occur as absorbed items are still needed: give the Var/Const nodes only
        let mut named = serde_json::Map::new();
        for (i, n) in ar.nodes.iter().enumerate() {
            match n {
                Node::Var(v) => {
                    named.insert(i.to_string(), json!(["v", v]));
                }
                Node::Const(c) => {
                    named.insert(i.to_string(), json!(["c", fq_hex(c)]));
                }
                _ => {}
            }
        }
        out["arena"] = json!({"n_nodes": ar.nodes.len(), "n_path": ar.path.len(), "leaves": named, "ord_symbolic": ar.ord_symbolic});
    }
    out
}

fn main() {
    let sc = std::env::args().nth(1).expect("scenario");
    let a = args();
    if let Some(t) = a.get("threads") {
        rayon::ThreadPoolBuilder::new().num_threads(t.parse().unwrap()).build_global().unwrap();
    }
    let out = match sc.as_str() {
        "verifier" => run_verifier(&a),
        "prover" => run_prover(&a),
        "real" => real::run(&a),
        "kzg" => c14::run(&a),
        "batch" => c15::run(&a),
        "keygen" => kg::run(&a),
        "exprsig" => exprfam::run_sig(&a),
        "ipa" => ipa::run(&a),
        "params" => c17::run(&a),
        "paramsio" => c17::run_io(&a),
        "paramsio_real" => c17::run_io_real(&a),
        "fft" | "domain" | "kate" | "interp" | "lrange" => c12::run(&sc, &a),
        _ => panic!("unknown scenario {sc}"),
    };
    println!("{}", serde_json::to_string(&out).unwrap());
}
