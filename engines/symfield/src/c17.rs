//! C17 (clause "parameters downsized to k' equal parameters derived for k' from the same secret").
//!
//! REAL code executed, all at the symbolic pairing engine SymE (G1/G2 = discrete logarithms over SymF):
//!   * `ParamsKZG::<SymE>::unsafe_setup(k, rng)`  — the toxic waste is `SymF::random(rng)` = the fresh
//!     VARIABLE `rnd1` (the per-prefix counter is reset before every setup call, so that every setup of one
//!     run draws the SAME symbol: "derived from the same secret"); its `parallelize`d loops run on rayon.
//!   * `<ParamsKZG<SymE> as Params>::downsize(k')` -> `ParamsKZG::downsize` -> `g_to_lagrange` -> `best_fft`
//!   * `ParamsKZG::from_parts(k', g[..2^k'], None, g2, s_g2)` (the public constructor that derives the
//!     Lagrange basis itself)
//!   * `ParamsKZG::write_custom` (the only public way to the monomial basis `g`): used to read the
//!     vectors off; `read_custom` of those bytes must re-write to the same bytes (extraction check).
//! Output: arena ids of every group exponent of the original, downsized, freshly set up and
//! from_parts parameter sets.
use std::collections::HashMap;
use std::io::{self, Read, Write};
use std::panic::{catch_unwind, AssertUnwindSafe};

use group::{Group, GroupEncoding};
use midnight_proofs::poly::commitment::Params;
use midnight_proofs::poly::kzg::params::ParamsKZG;
use midnight_proofs::utils::{helpers::ProcessedSerdeObject, SerdeFormat};
use serde_json::{json, Value};

use crate::symcs::REC;
use crate::syme::{Exp, Rep, SymE};
use crate::symf::*;
use crate::{arg_usize, DummyRng};

/// G2 records (tag 0xE2 + arena id), same layout as the G1 records of syme.rs
impl ProcessedSerdeObject for Exp<2> {
    fn read<R: Read>(r: &mut R, _: SerdeFormat) -> io::Result<Self> {
        let mut b = [0u8; REC];
        r.read_exact(&mut b)?;
        Option::<Exp<2>>::from(<Exp<2> as GroupEncoding>::from_bytes(&Rep(b)))
            .ok_or_else(|| io::Error::new(io::ErrorKind::InvalidData, "not a G2 record"))
    }
    fn write<W: Write>(&self, w: &mut W, _: SerdeFormat) -> io::Result<()> {
        w.write_all(&<Exp<2> as GroupEncoding>::to_bytes(self).0)
    }
}

fn reset_secret() {
    ARENA.lock().unwrap().counters.remove("rnd");
}

fn setup(k: u32) -> ParamsKZG<SymE> {
    reset_secret();
    ParamsKZG::<SymE>::unsafe_setup(k, DummyRng)
}

fn rec_id(b: &[u8], tag: u8) -> u32 {
    assert_eq!(b[0], tag, "unexpected record tag in write_custom output");
    u32::from_le_bytes([b[1], b[2], b[3], b[4]])
}

/// Everything `write_custom` emits, parsed back: header k, g, g_lagrange, g2, s_g2 as arena ids.
fn dump(p: &ParamsKZG<SymE>) -> Value {
    let mut bytes = vec![];
    p.write_custom(&mut bytes, SerdeFormat::RawBytes).expect("write_custom into a Vec");
    let kh = u32::from_le_bytes([bytes[0], bytes[1], bytes[2], bytes[3]]);
    let body = &bytes[4..];
    assert_eq!(body.len() % REC, 0);
    let nrec = body.len() / REC;
    assert!(nrec >= 2 && (nrec - 2) % 2 == 0);
    // the two vectors have the same length only if max_k's assertion holds; write_custom writes both in full
    let gl_len = p.g_lagrange().len();
    let g_len = nrec - 2 - gl_len;
    let rec = |i: usize| &body[i * REC..(i + 1) * REC];
    let g: Vec<u32> = (0..g_len).map(|i| rec_id(rec(i), 0xE1)).collect();
    let gl: Vec<u32> = (0..gl_len).map(|i| rec_id(rec(g_len + i), 0xE1)).collect();
    let gl_acc: Vec<u32> = p.g_lagrange().iter().map(|e| id(e.0)).collect();
    assert_eq!(gl, gl_acc, "write_custom's second vector is not g_lagrange()");
    // re-read and re-write (extraction check; concrete, not an obligation)
    let back = ParamsKZG::<SymE>::read_custom(&mut &bytes[..], SerdeFormat::RawBytes);
    let same = match back {
        Ok(q) => {
            let mut b2 = vec![];
            q.write_custom(&mut b2, SerdeFormat::RawBytes).unwrap();
            b2 == bytes
        }
        Err(_) => false,
    };
    json!({"k_header": kh, "g": g, "gl": gl, "g2": rec_id(rec(nrec - 2), 0xE2), "s_g2": rec_id(rec(nrec - 1), 0xE2),
           "g2_acc": id(p.g2().0), "s_g2_acc": id(p.s_g2().0), "reread_same_bytes": same, "bytes": bytes.len()})
}

fn panic_msg(p: Box<dyn std::any::Any + Send>) -> String {
    p.downcast_ref::<String>().cloned().or_else(|| p.downcast_ref::<&str>().map(|s| s.to_string())).unwrap_or_default()
}

pub fn run(a: &HashMap<String, String>) -> Value {
    crate::set_concrete(a);
    let k = arg_usize(a, "k", 3) as u32;
    let kp = arg_usize(a, "kp", 2) as u32;
    let s = {
        reset_secret();
        <SymF as ff::Field>::random(DummyRng)
    };
    let orig = setup(k);
    let mut out = json!({"scenario": "params", "k": k, "kp": kp, "threads": rayon::current_num_threads(), "s": id(s),
        "one": id(Exp::<1>::generator().0), "orig": dump(&orig), "orig_max_k": orig.max_k()});

    // downsize through the trait (what downsize_from_circuit / plonk_api call), which forwards to the inherent fn
    let mut down = orig.clone();
    std::panic::set_hook(Box::new(|_| {}));
    let r = catch_unwind(AssertUnwindSafe(|| <ParamsKZG<SymE> as Params>::downsize(&mut down, kp)));
    match r {
        Ok(()) => {
            let mk = catch_unwind(AssertUnwindSafe(|| down.max_k()));
            out["down"] = dump(&down);
            out["down"]["status"] = json!("ok");
            out["down"]["max_k"] = match mk {
                Ok(v) => json!(v),
                Err(p) => json!(format!("panic: {}", panic_msg(p))),
            };
        }
        Err(p) => {
            // state after the refusal (is the object left untouched?)
            let d = catch_unwind(AssertUnwindSafe(|| dump(&down)));
            out["down"] = json!({"status": "panic", "msg": panic_msg(p), "after": d.ok()});
        }
    }

    // parameters derived for k' from the same secret: (1) the setup itself, (2) the public constructor that
    // derives the Lagrange basis from the monomial basis
    let fr = catch_unwind(AssertUnwindSafe(|| setup(kp)));
    out["fresh"] = match fr {
        Ok(p) => {
            let mut d = dump(&p);
            d["status"] = json!("ok");
            d
        }
        Err(p) => json!({"status": "panic", "msg": panic_msg(p)}),
    };
    let np = 1usize.checked_shl(kp).unwrap_or(usize::MAX);
    if np <= (1usize << k) {
        let gs: Vec<Exp<1>> = {
            // the monomial basis of the original parameters, as write_custom emitted it
            let d = dump(&orig);
            d["g"].as_array().unwrap()[..np]
                .iter()
                .map(|i| {
                    let i = i.as_u64().unwrap() as u32;
                    let n = { ARENA.lock().unwrap().nodes[i as usize].clone() };
                    Exp(match n {
                        Node::Const(c) => SymF::C(c),
                        _ => SymF::T(i),
                    })
                })
                .collect()
        };
        let fp = catch_unwind(AssertUnwindSafe(|| ParamsKZG::<SymE>::from_parts(kp, gs, None, orig.g2(), orig.s_g2())));
        out["parts"] = match fp {
            Ok(p) => {
                let mut d = dump(&p);
                d["status"] = json!("ok");
                d
            }
            Err(p) => json!({"status": "panic", "msg": panic_msg(p)}),
        };
    }
    let _ = std::panic::take_hook();
    out["arena"] = dump_arena();
    out
}

// ------------------------------------------------------------------------------------------------
// C17 (parameter-set serialisation under thread pools): the REAL `write_custom` / `read_custom`, each run inside
// a LOCAL rayon pool of the stated size (`ThreadPool::install`: `rayon::current_num_threads()` is the pool's size
// there, which is what `parallelize` splits by). Generic over the engine: SymE (scenario `paramsio`, symbolic
// secret, parameters built under a 1-thread pool so that the arena is deterministic) and Bls12 (scenario
// `paramsio_real`, the native replay on real curve points).
use group::Curve;
use midnight_curves::pairing::Engine;

fn in_pool<T: Send>(threads: usize, f: impl FnOnce() -> T + Send) -> T {
    rayon::ThreadPoolBuilder::new().num_threads(threads).build().expect("rayon pool").install(f)
}

fn fmt_of(name: &str) -> SerdeFormat {
    match name {
        "processed" => SerdeFormat::Processed,
        "unchecked" => SerdeFormat::RawBytesUnchecked,
        _ => SerdeFormat::RawBytes,
    }
}

fn hex(b: &[u8]) -> String {
    b.iter().map(|x| format!("{x:02x}")).collect()
}

fn write_in_pool<E: Engine + std::fmt::Debug>(p: &ParamsKZG<E>, fmt: SerdeFormat, threads: usize) -> Result<Vec<u8>, String>
where
    E::G1: Curve + ProcessedSerdeObject,
    E::G2: Curve + ProcessedSerdeObject,
    ParamsKZG<E>: Sync,
{
    let r = in_pool(threads, || {
        catch_unwind(AssertUnwindSafe(|| {
            let mut b = vec![];
            p.write_custom(&mut b, fmt).map(|_| b).map_err(|e| format!("Err({e})"))
        }))
    });
    match r {
        Ok(x) => x,
        Err(p) => Err(format!("panic: {}", panic_msg(p))),
    }
}

/// (i) bytes written under `threads` vs under 1 thread, (ii) read_custom of them under `threads`, compared through the
/// public accessors, (iii) re-written bytes. `with_bytes`: include the byte strings (hex) in the output.
fn io_check<E: Engine + std::fmt::Debug>(p: &ParamsKZG<E>, fmt: SerdeFormat, threads: usize, with_bytes: bool) -> Value
where
    E::G1: Curve + ProcessedSerdeObject + PartialEq,
    E::G2: Curve + ProcessedSerdeObject + PartialEq,
    ParamsKZG<E>: Sync + Send,
{
    let b1 = write_in_pool(p, fmt, 1);
    let bt = write_in_pool(p, fmt, threads);
    let mut out = json!({"threads": threads, "write_1": b1.as_ref().map(|b| b.len()).map_err(|e| e.clone()).ok(),
        "write_1_err": b1.as_ref().err(), "write_t_err": bt.as_ref().err(),
        "bytes_equal": matches!((&b1, &bt), (Ok(a), Ok(b)) if a == b)});
    if with_bytes {
        out["bytes_1"] = json!(b1.as_ref().ok().map(|b| hex(b)));
        out["bytes_t"] = json!(bt.as_ref().ok().map(|b| hex(b)));
    }
    if let Ok(bytes) = &bt {
        out["len_t"] = json!(bytes.len());
        let r = in_pool(threads, || {
            catch_unwind(AssertUnwindSafe(|| {
                let mut rd = &bytes[..];
                ParamsKZG::<E>::read_custom(&mut rd, fmt).map(|q| (q, rd.len())).map_err(|e| format!("Err({e})"))
            }))
        });
        match r {
            Err(pn) => out["read"] = json!({"status": "panic", "msg": panic_msg(pn)}),
            Ok(Err(e)) => out["read"] = json!({"status": "err", "msg": e}),
            Ok(Ok((q, left))) => {
                let same_acc = q.g_lagrange() == p.g_lagrange() && q.g2() == p.g2() && q.s_g2() == p.s_g2();
                let w1 = write_in_pool(&q, fmt, 1);
                let wt = write_in_pool(&q, fmt, threads);
                out["read"] = json!({"status": "ok", "unread": left, "same_accessors": same_acc, "max_k": catch_unwind(AssertUnwindSafe(|| q.max_k())).ok(),
                    "rewrite_1_equal": matches!((&w1, &b1), (Ok(a), Ok(b)) if a == b),
                    "rewrite_t_equal": matches!(&wt, Ok(a) if a == bytes),
                    "rewrite_err": w1.as_ref().err().or(wt.as_ref().err())});
            }
        }
    }
    out
}

/// `sx paramsio k=2 fmt=processed pools=1,3,4,5 [vals=<file>]`
pub fn run_io(a: &HashMap<String, String>) -> Value {
    crate::set_concrete(a);
    let k = arg_usize(a, "k", 2) as u32;
    let fname = a.get("fmt").cloned().unwrap_or_else(|| "rawbytes".into());
    let fmt = fmt_of(&fname);
    let pools: Vec<usize> = a.get("pools").map(|s| s.split(',').map(|x| x.parse().unwrap()).collect()).unwrap_or_else(|| vec![1, 3]);
    std::panic::set_hook(Box::new(|_| {}));
    let s = {
        reset_secret();
        <SymF as ff::Field>::random(DummyRng)
    };
    let p = in_pool(1, || setup(k));
    let gl: Vec<u32> = p.g_lagrange().iter().map(|e| id(e.0)).collect();
    let runs: Vec<Value> = pools.iter().map(|t| io_check::<SymE>(&p, fmt, *t, true)).collect();
    let _ = std::panic::take_hook();
    json!({"scenario": "paramsio", "k": k, "fmt": fname, "rec": REC, "s": id(s), "gl_acc": gl, "g2_acc": id(p.g2().0), "s_g2_acc": id(p.s_g2().0),
           "runs": runs, "arena": dump_arena()})
}

/// `sx paramsio_real k=2 fmt=processed pools=1,3,4,5 seed=7`: the same on BLS12-381 (native replay)
pub fn run_io_real(a: &HashMap<String, String>) -> Value {
    use midnight_curves::Bls12;
    let k = arg_usize(a, "k", 2) as u32;
    let fname = a.get("fmt").cloned().unwrap_or_else(|| "processed".into());
    let fmt = fmt_of(&fname);
    let pools: Vec<usize> = a.get("pools").map(|s| s.split(',').map(|x| x.parse().unwrap()).collect()).unwrap_or_else(|| vec![1, 3]);
    std::panic::set_hook(Box::new(|_| {}));
    let rng = SplitMix(arg_usize(a, "seed", 7) as u64);
    let p = in_pool(1, || ParamsKZG::<Bls12>::unsafe_setup(k, rng));
    let runs: Vec<Value> = pools.iter().map(|t| io_check::<Bls12>(&p, fmt, *t, false)).collect();
    let _ = std::panic::take_hook();
    json!({"scenario": "paramsio_real", "k": k, "fmt": fname, "runs": runs})
}

/// deterministic RNG for the native scenario (splitmix64)
struct SplitMix(u64);
impl rand_core::RngCore for SplitMix {
    fn next_u32(&mut self) -> u32 {
        self.next_u64() as u32
    }
    fn next_u64(&mut self) -> u64 {
        self.0 = self.0.wrapping_add(0x9E3779B97F4A7C15);
        let mut z = self.0;
        z = (z ^ (z >> 30)).wrapping_mul(0xBF58476D1CE4E5B9);
        z = (z ^ (z >> 27)).wrapping_mul(0x94D049BB133111EB);
        z ^ (z >> 31)
    }
    fn fill_bytes(&mut self, d: &mut [u8]) {
        for c in d.chunks_mut(8) {
            let v = self.next_u64().to_le_bytes();
            c.copy_from_slice(&v[..c.len()]);
        }
    }
    fn try_fill_bytes(&mut self, d: &mut [u8]) -> Result<(), rand_core::Error> {
        self.fill_bytes(d);
        Ok(())
    }
}
