//! C17 (clause "parameters downsized to k' equal parameters derived for k' from the same secret").
//!
//! REAL code executed, all at the symbolic pairing engine SymE (G1/G2 = discrete logarithms over SymF):
//!   * `ParamsKZG::<SymE>::unsafe_setup(k, rng)`  — the toxic waste is `SymF::random(rng)` = the fresh
//!     VARIABLE `rnd1` (the per-prefix counter is reset before every setup call, so that every setup of one
//!     run draws the SAME symbol: "derived from the same secret"); its `parallelize`d loops run on rayon.
//!   * `<ParamsKZG<SymE> as Params>::downsize(k')` -> `ParamsKZG::downsize` -> `g_to_lagrange` -> `best_fft`
//!   * `ParamsKZG::from_parts(k', g[..2^k'], None, g2, s_g2)` (the public constructor that derives the
//!     Lagrange basis itself)
//!   * `ParamsKZG::write_custom` (the only public way to the monomial basis `g`): used to read the
//!     vectors off; `read_custom` of those bytes must re-write to the same bytes (extraction check).
//! Output: arena ids of every group exponent of the original, downsized, freshly set up and
//! from_parts parameter sets.
use std::collections::HashMap;
use std::io::{self, Read, Write};
use std::panic::{catch_unwind, AssertUnwindSafe};

use group::{Group, GroupEncoding};
use midnight_proofs::poly::commitment::Params;
use midnight_proofs::poly::kzg::params::ParamsKZG;
use midnight_proofs::utils::{helpers::ProcessedSerdeObject, SerdeFormat};
use serde_json::{json, Value};

use crate::symcs::REC;
use crate::syme::{Exp, Rep, SymE};
use crate::symf::*;
use crate::{arg_usize, DummyRng};

/// G2 records (tag 0xE2 + arena id), same layout as the G1 records of syme.rs
impl ProcessedSerdeObject for Exp<2> {
    fn read<R: Read>(r: &mut R, _: SerdeFormat) -> io::Result<Self> {
        let mut b = [0u8; REC];
        r.read_exact(&mut b)?;
        Option::<Exp<2>>::from(<Exp<2> as GroupEncoding>::from_bytes(&Rep(b)))
            .ok_or_else(|| io::Error::new(io::ErrorKind::InvalidData, "not a G2 record"))
    }
    fn write<W: Write>(&self, w: &mut W, _: SerdeFormat) -> io::Result<()> {
        w.write_all(&<Exp<2> as GroupEncoding>::to_bytes(self).0)
    }
}

fn reset_secret() {
    ARENA.lock().unwrap().counters.remove("rnd");
}

fn setup(k: u32) -> ParamsKZG<SymE> {
    reset_secret();
    ParamsKZG::<SymE>::unsafe_setup(k, DummyRng)
}

fn rec_id(b: &[u8], tag: u8) -> u32 {
    assert_eq!(b[0], tag, "unexpected record tag in write_custom output");
    u32::from_le_bytes([b[1], b[2], b[3], b[4]])
}

/// Everything `write_custom` emits, parsed back: header k, g, g_lagrange, g2, s_g2 as arena ids.
fn dump(p: &ParamsKZG<SymE>) -> Value {
    let mut bytes = vec![];
    p.write_custom(&mut bytes, SerdeFormat::RawBytes).expect("write_custom into a Vec");
    let kh = u32::from_le_bytes([bytes[0], bytes[1], bytes[2], bytes[3]]);
    let body = &bytes[4..];
    assert_eq!(body.len() % REC, 0);
    let nrec = body.len() / REC;
    assert!(nrec >= 2 && (nrec - 2) % 2 == 0);
    // the two vectors have the same length only if max_k's assertion holds; write_custom writes both in full
    let gl_len = p.g_lagrange().len();
    let g_len = nrec - 2 - gl_len;
    let rec = |i: usize| &body[i * REC..(i + 1) * REC];
    let g: Vec<u32> = (0..g_len).map(|i| rec_id(rec(i), 0xE1)).collect();
    let gl: Vec<u32> = (0..gl_len).map(|i| rec_id(rec(g_len + i), 0xE1)).collect();
    let gl_acc: Vec<u32> = p.g_lagrange().iter().map(|e| id(e.0)).collect();
    assert_eq!(gl, gl_acc, "write_custom's second vector is not g_lagrange()");
    // re-read and re-write (extraction check; concrete, not an obligation)
    let back = ParamsKZG::<SymE>::read_custom(&mut &bytes[..], SerdeFormat::RawBytes);
    let same = match back {
        Ok(q) => {
            let mut b2 = vec![];
            q.write_custom(&mut b2, SerdeFormat::RawBytes).unwrap();
            b2 == bytes
        }
        Err(_) => false,
    };
    json!({"k_header": kh, "g": g, "gl": gl, "g2": rec_id(rec(nrec - 2), 0xE2), "s_g2": rec_id(rec(nrec - 1), 0xE2),
           "g2_acc": id(p.g2().0), "s_g2_acc": id(p.s_g2().0), "reread_same_bytes": same, "bytes": bytes.len()})
}

fn panic_msg(p: Box<dyn std::any::Any + Send>) -> String {
    p.downcast_ref::<String>().cloned().or_else(|| p.downcast_ref::<&str>().map(|s| s.to_string())).unwrap_or_default()
}

pub fn run(a: &HashMap<String, String>) -> Value {
    crate::set_concrete(a);
    let k = arg_usize(a, "k", 3) as u32;
    let kp = arg_usize(a, "kp", 2) as u32;
    let s = {
        reset_secret();
        <SymF as ff::Field>::random(DummyRng)
    };
    let orig = setup(k);
    let mut out = json!({"scenario": "params", "k": k, "kp": kp, "threads": rayon::current_num_threads(), "s": id(s),
        "one": id(Exp::<1>::generator().0), "orig": dump(&orig), "orig_max_k": orig.max_k()});

    // downsize through the trait (what downsize_from_circuit / plonk_api call), which forwards to the inherent fn
    let mut down = orig.clone();
    std::panic::set_hook(Box::new(|_| {}));
    let r = catch_unwind(AssertUnwindSafe(|| <ParamsKZG<SymE> as Params>::downsize(&mut down, kp)));
    match r {
        Ok(()) => {
            let mk = catch_unwind(AssertUnwindSafe(|| down.max_k()));
            out["down"] = dump(&down);
            out["down"]["status"] = json!("ok");
            out["down"]["max_k"] = match mk {
                Ok(v) => json!(v),
                Err(p) => json!(format!("panic: {}", panic_msg(p))),
            };
        }
        Err(p) => {
            // state after the refusal (is the object left untouched?)
            let d = catch_unwind(AssertUnwindSafe(|| dump(&down)));
            out["down"] = json!({"status": "panic", "msg": panic_msg(p), "after": d.ok()});
        }
    }

    // parameters derived for k' from the same secret: (1) the setup itself, (2) the public constructor that
    // derives the Lagrange basis from the monomial basis
    let fr = catch_unwind(AssertUnwindSafe(|| setup(kp)));
    out["fresh"] = match fr {
        Ok(p) => {
            let mut d = dump(&p);
            d["status"] = json!("ok");
            d
        }
        Err(p) => json!({"status": "panic", "msg": panic_msg(p)}),
    };
    let np = 1usize.checked_shl(kp).unwrap_or(usize::MAX);
    if np <= (1usize << k) {
        let gs: Vec<Exp<1>> = {
            // the monomial basis of the original parameters, as write_custom emitted it
            let d = dump(&orig);
            d["g"].as_array().unwrap()[..np]
                .iter()
                .map(|i| {
                    let i = i.as_u64().unwrap() as u32;
                    let n = { ARENA.lock().unwrap().nodes[i as usize].clone() };
                    Exp(match n {
                        Node::Const(c) => SymF::C(c),
                        _ => SymF::T(i),
                    })
                })
                .collect()
        };
        let fp = catch_unwind(AssertUnwindSafe(|| ParamsKZG::<SymE>::from_parts(kp, gs, None, orig.g2(), orig.s_g2())));
        out["parts"] = match fp {
            Ok(p) => {
                let mut d = dump(&p);
                d["status"] = json!("ok");
                d
            }
            Err(p) => json!({"status": "panic", "msg": panic_msg(p)}),
        };
    }
    let _ = std::panic::take_hook();
    out["arena"] = dump_arena();
    out
}
