//! SymF: a term-building field. Handles into a global hash-consed DAG
//! (Const | Var | Add | Mul | Neg | Inv); constants are folded with real Fq arithmetic.
//!
//! Semantics of a run on SymF: every value is a term over the variables; every branch that the
//! executed code took on a comparison of two structurally different terms is recorded as a path
//! condition (`a != b`, `t != 0` for inversions). A result is therefore "for all values of the
//! variables that satisfy the recorded path conditions".
use core::iter::{Product, Sum};
use core::ops::{Add, AddAssign, Mul, MulAssign, Neg, Sub, SubAssign};
use std::cmp::Ordering;
use std::collections::{HashMap, HashSet};
use std::sync::Mutex;

use ff::{Field, FromUniformBytes, PrimeField, WithSmallOrderMulGroup};
use midnight_curves::Fq;
use rand_core::RngCore;
use subtle::{Choice, ConditionallySelectable, ConstantTimeEq, CtOption};

#[derive(Clone, Debug, PartialEq, Eq, Hash)]
pub enum Node {
    Const(Fq),
    Var(String),
    Add(u32, u32),
    Mul(u32, u32),
    Neg(u32),
    Inv(u32),
}

#[derive(Clone, Debug, PartialEq, Eq, Hash)]
pub enum PathCond {
    /// the two terms were compared and found structurally different: path assumes a != b
    Ne(u32, u32),
    /// the term was inverted: path assumes t != 0
    NonZero(u32),
}

#[derive(Default)]
pub struct Arena {
    pub nodes: Vec<Node>,
    pub intern: HashMap<Node, u32>,
    pub counters: HashMap<String, u32>,
    pub path: Vec<PathCond>,
    pub path_set: HashSet<PathCond>,
    /// concrete mode: every variable is replaced by a constant (replay of a solver model on the
    /// same real code). Variables not listed get `default_of(name)`.
    pub concrete: Option<HashMap<String, Fq>>,
    pub var_order: Vec<String>,
    /// number of value-order comparisons that involved a non-constant (structural order was used)
    pub ord_symbolic: u64,
}

lazy_static::lazy_static! {
    pub static ref ARENA: Mutex<Arena> = Mutex::new(Arena::default());
}

#[derive(Clone, Copy, Debug, Hash)]
pub enum SymF {
    C(Fq),
    T(u32),
}

impl Default for SymF {
    fn default() -> Self {
        SymF::C(Fq::ZERO)
    }
}

fn mk(n: Node) -> u32 {
    let mut a = ARENA.lock().unwrap();
    if let Some(i) = a.intern.get(&n) {
        return *i;
    }
    let i = a.nodes.len() as u32;
    a.nodes.push(n.clone());
    a.intern.insert(n, i);
    i
}

/// Deterministic default value of an unlisted variable in concrete mode.
pub fn default_of(name: &str) -> Fq {
    let h = blake2b_simd::Params::new().hash_length(64).personal(b"verif-sx-default").hash(name.as_bytes());
    let mut b = [0u8; 64];
    b.copy_from_slice(h.as_bytes());
    Fq::from_uniform_bytes(&b)
}

pub fn var(name: &str) -> SymF {
    {
        let mut a = ARENA.lock().unwrap();
        if !a.var_order.iter().any(|v| v == name) {
            a.var_order.push(name.to_string());
        }
        if let Some(m) = &a.concrete {
            return SymF::C(m.get(name).copied().unwrap_or_else(|| default_of(name)));
        }
    }
    SymF::T(mk(Node::Var(name.to_string())))
}

/// A fresh variable `<prefix><k>`, k counting per prefix (deterministic for a deterministic run).
pub fn fresh(prefix: &str) -> SymF {
    let k = {
        let mut a = ARENA.lock().unwrap();
        let c = a.counters.entry(prefix.to_string()).or_insert(0);
        *c += 1;
        *c
    };
    var(&format!("{prefix}{k}"))
}

/// Arena id of a value (constants get a Const node).
pub fn id(x: SymF) -> u32 {
    match x {
        SymF::T(i) => i,
        SymF::C(c) => mk(Node::Const(c)),
    }
}

fn push_path(p: PathCond) {
    let mut a = ARENA.lock().unwrap();
    if a.path_set.insert(p.clone()) {
        a.path.push(p);
    }
}

impl SymF {
    pub fn is_const(&self) -> bool {
        matches!(self, SymF::C(_))
    }
    pub fn add_(self, o: SymF) -> SymF {
        match (self, o) {
            (SymF::C(a), SymF::C(b)) => SymF::C(a + b),
            (SymF::C(a), t) | (t, SymF::C(a)) if a == Fq::ZERO => t,
            (a, b) => {
                let (x, y) = (id(a), id(b));
                SymF::T(mk(Node::Add(x.min(y), x.max(y))))
            }
        }
    }
    pub fn mul_(self, o: SymF) -> SymF {
        match (self, o) {
            (SymF::C(a), SymF::C(b)) => SymF::C(a * b),
            (SymF::C(a), _) | (_, SymF::C(a)) if a == Fq::ZERO => SymF::C(Fq::ZERO),
            (SymF::C(a), t) | (t, SymF::C(a)) if a == Fq::ONE => t,
            (a, b) => {
                let (x, y) = (id(a), id(b));
                SymF::T(mk(Node::Mul(x.min(y), x.max(y))))
            }
        }
    }
    pub fn neg_(self) -> SymF {
        match self {
            SymF::C(a) => SymF::C(-a),
            SymF::T(i) => {
                let inner = { ARENA.lock().unwrap().nodes[i as usize].clone() };
                if let Node::Neg(j) = inner {
                    SymF::T(j)
                } else {
                    SymF::T(mk(Node::Neg(i)))
                }
            }
        }
    }
    fn same(&self, o: &SymF) -> bool {
        match (self, o) {
            (SymF::C(a), SymF::C(b)) => a == b,
            (SymF::T(a), SymF::T(b)) => a == b,
            _ => false,
        }
    }
    /// Equality test as the executed code sees it: structural; a negative answer on a
    /// non-constant pair is a branch and is recorded.
    fn eq_rec(&self, o: &SymF) -> bool {
        let e = self.same(o);
        if !e && !(self.is_const() && o.is_const()) {
            let (x, y) = (id(*self), id(*o));
            push_path(PathCond::Ne(x.min(y), x.max(y)));
        }
        e
    }
}

impl PartialEq for SymF {
    fn eq(&self, o: &Self) -> bool {
        self.eq_rec(o)
    }
}
impl Eq for SymF {}

impl PartialOrd for SymF {
    fn partial_cmp(&self, o: &Self) -> Option<Ordering> {
        Some(self.cmp(o))
    }
}
impl Ord for SymF {
    /// Value order on constants; on anything else a fixed structural total order (consistent with
    /// structural equality). Such comparisons are counted: code whose *result* depends on the value
    /// order of non-constants is outside what a SymF run establishes.
    fn cmp(&self, o: &Self) -> Ordering {
        match (self, o) {
            (SymF::C(a), SymF::C(b)) => a.cmp(b),
            (SymF::C(_), SymF::T(_)) => {
                ARENA.lock().unwrap().ord_symbolic += 1;
                Ordering::Less
            }
            (SymF::T(_), SymF::C(_)) => {
                ARENA.lock().unwrap().ord_symbolic += 1;
                Ordering::Greater
            }
            (SymF::T(a), SymF::T(b)) => {
                if a != b {
                    ARENA.lock().unwrap().ord_symbolic += 1;
                }
                a.cmp(b)
            }
        }
    }
}

impl ConstantTimeEq for SymF {
    fn ct_eq(&self, o: &Self) -> Choice {
        Choice::from(self.eq_rec(o) as u8)
    }
}
impl ConditionallySelectable for SymF {
    fn conditional_select(a: &Self, b: &Self, c: Choice) -> Self {
        if bool::from(c) {
            *b
        } else {
            *a
        }
    }
}

macro_rules! binop {
    ($tr:ident, $f:ident, $atr:ident, $af:ident, $e:expr) => {
        impl $tr for SymF {
            type Output = SymF;
            fn $f(self, o: SymF) -> SymF {
                let f: fn(SymF, SymF) -> SymF = $e;
                f(self, o)
            }
        }
        impl<'a> $tr<&'a SymF> for SymF {
            type Output = SymF;
            fn $f(self, o: &'a SymF) -> SymF {
                let f: fn(SymF, SymF) -> SymF = $e;
                f(self, *o)
            }
        }
        impl $atr for SymF {
            fn $af(&mut self, o: SymF) {
                let f: fn(SymF, SymF) -> SymF = $e;
                *self = f(*self, o)
            }
        }
        impl<'a> $atr<&'a SymF> for SymF {
            fn $af(&mut self, o: &'a SymF) {
                let f: fn(SymF, SymF) -> SymF = $e;
                *self = f(*self, *o)
            }
        }
    };
}
binop!(Add, add, AddAssign, add_assign, |a, b| a.add_(b));
binop!(Sub, sub, SubAssign, sub_assign, |a, b| a.add_(b.neg_()));
binop!(Mul, mul, MulAssign, mul_assign, |a, b| a.mul_(b));
impl Neg for SymF {
    type Output = SymF;
    fn neg(self) -> SymF {
        self.neg_()
    }
}
impl Sum for SymF {
    fn sum<I: Iterator<Item = SymF>>(i: I) -> SymF {
        i.fold(SymF::ZERO, |a, b| a + b)
    }
}
impl<'a> Sum<&'a SymF> for SymF {
    fn sum<I: Iterator<Item = &'a SymF>>(i: I) -> SymF {
        i.fold(SymF::ZERO, |a, b| a + *b)
    }
}
impl Product for SymF {
    fn product<I: Iterator<Item = SymF>>(i: I) -> SymF {
        i.fold(SymF::ONE, |a, b| a * b)
    }
}
impl<'a> Product<&'a SymF> for SymF {
    fn product<I: Iterator<Item = &'a SymF>>(i: I) -> SymF {
        i.fold(SymF::ONE, |a, b| a * *b)
    }
}

impl Field for SymF {
    const ZERO: Self = SymF::C(Fq::ZERO);
    const ONE: Self = SymF::C(Fq::ONE);
    fn random(_: impl RngCore) -> Self {
        fresh("rnd")
    }
    fn square(&self) -> Self {
        *self * *self
    }
    fn double(&self) -> Self {
        *self + *self
    }
    fn invert(&self) -> CtOption<Self> {
        match self {
            SymF::C(c) => c.invert().map(SymF::C),
            SymF::T(i) => {
                push_path(PathCond::NonZero(*i));
                CtOption::new(SymF::T(mk(Node::Inv(*i))), Choice::from(1))
            }
        }
    }
    fn sqrt_ratio(_: &Self, _: &Self) -> (Choice, Self) {
        unimplemented!("concretisation: sqrt_ratio on SymF")
    }
}
impl From<u64> for SymF {
    fn from(v: u64) -> Self {
        SymF::C(Fq::from(v))
    }
}
impl From<Fq> for SymF {
    fn from(v: Fq) -> Self {
        SymF::C(v)
    }
}
impl PrimeField for SymF {
    type Repr = <Fq as PrimeField>::Repr;
    fn from_repr(r: Self::Repr) -> CtOption<Self> {
        Fq::from_repr(r).map(SymF::C)
    }
    fn to_repr(&self) -> Self::Repr {
        match self {
            SymF::C(c) => c.to_repr(),
            t => panic!("concretisation: to_repr({:?})", t),
        }
    }
    fn is_odd(&self) -> Choice {
        match self {
            SymF::C(c) => c.is_odd(),
            t => panic!("concretisation: is_odd({:?})", t),
        }
    }
    const MODULUS: &'static str = <Fq as PrimeField>::MODULUS;
    const NUM_BITS: u32 = Fq::NUM_BITS;
    const CAPACITY: u32 = Fq::CAPACITY;
    const TWO_INV: Self = SymF::C(Fq::TWO_INV);
    const MULTIPLICATIVE_GENERATOR: Self = SymF::C(Fq::MULTIPLICATIVE_GENERATOR);
    const S: u32 = Fq::S;
    const ROOT_OF_UNITY: Self = SymF::C(Fq::ROOT_OF_UNITY);
    const ROOT_OF_UNITY_INV: Self = SymF::C(Fq::ROOT_OF_UNITY_INV);
    const DELTA: Self = SymF::C(Fq::DELTA);
}
impl WithSmallOrderMulGroup<3> for SymF {
    const ZETA: Self = SymF::C(<Fq as WithSmallOrderMulGroup<3>>::ZETA);
}
impl FromUniformBytes<64> for SymF {
    fn from_uniform_bytes(b: &[u8; 64]) -> Self {
        SymF::C(Fq::from_uniform_bytes(b))
    }
}

pub fn fq_hex(c: &Fq) -> String {
    let r = c.to_repr();
    let b: &[u8] = r.as_ref();
    let mut s = String::from("0x");
    let mut started = false;
    for x in b.iter().rev() {
        if !started && *x == 0 {
            continue;
        }
        if !started {
            s.push_str(&format!("{:x}", x));
            started = true;
        } else {
            s.push_str(&format!("{:02x}", x));
        }
    }
    if !started {
        s.push('0');
    }
    s
}

pub fn fq_from_hex(s: &str) -> Fq {
    let s = s.trim_start_matches("0x");
    let mut bytes = [0u8; 32];
    let s = format!("{:0>64}", s);
    for i in 0..32 {
        bytes[31 - i] = u8::from_str_radix(&s[2 * i..2 * i + 2], 16).expect("hex");
    }
    let mut r = <Fq as PrimeField>::Repr::default();
    r.as_mut().copy_from_slice(&bytes);
    Option::<Fq>::from(Fq::from_repr(r)).expect("canonical field element")
}

/// JSON of the whole arena: nodes, path conditions, counters.
pub fn dump_arena() -> serde_json::Value {
    let a = ARENA.lock().unwrap();
    let nodes: Vec<serde_json::Value> = a
        .nodes
        .iter()
        .map(|n| match n {
            Node::Const(c) => serde_json::json!(["c", fq_hex(c)]),
            Node::Var(v) => serde_json::json!(["v", v]),
            Node::Add(x, y) => serde_json::json!(["a", x, y]),
            Node::Mul(x, y) => serde_json::json!(["m", x, y]),
            Node::Neg(x) => serde_json::json!(["n", x]),
            Node::Inv(x) => serde_json::json!(["i", x]),
        })
        .collect();
    let path: Vec<serde_json::Value> = a
        .path
        .iter()
        .map(|p| match p {
            PathCond::Ne(x, y) => serde_json::json!(["ne", x, y]),
            PathCond::NonZero(x) => serde_json::json!(["nz", x]),
        })
        .collect();
    serde_json::json!({"nodes": nodes, "path": path, "ord_symbolic": a.ord_symbolic, "vars": a.var_order,
                       "concrete": a.concrete.is_some()})
}

/// JSON value of a field element: arena id (symbolic mode) — constants are interned as Const nodes.
pub fn jid(x: SymF) -> serde_json::Value {
    serde_json::json!(id(x))
}
