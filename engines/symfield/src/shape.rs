//! A parametrised circuit family ("shapes"), generic over the field so that the same circuit runs
//! at SymF (symbolic execution) and at Fq (replay with KZG + Blake2b).
//!
//! Shape JSON (all indices are column indices within their kind):
//! {"adv":[phase,...], "unbl":[col,...], "nfix":N, "ninst":N, "chal":[phase,...], "mindeg":D,
//!  "gates":[{"sel":"mul"|"cmul"|"add"|"none","cons":[{"prods":[[atom,...],...],"out":atom|null}]}],
//!  "lookups":[{"pairs":[[[atom..],[atom..]],...]}],
//!  "eq":[["a",c]|["i",c]|["f",c]...], "const_col":bool,
//!  "copies":[["eq",c1,c2]|["inst",c,icol,irow]|["const",c,val]
//!            |["eqr",c1,r1,c2,r2]|["instr",c,r,icol,irow]|["constr",c,r,val]|["fixr",c,r,fcol,frow]]}
//! atom = ["a",col,rot] | ["f",col,rot] | ["i",col,rot] | ["c",idx] | ["k",small_int]
//! constraint polynomial = sum_of_products - out.
//!
//! STATIC lookup tables (C02_S / C02_S2 static-table family; all keys optional):
//!  "tables":[{"rows":[[v,..],..]} | {"ncols":c,"len_from_usable":-1}]   one `meta.lookup_table_column()` per table column
//!            (allocated after every other fixed column, tables in declared order), contents assigned through
//!            `layouter.assign_table(.., |t| t.assign_cell(.., column, offset, || Value::known(v)))`; "len_from_usable":d
//!            = a table of (usable rows + d) rows with values row i, column j -> i + 1 + 10 j (resolved by `Shape::resolve`)
//!  "assign_order":[t,..]  order of the assign_table calls (default: declared order)
//!  "slookups":[{"table":t,"sel":"none"|"mux"|"mul","rows":E,"inputs":[[[atom..],..],..]}]   `meta.lookup(name, ..)`:
//!            one input per table column, input = sum of products of atoms whose FIRST product is a single advice atom
//!            at rotation 0 (the cell the honest witness solves for); "mux": q*in + (1-q)*d with q a complex selector of
//!            its own and d the table's first row, "mul": q*in, "none": in (then every usable row is assigned and the
//!            input columns must not be used by anything else). Enabled rows: E rows starting at `slookup_base`.
//!  "lkcheat":[l,[dec,..]]  witness only: on its first enabled row static lookup l looks the given tuple up
use std::collections::BTreeMap;

use ff::PrimeField;
use midnight_proofs::{
    circuit::{Layouter, SimpleFloorPlanner, Value},
    plonk::{
        Advice, Challenge, Circuit, Column, ConstraintSystem, Constraints, Error, Expression, FirstPhase, Fixed,
        Instance, SecondPhase, Selector, TableColumn, ThirdPhase,
    },
    poly::Rotation,
};
use serde_json::Value as J;

#[derive(Clone, Debug, PartialEq)]
pub enum Atom {
    A(usize, i32),
    F(usize, i32),
    I(usize, i32),
    C(usize),
    K(u64),
}
#[derive(Clone, Debug)]
pub struct Cons {
    pub prods: Vec<Vec<Atom>>,
    pub out: Option<Atom>,
    /// expression-shape family (exprfam.rs): the polynomial is wrap(tree, out) instead of sum_of_products - out
    pub expr: Option<(crate::exprfam::Tree, String)>,
}
#[derive(Clone, Debug)]
pub struct GateD {
    pub sel: String,
    pub cons: Vec<Cons>,
}
#[derive(Clone, Debug)]
pub enum Copy {
    Eq(usize, usize),
    Inst(usize, usize, usize),
    Const(usize, u64),
    /// explicit absolute rows (the single region starts at row 0):
    /// advice (c1,r1) == advice (c2,r2)   (same cell allowed: a cell copied onto itself)
    EqR(usize, usize, usize, usize),
    /// advice (c,r) tied to instance (icol, irow) through constrain_instance
    InstR(usize, usize, usize, usize),
    /// advice (c,r) tied to a constant through constrain_constant
    ConstR(usize, usize, u64),
    /// advice (c,r) == fixed (fcol, frow)   (the fixed column must be in `eq`)
    FixR(usize, usize, usize, usize),
}
/// a static lookup table (TableColumn columns, assign_table)
#[derive(Clone, Debug, Default)]
pub struct TableD {
    pub ncols: usize,
    pub rows: Vec<Vec<u64>>,
    pub len_from_usable: Option<i64>,
}
/// a lookup into a static table
#[derive(Clone, Debug, Default)]
pub struct SLookup {
    pub table: usize,
    pub sel: String,
    pub nrows: usize,
    pub inputs: Vec<Vec<Vec<Atom>>>,
}
#[derive(Clone, Debug, Default)]
pub struct Shape {
    pub adv: Vec<u8>,
    pub unbl: Vec<usize>,
    pub nfix: usize,
    pub ninst: usize,
    pub chal: Vec<u8>,
    pub mindeg: usize,
    pub gates: Vec<GateD>,
    pub lookups: Vec<Vec<(Vec<Atom>, Vec<Atom>)>>,
    pub eq: Vec<(char, usize)>,
    pub const_col: bool,
    pub copies: Vec<Copy>,
    pub tables: Vec<TableD>,
    pub assign_order: Vec<usize>,
    pub slookups: Vec<SLookup>,
    /// number of usable rows (filled by `resolve`; needed by "sel":"none" lookups and "len_from_usable" tables)
    pub urows: usize,
    pub lkcheat: Option<(usize, Vec<String>)>,
}

fn atom(j: &J) -> Atom {
    let a = j.as_array().expect("atom");
    let t = a[0].as_str().unwrap();
    let n = |i: usize| a[i].as_i64().unwrap();
    match t {
        "a" => Atom::A(n(1) as usize, n(2) as i32),
        "f" => Atom::F(n(1) as usize, n(2) as i32),
        "i" => Atom::I(n(1) as usize, n(2) as i32),
        "c" => Atom::C(n(1) as usize),
        "k" => Atom::K(n(1) as u64),
        _ => panic!("atom kind {t}"),
    }
}
fn atoms(j: &J) -> Vec<Atom> {
    j.as_array().unwrap().iter().map(atom).collect()
}
impl Shape {
    pub fn from_json(j: &J) -> Shape {
        let us = |k: &str| j.get(k).and_then(|v| v.as_u64()).unwrap_or(0) as usize;
        let arr = |k: &str| j.get(k).and_then(|v| v.as_array()).cloned().unwrap_or_default();
        Shape {
            adv: arr("adv").iter().map(|v| v.as_u64().unwrap() as u8).collect(),
            unbl: arr("unbl").iter().map(|v| v.as_u64().unwrap() as usize).collect(),
            nfix: us("nfix"),
            ninst: us("ninst"),
            chal: arr("chal").iter().map(|v| v.as_u64().unwrap() as u8).collect(),
            mindeg: us("mindeg"),
            gates: arr("gates")
                .iter()
                .map(|g| GateD {
                    sel: g["sel"].as_str().unwrap().to_string(),
                    cons: g["cons"]
                        .as_array()
                        .unwrap()
                        .iter()
                        .map(|c| Cons {
                            prods: c.get("prods").and_then(|p| p.as_array()).map(|p| p.iter().map(atoms).collect()).unwrap_or_default(),
                            out: c.get("out").filter(|o| !o.is_null()).map(atom),
                            expr: c.get("expr").filter(|o| !o.is_null()).map(|t| {
                                (crate::exprfam::Tree::from_json(t), c.get("wrap").and_then(|w| w.as_str()).unwrap_or("E-o").to_string())
                            }),
                        })
                        .collect(),
                })
                .collect(),
            lookups: arr("lookups")
                .iter()
                .map(|l| l["pairs"].as_array().unwrap().iter().map(|p| (atoms(&p[0]), atoms(&p[1]))).collect())
                .collect(),
            eq: arr("eq")
                .iter()
                .map(|e| (e[0].as_str().unwrap().chars().next().unwrap(), e[1].as_u64().unwrap() as usize))
                .collect(),
            const_col: j.get("const_col").and_then(|v| v.as_bool()).unwrap_or(false),
            copies: arr("copies")
                .iter()
                .map(|c| {
                    let n = |i: usize| c[i].as_u64().unwrap();
                    match c[0].as_str().unwrap() {
                        "eq" => Copy::Eq(n(1) as usize, n(2) as usize),
                        "inst" => Copy::Inst(n(1) as usize, n(2) as usize, n(3) as usize),
                        "const" => Copy::Const(n(1) as usize, n(2)),
                        "eqr" => Copy::EqR(n(1) as usize, n(2) as usize, n(3) as usize, n(4) as usize),
                        "instr" => Copy::InstR(n(1) as usize, n(2) as usize, n(3) as usize, n(4) as usize),
                        "constr" => Copy::ConstR(n(1) as usize, n(2) as usize, n(3)),
                        "fixr" => Copy::FixR(n(1) as usize, n(2) as usize, n(3) as usize, n(4) as usize),
                        k => panic!("copy kind {k}"),
                    }
                })
                .collect(),
            tables: arr("tables")
                .iter()
                .map(|t| {
                    let rows: Vec<Vec<u64>> = t
                        .get("rows")
                        .and_then(|r| r.as_array())
                        .map(|r| r.iter().map(|row| row.as_array().unwrap().iter().map(|v| v.as_u64().unwrap()).collect()).collect())
                        .unwrap_or_default();
                    let ncols = t.get("ncols").and_then(|v| v.as_u64()).map(|v| v as usize).unwrap_or_else(|| rows[0].len());
                    TableD { ncols, rows, len_from_usable: t.get("len_from_usable").and_then(|v| v.as_i64()) }
                })
                .collect(),
            assign_order: arr("assign_order").iter().map(|v| v.as_u64().unwrap() as usize).collect(),
            slookups: arr("slookups")
                .iter()
                .map(|l| SLookup {
                    table: l["table"].as_u64().unwrap() as usize,
                    sel: l.get("sel").and_then(|v| v.as_str()).unwrap_or("none").to_string(),
                    nrows: l.get("rows").and_then(|v| v.as_u64()).unwrap_or(1) as usize,
                    inputs: l["inputs"].as_array().unwrap().iter().map(|inp| inp.as_array().unwrap().iter().map(atoms).collect()).collect(),
                })
                .collect(),
            urows: us("urows"),
            lkcheat: j.get("lkcheat").filter(|v| !v.is_null()).map(|v| {
                (v[0].as_u64().unwrap() as usize, v[1].as_array().unwrap().iter().map(|x| x.as_str().map(|s| s.to_string()).unwrap_or_else(|| x.to_string())).collect())
            }),
        }
    }
    /// Fill in what depends on the number of usable rows (n - (blinding_factors + 1), blinding_factors taken from
    /// the real ConstraintSystem of this very shape): `urows` and the contents of "len_from_usable" tables.
    pub fn resolve(&mut self, k: u32) {
        if self.tables.is_empty() {
            return;
        }
        let mut cs = ConstraintSystem::<midnight_curves::Fq>::default();
        let _ = ShapeCircuit::<midnight_curves::Fq>::configure_with_params(&mut cs, self.clone());
        let n = 1usize << k;
        self.urows = n.saturating_sub(cs.blinding_factors() + 1);
        for t in self.tables.iter_mut() {
            if let Some(d) = t.len_from_usable {
                let len = (self.urows as i64 + d).max(1) as usize;
                t.rows = (0..len).map(|i| (0..t.ncols).map(|j| (i + 1 + 10 * j) as u64).collect()).collect();
            }
        }
    }
    /// first enabled row of static lookup l ("mux"/"mul"; a "none" lookup is enabled on every row)
    pub fn slookup_base(&self, l: usize) -> usize {
        let mut base = 3 * self.gates.len() + self.copies.len() + 1;
        for p in self.slookups[..l].iter().filter(|p| p.sel != "none") {
            base += p.nrows + 2;
        }
        base
    }
    /// rows on which the witness of static lookup l makes its input a table row
    pub fn slookup_rows(&self, l: usize) -> Vec<usize> {
        if self.slookups[l].sel == "none" {
            (0..self.urows).collect()
        } else {
            let b = self.slookup_base(l);
            (b..b + self.slookups[l].nrows).collect()
        }
    }
    pub fn gate_base(&self, g: usize) -> usize {
        1 + 3 * g
    }
    pub fn copy_row(&self, i: usize) -> usize {
        3 * self.gates.len() + i
    }
}

#[derive(Clone, Debug)]
pub struct Cfg {
    pub shape: Shape,
    pub adv: Vec<Column<Advice>>,
    pub fix: Vec<Column<Fixed>>,
    pub inst: Vec<Column<Instance>>,
    pub chal: Vec<Challenge>,
    pub sels: Vec<Option<Selector>>,
    pub const_col: Option<Column<Fixed>>,
    /// static tables: the TableColumns of every table; the selector of every static lookup
    pub tcols: Vec<Vec<TableColumn>>,
    pub lsels: Vec<Option<Selector>>,
}

/// The circuit. `gen` yields the free witness value of an advice cell (proof index, column, row);
/// `None` = keygen (no witness). `inst` = the values of ALL instance columns (committed first).
#[derive(Clone)]
pub struct ShapeCircuit<F: PrimeField> {
    pub shape: Shape,
    pub proof_idx: usize,
    pub gen: Option<fn(usize, usize, usize) -> F>,
    pub inst: Vec<Vec<F>>,
    /// index of a copy entry whose tie the witness VIOLATES (value off by one): replay of a dropped copy constraint
    pub cheat: Option<usize>,
}

pub fn fixed_value<F: PrimeField>(col: usize, row: usize) -> F {
    F::from((col * 7 + row + 2) as u64)
}

fn expr_of<F: PrimeField>(
    m: &mut midnight_proofs::plonk::VirtualCells<'_, F>,
    a: &Atom,
    adv: &[Column<Advice>],
    fix: &[Column<Fixed>],
    inst: &[Column<Instance>],
    chal: &[Challenge],
) -> Expression<F> {
    match a {
        Atom::A(c, r) => m.query_advice(adv[*c], Rotation(*r)),
        Atom::F(c, r) => m.query_fixed(fix[*c], Rotation(*r)),
        Atom::I(c, r) => m.query_instance(inst[*c], Rotation(*r)),
        Atom::C(i) => m.query_challenge(chal[*i]),
        Atom::K(k) => Expression::Constant(F::from(*k)),
    }
}
fn prod_expr<F: PrimeField>(
    m: &mut midnight_proofs::plonk::VirtualCells<'_, F>,
    p: &[Atom],
    adv: &[Column<Advice>],
    fix: &[Column<Fixed>],
    inst: &[Column<Instance>],
    chal: &[Challenge],
) -> Expression<F> {
    let mut it = p.iter();
    let mut e = expr_of(m, it.next().expect("empty product"), adv, fix, inst, chal);
    for a in it {
        e = e * expr_of(m, a, adv, fix, inst, chal);
    }
    e
}

impl<F: PrimeField> Circuit<F> for ShapeCircuit<F> {
    type Config = Cfg;
    type FloorPlanner = SimpleFloorPlanner;
    type Params = Shape;

    fn without_witnesses(&self) -> Self {
        ShapeCircuit { shape: self.shape.clone(), proof_idx: self.proof_idx, gen: None, inst: vec![], cheat: None }
    }
    fn params(&self) -> Shape {
        self.shape.clone()
    }
    fn configure(_: &mut ConstraintSystem<F>) -> Cfg {
        unreachable!("configure_with_params is used")
    }
    fn configure_with_params(meta: &mut ConstraintSystem<F>, s: Shape) -> Cfg {
        let adv: Vec<Column<Advice>> = s
            .adv
            .iter()
            .enumerate()
            .map(|(i, ph)| {
                let un = s.unbl.contains(&i);
                match (ph, un) {
                    (0, false) => meta.advice_column_in(FirstPhase),
                    (1, false) => meta.advice_column_in(SecondPhase),
                    (2, false) => meta.advice_column_in(ThirdPhase),
                    (0, true) => meta.unblinded_advice_column_in(FirstPhase),
                    (1, true) => meta.unblinded_advice_column_in(SecondPhase),
                    (2, true) => meta.unblinded_advice_column_in(ThirdPhase),
                    _ => panic!("phase"),
                }
            })
            .collect();
        let fix: Vec<Column<Fixed>> = (0..s.nfix).map(|_| meta.fixed_column()).collect();
        let inst: Vec<Column<Instance>> = (0..s.ninst).map(|_| meta.instance_column()).collect();
        let chal: Vec<Challenge> = s
            .chal
            .iter()
            .map(|ph| match ph {
                0 => meta.challenge_usable_after(FirstPhase),
                1 => meta.challenge_usable_after(SecondPhase),
                2 => meta.challenge_usable_after(ThirdPhase),
                _ => panic!("phase"),
            })
            .collect();
        let const_col = if s.const_col {
            let c = meta.fixed_column();
            meta.enable_constant(c);
            Some(c)
        } else {
            None
        };
        for (k, c) in s.eq.iter() {
            match k {
                'a' => meta.enable_equality(adv[*c]),
                'i' => meta.enable_equality(inst[*c]),
                'f' => meta.enable_equality(fix[*c]),
                _ => panic!("eq kind"),
            }
        }
        if s.mindeg > 0 {
            meta.set_minimum_degree(s.mindeg);
        }
        let mut sels = vec![];
        for g in s.gates.iter() {
            let sel = match g.sel.as_str() {
                "mul" => Some(meta.selector()),
                "cmul" | "add" => Some(meta.complex_selector()),
                "none" => None,
                k => panic!("selector kind {k}"),
            };
            sels.push(sel);
            let (adv, fix, inst, chal) = (&adv, &fix, &inst, &chal);
            meta.create_gate("g", |m| {
                let polys: Vec<Expression<F>> = g
                    .cons
                    .iter()
                    .map(|c| {
                        if let Some((tree, mode)) = &c.expr {
                            // expression-shape family: the tree goes through the real operator overloads / enum nodes
                            let o = expr_of(m, c.out.as_ref().expect("expr constraint needs an out cell"), adv, fix, inst, chal);
                            let m = std::cell::RefCell::new(&mut *m);
                            let e = tree.build(
                                &mut |a| expr_of(&mut **m.borrow_mut(), a, adv, fix, inst, chal),
                                &mut || m.borrow_mut().query_selector(sel.expect("[\"q\"] needs a gate selector")),
                            );
                            return crate::exprfam::wrap(mode, e, o);
                        }
                        let mut it = c.prods.iter();
                        let mut e = prod_expr(m, it.next().expect("no product"), adv, fix, inst, chal);
                        for p in it {
                            e = e + prod_expr(m, p, adv, fix, inst, chal);
                        }
                        if let Some(o) = &c.out {
                            e = e - expr_of(m, o, adv, fix, inst, chal);
                        }
                        e
                    })
                    .collect();
                match (g.sel.as_str(), sel) {
                    ("mul", Some(s)) | ("cmul", Some(s)) => Constraints::with_selector(s, polys),
                    ("add", Some(s)) => Constraints::with_additive_selector(s, polys),
                    _ => Constraints::without_selector(polys),
                }
            });
        }
        for (li, l) in s.lookups.iter().enumerate() {
            let (adv, fix, inst, chal) = (&adv, &fix, &inst, &chal);
            let name = format!("lk{li}");
            meta.lookup_any(name, |m| {
                l.iter()
                    .map(|(i, t)| (prod_expr(m, i, adv, fix, inst, chal), prod_expr(m, t, adv, fix, inst, chal)))
                    .collect()
            });
        }
        // static tables: columns after every other fixed column; then the lookups into them
        let tcols: Vec<Vec<TableColumn>> = s.tables.iter().map(|t| (0..t.ncols).map(|_| meta.lookup_table_column()).collect()).collect();
        let mut lsels = vec![];
        for (li, l) in s.slookups.iter().enumerate() {
            let q = match l.sel.as_str() {
                "mux" | "mul" => Some(meta.complex_selector()),
                "none" => None,
                k => panic!("static lookup selector kind {k}"),
            };
            lsels.push(q);
            let (adv, fix, inst, chal) = (&adv, &fix, &inst, &chal);
            let t = &s.tables[l.table];
            let cols = &tcols[l.table];
            assert_eq!(l.inputs.len(), t.ncols, "one input per table column");
            meta.lookup(format!("slk{li}"), |m| {
                l.inputs
                    .iter()
                    .enumerate()
                    .map(|(j, inp)| {
                        let mut it = inp.iter();
                        let mut e = prod_expr(m, it.next().expect("no product"), adv, fix, inst, chal);
                        for p in it {
                            e = e + prod_expr(m, p, adv, fix, inst, chal);
                        }
                        let e = match (l.sel.as_str(), q) {
                            ("mux", Some(q)) => {
                                // rows with q = 0 look the table's first row up; a "len_from_usable" table starts with 1 + 10 j
                                let d = t.rows.first().map(|r| r[j]).unwrap_or((1 + 10 * j) as u64);
                                let qe = m.query_selector(q);
                                qe.clone() * e + (Expression::Constant(F::ONE) - qe) * Expression::Constant(F::from(d))
                            }
                            ("mul", Some(q)) => m.query_selector(q) * e,
                            _ => e,
                        };
                        (e, cols[j])
                    })
                    .collect()
            });
        }
        Cfg { shape: s, adv, fix, inst, chal, sels, const_col, tcols, lsels }
    }

    fn synthesize(&self, c: Cfg, mut l: impl Layouter<F>) -> Result<(), Error> {
        let s = &c.shape;
        let chal_vals: Vec<Value<F>> = c.chal.iter().map(|ch| l.get_challenge(*ch)).collect();
        let known = self.gen.is_some();
        let pidx = self.proof_idx;
        let gen = self.gen;
        let free = |col: usize, row: usize| -> Value<F> {
            match gen {
                Some(g) => Value::known(g(pidx, col, row)),
                None => Value::unknown(),
            }
        };
        let inst_val = |col: usize, row: i64| -> Value<F> {
            if !known {
                return Value::unknown();
            }
            let v = self.inst.get(col).and_then(|v| if row >= 0 { v.get(row as usize) } else { None });
            Value::known(v.copied().unwrap_or(F::ZERO))
        };
        // 1. compute the value of every advice / fixed cell touched by the gate blocks
        let mut advice: BTreeMap<(usize, usize), Value<F>> = BTreeMap::new();
        let mut fixed: BTreeMap<(usize, usize), F> = BTreeMap::new();
        for (gi, g) in s.gates.iter().enumerate() {
            let base = s.gate_base(gi) as i64;
            for con in g.cons.iter() {
                // inputs first
                let mut tree_atoms = vec![];
                if let Some((t, _)) = &con.expr {
                    t.atoms(&mut tree_atoms);
                }
                for p in con.prods.iter().map(|p| &p[..]).chain(std::iter::once(&tree_atoms[..])) {
                    for a in p.iter() {
                        match a {
                            Atom::A(col, r) => {
                                let row = (base + *r as i64) as usize;
                                advice.entry((*col, row)).or_insert_with(|| free(*col, row));
                            }
                            Atom::F(col, r) => {
                                let row = (base + *r as i64) as usize;
                                fixed.entry((*col, row)).or_insert_with(|| fixed_value::<F>(*col, row));
                            }
                            _ => {}
                        }
                    }
                }
            }
            for con in g.cons.iter() {
                if let (Some((tree, _)), Some(Atom::A(ocol, orot))) = (&con.expr, &con.out) {
                    let v = tree.eval(&|a: &Atom| -> Value<F> {
                        match a {
                            Atom::A(col, r) => advice[&(*col, (base + *r as i64) as usize)],
                            Atom::F(col, r) => Value::known(fixed[&(*col, (base + *r as i64) as usize)]),
                            Atom::I(col, r) => inst_val(*col, base + *r as i64),
                            Atom::C(i) => chal_vals[*i],
                            Atom::K(k) => Value::known(F::from(*k)),
                        }
                    });
                    advice.insert((*ocol, (base + *orot as i64) as usize), v);
                    continue;
                }
                if let Some(Atom::A(ocol, orot)) = &con.out {
                    let mut sum = Value::known(F::ZERO);
                    for p in con.prods.iter() {
                        let mut v = Value::known(F::ONE);
                        for a in p.iter() {
                            let av: Value<F> = match a {
                                Atom::A(col, r) => advice[&(*col, (base + *r as i64) as usize)],
                                Atom::F(col, r) => Value::known(fixed[&(*col, (base + *r as i64) as usize)]),
                                Atom::I(col, r) => inst_val(*col, base + *r as i64),
                                Atom::C(i) => chal_vals[*i],
                                Atom::K(k) => Value::known(F::from(*k)),
                            };
                            v = v * av;
                        }
                        sum = sum + v;
                    }
                    let orow = (base + *orot as i64) as usize;
                    advice.insert((*ocol, orow), sum);
                }
            }
        }
        // 1b. static tables (keygen side: Assembly::assign_fixed + fill_from_row; checker side: MockProver's own)
        let order: Vec<usize> = if s.assign_order.is_empty() { (0..s.tables.len()).collect() } else { s.assign_order.clone() };
        for ti in order {
            let t = &s.tables[ti];
            let cols = &c.tcols[ti];
            l.assign_table(
                || format!("table{ti}"),
                |mut table| {
                    for (off, row) in t.rows.iter().enumerate() {
                        for (j, v) in row.iter().enumerate() {
                            table.assign_cell(|| "t", cols[j], off, || Value::known(F::from(*v)))?;
                        }
                    }
                    Ok(())
                },
            )?;
        }
        // 1c. witness of the static lookups: on every enabled row the input tuple is a table row (cycling through the
        //     table), except for the `lkcheat` tuple on the first enabled row of the named lookup
        let mut ladv: BTreeMap<(usize, usize), Value<F>> = BTreeMap::new();
        for (li, lk) in s.slookups.iter().enumerate() {
            let t = &s.tables[lk.table];
            for (e, row) in s.slookup_rows(li).into_iter().enumerate() {
                let mut target: Vec<F> = t.rows[e % t.rows.len()].iter().map(|v| F::from(*v)).collect();
                if let Some((cl, tup)) = &s.lkcheat {
                    if *cl == li && e == 0 {
                        target = tup.iter().map(|d| F::from_str_vartime(d).expect("lkcheat: decimal field element")).collect();
                    }
                }
                for (j, inp) in lk.inputs.iter().enumerate() {
                    let solved = match inp[0].as_slice() {
                        [Atom::A(col, 0)] => *col,
                        _ => panic!("static lookup input must start with a single advice atom at rotation 0"),
                    };
                    let mut rest = Value::known(F::ZERO);
                    for p in inp[1..].iter() {
                        let mut v = Value::known(F::ONE);
                        for a in p.iter() {
                            let av: Value<F> = match a {
                                Atom::A(col, r) => {
                                    let rr = (row as i64 + *r as i64) as usize;
                                    *ladv.entry((*col, rr)).or_insert_with(|| free(*col, rr))
                                }
                                Atom::K(k) => Value::known(F::from(*k)),
                                Atom::C(i) => chal_vals[*i],
                                _ => panic!("static lookup input: only advice atoms, constants and challenges"),
                            };
                            v = v * av;
                        }
                        rest = rest + v;
                    }
                    let tv = if known { Value::known(target[j]) - rest } else { Value::unknown() };
                    ladv.insert((solved, row), tv);
                }
            }
        }
        // 2. one region: gate blocks + copy rows
        let cells = l.assign_region(
            || "shape",
            |mut r| {
                for (gi, _) in s.gates.iter().enumerate() {
                    if let Some(sel) = c.sels[gi] {
                        sel.enable(&mut r, s.gate_base(gi))?;
                    }
                }
                for ((col, row), v) in fixed.iter() {
                    r.assign_fixed(|| "f", c.fix[*col], *row, || Value::known(*v))?;
                }
                for ((col, row), v) in advice.iter() {
                    r.assign_advice(|| "a", c.adv[*col], *row, || *v)?;
                }
                let mut inst_cells = vec![];
                // advice cells assigned by the explicit-row copies (each cell assigned once, then reused)
                let mut done: std::collections::HashMap<(usize, usize), midnight_proofs::circuit::Cell> = std::collections::HashMap::new();
                for (i, cp) in s.copies.iter().enumerate() {
                    let row = s.copy_row(i);
                    let bump = |v: Value<F>| if self.cheat == Some(i) { v.map(|x| x + F::ONE) } else { v };
                    match cp {
                        Copy::Eq(c1, c2) => {
                            let v = free(*c1, row);
                            let a = r.assign_advice(|| "cp", c.adv[*c1], row, || v)?;
                            let b = r.assign_advice(|| "cp", c.adv[*c2], row, || bump(v))?;
                            r.constrain_equal(a.cell(), b.cell())?;
                        }
                        Copy::Inst(c1, icol, irow) => {
                            let v = bump(inst_val(*icol, *irow as i64));
                            let a = r.assign_advice(|| "pi", c.adv[*c1], row, || v)?;
                            inst_cells.push((a.cell(), *icol, *irow));
                        }
                        Copy::Const(c1, k) => {
                            r.assign_advice_from_constant(|| "k", c.adv[*c1], row, F::from(*k))?;
                        }
                        Copy::EqR(c1, r1, c2, r2) => {
                            // one common value for every explicit-row equality cell, so that chains of such
                            // copies (classes of any size) are satisfied by the honest witness
                            let v = free(1000, 0);
                            let a = match done.get(&(*c1, *r1)) {
                                Some(cell) => *cell,
                                None => {
                                    let cell = r.assign_advice(|| "cp", c.adv[*c1], *r1, || v)?.cell();
                                    done.insert((*c1, *r1), cell);
                                    cell
                                }
                            };
                            let b = match done.get(&(*c2, *r2)) {
                                Some(cell) => *cell,
                                None => {
                                    let cell = r.assign_advice(|| "cp", c.adv[*c2], *r2, || bump(v))?.cell();
                                    done.insert((*c2, *r2), cell);
                                    cell
                                }
                            };
                            r.constrain_equal(a, b)?;
                        }
                        Copy::InstR(c1, r1, icol, irow) => {
                            let v = bump(inst_val(*icol, *irow as i64));
                            let a = match done.get(&(*c1, *r1)) {
                                Some(cell) => *cell,
                                None => {
                                    let cell = r.assign_advice(|| "pi", c.adv[*c1], *r1, || v)?.cell();
                                    done.insert((*c1, *r1), cell);
                                    cell
                                }
                            };
                            inst_cells.push((a, *icol, *irow));
                        }
                        Copy::ConstR(c1, r1, k) => {
                            let v = bump(Value::known(F::from(*k)));
                            let a = match done.get(&(*c1, *r1)) {
                                Some(cell) => *cell,
                                None => {
                                    let cell = r.assign_advice(|| "kc", c.adv[*c1], *r1, || v)?.cell();
                                    done.insert((*c1, *r1), cell);
                                    cell
                                }
                            };
                            r.constrain_constant(a, F::from(*k))?;
                        }
                        Copy::FixR(c1, r1, fcol, frow) => {
                            let fv = fixed_value::<F>(*fcol, *frow);
                            let fcell = r.assign_fixed(|| "fx", c.fix[*fcol], *frow, || Value::known(fv))?.cell();
                            let v = bump(Value::known(fv));
                            let a = match done.get(&(*c1, *r1)) {
                                Some(cell) => *cell,
                                None => {
                                    let cell = r.assign_advice(|| "fa", c.adv[*c1], *r1, || v)?.cell();
                                    done.insert((*c1, *r1), cell);
                                    cell
                                }
                            };
                            r.constrain_equal(a, fcell)?;
                        }
                    }
                }
                // static lookups: selectors and input cells
                for (li, _) in s.slookups.iter().enumerate() {
                    if let Some(q) = c.lsels[li] {
                        for row in s.slookup_rows(li) {
                            q.enable(&mut r, row)?;
                        }
                    }
                }
                for ((col, row), v) in ladv.iter() {
                    r.assign_advice(|| "lk", c.adv[*col], *row, || *v)?;
                }
                Ok(inst_cells)
            },
        )?;
        for (cell, icol, irow) in cells {
            l.constrain_instance(cell, c.inst[icol], irow)?;
        }
        Ok(())
    }
}
