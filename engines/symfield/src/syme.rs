//! SymE: a symbolic pairing engine. G1, G2, Gt are represented by their discrete logarithms over
//! SymF (`Exp<1>`, `Exp<2>`, `Exp<3>`): group addition = addition of exponents, scalar multiplication
//! = multiplication, pairing = product of exponents. The REAL generic `KZGCommitmentScheme<SymE>`
//! code then runs on it and its final pairing check becomes a polynomial identity in the exponent.
//! Methods the KZG verifier never calls are `unimplemented!()` (a call = untranslatable, reported).
use core::iter::Sum;
use core::ops::{Add, AddAssign, Mul, MulAssign, Neg, Sub, SubAssign};
use std::io::{self, Read, Write};

use ff::Field;
use group::prime::{PrimeCurve, PrimeCurveAffine, PrimeGroup};
use group::{Curve, Group, GroupEncoding, UncompressedEncoding};
use midnight_curves::pairing::{Engine, MillerLoopResult, MultiMillerLoop, PairingCurveAffine};
use midnight_curves::{Coordinates, CurveAffine, CurveExt};
use midnight_proofs::transcript::Hashable;
use midnight_proofs::utils::{helpers::ProcessedSerdeObject, SerdeFormat};
use rand_core::RngCore;
use subtle::{Choice, ConditionallySelectable, ConstantTimeEq, CtOption};

use crate::symcs::{Item, SymHash, REC, TAG_FRESH};
use crate::symf::*;

#[derive(Clone, Copy, Debug, PartialEq, Eq, Hash)]
pub struct Exp<const G: u8>(pub SymF);

impl<const G: u8> Default for Exp<G> {
    fn default() -> Self {
        Exp(SymF::ZERO)
    }
}

macro_rules! gop {
    ($tr:ident, $f:ident, $atr:ident, $af:ident, $e:expr) => {
        impl<const G: u8> $tr for Exp<G> {
            type Output = Exp<G>;
            fn $f(self, o: Exp<G>) -> Exp<G> {
                let f: fn(SymF, SymF) -> SymF = $e;
                Exp(f(self.0, o.0))
            }
        }
        impl<'a, const G: u8> $tr<&'a Exp<G>> for Exp<G> {
            type Output = Exp<G>;
            fn $f(self, o: &'a Exp<G>) -> Exp<G> {
                let f: fn(SymF, SymF) -> SymF = $e;
                Exp(f(self.0, o.0))
            }
        }
        impl<const G: u8> $atr for Exp<G> {
            fn $af(&mut self, o: Exp<G>) {
                let f: fn(SymF, SymF) -> SymF = $e;
                self.0 = f(self.0, o.0)
            }
        }
        impl<'a, const G: u8> $atr<&'a Exp<G>> for Exp<G> {
            fn $af(&mut self, o: &'a Exp<G>) {
                let f: fn(SymF, SymF) -> SymF = $e;
                self.0 = f(self.0, o.0)
            }
        }
    };
}
gop!(Add, add, AddAssign, add_assign, |a, b| a + b);
gop!(Sub, sub, SubAssign, sub_assign, |a, b| a - b);
impl<const G: u8> Neg for Exp<G> {
    type Output = Exp<G>;
    fn neg(self) -> Exp<G> {
        Exp(-self.0)
    }
}
impl<const G: u8> Mul<SymF> for Exp<G> {
    type Output = Exp<G>;
    fn mul(self, k: SymF) -> Exp<G> {
        Exp(self.0 * k)
    }
}
impl<'a, const G: u8> Mul<&'a SymF> for Exp<G> {
    type Output = Exp<G>;
    fn mul(self, k: &'a SymF) -> Exp<G> {
        Exp(self.0 * *k)
    }
}
impl<const G: u8> MulAssign<SymF> for Exp<G> {
    fn mul_assign(&mut self, k: SymF) {
        self.0 = self.0 * k
    }
}
impl<'a, const G: u8> MulAssign<&'a SymF> for Exp<G> {
    fn mul_assign(&mut self, k: &'a SymF) {
        self.0 = self.0 * *k
    }
}
impl<const G: u8> Sum for Exp<G> {
    fn sum<I: Iterator<Item = Exp<G>>>(i: I) -> Self {
        i.fold(Exp(SymF::ZERO), |a, b| a + b)
    }
}
impl<'a, const G: u8> Sum<&'a Exp<G>> for Exp<G> {
    fn sum<I: Iterator<Item = &'a Exp<G>>>(i: I) -> Self {
        i.fold(Exp(SymF::ZERO), |a, b| a + *b)
    }
}
impl<const G: u8> ConstantTimeEq for Exp<G> {
    fn ct_eq(&self, o: &Self) -> Choice {
        self.0.ct_eq(&o.0)
    }
}
impl<const G: u8> ConditionallySelectable for Exp<G> {
    fn conditional_select(a: &Self, b: &Self, c: Choice) -> Self {
        if bool::from(c) {
            *b
        } else {
            *a
        }
    }
}
impl<const G: u8> Group for Exp<G> {
    type Scalar = SymF;
    fn random(_: impl RngCore) -> Self {
        Exp(fresh("grnd"))
    }
    fn identity() -> Self {
        Exp(SymF::ZERO)
    }
    fn generator() -> Self {
        Exp(SymF::ONE)
    }
    fn is_identity(&self) -> Choice {
        self.0.ct_eq(&SymF::ZERO)
    }
    fn double(&self) -> Self {
        Exp(self.0 + self.0)
    }
}

#[derive(Clone, Copy, Debug)]
pub struct Rep(pub [u8; REC]);
impl Default for Rep {
    fn default() -> Self {
        Rep([0u8; REC])
    }
}
impl AsRef<[u8]> for Rep {
    fn as_ref(&self) -> &[u8] {
        &self.0
    }
}
impl AsMut<[u8]> for Rep {
    fn as_mut(&mut self) -> &mut [u8] {
        &mut self.0
    }
}
const TAG_G: u8 = 0xE0;
fn enc<const G: u8>(x: &Exp<G>) -> Rep {
    let mut v = [0u8; REC];
    v[0] = TAG_G + G;
    v[1..5].copy_from_slice(&id(x.0).to_le_bytes());
    Rep(v)
}
fn dec<const G: u8>(b: &[u8; REC]) -> Option<Exp<G>> {
    if b[0] == TAG_FRESH {
        return Some(Exp(fresh(match G {
            1 => "pg",
            2 => "ph",
            _ => "pt",
        })));
    }
    if b[0] != TAG_G + G {
        return None;
    }
    let i = u32::from_le_bytes([b[1], b[2], b[3], b[4]]);
    let n = { ARENA.lock().unwrap().nodes[i as usize].clone() };
    Some(Exp(match n {
        Node::Const(c) => SymF::C(c),
        _ => SymF::T(i),
    }))
}
impl<const G: u8> GroupEncoding for Exp<G> {
    type Repr = Rep;
    fn from_bytes(b: &Rep) -> CtOption<Self> {
        match dec::<G>(&b.0) {
            Some(x) => CtOption::new(x, Choice::from(1)),
            None => CtOption::new(Exp(SymF::ZERO), Choice::from(0)),
        }
    }
    fn from_bytes_unchecked(b: &Rep) -> CtOption<Self> {
        Self::from_bytes(b)
    }
    fn to_bytes(&self) -> Rep {
        enc(self)
    }
}
impl<const G: u8> UncompressedEncoding for Exp<G> {
    type Uncompressed = Rep;
    fn from_uncompressed(b: &Rep) -> CtOption<Self> {
        <Self as GroupEncoding>::from_bytes(b)
    }
    fn from_uncompressed_unchecked(b: &Rep) -> CtOption<Self> {
        <Self as GroupEncoding>::from_bytes(b)
    }
    fn to_uncompressed(&self) -> Rep {
        enc(self)
    }
}
impl<const G: u8> Curve for Exp<G> {
    type AffineRepr = Exp<G>;
    fn to_affine(&self) -> Exp<G> {
        *self
    }
}
impl<const G: u8> PrimeGroup for Exp<G> {}
impl<const G: u8> PrimeCurve for Exp<G> {
    type Affine = Exp<G>;
}
impl<const G: u8> PrimeCurveAffine for Exp<G> {
    type Scalar = SymF;
    type Curve = Exp<G>;
    fn identity() -> Self {
        Exp(SymF::ZERO)
    }
    fn generator() -> Self {
        Exp(SymF::ONE)
    }
    fn is_identity(&self) -> Choice {
        self.0.ct_eq(&SymF::ZERO)
    }
    fn to_curve(&self) -> Exp<G> {
        *self
    }
}
impl<const G: u8> CurveExt for Exp<G> {
    type ScalarExt = SymF;
    type Base = SymF;
    type AffineExt = Exp<G>;
    const CURVE_ID: &'static str = "symbolic-exponent-group";
    fn endo(&self) -> Self {
        unimplemented!("SymE: endo")
    }
    fn jacobian_coordinates(&self) -> (SymF, SymF, SymF) {
        unimplemented!("SymE: jacobian_coordinates")
    }
    fn hash_to_curve<'a>(_: &'a str) -> Box<dyn Fn(&[u8]) -> Self + 'a> {
        unimplemented!("SymE: hash_to_curve")
    }
    fn is_on_curve(&self) -> Choice {
        Choice::from(1)
    }
    fn a() -> SymF {
        unimplemented!("SymE: a")
    }
    fn b() -> SymF {
        unimplemented!("SymE: b")
    }
    fn new_jacobian(_: SymF, _: SymF, _: SymF) -> CtOption<Self> {
        unimplemented!("SymE: new_jacobian")
    }
}
impl<const G: u8> CurveAffine for Exp<G> {
    type ScalarExt = SymF;
    type Base = SymF;
    type CurveExt = Exp<G>;
    fn coordinates(&self) -> CtOption<Coordinates<Self>> {
        unimplemented!("SymE: coordinates")
    }
    fn from_xy(_: SymF, _: SymF) -> CtOption<Self> {
        unimplemented!("SymE: from_xy")
    }
    fn is_on_curve(&self) -> Choice {
        Choice::from(1)
    }
    fn a() -> SymF {
        unimplemented!("SymE: a")
    }
    fn b() -> SymF {
        unimplemented!("SymE: b")
    }
}
impl PairingCurveAffine for Exp<1> {
    type Pair = Exp<2>;
    type PairingResult = Exp<3>;
    fn pairing_with(&self, o: &Exp<2>) -> Exp<3> {
        Exp(self.0 * o.0)
    }
}
impl PairingCurveAffine for Exp<2> {
    type Pair = Exp<1>;
    type PairingResult = Exp<3>;
    fn pairing_with(&self, o: &Exp<1>) -> Exp<3> {
        Exp(self.0 * o.0)
    }
}

#[derive(Clone, Debug)]
pub struct SymE;
impl Engine for SymE {
    type Fr = SymF;
    type G1 = Exp<1>;
    type G1Affine = Exp<1>;
    type G2 = Exp<2>;
    type G2Affine = Exp<2>;
    type Gt = Exp<3>;
    fn pairing(p: &Exp<1>, q: &Exp<2>) -> Exp<3> {
        Exp(p.0 * q.0)
    }
}
#[derive(Clone, Copy, Debug, Default)]
pub struct Ml(pub SymF);
impl Add for Ml {
    type Output = Ml;
    fn add(self, o: Ml) -> Ml {
        Ml(self.0 + o.0)
    }
}
impl<'a> Add<&'a Ml> for Ml {
    type Output = Ml;
    fn add(self, o: &'a Ml) -> Ml {
        Ml(self.0 + o.0)
    }
}
impl AddAssign for Ml {
    fn add_assign(&mut self, o: Ml) {
        self.0 = self.0 + o.0
    }
}
impl<'a> AddAssign<&'a Ml> for Ml {
    fn add_assign(&mut self, o: &'a Ml) {
        self.0 = self.0 + o.0
    }
}
impl MillerLoopResult for Ml {
    type Gt = Exp<3>;
    fn final_exponentiation(&self) -> Exp<3> {
        Exp(self.0)
    }
}
impl MultiMillerLoop for SymE {
    type G2Prepared = Exp<2>;
    type Result = Ml;
    fn multi_miller_loop(terms: &[(&Exp<1>, &Exp<2>)]) -> Ml {
        Ml(terms.iter().fold(SymF::ZERO, |a, (p, q)| a + p.0 * q.0))
    }
}

impl ProcessedSerdeObject for Exp<1> {
    fn read<R: Read>(r: &mut R, _: SerdeFormat) -> io::Result<Self> {
        let mut b = [0u8; REC];
        r.read_exact(&mut b)?;
        dec::<1>(&b).ok_or_else(|| io::Error::new(io::ErrorKind::InvalidData, "not a G1 record"))
    }
    fn write<W: Write>(&self, w: &mut W, _: SerdeFormat) -> io::Result<()> {
        w.write_all(&enc(self).0)
    }
}
impl Hashable<SymHash> for Exp<1> {
    fn to_input(&self) -> Item {
        Item::F(id(self.0))
    }
    fn to_bytes(&self) -> Vec<u8> {
        enc(self).0.to_vec()
    }
    fn read(buffer: &mut impl Read) -> io::Result<Self> {
        let mut b = [0u8; REC];
        buffer.read_exact(&mut b)?;
        dec::<1>(&b).ok_or_else(|| io::Error::new(io::ErrorKind::InvalidData, "proof record is not a G1 element"))
    }
}
