//! C15: the operations the batching fold `acc <- r*acc + g_i` of zk_stdlib::batch_verify is made of —
//! the REAL generic `DualMSM::scale`, `DualMSM::add_msm`, `MSMKZG::{append_term, add_msm, scale, from_many,
//! from_base}` — executed on SymE with symbolic scalars and bases. (batch_verify itself is monomorphic on
//! Bls12/Fq and cannot be instantiated at SymE; its 3-line loop is applied here through these real methods
//! in the same order, for n guards.) Output: exponent value (sum scalar*base) of left and right of every
//! member and of the accumulator, as terms.
use std::collections::HashMap;

use ff::Field;
use midnight_proofs::poly::kzg::msm::{DualMSM, MSMKZG};
use midnight_proofs::poly::CommitmentLabel;
use midnight_proofs::utils::arithmetic::MSM;
use serde_json::{json, Value};

use crate::arg_usize;
use crate::syme::{Exp, SymE};
use crate::symf::*;

fn value(m: &[(&CommitmentLabel, &SymF, &Exp<1>)]) -> SymF {
    m.iter().fold(SymF::ZERO, |acc, (_, s, b)| acc + **s * b.0)
}

pub fn run(a: &HashMap<String, String>) -> Value {
    crate::set_concrete(a);
    let n = arg_usize(a, "n", 3);
    let terms = arg_usize(a, "terms", 3);
    let r = var("r");
    let mut guards: Vec<DualMSM<SymE>> = vec![];
    for g in 0..n {
        let mut left = MSMKZG::<SymE>::init();
        let mut right = MSMKZG::<SymE>::init();
        for t in 0..(1 + (g + terms) % 3) {
            left.append_term(var(&format!("ls{g}_{t}")), Exp(var(&format!("lb{g}_{t}"))), CommitmentLabel::NoLabel);
        }
        // right side built through from_many / from_base / add_msm as well
        let mut parts = vec![];
        for t in 0..terms {
            let mut m = MSMKZG::<SymE>::from_base(&Exp(var(&format!("rb{g}_{t}"))));
            m.scale(var(&format!("rs{g}_{t}")));
            parts.push(m);
        }
        right.add_msm(&MSMKZG::from_many(parts));
        guards.push(DualMSM::new(left, right));
    }
    let members: Vec<Value> = guards
        .iter()
        .map(|g| {
            let (l, rr) = g.split();
            json!({"left": id(value(&l)), "right": id(value(&rr)), "left_terms": l.len(), "right_terms": rr.len()})
        })
        .collect();
    // the fold of batch_verify, through the real methods
    let mut acc = guards[0].clone();
    for g in guards.into_iter().skip(1) {
        acc.scale(r);
        acc.add_msm(g);
    }
    let (l, rr) = acc.split();
    json!({"scenario": "batch", "n": n, "r": id(r), "members": members,
           "acc": {"left": id(value(&l)), "right": id(value(&rr)), "left_terms": l.len(), "right_terms": rr.len()},
           "arena": dump_arena()})
}
