//! C20 (last clause): the two-base inner-product argument `aggregator/src/inner_product_argument.rs`.
//!
//! `ipa_prove<T, C>` / `ipa_verify<T, C>` are generic over `C: CurveExt + Hashable<T::Hash>`, `T: Transcript`.
//! They run here at  T = CircuitTranscript<SymHash>  (the real transcript, symbolic hash: challenge = variable
//! chi<k> indexed by the absorbed history)  and  C = SymG  (discrete-log model over SymF).
//!
//! The module is private in midnight-aggregator, so the SOURCE FILE is compiled into two helper crates (copied
//! from <repo> by their build.rs on every build):
//!   verif-ipa-native   against the real midnight-curves (real `msm_best`);
//!   verif-ipa-shimmed  against verif-curves-shim: identical, except `msm_best := sum_i bases[i]*coeffs[i]`.
//! The real `msm_best` reads `to_repr()` of every coefficient (Booth windows over the scalar's bytes): on a
//! term-valued scalar that is a concretisation (SymF::to_repr panics), `impl=real` in symbolic mode shows it.
//! Symbolic runs therefore use the shimmed compilation; concrete runs (`vals=`) can use either, and the
//! scenario `native` runs the real compilation on Bls12 G1 + Blake2b.
//!
//!   sx ipa n=4 [proof=honest|fresh] [res=honest|free] [impl=shim|real] [tamper=<elt>] [idanswer=0|1] [vals=<file>]
//!   sx ipa mode=native n=4 seed=1 [pad=m] [wrong=1] [tamper=res1,L0,s,b1_2,...]
//!
//! elements: w<i> scalars, g<i>/h<i> discrete logs of bases1/bases2, R1/R2 free claimed values,
//! pg<k>/pf<k> fresh proof symbols (pg1=L_0, pg2=R_0, pg3=L_1, ...; pf1 = s), chi<k> challenges, delta (tamper).
use std::collections::HashMap;
use std::io::Cursor;

use ff::{Field, FromUniformBytes};
use group::Group;
use midnight_proofs::transcript::{CircuitTranscript, Hashable, Transcript};
use serde_json::{json, Value};

use crate::arg_usize;
use crate::symcs::*;
use crate::symf::*;
use crate::symg::{SymG, IDTESTS, TAG_SYMG};

use verif_ipa_native::inner_product_argument as ipa_real;
use verif_ipa_shimmed::inner_product_argument as ipa_shim;

fn panic_msg(p: Box<dyn std::any::Any + Send>) -> String {
    p.downcast_ref::<String>().cloned().or_else(|| p.downcast_ref::<&str>().map(|s| s.to_string())).unwrap_or_else(|| "panic".into())
}

fn records(proof: &[u8]) -> Vec<Value> {
    proof
        .chunks(REC)
        .map(|b| {
            let i = u32::from_le_bytes([b[1], b[2], b[3], b[4]]);
            match b[0] {
                TAG_SYMG => json!(["g", i]),
                TAG_F => json!(["f", i]),
                TAG_FRESH => json!(["fresh"]),
                t => json!(["?", t]),
            }
        })
        .collect()
}

fn term_of(i: u32) -> SymF {
    let n = { ARENA.lock().unwrap().nodes[i as usize].clone() };
    match n {
        Node::Const(c) => SymF::C(c),
        _ => SymF::T(i),
    }
}

/// add `delta` to record `idx` of the proof (group or field record)
fn tamper_record(proof: &mut [u8], idx: usize, delta: SymF) {
    let b = &mut proof[idx * REC..(idx + 1) * REC];
    let i = u32::from_le_bytes([b[1], b[2], b[3], b[4]]);
    let t = term_of(i) + delta;
    b[1..5].copy_from_slice(&id(t).to_le_bytes());
}

pub fn run(a: &HashMap<String, String>) -> Value {
    if a.get("mode").map(|s| s.as_str()) == Some("native") {
        return native(a);
    }
    crate::set_concrete(a);
    let n = arg_usize(a, "n", 4);
    let k = n.trailing_zeros() as usize;
    let proof_mode = a.get("proof").cloned().unwrap_or_else(|| "honest".into());
    let res_mode = a.get("res").cloned().unwrap_or_else(|| "honest".into());
    let imp = a.get("impl").cloned().unwrap_or_else(|| "shim".into());
    let tamper = a.get("tamper").cloned();

    let w: Vec<SymF> = (0..n).map(|i| var(&format!("w{i}"))).collect();
    let b1: Vec<SymG> = (0..n).map(|i| SymG(var(&format!("g{i}")))).collect();
    let b2: Vec<SymG> = (0..n).map(|i| SymG(var(&format!("h{i}")))).collect();
    // claimed values: by the definition <w, bases> (plain sums, not the code under test) or free symbols
    let (res1, res2) = if res_mode == "honest" {
        (
            SymG(w.iter().zip(&b1).fold(SymF::ZERO, |acc, (s, b)| acc + *s * b.0)),
            SymG(w.iter().zip(&b2).fold(SymF::ZERO, |acc, (s, b)| acc + *s * b.0)),
        )
    } else {
        (SymG(var("R1")), SymG(var("R2")))
    };
    let mut out = json!({"scenario": "ipa", "n": n, "k": k, "proof": proof_mode, "res": res_mode, "impl": imp,
        "w": w.iter().map(|x| id(*x)).collect::<Vec<_>>(),
        "b1": b1.iter().map(|x| id(x.0)).collect::<Vec<_>>(),
        "b2": b2.iter().map(|x| id(x.0)).collect::<Vec<_>>(),
        "res1": id(res1.0), "res2": id(res2.0)});

    // ---- prover
    let mut proof: Vec<u8> = if proof_mode == "honest" {
        set_side("P");
        let r = std::panic::catch_unwind(std::panic::AssertUnwindSafe(|| {
            let mut tp = CircuitTranscript::<SymHash>::init();
            let res = if imp == "real" {
                ipa_real::ipa_prove(&w, &b1, &b2, &res1, &res2, &mut tp)
            } else {
                ipa_shim::ipa_prove(&w, &b1, &b2, &res1, &res2, &mut tp)
            };
            (res.map_err(|e| format!("{e:?}")), tp.finalize())
        }));
        match r {
            Err(p) => {
                out["prover"] = json!({"result": format!("panic: {}", panic_msg(p))});
                out["world"] = dump_world();
                out["arena"] = dump_arena();
                return out;
            }
            Ok((res, bytes)) => {
                out["prover"] = json!({"result": match &res { Ok(()) => "Ok".to_string(), Err(e) => format!("Err({e})") },
                    "records": records(&bytes)});
                bytes
            }
        }
    } else {
        symbolic_proof(2 * k + 1)
    };

    // ---- optional alteration between prover and verifier
    set_side("T");
    let (mut vb1, mut vb2, mut vres1, mut vres2) = (b1.clone(), b2.clone(), res1, res2);
    if let Some(t) = &tamper {
        let delta = var("delta");
        if t == "res1" {
            vres1 = SymG(vres1.0 + delta);
        } else if t == "res2" {
            vres2 = SymG(vres2.0 + delta);
        } else if let Some(i) = t.strip_prefix("b1_") {
            let i: usize = i.parse().unwrap();
            vb1[i] = SymG(vb1[i].0 + delta);
        } else if let Some(i) = t.strip_prefix("b2_") {
            let i: usize = i.parse().unwrap();
            vb2[i] = SymG(vb2[i].0 + delta);
        } else if let Some(j) = t.strip_prefix('L') {
            tamper_record(&mut proof, 2 * j.parse::<usize>().unwrap(), delta);
        } else if let Some(j) = t.strip_prefix('R') {
            tamper_record(&mut proof, 2 * j.parse::<usize>().unwrap() + 1, delta);
        } else if t == "s" {
            tamper_record(&mut proof, 2 * k, delta);
        } else {
            panic!("tamper={t}");
        }
        out["tamper"] = json!({"what": t, "delta": id(delta)});
    }

    // ---- verifier
    set_side("V");
    // idanswer=1: a non-constant identity test sends the code into the "is the identity" branch (see symg.rs)
    crate::symg::ASSUME_IDENTITY.store(arg_usize(a, "idanswer", 0) == 1, std::sync::atomic::Ordering::SeqCst);
    let n_before = IDTESTS.lock().unwrap().len();
    let r = std::panic::catch_unwind(std::panic::AssertUnwindSafe(|| {
        let mut tv = CircuitTranscript::<SymHash>::init_from_bytes(&proof);
        let res = if imp == "real" {
            ipa_real::ipa_verify(&vb1, &vb2, &vres1, &vres2, &mut tv)
        } else {
            ipa_shim::ipa_verify(&vb1, &vb2, &vres1, &vres2, &mut tv)
        };
        let consumed = tv.buffer().position() as usize / REC;
        (res.map_err(|e| format!("{e:?}")), consumed, tv.assert_empty().is_ok())
    }));
    set_side("S");
    match r {
        Err(p) => out["verifier"] = json!({"result": format!("panic: {}", panic_msg(p))}),
        Ok((res, consumed, trailing_ok)) => {
            out["verifier"] = json!({"result": match &res { Ok(()) => "Ok".to_string(), Err(e) => format!("Err({e})") },
                "consumed_records": consumed, "proof_records": proof.len() / REC, "trailing_ok": trailing_ok});
        }
    }
    let tests: Vec<Value> = IDTESTS.lock().unwrap()[n_before..].to_vec();
    out["idtests"] = json!(tests);
    out["world"] = dump_world();
    out["arena"] = dump_arena();
    out
}

// ------------------------------------------------------------------ real stack
type NC = midnight_curves::G1Projective;
type NS = midnight_curves::Fq;
type NH = blake2b_simd::State;

fn det(seed: usize, name: &str) -> NS {
    let h = blake2b_simd::Params::new().hash_length(64).personal(b"verif-sx-ipa").hash(format!("{seed}:{name}").as_bytes());
    let mut b = [0u8; 64];
    b.copy_from_slice(h.as_bytes());
    NS::from_uniform_bytes(&b)
}

fn native_verify(b1: &[NC], b2: &[NC], r1: &NC, r2: &NC, proof: &[u8]) -> String {
    let r = std::panic::catch_unwind(std::panic::AssertUnwindSafe(|| {
        let mut t = CircuitTranscript::<NH>::init_from_bytes(proof);
        ipa_real::ipa_verify(b1, b2, r1, r2, &mut t).map_err(|e| format!("{e:?}"))
    }));
    match r {
        Ok(Ok(())) => "accepted".into(),
        Ok(Err(e)) => format!("rejected {e}"),
        Err(p) => format!("panic: {}", panic_msg(p)),
    }
}

/// Bls12-381 G1 + Blake2b + the real compilation (real msm_best): honest proof, then one alteration per entry
/// of `tamper=`; `wrong=1`: the prover is given res1 + G as claimed value (and so is the verifier).
fn native(a: &HashMap<String, String>) -> Value {
    let n = arg_usize(a, "n", 4);
    let k = n.trailing_zeros() as usize;
    let seed = arg_usize(a, "seed", 1);
    let w: Vec<NS> = (0..n).map(|i| det(seed, &format!("w{i}"))).collect();
    let b1: Vec<NC> = (0..n).map(|i| NC::generator() * det(seed, &format!("g{i}"))).collect();
    let b2: Vec<NC> = (0..n).map(|i| NC::generator() * det(seed, &format!("h{i}"))).collect();
    // pad=m: the last m entries are (0, identity, identity), as light_aggregator pads to a power of two
    let pad = arg_usize(a, "pad", 0).min(n);
    let (mut w, mut b1, mut b2) = (w, b1, b2);
    for i in n - pad..n {
        w[i] = NS::ZERO;
        b1[i] = NC::identity();
        b2[i] = NC::identity();
    }
    let mut res1 = w.iter().zip(&b1).fold(NC::identity(), |acc, (s, b)| acc + *b * *s);
    let res2 = w.iter().zip(&b2).fold(NC::identity(), |acc, (s, b)| acc + *b * *s);
    if arg_usize(a, "wrong", 0) == 1 {
        res1 += NC::generator();
    }
    let pr = std::panic::catch_unwind(std::panic::AssertUnwindSafe(|| {
        let mut tp = CircuitTranscript::<NH>::init();
        let r = ipa_real::ipa_prove(&w, &b1, &b2, &res1, &res2, &mut tp).map_err(|e| format!("{e:?}"));
        (r, tp.finalize())
    }));
    let (pres, proof) = match pr {
        Err(p) => return json!({"scenario": "ipa-native", "n": n, "prover": format!("panic: {}", panic_msg(p))}),
        Ok(x) => x,
    };
    let honest = native_verify(&b1, &b2, &res1, &res2, &proof);
    // decode the proof into its elements
    let mut cur = Cursor::new(proof.clone());
    let mut ls: Vec<NC> = vec![];
    for _ in 0..2 * k {
        ls.push(<NC as Hashable<NH>>::read(&mut cur).expect("proof element"));
    }
    let s: NS = <NS as Hashable<NH>>::read(&mut cur).expect("proof scalar");
    let reenc = |ls: &[NC], s: &NS| -> Vec<u8> {
        let mut v = vec![];
        for l in ls {
            v.extend(<NC as Hashable<NH>>::to_bytes(l));
        }
        v.extend(<NS as Hashable<NH>>::to_bytes(s));
        v
    };
    let roundtrip = reenc(&ls, &s) == proof;
    let mut tampered = vec![];
    if let Some(list) = a.get("tamper") {
        for t in list.split(',').filter(|x| !x.is_empty()) {
            let (mut vb1, mut vb2, mut vr1, mut vr2, mut vls, mut vs) = (b1.clone(), b2.clone(), res1, res2, ls.clone(), s);
            if t == "res1" {
                vr1 += NC::generator();
            } else if t == "res2" {
                vr2 += NC::generator();
            } else if let Some(i) = t.strip_prefix("b1_") {
                vb1[i.parse::<usize>().unwrap()] += NC::generator();
            } else if let Some(i) = t.strip_prefix("b2_") {
                vb2[i.parse::<usize>().unwrap()] += NC::generator();
            } else if let Some(j) = t.strip_prefix('L') {
                vls[2 * j.parse::<usize>().unwrap()] += NC::generator();
            } else if let Some(j) = t.strip_prefix('R') {
                vls[2 * j.parse::<usize>().unwrap() + 1] += NC::generator();
            } else if t == "s" {
                vs += NS::ONE;
            } else {
                panic!("tamper={t}");
            }
            tampered.push(json!([t, native_verify(&vb1, &vb2, &vr1, &vr2, &reenc(&vls, &vs))]));
        }
    }
    json!({"scenario": "ipa-native", "n": n, "seed": seed, "prover": format!("{pres:?}"), "proof_bytes": proof.len(),
        "honest": honest, "roundtrip": roundtrip, "tampered": tampered,
        "source": verif_ipa_native::SOURCE})
}
