//! SymG: a symbolic prime-order group in the discrete-log model (one group, no pairing): an element is its
//! discrete logarithm, a SymF term. Addition = addition of exponents, scalar multiplication = product.
//! Projective and affine form coincide (`to_affine`, `batch_normalize` are the identity map).
//!
//! Identity test. `is_identity()` is THE decision of `ipa_verify`. Every call is appended to `IDTESTS` with
//! the tested term, so the caller gets "the element that decides" instead of a boolean:
//!   * constant exponent (concrete mode): decided by the value;
//!   * non-constant exponent: the executed code is given `false` (the generic element of the group is not
//!     the identity) and the path condition `term != 0` is recorded in the arena like every other branch on a
//!     non-constant. The answer is therefore never an unrecorded `false`: the part reads the tested term from
//!     IDTESTS and lets the solver decide whether it is the zero polynomial.
//! Unlike `syme::Exp<1>` the (de)serialisation logs group reads/writes with their own tag.
use core::iter::Sum;
use core::ops::{Add, AddAssign, Mul, MulAssign, Neg, Sub, SubAssign};
use std::io::{self, Read};
use std::sync::Mutex;

use ff::Field;
use group::prime::{PrimeCurve, PrimeCurveAffine, PrimeGroup};
use group::{Curve, Group, GroupEncoding};
use midnight_curves::{Coordinates, CurveAffine, CurveExt};
use midnight_proofs::transcript::Hashable;
use rand_core::RngCore;
use serde_json::{json, Value};
use subtle::{Choice, ConditionallySelectable, ConstantTimeEq, CtOption};

use crate::symcs::{Item, SymHash, REC, TAG_FRESH, WORLD};
use crate::symf::*;

#[derive(Clone, Copy, Debug, PartialEq, Eq, Hash)]
pub struct SymG(pub SymF);

lazy_static::lazy_static! {
    /// every identity test executed: (side, term id, constant?, answer given to the code)
    pub static ref IDTESTS: Mutex<Vec<Value>> = Mutex::new(vec![]);
}

fn wlog(op: &str, item: Value) {
    let mut w = WORLD.lock().unwrap();
    let side = w.side.clone();
    w.log.push(json!({"side": side, "op": op, "item": item}));
}

/// Which branch of a NON-CONSTANT identity test the executed code is sent into: false (default) = "not the
/// identity" (path condition term != 0 in the arena), true = "is the identity" (path condition term == 0, kept in
/// IDTESTS as `answer: true`). Running a scenario once with each value explores both sides of the test.
pub static ASSUME_IDENTITY: std::sync::atomic::AtomicBool = std::sync::atomic::AtomicBool::new(false);

fn identity_test(x: &SymF) -> Choice {
    let side = { WORLD.lock().unwrap().side.clone() };
    let (constant, ans) = match x {
        SymF::C(c) => (true, bool::from(c.is_zero())),
        _ if ASSUME_IDENTITY.load(std::sync::atomic::Ordering::SeqCst) => (false, true),
        // eq_rec: structurally different from the constant 0 => `false` + path condition Ne(term, 0)
        t => (false, bool::from(t.ct_eq(&SymF::ZERO))),
    };
    IDTESTS.lock().unwrap().push(json!({"side": side, "term": id(*x), "constant": constant, "answer": ans}));
    Choice::from(ans as u8)
}

impl Default for SymG {
    fn default() -> Self {
        SymG(SymF::ZERO)
    }
}

macro_rules! gop {
    ($tr:ident, $f:ident, $atr:ident, $af:ident, $e:expr) => {
        impl $tr for SymG {
            type Output = SymG;
            fn $f(self, o: SymG) -> SymG {
                let f: fn(SymF, SymF) -> SymF = $e;
                SymG(f(self.0, o.0))
            }
        }
        impl<'a> $tr<&'a SymG> for SymG {
            type Output = SymG;
            fn $f(self, o: &'a SymG) -> SymG {
                let f: fn(SymF, SymF) -> SymF = $e;
                SymG(f(self.0, o.0))
            }
        }
        impl $atr for SymG {
            fn $af(&mut self, o: SymG) {
                let f: fn(SymF, SymF) -> SymF = $e;
                self.0 = f(self.0, o.0)
            }
        }
        impl<'a> $atr<&'a SymG> for SymG {
            fn $af(&mut self, o: &'a SymG) {
                let f: fn(SymF, SymF) -> SymF = $e;
                self.0 = f(self.0, o.0)
            }
        }
    };
}
gop!(Add, add, AddAssign, add_assign, |a, b| a + b);
gop!(Sub, sub, SubAssign, sub_assign, |a, b| a - b);
impl Neg for SymG {
    type Output = SymG;
    fn neg(self) -> SymG {
        SymG(-self.0)
    }
}
impl Mul<SymF> for SymG {
    type Output = SymG;
    fn mul(self, k: SymF) -> SymG {
        SymG(self.0 * k)
    }
}
impl<'a> Mul<&'a SymF> for SymG {
    type Output = SymG;
    fn mul(self, k: &'a SymF) -> SymG {
        SymG(self.0 * *k)
    }
}
impl MulAssign<SymF> for SymG {
    fn mul_assign(&mut self, k: SymF) {
        self.0 = self.0 * k
    }
}
impl<'a> MulAssign<&'a SymF> for SymG {
    fn mul_assign(&mut self, k: &'a SymF) {
        self.0 = self.0 * *k
    }
}
impl Sum for SymG {
    fn sum<I: Iterator<Item = SymG>>(i: I) -> Self {
        i.fold(SymG(SymF::ZERO), |a, b| a + b)
    }
}
impl<'a> Sum<&'a SymG> for SymG {
    fn sum<I: Iterator<Item = &'a SymG>>(i: I) -> Self {
        i.fold(SymG(SymF::ZERO), |a, b| a + *b)
    }
}
impl ConstantTimeEq for SymG {
    fn ct_eq(&self, o: &Self) -> Choice {
        self.0.ct_eq(&o.0)
    }
}
impl ConditionallySelectable for SymG {
    fn conditional_select(a: &Self, b: &Self, c: Choice) -> Self {
        if bool::from(c) {
            *b
        } else {
            *a
        }
    }
}
impl Group for SymG {
    type Scalar = SymF;
    fn random(_: impl RngCore) -> Self {
        SymG(fresh("grnd"))
    }
    fn identity() -> Self {
        SymG(SymF::ZERO)
    }
    fn generator() -> Self {
        SymG(SymF::ONE)
    }
    fn is_identity(&self) -> Choice {
        identity_test(&self.0)
    }
    fn double(&self) -> Self {
        SymG(self.0 + self.0)
    }
}

#[derive(Clone, Copy, Debug)]
pub struct Rep(pub [u8; REC]);
impl Default for Rep {
    fn default() -> Self {
        Rep([0u8; REC])
    }
}
impl AsRef<[u8]> for Rep {
    fn as_ref(&self) -> &[u8] {
        &self.0
    }
}
impl AsMut<[u8]> for Rep {
    fn as_mut(&mut self) -> &mut [u8] {
        &mut self.0
    }
}
pub const TAG_SYMG: u8 = 0xD1;
fn enc(x: &SymG) -> Rep {
    let mut v = [0u8; REC];
    v[0] = TAG_SYMG;
    v[1..5].copy_from_slice(&id(x.0).to_le_bytes());
    Rep(v)
}
fn dec(b: &[u8; REC]) -> Option<SymG> {
    if b[0] == TAG_FRESH {
        return Some(SymG(fresh("pg")));
    }
    if b[0] != TAG_SYMG {
        return None;
    }
    let i = u32::from_le_bytes([b[1], b[2], b[3], b[4]]);
    let n = {
        let a = ARENA.lock().unwrap();
        a.nodes.get(i as usize).cloned()
    }?;
    Some(SymG(match n {
        Node::Const(c) => SymF::C(c),
        _ => SymF::T(i),
    }))
}
impl GroupEncoding for SymG {
    type Repr = Rep;
    fn from_bytes(b: &Rep) -> CtOption<Self> {
        match dec(&b.0) {
            Some(x) => CtOption::new(x, Choice::from(1)),
            None => CtOption::new(SymG(SymF::ZERO), Choice::from(0)),
        }
    }
    fn from_bytes_unchecked(b: &Rep) -> CtOption<Self> {
        Self::from_bytes(b)
    }
    fn to_bytes(&self) -> Rep {
        enc(self)
    }
}
impl Curve for SymG {
    type AffineRepr = SymG;
    fn to_affine(&self) -> SymG {
        *self
    }
    // batch_normalize: the provided method of group::Curve (q[i] = p[i].to_affine()) is used as is
}
impl PrimeGroup for SymG {}
impl PrimeCurve for SymG {
    type Affine = SymG;
}
impl PrimeCurveAffine for SymG {
    type Scalar = SymF;
    type Curve = SymG;
    fn identity() -> Self {
        SymG(SymF::ZERO)
    }
    fn generator() -> Self {
        SymG(SymF::ONE)
    }
    fn is_identity(&self) -> Choice {
        identity_test(&self.0)
    }
    fn to_curve(&self) -> SymG {
        *self
    }
}
impl CurveExt for SymG {
    type ScalarExt = SymF;
    type Base = SymF;
    type AffineExt = SymG;
    const CURVE_ID: &'static str = "symbolic-dlog-group";
    fn endo(&self) -> Self {
        unimplemented!("SymG: endo")
    }
    fn jacobian_coordinates(&self) -> (SymF, SymF, SymF) {
        unimplemented!("SymG: jacobian_coordinates")
    }
    fn hash_to_curve<'a>(_: &'a str) -> Box<dyn Fn(&[u8]) -> Self + 'a> {
        unimplemented!("SymG: hash_to_curve")
    }
    fn is_on_curve(&self) -> Choice {
        Choice::from(1)
    }
    fn a() -> SymF {
        unimplemented!("SymG: a")
    }
    fn b() -> SymF {
        unimplemented!("SymG: b")
    }
    fn new_jacobian(_: SymF, _: SymF, _: SymF) -> CtOption<Self> {
        unimplemented!("SymG: new_jacobian")
    }
}
impl CurveAffine for SymG {
    type ScalarExt = SymF;
    type Base = SymF;
    type CurveExt = SymG;
    fn coordinates(&self) -> CtOption<Coordinates<Self>> {
        unimplemented!("SymG: coordinates")
    }
    fn from_xy(_: SymF, _: SymF) -> CtOption<Self> {
        unimplemented!("SymG: from_xy")
    }
    fn is_on_curve(&self) -> Choice {
        Choice::from(1)
    }
    fn a() -> SymF {
        unimplemented!("SymG: a")
    }
    fn b() -> SymF {
        unimplemented!("SymG: b")
    }
}

impl Hashable<SymHash> for SymG {
    fn to_input(&self) -> Item {
        Item::F(id(self.0))
    }
    fn to_bytes(&self) -> Vec<u8> {
        wlog("write", json!(["g", id(self.0)]));
        enc(self).0.to_vec()
    }
    fn read(buffer: &mut impl Read) -> io::Result<Self> {
        let mut b = [0u8; REC];
        buffer.read_exact(&mut b)?;
        match dec(&b) {
            Some(g) => {
                wlog("read", json!(["g", id(g.0)]));
                Ok(g)
            }
            None => {
                wlog("read-error", json!({"expected": "g", "tag": b[0]}));
                Err(io::Error::new(io::ErrorKind::InvalidData, "proof record is not a group element"))
            }
        }
    }
}
