//! Expression-shape family for the prover's quotient evaluation (C01-c, `GraphEvaluator::add_expression`
//! / `Calculation::evaluate`).
//!
//! A constraint of a shape may carry `"expr": <tree>` (instead of / in addition to `"prods"`); the tree is turned
//! into a REAL `midnight_proofs::plonk::Expression<F>`, node by node, either through the repository's operator
//! overloads (lower-case tags) or as hand-built enum nodes (capitalised tags):
//!
//!   leaves   ["a",col,rot] ["f",col,rot] ["i",col,rot] ["c",idx]   queries / challenge   (shape atoms)
//!            ["k",n]                                               Expression::Constant(n), n a (possibly negative) integer
//!            ["q"]                                                 the gate's own complex selector, queried inside the polynomial
//!   overload ["neg",e]  ["add",l,r]  ["sub",l,r]  ["mul",l,r]  ["scale",e,n]  ["square",e]
//!            =  -e        l + r        l - r        l * r        e * F::from(n)  e.square()
//!   by hand  ["Negated",e] ["Sum",l,r] ["Product",l,r] ["Scaled",e,n]         the enum nodes, no rewriting
//!
//! The constraint polynomial is `wrap(E, o)` with `o` the constraint's `out` cell (an advice cell that no leaf
//! reads); the honest witness assigns `o := E(witness)` (evaluated on the tree, `Tree::eval`), so the constraint
//! holds on the enabled row whatever the free cells are:
//!   "E-o"   E - o          "o-E"  o - E          "no+E"  (-o) + E          "n(o-E)"  -(o - E)
//!   "rawE-o"  Expression::Sum(E, Negated(o)) built by hand
//!
//! `ev_json` reads the GraphEvaluators the REAL keygen_pk built (`ProvingKey: Debug`; the field is crate-private,
//! so its Debug rendering is the only read access without a hook): the list of `Calculation` variants, constants
//! and rotations per graph. Used for (a) de-duplicating the family by what the prover actually evaluates and
//! (b) the coverage table of `add_expression` arms.
use std::collections::HashMap;

use ff::PrimeField;
use midnight_proofs::{
    circuit::Value,
    plonk::{keygen_pk, keygen_vk_with_k, Expression},
};
use serde_json::{json, Value as J};

use crate::shape::{Atom, Shape, ShapeCircuit};
use crate::symcs::{set_side, SymCS, SymParams};
use crate::symf::SymF;

#[derive(Clone, Debug)]
pub enum Tree {
    Leaf(Atom),
    Const(i64),
    Sel,
    Neg(Box<Tree>, bool),
    Add(Box<Tree>, Box<Tree>, bool),
    Sub(Box<Tree>, Box<Tree>),
    Mul(Box<Tree>, Box<Tree>, bool),
    Scale(Box<Tree>, i64, bool),
    Square(Box<Tree>),
}

pub fn fconst<F: PrimeField>(n: i64) -> F {
    if n >= 0 {
        F::from(n as u64)
    } else {
        -F::from(n.unsigned_abs())
    }
}

impl Tree {
    pub fn from_json(j: &J) -> Tree {
        let a = j.as_array().expect("tree node");
        let t = a[0].as_str().expect("tree tag");
        let sub = |i: usize| Box::new(Tree::from_json(&a[i]));
        let n = |i: usize| a[i].as_i64().expect("integer");
        match t {
            "a" => Tree::Leaf(Atom::A(n(1) as usize, n(2) as i32)),
            "f" => Tree::Leaf(Atom::F(n(1) as usize, n(2) as i32)),
            "i" => Tree::Leaf(Atom::I(n(1) as usize, n(2) as i32)),
            "c" => Tree::Leaf(Atom::C(n(1) as usize)),
            "k" => Tree::Const(n(1)),
            "q" => Tree::Sel,
            "neg" => Tree::Neg(sub(1), false),
            "Negated" => Tree::Neg(sub(1), true),
            "add" => Tree::Add(sub(1), sub(2), false),
            "Sum" => Tree::Add(sub(1), sub(2), true),
            "sub" => Tree::Sub(sub(1), sub(2)),
            "mul" => Tree::Mul(sub(1), sub(2), false),
            "Product" => Tree::Mul(sub(1), sub(2), true),
            "scale" => Tree::Scale(sub(1), n(2), false),
            "Scaled" => Tree::Scale(sub(1), n(2), true),
            "square" => Tree::Square(sub(1)),
            _ => panic!("tree tag {t}"),
        }
    }

    pub fn atoms(&self, out: &mut Vec<Atom>) {
        match self {
            Tree::Leaf(a) => out.push(a.clone()),
            Tree::Const(_) | Tree::Sel => {}
            Tree::Neg(e, _) | Tree::Scale(e, _, _) | Tree::Square(e) => e.atoms(out),
            Tree::Add(l, r, _) | Tree::Mul(l, r, _) | Tree::Sub(l, r) => {
                l.atoms(out);
                r.atoms(out);
            }
        }
    }

    /// The REAL Expression. `leaf` resolves a shape atom to a query, `sel` yields the gate's selector query.
    pub fn build<F: PrimeField>(
        &self,
        leaf: &mut dyn FnMut(&Atom) -> Expression<F>,
        sel: &mut dyn FnMut() -> Expression<F>,
    ) -> Expression<F> {
        match self {
            Tree::Leaf(a) => leaf(a),
            Tree::Const(n) => Expression::Constant(fconst::<F>(*n)),
            Tree::Sel => sel(),
            Tree::Neg(e, raw) => {
                let e = e.build(leaf, sel);
                if *raw {
                    Expression::Negated(Box::new(e))
                } else {
                    -e
                }
            }
            Tree::Add(l, r, raw) => {
                let (l, r) = (l.build(leaf, sel), r.build(leaf, sel));
                if *raw {
                    Expression::Sum(Box::new(l), Box::new(r))
                } else {
                    l + r
                }
            }
            Tree::Sub(l, r) => l.build(leaf, sel) - r.build(leaf, sel),
            Tree::Mul(l, r, raw) => {
                let (l, r) = (l.build(leaf, sel), r.build(leaf, sel));
                if *raw {
                    Expression::Product(Box::new(l), Box::new(r))
                } else {
                    l * r
                }
            }
            Tree::Scale(e, n, raw) => {
                let e = e.build(leaf, sel);
                if *raw {
                    Expression::Scaled(Box::new(e), fconst::<F>(*n))
                } else {
                    e * fconst::<F>(*n)
                }
            }
            Tree::Square(e) => e.build(leaf, sel).square(),
        }
    }

    /// Value of the tree on the honest witness (the enabled row: the selector is 1).
    pub fn eval<F: PrimeField>(&self, leaf: &dyn Fn(&Atom) -> Value<F>) -> Value<F> {
        match self {
            Tree::Leaf(a) => leaf(a),
            Tree::Const(n) => Value::known(fconst::<F>(*n)),
            Tree::Sel => Value::known(F::ONE),
            Tree::Neg(e, _) => -e.eval(leaf),
            Tree::Add(l, r, _) => l.eval(leaf) + r.eval(leaf),
            Tree::Sub(l, r) => l.eval(leaf) - r.eval(leaf),
            Tree::Mul(l, r, _) => l.eval(leaf) * r.eval(leaf),
            Tree::Scale(e, n, _) => e.eval(leaf) * Value::known(fconst::<F>(*n)),
            Tree::Square(e) => {
                let v = e.eval(leaf);
                v * v
            }
        }
    }
}

/// constraint polynomial from the expression `e` and the output cell's query `o`
pub fn wrap<F: PrimeField>(mode: &str, e: Expression<F>, o: Expression<F>) -> Expression<F> {
    match mode {
        "E-o" => e - o,
        "o-E" => o - e,
        "no+E" => (-o) + e,
        "n(o-E)" => -(o - e),
        "rawE-o" => Expression::Sum(Box::new(e), Box::new(Expression::Negated(Box::new(o)))),
        m => panic!("wrap mode {m}"),
    }
}

// ------------------------------------------------------------------ reading the GraphEvaluators off a ProvingKey

const VARIANTS: [&str; 8] = ["Add", "Sub", "Mul", "Square", "Double", "Negate", "Horner", "Store"];

/// split `s` (starting right after an opening bracket) at the matching closing bracket
fn matching(s: &str, open: char, close: char) -> &str {
    let mut depth = 1usize;
    for (i, ch) in s.char_indices() {
        if ch == open {
            depth += 1;
        } else if ch == close {
            depth -= 1;
            if depth == 0 {
                return &s[..i];
            }
        }
    }
    s
}

/// every `GraphEvaluator { ... }` of the `ev:` field in the Debug rendering of a proving key
pub fn ev_json(pk_debug: &str) -> J {
    let Some(pos) = pk_debug.rfind("ev: Evaluator {") else {
        return json!({"error": "no `ev: Evaluator` in the Debug rendering of the proving key"});
    };
    let ev = matching(&pk_debug[pos + "ev: Evaluator {".len()..], '{', '}');
    let mut graphs = vec![];
    let mut rest = ev;
    // order of the fields: custom_gates, lookups [..], trashcans [..]
    let lk = ev.find("lookups: [").unwrap_or(ev.len());
    let tr = ev.find("trashcans: [").unwrap_or(ev.len());
    let mut offset = 0usize;
    while let Some(p) = rest.find("GraphEvaluator {") {
        let body = matching(&rest[p + "GraphEvaluator {".len()..], '{', '}');
        let abs = offset + p;
        let kind = if abs < lk {
            "custom_gates"
        } else if abs < tr {
            "lookup"
        } else {
            "trash"
        };
        let field = |name: &str| -> String {
            body.find(&format!("{name}: ["))
                .map(|q| matching(&body[q + name.len() + 3..], '[', ']').to_string())
                .unwrap_or_default()
        };
        let calcs = field("calculations");
        // one entry per CalculationInfo: "Variant(args)"
        let mut list = vec![];
        let mut c = calcs.as_str();
        while let Some(q) = c.find("calculation: ") {
            let s = &c[q + "calculation: ".len()..];
            let par = s.find('(').unwrap_or(0);
            let inner = matching(&s[par + 1..], '(', ')');
            list.push(format!("{}({})", &s[..par], inner));
            c = &s[par + 1 + inner.len()..];
        }
        let mut counts: HashMap<&str, usize> = HashMap::new();
        for e in list.iter() {
            for v in VARIANTS {
                if e.starts_with(&format!("{v}(")) {
                    *counts.entry(v).or_insert(0) += 1;
                }
            }
        }
        graphs.push(json!({"kind": kind, "constants": field("constants"), "rotations": field("rotations"),
            "calculations": list, "counts": counts}));
        let adv = p + "GraphEvaluator {".len() + body.len();
        offset += adv;
        rest = &rest[adv..];
    }
    json!({"graphs": graphs})
}

/// post-keygen polynomials (what GraphEvaluator::add_expression and the verifier's evaluate_identities both see)
pub fn polys_json<F: PrimeField>(cs: &midnight_proofs::plonk::ConstraintSystem<F>) -> J {
    let gates: Vec<String> = cs.gates().iter().flat_map(|g| g.polynomials().iter().map(|p| format!("{p:?}"))).collect();
    json!({"gates": gates, "degree": cs.degree(), "blinding_factors": cs.blinding_factors(),
           "trashcans": format!("{:?}", cs.trashcans())})
}

/// `sx exprsig shapes=<file>`: for every shape of the list the REAL keygen_vk + keygen_pk at SymF; returns the
/// post-keygen polynomials and the GraphEvaluators built from them. No proof is made.
pub fn run_sig(a: &HashMap<String, String>) -> J {
    let p = a.get("shapes").expect("shapes=<file>");
    let txt = if p.starts_with('[') { p.clone() } else { std::fs::read_to_string(p).expect("shapes file") };
    let list: J = serde_json::from_str(&txt).expect("shapes json");
    let mut out = vec![];
    set_side("K");
    for m in list.as_array().expect("list of members") {
        let shape = Shape::from_json(&m["shape"]);
        let k = m["k"].as_u64().unwrap_or(4) as u32;
        let res = std::panic::catch_unwind(std::panic::AssertUnwindSafe(|| {
            let params = SymParams { k };
            let empty = ShapeCircuit::<SymF> { shape: shape.clone(), proof_idx: 0, gen: None, inst: vec![], cheat: None };
            let vk = keygen_vk_with_k::<SymF, SymCS, _>(&params, &empty, k).map_err(|e| format!("{e:?}"))?;
            let polys = polys_json(vk.cs());
            let pk = keygen_pk::<SymF, SymCS, _>(vk, &empty).map_err(|e| format!("{e:?}"))?;
            Ok::<J, String>(json!({"polys": polys, "ev": ev_json(&format!("{pk:?}"))}))
        }));
        out.push(match res {
            Ok(Ok(v)) => v,
            Ok(Err(e)) => json!({"error": e}),
            Err(_) => json!({"error": "panic"}),
        });
    }
    json!({"scenario": "exprsig", "members": out})
}
