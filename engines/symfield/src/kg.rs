//! `sx keygen`: what the REAL keygen_vk commits to, next to what the REAL MockProver records, for one shape.
//!  * keygen side: keygen_vk at F = SymF, CS = SymCS. A SymCS commitment is the interned handle of the
//!    committed vector, so vk.permutation().commitments() decode to the sigma vectors (constants
//!    delta^j' * omega^i' = the image cell (j', i') of cell (column j, row i)) and vk.fixed_commitments() to the
//!    fixed columns followed by the selectors-as-fixed columns.
//!  * checker side: MockProver::run on the same circuit type at Fq (a satisfying witness is supplied because
//!    the checker wants values; its permutation Assembly does not depend on them): permutation().columns(),
//!    permutation().mapping(), fixed(), selectors().
use std::collections::HashMap;

use ff::{Field, PrimeField};
use midnight_curves::Fq;
use midnight_proofs::dev::{CellValue, MockProver};
use midnight_proofs::plonk::{keygen_vk_with_k, Any, Column};
use rayon::iter::ParallelIterator;
use serde_json::{json, Value};

use crate::shape::ShapeCircuit;
use crate::symcs::*;
use crate::symf::*;
use crate::{arg_usize, lens_of, load_shape};

fn col_name(c: &Column<Any>) -> String {
    let t = match c.column_type() {
        Any::Advice(_) => "a",
        Any::Fixed => "f",
        Any::Instance => "i",
    };
    format!("{t}{}", c.index())
}

fn handle_vec(h: u32) -> Vec<String> {
    let w = WORLD.lock().unwrap();
    let a = ARENA.lock().unwrap();
    match &w.coms[h as usize] {
        ComDef::Committed { vec, .. } => vec
            .iter()
            .map(|i| match &a.nodes[*i as usize] {
                Node::Const(c) => fq_hex(c),
                n => format!("non-constant:{n:?}"),
            })
            .collect(),
        other => vec![format!("not-a-commitment:{other:?}")],
    }
}

pub fn run(a: &HashMap<String, String>) -> Value {
    let shape = load_shape(a);
    let k = arg_usize(a, "k", 4) as u32;
    let lens = lens_of(a, shape.ninst);
    let params = SymParams { k };
    let empty = ShapeCircuit::<SymF> { shape: shape.clone(), proof_idx: 0, gen: None, inst: vec![], cheat: None };
    let vk = keygen_vk_with_k::<SymF, SymCS, _>(&params, &empty, k).expect("keygen_vk");
    let kg_cols: Vec<String> = vk.cs().permutation().get_columns().iter().map(col_name).collect();
    let sigma: Vec<Vec<String>> = vk.permutation().commitments().iter().map(|c| handle_vec(c.0)).collect();
    let kg_fixed: Vec<Vec<String>> = vk.fixed_commitments().iter().map(|c| handle_vec(c.0)).collect();
    // checker
    let inst: Vec<Vec<Fq>> = lens.iter().enumerate().map(|(c, l)| (0..*l).map(|j| Fq::from((5 + 7 * c + j) as u64)).collect()).collect();
    let circuit = ShapeCircuit::<Fq> { shape: shape.clone(), proof_idx: 0, gen: Some(crate::real::wit), inst: inst.clone(), cheat: None };
    let mock = MockProver::run(k, &circuit, inst).expect("MockProver::run");
    let asm = mock.permutation();
    let mk_cols: Vec<String> = asm.columns().iter().map(col_name).collect();
    let mapping: Vec<Vec<(usize, usize)>> = asm.mapping().map(|c| c.collect::<Vec<_>>()).collect();
    let cell = |v: &CellValue<Fq>| match v {
        CellValue::Assigned(f) => fq_hex(f),
        _ => "0x0".to_string(),
    };
    let mk_fixed: Vec<Vec<String>> = mock.fixed().iter().map(|col| col.iter().map(cell).collect()).collect();
    let mk_sel: Vec<Vec<bool>> = mock.selectors().clone();
    // informational only (is the supplied witness satisfying?). MockProver::verify can panic while FORMATTING a failure
    // that involves a poisoned blinding-row cell (dev/util.rs `Value::Poison => unreachable!()`, e.g. a gate without
    // selector): that is reported as null, it is not what this scenario is about.
    let hook = std::panic::take_hook();
    std::panic::set_hook(Box::new(|_| {}));
    let verify_ok: Option<bool> = std::panic::catch_unwind(std::panic::AssertUnwindSafe(|| mock.verify().is_ok())).ok();
    std::panic::set_hook(hook);
    let omega = Fq::ROOT_OF_UNITY.pow_vartime([1u64 << (Fq::S - k)]);
    let mut out = json!({"scenario": "keygen", "k": k, "n": 1u64 << k, "omega": fq_hex(&omega), "delta": fq_hex(&Fq::DELTA),
           "keygen": {"columns": kg_cols, "sigma": sigma, "fixed": kg_fixed, "num_fixed_columns_after_selectors": vk.cs().num_fixed_columns()},
           "mock": {"columns": mk_cols, "mapping": mapping, "fixed": mk_fixed, "selectors": mk_sel,
                    "usable_rows": mock.usable_rows().end, "verify_ok": verify_ok}});
    // ---- added for the static-table family: cell states of the checker's fixed columns (A assigned, U unassigned,
    //      P poisoned), the vk side's own count of usable rows, and the static lookups (below)
    let state = |v: &CellValue<Fq>| match v {
        CellValue::Assigned(_) => "A",
        CellValue::Unassigned => "U",
        CellValue::Poison(_) => "P",
    };
    out["mock"]["fixed_state"] = json!(mock.fixed().iter().map(|col| col.iter().map(state).collect::<String>()).collect::<Vec<_>>());
    out["keygen"]["usable_rows"] = json!((1usize << k) - (vk.cs().blinding_factors() + 1));
    if !shape.slookups.is_empty() {
        out["slookups"] = static_lookups(&shape, k, &vk, &mock);
        out["arena"] = dump_arena();
    }
    out
}

fn handle_terms(h: u32) -> Vec<SymF> {
    let w = WORLD.lock().unwrap();
    let a = ARENA.lock().unwrap();
    match &w.coms[h as usize] {
        ComDef::Committed { vec, .. } => vec
            .iter()
            .map(|i| match &a.nodes[*i as usize] {
                Node::Const(c) => SymF::C(*c),
                _ => SymF::T(*i),
            })
            .collect(),
        _ => vec![],
    }
}

/// Per static lookup and usable row: (impl) the lookup's input expressions as they stand in vk.cs() AFTER keygen (selectors
/// replaced by fixed columns), evaluated over the fixed vectors the vk commits to, advice / instance cells and challenges
/// symbolic; (spec) the input as DECLARED by the shape (sum of products, selector form), with the selector bit taken from
/// the checker's `selectors()` at the index `meta.complex_selector()` returned. Term ids into the arena.
fn static_lookups(
    shape: &crate::shape::Shape,
    k: u32,
    vk: &midnight_proofs::plonk::VerifyingKey<SymF, SymCS>,
    mock: &MockProver<Fq>,
) -> Value {
    use crate::shape::Atom;
    use midnight_proofs::plonk::{Circuit, ConstraintSystem};
    let n = 1usize << k;
    let urows = n - (vk.cs().blinding_factors() + 1);
    let mut cs0 = ConstraintSystem::<Fq>::default();
    let cfg = ShapeCircuit::<Fq>::configure_with_params(&mut cs0, shape.clone());
    let fixed: Vec<Vec<SymF>> = vk.fixed_commitments().iter().map(|c| handle_terms(c.0)).collect();
    let wrap = |row: usize, rot: i32| ((row as i64 + rot as i64).rem_euclid(n as i64)) as usize;
    let adv = |col: usize, row: usize| var(&format!("A{col}_{row}"));
    let mut out = vec![];
    for (li, lk) in shape.slookups.iter().enumerate() {
        let lidx = shape.lookups.len() + li;
        let arg = &vk.cs().lookups()[lidx];
        let sel_index = cfg.lsels[li].map(|s| s.index());
        let t = &shape.tables[lk.table];
        let mut impl_rows = vec![];
        let mut spec_rows = vec![];
        for row in 0..urows {
            let mut irow = vec![];
            let mut srow = vec![];
            for (j, e) in arg.input_expressions().iter().enumerate() {
                let v: SymF = e.evaluate(
                    &|c| c,
                    &|_| panic!("selector left in a vk lookup expression"),
                    &|q| fixed[q.column_index()][wrap(row, q.rotation().0)],
                    &|q| adv(q.column_index(), wrap(row, q.rotation().0)),
                    &|q| var(&format!("I{}_{}", q.column_index(), wrap(row, q.rotation().0))),
                    &|c| var(&format!("CH{}", c.index())),
                    &|a| -a,
                    &|a, b| a + b,
                    &|a, b| a * b,
                    &|a, f| a * f,
                );
                irow.push(id(v));
                // declared
                let mut inp = SymF::ZERO;
                for p in lk.inputs[j].iter() {
                    let mut pv = SymF::ONE;
                    for a in p.iter() {
                        pv = pv
                            * match a {
                                Atom::A(c, r) => adv(*c, wrap(row, *r)),
                                Atom::K(kv) => SymF::from(*kv),
                                Atom::C(i) => var(&format!("CH{i}")),
                                Atom::I(c, r) => var(&format!("I{c}_{}", wrap(row, *r))),
                                Atom::F(..) => panic!("static lookup input: fixed atom"),
                            };
                    }
                    inp = inp + pv;
                }
                let q = sel_index.map(|si| if mock.selectors()[si][row] { SymF::ONE } else { SymF::ZERO });
                let d = SymF::from(t.rows[0][j]);
                let sv = match (lk.sel.as_str(), q) {
                    ("mux", Some(q)) => q * inp + (SymF::ONE - q) * d,
                    ("mul", Some(q)) => q * inp,
                    _ => inp,
                };
                srow.push(id(sv));
            }
            impl_rows.push(irow);
            spec_rows.push(srow);
        }
        let tcols: Vec<usize> = cfg.tcols[lk.table].iter().map(|c| c.inner().index()).collect();
        out.push(json!({"lookup_index": lidx, "name": arg.name(), "table": lk.table, "table_fixed_cols": tcols, "sel": lk.sel,
                        "sel_index": sel_index, "enabled_rows": shape.slookup_rows(li), "table_rows": t.rows,
                        "impl": impl_rows, "spec": spec_rows}));
    }
    json!(out)
}
