//! `sx keygen`: what the REAL keygen_vk commits to, next to what the REAL MockProver records, for one shape.
//!  * keygen side: keygen_vk at F = SymF, CS = SymCS. A SymCS commitment is the interned handle of the
//!    committed vector, so vk.permutation().commitments() decode to the sigma vectors (constants
//!    delta^j' * omega^i' = the image cell (j', i') of cell (column j, row i)) and vk.fixed_commitments() to the
//!    fixed columns followed by the selectors-as-fixed columns.
//!  * checker side: MockProver::run on the same circuit type at Fq (a satisfying witness is supplied because
//!    the checker wants values; its permutation Assembly does not depend on them): permutation().columns(),
//!    permutation().mapping(), fixed(), selectors().
use std::collections::HashMap;

use ff::{Field, PrimeField};
use midnight_curves::Fq;
use midnight_proofs::dev::{CellValue, MockProver};
use midnight_proofs::plonk::{keygen_vk_with_k, Any, Column};
use rayon::iter::ParallelIterator;
use serde_json::{json, Value};

use crate::shape::ShapeCircuit;
use crate::symcs::*;
use crate::symf::*;
use crate::{arg_usize, lens_of, load_shape};

fn col_name(c: &Column<Any>) -> String {
    let t = match c.column_type() {
        Any::Advice(_) => "a",
        Any::Fixed => "f",
        Any::Instance => "i",
    };
    format!("{t}{}", c.index())
}

fn handle_vec(h: u32) -> Vec<String> {
    let w = WORLD.lock().unwrap();
    let a = ARENA.lock().unwrap();
    match &w.coms[h as usize] {
        ComDef::Committed { vec, .. } => vec
            .iter()
            .map(|i| match &a.nodes[*i as usize] {
                Node::Const(c) => fq_hex(c),
                n => format!("non-constant:{n:?}"),
            })
            .collect(),
        other => vec![format!("not-a-commitment:{other:?}")],
    }
}

pub fn run(a: &HashMap<String, String>) -> Value {
    let shape = load_shape(a);
    let k = arg_usize(a, "k", 4) as u32;
    let lens = lens_of(a, shape.ninst);
    let params = SymParams { k };
    let empty = ShapeCircuit::<SymF> { shape: shape.clone(), proof_idx: 0, gen: None, inst: vec![], cheat: None };
    let vk = keygen_vk_with_k::<SymF, SymCS, _>(&params, &empty, k).expect("keygen_vk");
    let kg_cols: Vec<String> = vk.cs().permutation().get_columns().iter().map(col_name).collect();
    let sigma: Vec<Vec<String>> = vk.permutation().commitments().iter().map(|c| handle_vec(c.0)).collect();
    let kg_fixed: Vec<Vec<String>> = vk.fixed_commitments().iter().map(|c| handle_vec(c.0)).collect();
    // checker
    let inst: Vec<Vec<Fq>> = lens.iter().enumerate().map(|(c, l)| (0..*l).map(|j| Fq::from((5 + 7 * c + j) as u64)).collect()).collect();
    let circuit = ShapeCircuit::<Fq> { shape: shape.clone(), proof_idx: 0, gen: Some(crate::real::wit), inst: inst.clone(), cheat: None };
    let mock = MockProver::run(k, &circuit, inst).expect("MockProver::run");
    let asm = mock.permutation();
    let mk_cols: Vec<String> = asm.columns().iter().map(col_name).collect();
    let mapping: Vec<Vec<(usize, usize)>> = asm.mapping().map(|c| c.collect::<Vec<_>>()).collect();
    let cell = |v: &CellValue<Fq>| match v {
        CellValue::Assigned(f) => fq_hex(f),
        _ => "0x0".to_string(),
    };
    let mk_fixed: Vec<Vec<String>> = mock.fixed().iter().map(|col| col.iter().map(cell).collect()).collect();
    let mk_sel: Vec<Vec<bool>> = mock.selectors().clone();
    // informational only (is the supplied witness satisfying?). MockProver::verify can panic while FORMATTING a failure
    // that involves a poisoned blinding-row cell (dev/util.rs `Value::Poison => unreachable!()`, e.g. a gate without
    // selector): that is reported as null, it is not what this scenario is about.
    let hook = std::panic::take_hook();
    std::panic::set_hook(Box::new(|_| {}));
    let verify_ok: Option<bool> = std::panic::catch_unwind(std::panic::AssertUnwindSafe(|| mock.verify().is_ok())).ok();
    std::panic::set_hook(hook);
    let omega = Fq::ROOT_OF_UNITY.pow_vartime([1u64 << (Fq::S - k)]);
    json!({"scenario": "keygen", "k": k, "n": 1u64 << k, "omega": fq_hex(&omega), "delta": fq_hex(&Fq::DELTA),
           "keygen": {"columns": kg_cols, "sigma": sigma, "fixed": kg_fixed, "num_fixed_columns_after_selectors": vk.cs().num_fixed_columns()},
           "mock": {"columns": mk_cols, "mapping": mapping, "fixed": mk_fixed, "selectors": mk_sel,
                    "usable_rows": mock.usable_rows().end, "verify_ok": verify_ok}})
}
