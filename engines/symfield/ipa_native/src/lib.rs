//! The REAL source file of the inner-product argument compiled against the real midnight-curves (real
//! `msm_best`). Needed because `mod inner_product_argument` is private in midnight-aggregator.
#[allow(dead_code, unused_imports, missing_docs)]
pub mod inner_product_argument {
    include!(concat!(env!("OUT_DIR"), "/inner_product_argument.rs"));
}
/// path of the source file this build was made from
pub const SOURCE: &str = env!("VERIF_IPA_SOURCE");
