//! `midnight_curves` as seen by the shimmed compilation of `aggregator/src/inner_product_argument.rs`.
//!
//! Everything is the real crate (glob re-export: same traits, same types), except `msm::msm_best`.
//! The real `msm_best<C: CurveAffine>` (curves/src/msm.rs) is generic in the curve but starts with
//! `coeffs.iter().map(|a| a.to_repr())` and selects buckets from the Booth-recoded BYTES of every scalar
//! (`get_booth_index`): its control flow depends on the bit representation of the coefficients, which a
//! term-valued scalar (SymF) does not have. The shim is its contract
//!     msm_best(coeffs, bases) = sum_i bases[i] * coeffs[i]      (panics when the lengths differ),
//! computed through the `PrimeCurveAffine`/`Group` operators only. The contract of the real function is
//! not established here (MSM correctness is a separate property); the part cross-runs real and shimmed
//! compilation at concrete values on every run (translator validation).
pub use midnight_curves::*;

pub mod msm {
    use group::Group;
    use midnight_curves::CurveAffine;

    /// same signature and same length assertion as curves/src/msm.rs::msm_best
    pub fn msm_best<C: CurveAffine>(coeffs: &[C::Scalar], bases: &[C]) -> C::Curve {
        assert_eq!(coeffs.len(), bases.len());
        coeffs.iter().zip(bases.iter()).fold(C::Curve::identity(), |acc, (c, b)| acc + *b * *c)
    }
}
