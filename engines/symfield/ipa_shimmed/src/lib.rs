//! The REAL source file of the inner-product argument, compiled with `midnight_curves` = verif-curves-shim
//! (see that crate: only `msm::msm_best` differs). `ipa_prove` / `ipa_verify` are the repository's functions.
#[allow(dead_code, unused_imports, missing_docs)]
pub mod inner_product_argument {
    include!(concat!(env!("OUT_DIR"), "/inner_product_argument.rs"));
}
/// path of the source file this build was made from
pub const SOURCE: &str = env!("VERIF_IPA_SOURCE");
