//! Copies <repo>/aggregator/src/inner_product_argument.rs (repo = $VERIF_REPO, default /repo) into OUT_DIR on
//! every build. The only transformation: the leading `//!` module doc lines become `//` comments, because an
//! `include!`d file cannot carry inner doc attributes. Nothing else is touched; the sha256-free byte comparison
//! of the remaining lines is re-done by the Python part (vf/ipa.py::source_check).
use std::{env, fs, path::PathBuf};

fn main() {
    let repo = env::var("VERIF_REPO").unwrap_or_else(|_| "/repo".to_string());
    let src = PathBuf::from(&repo).join("aggregator/src/inner_product_argument.rs");
    println!("cargo:rerun-if-env-changed=VERIF_REPO");
    println!("cargo:rerun-if-changed={}", src.display());
    let txt = fs::read_to_string(&src).unwrap_or_else(|e| panic!("{}: {e}", src.display()));
    let out: String = txt
        .lines()
        .map(|l| if l.starts_with("//!") { format!("//{}\n", &l[3..]) } else { format!("{l}\n") })
        .collect();
    let dst = PathBuf::from(env::var("OUT_DIR").unwrap()).join("inner_product_argument.rs");
    fs::write(&dst, out).unwrap();
    println!("cargo:rustc-env=VERIF_IPA_SOURCE={}", src.display());
}
