//! Engine K harnesses over zkir / zk_stdlib / circuits.
pub mod vk;
#[cfg(kani)]
#[kani::proof]
fn smoke() {
    let x: u8 = kani::any();
    assert!(x as u16 + 1 > 0);
}
