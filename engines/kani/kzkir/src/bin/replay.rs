fn main() {}
