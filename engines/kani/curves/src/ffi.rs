//! blst as an ENVIRONMENT. Every `blst_*` function reachable from a harness is replaced
//! (`#[kani::stub]`, `-Z stubbing`) by the stub below: it returns / writes NONDETERMINISTIC values
//! (no constraint at all: a sound over-approximation of any C implementation) and records its
//! arguments and answers in ghost statics, so that a harness can state WRAPPER CONTRACTS such as
//! "`from_compressed` is `Some` only if uncompress succeeded and the on-curve oracle and the subgroup
//! oracle said yes for that very point".
//!
//! There is exactly ONE stub per blst function, shared by all harnesses. In the native replay binary
//! the same stubs are linked in place of the blst symbols (src/interpose.rs), answering from the
//! solver's concrete values, so a counterexample found under Kani is re-executed on the real Rust
//! wrappers with the same environment answers.
use crate::vk::any;
use blst::*;

/// Call log of one stubbed function: up to K calls, each with NARG limb-array arguments of L limbs,
/// one limb-array result, and one boolean (flag argument or boolean answer).
#[derive(Clone, Copy)]
pub struct Log<const L: usize, const NARG: usize, const K: usize> {
    pub n: usize,
    pub a: [[[u64; L]; NARG]; K],
    pub r: [[u64; L]; K],
    pub b: [bool; K],
    /// the most recent call (whatever its index)
    pub la: [[u64; L]; NARG],
    pub lr: [u64; L],
    pub lb: bool,
}
impl<const L: usize, const NARG: usize, const K: usize> Log<L, NARG, K> {
    pub const fn new() -> Self {
        Log { n: 0, a: [[[0; L]; NARG]; K], r: [[0; L]; K], b: [false; K], la: [[0; L]; NARG], lr: [0; L], lb: false }
    }
    #[inline(always)]
    pub fn rec(&mut self, a: [[u64; L]; NARG], r: [u64; L], b: bool) {
        if self.n < K {
            self.a[self.n] = a;
            self.r[self.n] = r;
            self.b[self.n] = b;
        }
        self.la = a;
        self.lr = r;
        self.lb = b;
        self.n += 1;
    }
}

/// Byte-string log (decoders): input bytes of the last call, answer, number of calls.
#[derive(Clone, Copy)]
pub struct BLog<const NB: usize, const L: usize> {
    pub n: usize,
    pub input: [u8; NB],
    pub ok: bool,
    pub out: [u64; L],
}
impl<const NB: usize, const L: usize> BLog<NB, L> {
    pub const fn new() -> Self {
        BLog { n: 0, input: [0; NB], ok: false, out: [0; L] }
    }
}

// ------------------------------------------------------------------ scalar field Fr (midnight "Fq")
pub static mut FR_CHECK: BLog<32, 1> = BLog::new();
pub static mut FR_FROM_U64: Log<4, 1, 2> = Log::new();
pub static mut U64_FROM_FR: Log<4, 1, 2> = Log::new();
pub static mut SCALAR_FROM_U64: BLog<32, 4> = BLog::new(); // out: the 4 input limbs; input: bytes written
pub static mut FR_FROM_SCALAR: BLog<32, 4> = BLog::new();
pub static mut SCALAR_FROM_FR: BLog<32, 4> = BLog::new();
pub static mut FR_ADD: Log<4, 2, 4> = Log::new();
pub static mut FR_SUB: Log<4, 2, 4> = Log::new();
pub static mut FR_MUL: Log<4, 2, 4> = Log::new();
pub static mut FR_SQR: Log<4, 1, 4> = Log::new();
pub static mut FR_CNEG: Log<4, 1, 4> = Log::new();
pub static mut FR_INV: Log<4, 1, 2> = Log::new();

pub unsafe fn stub_scalar_fr_check(a: *const blst_scalar) -> bool {
    let ans: bool = any();
    FR_CHECK.input = (*a).b;
    FR_CHECK.ok = ans;
    FR_CHECK.n += 1;
    ans
}
pub unsafe fn stub_fr_from_uint64(ret: *mut blst_fr, a: *const u64) {
    let arg = *(a as *const [u64; 4]);
    let out: [u64; 4] = any();
    FR_FROM_U64.rec([arg], out, false);
    (*ret).l = out;
}
pub unsafe fn stub_uint64_from_fr(ret: *mut u64, a: *const blst_fr) {
    let arg = (*a).l;
    let out: [u64; 4] = any();
    U64_FROM_FR.rec([arg], out, false);
    *(ret as *mut [u64; 4]) = out;
}
pub unsafe fn stub_scalar_from_uint64(out: *mut blst_scalar, a: *const u64) {
    let arg = *(a as *const [u64; 4]);
    let bytes: [u8; 32] = any();
    SCALAR_FROM_U64.out = arg;
    SCALAR_FROM_U64.input = bytes;
    SCALAR_FROM_U64.n += 1;
    (*out).b = bytes;
}
pub unsafe fn stub_fr_from_scalar(ret: *mut blst_fr, a: *const blst_scalar) {
    let out: [u64; 4] = any();
    FR_FROM_SCALAR.input = (*a).b;
    FR_FROM_SCALAR.out = out;
    FR_FROM_SCALAR.n += 1;
    (*ret).l = out;
}
pub unsafe fn stub_scalar_from_fr(ret: *mut blst_scalar, a: *const blst_fr) {
    let bytes: [u8; 32] = any();
    SCALAR_FROM_FR.out = (*a).l;
    SCALAR_FROM_FR.input = bytes;
    SCALAR_FROM_FR.n += 1;
    (*ret).b = bytes;
}
pub unsafe fn stub_fr_add(ret: *mut blst_fr, a: *const blst_fr, b: *const blst_fr) {
    let (x, y) = ((*a).l, (*b).l);
    let out: [u64; 4] = any();
    FR_ADD.rec([x, y], out, false);
    (*ret).l = out;
}
pub unsafe fn stub_fr_sub(ret: *mut blst_fr, a: *const blst_fr, b: *const blst_fr) {
    let (x, y) = ((*a).l, (*b).l);
    let out: [u64; 4] = any();
    FR_SUB.rec([x, y], out, false);
    (*ret).l = out;
}
pub unsafe fn stub_fr_mul(ret: *mut blst_fr, a: *const blst_fr, b: *const blst_fr) {
    let (x, y) = ((*a).l, (*b).l);
    let out: [u64; 4] = any();
    FR_MUL.rec([x, y], out, false);
    (*ret).l = out;
}
pub unsafe fn stub_fr_sqr(ret: *mut blst_fr, a: *const blst_fr) {
    let x = (*a).l;
    let out: [u64; 4] = any();
    FR_SQR.rec([x], out, false);
    (*ret).l = out;
}
pub unsafe fn stub_fr_cneg(ret: *mut blst_fr, a: *const blst_fr, flag: bool) {
    let x = (*a).l;
    let out: [u64; 4] = any();
    FR_CNEG.rec([x], out, flag);
    (*ret).l = out;
}
pub unsafe fn stub_fr_eucl_inverse(ret: *mut blst_fr, a: *const blst_fr) {
    let x = (*a).l;
    let out: [u64; 4] = any();
    FR_INV.rec([x], out, false);
    (*ret).l = out;
}

// ------------------------------------------------------------------ base field Fp
pub static mut FP_FROM_LE: BLog<48, 6> = BLog::new();
pub static mut LE_FROM_FP: Log<6, 1, 2> = Log::new(); // r: bytes written, packed as 6 LE limbs
pub static mut FP_FROM_U64: Log<6, 1, 2> = Log::new();
pub static mut FP_ADD: Log<6, 2, 4> = Log::new();
pub static mut FP_SUB: Log<6, 2, 4> = Log::new();
pub static mut FP_MUL: Log<6, 2, 6> = Log::new();
pub static mut FP_SQR: Log<6, 1, 4> = Log::new();
pub static mut FP_CNEG: Log<6, 1, 4> = Log::new();
pub static mut FP_INV: Log<6, 1, 2> = Log::new();
pub static mut FP_SQRT: Log<6, 1, 2> = Log::new();

pub fn limbs6_to_bytes(l: &[u64; 6]) -> [u8; 48] {
    let mut o = [0u8; 48];
    let mut i = 0;
    while i < 6 {
        let b = l[i].to_le_bytes();
        let mut j = 0;
        while j < 8 {
            o[8 * i + j] = b[j];
            j += 1;
        }
        i += 1;
    }
    o
}
pub fn limbs4_to_bytes(l: &[u64; 4]) -> [u8; 32] {
    let mut o = [0u8; 32];
    let mut i = 0;
    while i < 4 {
        let b = l[i].to_le_bytes();
        let mut j = 0;
        while j < 8 {
            o[8 * i + j] = b[j];
            j += 1;
        }
        i += 1;
    }
    o
}
pub fn bytes_to_limbs4(b: &[u8; 32]) -> [u64; 4] {
    let mut o = [0u64; 4];
    let mut i = 0;
    while i < 4 {
        let mut v = 0u64;
        let mut j = 0;
        while j < 8 {
            v |= (b[8 * i + j] as u64) << (8 * j);
            j += 1;
        }
        o[i] = v;
        i += 1;
    }
    o
}
pub fn bytes_to_limbs6(b: &[u8; 48]) -> [u64; 6] {
    let mut o = [0u64; 6];
    let mut i = 0;
    while i < 6 {
        let mut v = 0u64;
        let mut j = 0;
        while j < 8 {
            v |= (b[8 * i + j] as u64) << (8 * j);
            j += 1;
        }
        o[i] = v;
        i += 1;
    }
    o
}

pub unsafe fn stub_fp_from_lendian(ret: *mut blst_fp, a: *const u8) {
    let inp = *(a as *const [u8; 48]);
    let out: [u64; 6] = any();
    FP_FROM_LE.input = inp;
    FP_FROM_LE.out = out;
    FP_FROM_LE.n += 1;
    (*ret).l = out;
}
pub unsafe fn stub_lendian_from_fp(ret: *mut u8, a: *const blst_fp) {
    let x = (*a).l;
    let out: [u64; 6] = any();
    LE_FROM_FP.rec([x], out, false);
    *(ret as *mut [u8; 48]) = limbs6_to_bytes(&out);
}
pub unsafe fn stub_fp_from_uint64(ret: *mut blst_fp, a: *const u64) {
    let arg = *(a as *const [u64; 6]);
    let out: [u64; 6] = any();
    FP_FROM_U64.rec([arg], out, false);
    (*ret).l = out;
}
pub unsafe fn stub_fp_add(ret: *mut blst_fp, a: *const blst_fp, b: *const blst_fp) {
    let (x, y) = ((*a).l, (*b).l);
    let out: [u64; 6] = any();
    FP_ADD.rec([x, y], out, false);
    (*ret).l = out;
}
pub unsafe fn stub_fp_sub(ret: *mut blst_fp, a: *const blst_fp, b: *const blst_fp) {
    let (x, y) = ((*a).l, (*b).l);
    let out: [u64; 6] = any();
    FP_SUB.rec([x, y], out, false);
    (*ret).l = out;
}
pub unsafe fn stub_fp_mul(ret: *mut blst_fp, a: *const blst_fp, b: *const blst_fp) {
    let (x, y) = ((*a).l, (*b).l);
    let out: [u64; 6] = any();
    FP_MUL.rec([x, y], out, false);
    (*ret).l = out;
}
pub unsafe fn stub_fp_sqr(ret: *mut blst_fp, a: *const blst_fp) {
    let x = (*a).l;
    let out: [u64; 6] = any();
    FP_SQR.rec([x], out, false);
    (*ret).l = out;
}
pub unsafe fn stub_fp_cneg(ret: *mut blst_fp, a: *const blst_fp, flag: bool) {
    let x = (*a).l;
    let out: [u64; 6] = any();
    FP_CNEG.rec([x], out, flag);
    (*ret).l = out;
}
pub unsafe fn stub_fp_eucl_inverse(ret: *mut blst_fp, a: *const blst_fp) {
    let x = (*a).l;
    let out: [u64; 6] = any();
    FP_INV.rec([x], out, false);
    (*ret).l = out;
}
pub unsafe fn stub_fp_sqrt(ret: *mut blst_fp, a: *const blst_fp) -> bool {
    let x = (*a).l;
    let ans: bool = any();
    let out: [u64; 6] = any();
    FP_SQRT.rec([x], out, ans);
    (*ret).l = out;
    ans
}

// ------------------------------------------------------------------ G1
/// affine point as 12 limbs (x, y); projective as 18 limbs (x, y, z)
pub fn p1a_limbs(p: &blst_p1_affine) -> [u64; 12] {
    let mut o = [0u64; 12];
    let mut i = 0;
    while i < 6 {
        o[i] = p.x.l[i];
        o[6 + i] = p.y.l[i];
        i += 1;
    }
    o
}
pub fn p1_limbs(p: &blst_p1) -> [u64; 18] {
    let mut o = [0u64; 18];
    let mut i = 0;
    while i < 6 {
        o[i] = p.x.l[i];
        o[6 + i] = p.y.l[i];
        o[12 + i] = p.z.l[i];
        i += 1;
    }
    o
}
unsafe fn write_p1a(out: *mut blst_p1_affine, l: &[u64; 12]) {
    let mut i = 0;
    while i < 6 {
        (*out).x.l[i] = l[i];
        (*out).y.l[i] = l[6 + i];
        i += 1;
    }
}

pub static mut P1_UNCOMPRESS: BLog<48, 12> = BLog::new();
pub static mut P1_DESERIALIZE: BLog<96, 12> = BLog::new();
pub static mut P1A_ON_CURVE: Log<12, 1, 2> = Log::new();
pub static mut P1A_IN_G1: Log<12, 1, 2> = Log::new();
pub static mut P1_FROM_AFFINE: Log<18, 1, 2> = Log::new(); // a: affine padded to 18 limbs; r: projective
pub static mut P1_ON_CURVE: Log<18, 1, 2> = Log::new();
pub static mut P1_IS_INF: Log<18, 1, 2> = Log::new();

pub unsafe fn stub_p1_uncompress(out: *mut blst_p1_affine, inp: *const u8) -> BLST_ERROR {
    let ok: bool = any();
    let pt: [u64; 12] = any();
    P1_UNCOMPRESS.input = *(inp as *const [u8; 48]);
    P1_UNCOMPRESS.ok = ok;
    P1_UNCOMPRESS.out = pt;
    P1_UNCOMPRESS.n += 1;
    write_p1a(out, &pt);
    if ok {
        BLST_ERROR::BLST_SUCCESS
    } else {
        BLST_ERROR::BLST_BAD_ENCODING
    }
}
pub unsafe fn stub_p1_deserialize(out: *mut blst_p1_affine, inp: *const u8) -> BLST_ERROR {
    let ok: bool = any();
    let pt: [u64; 12] = any();
    P1_DESERIALIZE.input = *(inp as *const [u8; 96]);
    P1_DESERIALIZE.ok = ok;
    P1_DESERIALIZE.out = pt;
    P1_DESERIALIZE.n += 1;
    write_p1a(out, &pt);
    if ok {
        BLST_ERROR::BLST_SUCCESS
    } else {
        BLST_ERROR::BLST_BAD_ENCODING
    }
}
pub unsafe fn stub_p1_affine_on_curve(p: *const blst_p1_affine) -> bool {
    let ans: bool = any();
    P1A_ON_CURVE.rec([p1a_limbs(&*p)], [0; 12], ans);
    ans
}
pub unsafe fn stub_p1_affine_in_g1(p: *const blst_p1_affine) -> bool {
    let ans: bool = any();
    P1A_IN_G1.rec([p1a_limbs(&*p)], [0; 12], ans);
    ans
}
pub unsafe fn stub_p1_from_affine(out: *mut blst_p1, inp: *const blst_p1_affine) {
    let a = p1a_limbs(&*inp);
    let mut a18 = [0u64; 18];
    let mut i = 0;
    while i < 12 {
        a18[i] = a[i];
        i += 1;
    }
    let r: [u64; 18] = any();
    P1_FROM_AFFINE.rec([a18], r, false);
    let mut i = 0;
    while i < 6 {
        (*out).x.l[i] = r[i];
        (*out).y.l[i] = r[6 + i];
        (*out).z.l[i] = r[12 + i];
        i += 1;
    }
}
pub unsafe fn stub_p1_on_curve(p: *const blst_p1) -> bool {
    let ans: bool = any();
    P1_ON_CURVE.rec([p1_limbs(&*p)], [0; 18], ans);
    ans
}
pub unsafe fn stub_p1_is_inf(p: *const blst_p1) -> bool {
    let ans: bool = any();
    P1_IS_INF.rec([p1_limbs(&*p)], [0; 18], ans);
    ans
}

// ------------------------------------------------------------------ G2
pub fn p2a_limbs(p: &blst_p2_affine) -> [u64; 24] {
    let mut o = [0u64; 24];
    let mut i = 0;
    while i < 6 {
        o[i] = p.x.fp[0].l[i];
        o[6 + i] = p.x.fp[1].l[i];
        o[12 + i] = p.y.fp[0].l[i];
        o[18 + i] = p.y.fp[1].l[i];
        i += 1;
    }
    o
}
pub fn p2_limbs(p: &blst_p2) -> [u64; 36] {
    let mut o = [0u64; 36];
    let mut i = 0;
    while i < 6 {
        o[i] = p.x.fp[0].l[i];
        o[6 + i] = p.x.fp[1].l[i];
        o[12 + i] = p.y.fp[0].l[i];
        o[18 + i] = p.y.fp[1].l[i];
        o[24 + i] = p.z.fp[0].l[i];
        o[30 + i] = p.z.fp[1].l[i];
        i += 1;
    }
    o
}
unsafe fn write_p2a(out: *mut blst_p2_affine, l: &[u64; 24]) {
    let mut i = 0;
    while i < 6 {
        (*out).x.fp[0].l[i] = l[i];
        (*out).x.fp[1].l[i] = l[6 + i];
        (*out).y.fp[0].l[i] = l[12 + i];
        (*out).y.fp[1].l[i] = l[18 + i];
        i += 1;
    }
}

pub static mut P2_UNCOMPRESS: BLog<96, 24> = BLog::new();
pub static mut P2_DESERIALIZE: BLog<192, 24> = BLog::new();
pub static mut P2A_ON_CURVE: Log<24, 1, 2> = Log::new();
pub static mut P2A_IN_G2: Log<24, 1, 2> = Log::new();
pub static mut P2_FROM_AFFINE: Log<36, 1, 2> = Log::new();
pub static mut P2_ON_CURVE: Log<36, 1, 2> = Log::new();
pub static mut P2_IS_INF: Log<36, 1, 2> = Log::new();

pub unsafe fn stub_p2_uncompress(out: *mut blst_p2_affine, inp: *const u8) -> BLST_ERROR {
    let ok: bool = any();
    let pt: [u64; 24] = any();
    P2_UNCOMPRESS.input = *(inp as *const [u8; 96]);
    P2_UNCOMPRESS.ok = ok;
    P2_UNCOMPRESS.out = pt;
    P2_UNCOMPRESS.n += 1;
    write_p2a(out, &pt);
    if ok {
        BLST_ERROR::BLST_SUCCESS
    } else {
        BLST_ERROR::BLST_BAD_ENCODING
    }
}
pub unsafe fn stub_p2_deserialize(out: *mut blst_p2_affine, inp: *const u8) -> BLST_ERROR {
    let ok: bool = any();
    let pt: [u64; 24] = any();
    P2_DESERIALIZE.input = *(inp as *const [u8; 192]);
    P2_DESERIALIZE.ok = ok;
    P2_DESERIALIZE.out = pt;
    P2_DESERIALIZE.n += 1;
    write_p2a(out, &pt);
    if ok {
        BLST_ERROR::BLST_SUCCESS
    } else {
        BLST_ERROR::BLST_BAD_ENCODING
    }
}
pub unsafe fn stub_p2_affine_on_curve(p: *const blst_p2_affine) -> bool {
    let ans: bool = any();
    P2A_ON_CURVE.rec([p2a_limbs(&*p)], [0; 24], ans);
    ans
}
pub unsafe fn stub_p2_affine_in_g2(p: *const blst_p2_affine) -> bool {
    let ans: bool = any();
    P2A_IN_G2.rec([p2a_limbs(&*p)], [0; 24], ans);
    ans
}
pub unsafe fn stub_p2_from_affine(out: *mut blst_p2, inp: *const blst_p2_affine) {
    let a = p2a_limbs(&*inp);
    let mut a36 = [0u64; 36];
    let mut i = 0;
    while i < 24 {
        a36[i] = a[i];
        i += 1;
    }
    let r: [u64; 36] = any();
    P2_FROM_AFFINE.rec([a36], r, false);
    let mut i = 0;
    while i < 6 {
        (*out).x.fp[0].l[i] = r[i];
        (*out).x.fp[1].l[i] = r[6 + i];
        (*out).y.fp[0].l[i] = r[12 + i];
        (*out).y.fp[1].l[i] = r[18 + i];
        (*out).z.fp[0].l[i] = r[24 + i];
        (*out).z.fp[1].l[i] = r[30 + i];
        i += 1;
    }
}
pub unsafe fn stub_p2_on_curve(p: *const blst_p2) -> bool {
    let ans: bool = any();
    P2_ON_CURVE.rec([p2_limbs(&*p)], [0; 36], ans);
    ans
}
pub unsafe fn stub_p2_is_inf(p: *const blst_p2) -> bool {
    let ans: bool = any();
    P2_IS_INF.rec([p2_limbs(&*p)], [0; 36], ans);
    ans
}

// Fp2 arithmetic (G2 coordinate helpers): operands as 12 limbs (c0, c1)
pub fn fp2_limbs(a: &blst_fp2) -> [u64; 12] {
    let mut o = [0u64; 12];
    let mut i = 0;
    while i < 6 {
        o[i] = a.fp[0].l[i];
        o[6 + i] = a.fp[1].l[i];
        i += 1;
    }
    o
}
unsafe fn write_fp2(out: *mut blst_fp2, l: &[u64; 12]) {
    let mut i = 0;
    while i < 6 {
        (*out).fp[0].l[i] = l[i];
        (*out).fp[1].l[i] = l[6 + i];
        i += 1;
    }
}
pub static mut FP2_MUL: Log<12, 2, 6> = Log::new();
pub static mut FP2_SQR: Log<12, 1, 4> = Log::new();
pub static mut FP2_INV: Log<12, 1, 2> = Log::new();
pub unsafe fn stub_fp2_mul(ret: *mut blst_fp2, a: *const blst_fp2, b: *const blst_fp2) {
    let (x, y) = (fp2_limbs(&*a), fp2_limbs(&*b));
    let out: [u64; 12] = any();
    FP2_MUL.rec([x, y], out, false);
    write_fp2(ret, &out);
}
pub unsafe fn stub_fp2_sqr(ret: *mut blst_fp2, a: *const blst_fp2) {
    let x = fp2_limbs(&*a);
    let out: [u64; 12] = any();
    FP2_SQR.rec([x], out, false);
    write_fp2(ret, &out);
}
pub unsafe fn stub_fp2_eucl_inverse(ret: *mut blst_fp2, a: *const blst_fp2) {
    let x = fp2_limbs(&*a);
    let out: [u64; 12] = any();
    FP2_INV.rec([x], out, false);
    write_fp2(ret, &out);
}

/// Reset every ghost log (the native replay binary runs one harness per process, Kani starts every
/// harness from the static initialisers; this exists for completeness).
pub unsafe fn reset() {
    FR_CHECK = BLog::new();
    FR_FROM_U64 = Log::new();
    U64_FROM_FR = Log::new();
}
