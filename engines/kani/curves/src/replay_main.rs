//! shared body of the native replay binaries (see replay.rs for the protocol)
pub fn main() {
    use vk_curves::{registry, vk};
    let args: Vec<String> = std::env::args().collect();
    if args.len() >= 2 && args[1] == "--list" {
        for n in registry::ALL {
            println!("{n}");
        }
        return;
    }
    if args.len() >= 3 && args[1] == "--witness" {
        std::process::exit(vk_curves::witness::run(&args[2]));
    }
    if args.len() >= 3 && args[1] == "--scenario" {
        // level-2 scenarios on the real curves (replay_real only: they need the real blst)
        std::process::exit(match args[2].as_str() {
            "msm-short-scalars" => vk_curves::c12::level2::scenario_short_scalars(),
            "decode-offsubgroup" => vk_curves::witness::decode_offsubgroup(args.get(3).map(|s| s.as_str()).unwrap_or("g1p")),
            other => {
                println!("unknown scenario {other}");
                4
            }
        });
    }
    if args.len() < 2 {
        eprintln!("usage: replay <harness> <hex,hex,...> | --list");
        std::process::exit(2);
    }
    let Some(f) = registry::lookup(&args[1]) else {
        println!("unknown harness {}", args[1]);
        std::process::exit(4);
    };
    let mut vals: Vec<Vec<u8>> = Vec::new();
    if args.len() >= 3 && !args[2].is_empty() {
        for h in args[2].split(',') {
            let h = h.trim();
            let mut v = Vec::new();
            let b = h.as_bytes();
            let mut i = 0;
            while i + 1 < b.len() {
                v.push(u8::from_str_radix(&h[i..i + 2], 16).expect("hex"));
                i += 2;
            }
            vals.push(v);
        }
    }
    let n = vals.len();
    vk::load_queue(vals);
    std::panic::set_hook(Box::new(|info| {
        if info.payload().downcast_ref::<vk::AssumeViolated>().is_none() {
            println!("panic: {info}");
        }
    }));
    let r = std::panic::catch_unwind(f);
    let (st, left) = vk::state();
    println!("values={n} unused={left} exhausted={} desync={} covers_hit={}", st.exhausted, st.desync, st.covers_hit);
    match r {
        Ok(()) => {
            println!("COMPLETED without assertion failure: {}", args[1]);
            std::process::exit(0)
        }
        Err(e) => {
            if e.downcast_ref::<vk::AssumeViolated>().is_some() || st.assume_failed {
                println!("ASSUMPTION VIOLATED (counterexample values do not drive the native run)");
                std::process::exit(3)
            }
            println!("REPRODUCED: harness {} fails natively on the solver's values", args[1]);
            std::process::exit(1)
        }
    }
}
