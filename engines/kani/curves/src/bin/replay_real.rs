//! Same as `replay`, but WITHOUT the interposed blst symbols: the harness body runs against the real blst.
//! Only meaningful for harnesses whose assertion does not read the ghost oracle logs
//! (c11::g1p_jacobian_coordinates_is_representation, c11::g2p_jacobian_coordinates_is_representation):
//! the values the solver chose for the harness inputs come first in the queue; the values it chose for
//! oracle answers are simply not consumed.
#[cfg(kani)]
fn main() {}

#[cfg(not(kani))]
#[path = "../replay_main.rs"]
mod replay_main;

#[cfg(not(kani))]
fn main() {
    replay_main::main()
}
