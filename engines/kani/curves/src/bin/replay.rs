//! Native replay of a Kani counterexample: `replay <harness> <hex,hex,...>` (see vf/kani.py, protocol).
//! exit 1 = an assertion of the harness (or a panic of the code under test) fired = reproduced,
//! 0 = completed, 3 = assumption violated / values desynchronised, 4 = unknown harness.
#[cfg(kani)]
fn main() {}

#[cfg(not(kani))]
#[path = "../interpose.rs"]
mod interpose;

#[cfg(not(kani))]
#[path = "../replay_main.rs"]
mod replay_main;

#[cfg(not(kani))]
fn main() {
    replay_main::main()
}
